-- root of the library: model, executable instances, real-number helpers, property theorems, audits
import HmcVerif.Model.Integrator
import HmcVerif.Model.Dist
import HmcVerif.Exec.Vec
import HmcVerif.Exec.Proto
import HmcVerif.Exec.Targets
import HmcVerif.Exec.C01
import HmcVerif.Real.Split
import HmcVerif.Real.Lit
import HmcVerif.Real.Reflect
import HmcVerif.Real.Volume
import HmcVerif.Props.C01
import HmcVerif.Audit.C01
import HmcVerif.Model.Metropolis
import HmcVerif.Exec.C02
import HmcVerif.Real.Ext
import HmcVerif.Props.C02
import HmcVerif.Audit.C02
