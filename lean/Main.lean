import HmcVerif.Exec.C01
import HmcVerif.Exec.C02
import HmcVerif.Exec.C03
import HmcVerif.Exec.C04
import HmcVerif.Exec.C05
import HmcVerif.Exec.C06
import HmcVerif.Exec.C08
import HmcVerif.Exec.C10
import HmcVerif.Exec.C11
import HmcVerif.Exec.C12
import HmcVerif.Exec.C15
import HmcVerif.Exec.C17
import HmcVerif.Exec.C18
import HmcVerif.Exec.C19
open HmcVerif

def dispatch (cmd : String) : Option (P String) :=
  match cmd with
  | "c01.sched" => some C01.sched
  | "c01.state" => some C01.state
  | "c01.reflect" => some C01.reflect
  | "c02.rwmh" => some C02.rwmh
  | "c02.hmc" => some C02.hmc
  | "c02.accept" => some C02.acc
  | "c02.autotune" => some C02.autotune
  | "c03.mass" => some C03.mass
  | "c03.bfgs" => some C03.bfgs
  | "c04.hmc" => some C04.hmc
  | "c04.rwmh" => some C04.rwmh
  | "c05.eval" => some C05.eval
  | "c05.correct" => some C05.correct
  | "c14.generate" => some C05.generate
  | "c14.norm" => some C05.norm
  | "c06.misfit" => some C06.misfit
  | "c06.update" => some C06.update
  | "c08.fault" => some C08.fault
  | "c08.timeout" => some C08.timeout
  | "c08.limiter" => some C08.limiter
  | "c10.store" => some C10.store
  | "c10.read" => some C10.read
  | "c10.combine" => some C10.comb
  | "c11.run" => some C11.run
  | "c11.runat" => some C11.runat
  | "c11.writer" => some C11.writer
  | "c12.exchange" => some C12.exchange
  | "c12.events" => some C12.events
  | "c20.route" => some C12.route
  | "c15.eval" => some C15.eval
  | "c16.tunerun" => some C02.tunerun
  | "c16.lrok" => some C02.lrok
  | "c17.eval" => some C17.eval
  | "c17.orient" => some C17.orient
  | "c18.trace" => some C18.trace
  | "c19.gd" => some C19.gd
  | _ => none

def answer (line : String) : String :=
  match tokens line with
  | [] => "bad-op"
  | cmd :: args =>
    match dispatch cmd with
    | none => "bad-op"
    | some p =>
      match p.run args with
      | some (out, _) => "ok " ++ out
      | none => "bad-op"

partial def loop (h : IO.FS.Stream) (out : IO.FS.Stream) : IO Unit := do
  let line ← h.getLine
  if line.isEmpty then return ()
  out.putStrLn (answer line)
  loop h out

def main : IO Unit := do
  let out ← IO.getStdout
  loop (← IO.getStdin) out
  out.flush
