import HmcVerif.Model.Metropolis
import HmcVerif.Real.Ext
import Mathlib.Tactic.Linarith
import Mathlib.Tactic.NormNum
/-
  C02 — accept/reject realises the Metropolis rule exactly (model: Model/Metropolis.lean).
-/
set_option linter.unusedSectionVars false
namespace HmcVerif
namespace C02

/-! ### the rule -/
section rule
variable {α : Type} [Sub α] [LT α] [DecidableLT α]

/-- accepted exactly when `u < exp(E_current − E_proposed)` -/
theorem accept_iff_rule (exp : α → α) (u eCur eProp : α) :
    accept exp u eCur eProp = true ↔ u < exp (eCur - eProp) := by
  simp [accept]

variable {V : Type}

/-- after acceptance the chain state and the misfit carried with it are the proposal's, and the
    counter is incremented -/
theorem accept_updates_state (exp : α → α) (s : Chain V α) (prop : V) (propX u eCur eProp : α)
    (h : u < exp (eCur - eProp)) :
    metropolis exp s prop propX u eCur eProp = { model := prop, x := propX, accepted := s.accepted + 1 } := by
  simp [metropolis, accept, h]

/-- after rejection both are unchanged (and so is the counter) -/
theorem reject_keeps_state (exp : α → α) (s : Chain V α) (prop : V) (propX u eCur eProp : α)
    (h : ¬ u < exp (eCur - eProp)) :
    metropolis exp s prop propX u eCur eProp = s := by
  simp [metropolis, accept, h]
end rule

/-! ### NaN and +inf energies are never accepted (IEEE semantics, `Ext`) -/

theorem nan_or_posinf_never_accepted (u : ℝ) (hu : 0 ≤ u) (eCur eProp : Ext)
    (h : eProp = Ext.nan ∨ eProp = Ext.pinf) :
    accept Ext.exp (Ext.fin u) eCur eProp = false := by
  have key : ¬ (Ext.fin u < Ext.exp (eCur - eProp)) := by
    rcases h with rfl | rfl
    · cases eCur <;> exact fun h => h
    · cases eCur with
      | fin x =>
        show ¬ Ext.lt (Ext.fin u) (Ext.fin 0)
        intro h; exact absurd h (not_lt.mpr hu)
      | pinf => exact fun h => h
      | ninf =>
        show ¬ Ext.lt (Ext.fin u) (Ext.fin 0)
        intro h; exact absurd h (not_lt.mpr hu)
      | nan => exact fun h => h
  simp [accept, key]

/-- in particular the chain state is unchanged by such a proposal -/
theorem bad_energy_keeps_state {V : Type} (s : Chain V Ext) (prop : V) (propX : Ext) (u : ℝ) (hu : 0 ≤ u)
    (eCur eProp : Ext) (h : eProp = Ext.nan ∨ eProp = Ext.pinf) :
    metropolis Ext.exp s prop propX (Ext.fin u) eCur eProp = s := by
  have := nan_or_posinf_never_accepted u hu eCur eProp h
  simp [metropolis, this]

/-- an HMC proposal whose misfit is NaN or +inf has such a total energy whenever the kinetic
    energy is not −inf (it is a non-negative quadratic form, NaN or +inf) -/
theorem hmc_bad_misfit_bad_energy (px pk : Ext) (h : px = Ext.nan ∨ px = Ext.pinf) (hk : pk ≠ Ext.ninf) :
    px + pk = Ext.nan ∨ px + pk = Ext.pinf := by
  rcases h with rfl | rfl
  · left; cases pk <;> rfl
  · cases pk with
    | fin x => right; rfl
    | pinf => right; rfl
    | ninf => exact absurd rfl hk
    | nan => left; rfl

section hist
variable {V α : Type} [Sub α] [LT α] [DecidableLT α] [Add V]

/-- the RWMH increment is a function of the draw and the step size only -/
theorem rwmh_proposal_independent {W : Type} [AddCommGroup W] (scale : W → W) (cur cur' z : W) :
    rwmhPropose scale cur z - cur = rwmhPropose scale cur' z - cur' := by
  simp [rwmhPropose]

private theorem rwmhStep_x (exp : α → α) (misfit : V → α) (scale : V → V) (s : Chain V α) (z : V) (u : α)
    (h : s.x = misfit s.model) :
    (rwmhStep exp misfit scale s z u).x = misfit (rwmhStep exp misfit scale s z u).model := by
  unfold rwmhStep metropolis
  simp only
  split <;> simp [h]

/-- every reachable RWMH state carries its own misfit -/
theorem rwmh_carried_misfit_is_own (exp : α → α) (misfit : V → α) (scale : V → V) (s : Chain V α)
    (h : s.x = misfit s.model) (draws : List (V × α)) :
    (rwmhRun exp misfit scale s draws).x = misfit (rwmhRun exp misfit scale s draws).model := by
  induction draws generalizing s with
  | nil => exact h
  | cons d ds ih =>
    simp only [rwmhRun, List.foldl_cons]
    exact ih _ (rwmhStep_x exp misfit scale s d.1 d.2 h)

/-- the reported number of accepted proposals equals the number of accepting transitions -/
theorem rwmh_accepted_count (exp : α → α) (misfit : V → α) (scale : V → V) (s : Chain V α)
    (draws : List (V × α)) :
    (rwmhRun exp misfit scale s draws).accepted
      = s.accepted + rwmhAcceptCount exp misfit scale s draws := by
  induction draws generalizing s with
  | nil => simp [rwmhRun, rwmhAcceptCount]
  | cons d ds ih =>
    simp only [rwmhRun, List.foldl_cons, rwmhAcceptCount]
    have := ih (rwmhStep exp misfit scale s d.1 d.2)
    simp only [rwmhRun] at this
    rw [this]
    have hs : (rwmhStep exp misfit scale s d.1 d.2).accepted
        = s.accepted + (if rwmhAccepts exp misfit scale s d.1 d.2 then 1 else 0) := by
      unfold rwmhStep metropolis rwmhAccepts
      simp only
      split <;> simp_all
    omega

variable [Add α]

private theorem hmcTransition_x (exp : α → α) (misfit : V → α) (kin : V → α) (propose : V × V → V × V)
    (s : Chain V α) (p0 : V) (u : α) :
    (hmcTransition exp misfit kin propose s p0 u).x
      = misfit (hmcTransition exp misfit kin propose s p0 u).model := by
  unfold hmcTransition hmcStep metropolis
  simp only
  split <;> simp

/-- every HMC state after at least one transition carries its own misfit (the code re-evaluates
    the current misfit at every transition, so no hypothesis on the initial `x` is needed) -/
theorem hmc_carried_misfit_is_own (exp : α → α) (misfit : V → α) (kin : V → α) (propose : V × V → V × V)
    (s : Chain V α) (h : s.x = misfit s.model) (draws : List (V × α)) :
    (hmcRun exp misfit kin propose s draws).x = misfit (hmcRun exp misfit kin propose s draws).model := by
  induction draws generalizing s with
  | nil => exact h
  | cons d ds ih =>
    simp only [hmcRun, List.foldl_cons]
    exact ih _ (hmcTransition_x exp misfit kin propose s d.1 d.2)

theorem hmc_accepted_count (exp : α → α) (misfit : V → α) (kin : V → α) (propose : V × V → V × V)
    (s : Chain V α) (draws : List (V × α)) :
    (hmcRun exp misfit kin propose s draws).accepted
      = s.accepted + hmcAcceptCount exp misfit kin propose s draws := by
  induction draws generalizing s with
  | nil => simp [hmcRun, hmcAcceptCount]
  | cons d ds ih =>
    simp only [hmcRun, List.foldl_cons, hmcAcceptCount]
    have := ih (hmcTransition exp misfit kin propose s d.1 d.2)
    simp only [hmcRun] at this
    rw [this]
    have hs : (hmcTransition exp misfit kin propose s d.1 d.2).accepted
        = s.accepted + (if hmcAccepts exp misfit kin propose s d.1 d.2 then 1 else 0) := by
      unfold hmcTransition hmcStep metropolis hmcAccepts
      simp only
      split <;> simp_all
    omega
end hist

/-! ### non-vacuity -/
example : accept Real.exp (0.5 : ℝ) 0 0 = true := by
  simp [accept]; norm_num
example : accept Ext.exp (Ext.fin 0.5) (Ext.fin 1) Ext.nan = false :=
  nan_or_posinf_never_accepted 0.5 (by norm_num) _ _ (Or.inl rfl)

end C02
end HmcVerif
