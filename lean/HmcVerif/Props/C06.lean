import HmcVerif.Model.Bounds
import HmcVerif.Model.Metropolis
import HmcVerif.Real.Ext
import HmcVerif.Real.Reflect
import HmcVerif.Real.Fold
import HmcVerif.Real.BoxTreeThm
import HmcVerif.Props.C02
import Mathlib.Tactic.Linarith
/-
  C06 — bounded targets: zero probability outside, chains never leave the box
  (models: Model/Bounds.lean, Model/Integrator.lean (reflect1), Model/Metropolis.lean).
-/
set_option linter.unusedSectionVars false
namespace HmcVerif
namespace C06

/-- the bounded misfit on the IEEE-like scalars: `misfit_bounds(x) + base(x)` -/
noncomputable def bmisfit (outside : Bool) (base : Ext) : Ext :=
  boundedMisfit Ext.pinf (Ext.fin 0) outside base

/-- outside the box the misfit is +inf — or NaN when the unbounded misfit itself is −inf/NaN there;
    in every case it is a value the Metropolis test never accepts -/
theorem misfit_outside (base : Ext) : bmisfit true base = Ext.pinf ∨ bmisfit true base = Ext.nan := by
  cases base <;> simp [bmisfit, boundedMisfit] <;> first | (left; rfl) | (right; rfl)

/-- … and exactly +inf wherever the unbounded misfit is finite or +inf -/
theorem misfit_inf_outside (base : Ext) (h : base ≠ Ext.nan ∧ base ≠ Ext.ninf) :
    bmisfit true base = Ext.pinf := by
  cases base with
  | fin x => rfl
  | pinf => rfl
  | ninf => exact absurd rfl h.2
  | nan => exact absurd rfl h.1

/-- inside the box it equals the unbounded misfit -/
theorem misfit_eq_unbounded_inside (base : Ext) : bmisfit false base = base := by
  cases base with
  | fin x => show Ext.fin (0 + x) = Ext.fin x; rw [zero_add]
  | pinf => rfl
  | ninf => rfl
  | nan => rfl

/-- a NaN coordinate counts as outside every bound -/
theorem nan_coordinate_outside (lb ub : Option Ext) (h : lb ≠ none ∨ ub ≠ none) :
    Dist.outside1 lb ub Ext.nan = true := by
  have hl : ∀ l : Ext, ¬ (l ≤ Ext.nan) := by
    intro l h
    rcases h with h | h
    · cases l <;> exact h
    · exact h.2 (by rw [h.1])
  have hu : ∀ u : Ext, ¬ (Ext.nan ≤ u) := by
    intro u h
    rcases h with h | h
    · exact h
    · exact h.2 rfl
  cases lb with
  | some l => simp [Dist.outside1, hl l]
  | none =>
    cases ub with
    | some u => simp [Dist.outside1, hu u]
    | none => simp at h

/-- over the reals: outside ⇔ some bound is violated -/
theorem outside1_iff (lb ub : Option ℝ) (x : ℝ) :
    Dist.outside1 lb ub x = true ↔ (∃ l, lb = some l ∧ x < l) ∨ (∃ u, ub = some u ∧ u < x) := by
  cases lb <;> cases ub <;> simp [Dist.outside1]

/-! ### update_bounds is atomic -/

/-- a rejected bounds update leaves the previous bounds in force — for every argument class -/
theorem updateBounds_atomic {V : Type} (clash : V → V → Bool) (old : Option V × Option V) (lo up : BoundArg V)
    (e : BoundsError) (h : (updateBounds clash old lo up).2 = some e) :
    (updateBounds clash old lo up).1 = old := by
  cases lo <;> cases up <;> simp [updateBounds] at h ⊢
  split at h <;> simp_all

/-- an accepted update installs exactly the requested bounds -/
theorem updateBounds_commit {V : Type} (clash : V → V → Bool) (old : Option V × Option V) (lo up : BoundArg V)
    (h : (updateBounds clash old lo up).2 = none) :
    (updateBounds clash old lo up).1 = (lo.value?, up.value?) := by
  cases lo <;> cases up <;> simp [updateBounds, BoundArg.value?] at h ⊢
  split at h <;> simp_all

/-! ### the corrector: mirror the violating coordinate, negate exactly the matching momentum -/

/-- below the lower bound (mirror image not above the upper one): mirrored and negated -/
theorem reflect_mirrors_low (l : ℝ) (ub : Option ℝ) (x p : ℝ) (h : x < l)
    (hu : ∀ u, ub = some u → 2 * l - x ≤ u) :
    correctorR (some l) ub x p = (2 * l - x, -p) := by
  have e := reflect1_low l ub x p h hu
  rw [correctorR_eq_reflect1 _ _ _ _ (by rw [e]; exact ⟨fun l' hl' => by cases hl'; simp only; linarith, fun u hu' => hu u hu'⟩), e]

theorem reflect_mirrors_high (lb : Option ℝ) (u : ℝ) (x p : ℝ) (h : u < x) (hl : ∀ l, lb = some l → l ≤ 2 * u - x) :
    correctorR lb (some u) x p = (2 * u - x, -p) := by
  by_cases hx : ∀ l, lb = some l → l ≤ x
  · have e := reflect1_high lb u x p h hx
    rw [correctorR_eq_reflect1 _ _ _ _ (by rw [e]; exact ⟨fun l hl' => hl l hl', fun u' hu' => by cases hu'; simp only; linarith⟩), e]
  · -- x is above the upper bound and below the lower one: an empty box, excluded by the mirror-image hypothesis
    push Not at hx
    obtain ⟨l, hl', hlx⟩ := hx
    have := hl l hl'
    linarith

/-- a coordinate inside its bounds is untouched, and so is its momentum -/
theorem reflect_untouched_inside (lb ub : Option ℝ) (x p : ℝ) (h : inBox1 lb ub x) :
    correctorR lb ub x p = (x, p) := by
  have e := reflect1_inside lb ub x p h
  rw [correctorR_eq_reflect1 _ _ _ _ (by rw [e]; exact h), e]

/-- the momentum is only ever negated: kinetic energy of unit/diagonal metrics is conserved -/
theorem reflect_conserves_kinetic1 (lb ub : Option ℝ) (x p w : ℝ) :
    w * (correctorR lb ub x p).2 ^ 2 = w * p ^ 2 := by rw [correctorR_momentum_sq]

/-- whatever the overshoot, the corrected coordinate of a two-sided box lies in the box -/
theorem corrector_lands_in_box (l u x p : ℝ) (hlu : l < u) :
    l ≤ (correctorR (some l) (some u) x p).1 ∧ (correctorR (some l) (some u) x p).1 ≤ u :=
  correctorR_in_box l u x p hlu

/-! ### every chain started inside stays inside, with a misfit that is not +inf/NaN -/

section chain
variable {V : Type} [Add V]

/-- a state is *good*: its carried misfit is its own and is neither NaN nor +inf -/
def Good (misfit : V → Ext) (s : Chain V Ext) : Prop :=
  s.x = misfit s.model ∧ s.x ≠ Ext.nan ∧ s.x ≠ Ext.pinf

/-- uniform draws are real numbers in [0, 1) -/
def UniformDraws (draws : List (V × Ext)) : Prop := ∀ d ∈ draws, ∃ u : ℝ, 0 ≤ u ∧ d.2 = Ext.fin u

private theorem rwmh_step_good (misfit : V → Ext) (scale : V → V) (s : Chain V Ext) (z : V) (u : ℝ) (hu : 0 ≤ u)
    (h : Good misfit s) : Good misfit (rwmhStep Ext.exp misfit scale s z (Ext.fin u)) := by
  unfold rwmhStep
  simp only
  by_cases hbad : misfit (rwmhPropose scale s.model z) = Ext.nan ∨ misfit (rwmhPropose scale s.model z) = Ext.pinf
  · rw [C02.bad_energy_keeps_state s _ _ u hu _ _ hbad]; exact h
  · push Not at hbad
    unfold metropolis
    split
    · exact ⟨rfl, hbad.1, hbad.2⟩
    · exact h

/-- **every RWMH history**: all reachable states are good -/
theorem rwmh_chain_good (misfit : V → Ext) (scale : V → V) (s : Chain V Ext) (h : Good misfit s)
    (draws : List (V × Ext)) (hd : UniformDraws draws) :
    Good misfit (rwmhRun Ext.exp misfit scale s draws) := by
  induction draws generalizing s with
  | nil => exact h
  | cons d ds ih =>
    simp only [rwmhRun, List.foldl_cons]
    obtain ⟨u, hu, hdu⟩ := hd d (List.mem_cons_self)
    have := rwmh_step_good misfit scale s d.1 u hu h
    rw [← hdu] at this
    exact ih _ this (fun d' hd' => hd d' (List.mem_cons_of_mem _ hd'))

/-- hence every stored RWMH sample lies inside the bounds — for every box, step size and target:
    `misfit = bounded misfit` and `outside ⇒ +inf/NaN` -/
theorem rwmh_chain_stays_in_box (outside : V → Bool) (base : V → Ext) (scale : V → V) (s : Chain V Ext)
    (h : Good (fun x => bmisfit (outside x) (base x)) s)
    (draws : List (V × Ext)) (hd : UniformDraws draws) :
    let s' := rwmhRun Ext.exp (fun x => bmisfit (outside x) (base x)) scale s draws
    outside s'.model = false ∧ s'.x ≠ Ext.nan ∧ s'.x ≠ Ext.pinf := by
  intro s'
  have hg := rwmh_chain_good (fun x => bmisfit (outside x) (base x)) scale s h draws hd
  refine ⟨?_, hg.2.1, hg.2.2⟩
  by_contra hout
  have ho : outside s'.model = true := by simpa using hout
  have hx : s'.x = bmisfit true (base s'.model) := by
    have := hg.1
    simp only at this
    rw [this]
    show bmisfit (outside s'.model) (base s'.model) = _
    rw [ho]
  rcases misfit_outside (base s'.model) with h1 | h1
  · exact hg.2.2 (by rw [hx, h1])
  · exact hg.2.1 (by rw [hx, h1])

private theorem hmc_transition_good (misfit : V → Ext) (kin : V → Ext) (hk : ∀ p, kin p ≠ Ext.ninf)
    (propose : V × V → V × V) (s : Chain V Ext) (p0 : V) (u : ℝ) (hu : 0 ≤ u) (h : Good misfit s) :
    Good misfit (hmcTransition Ext.exp misfit kin propose s p0 (Ext.fin u)) := by
  unfold hmcTransition hmcStep
  simp only
  have hs : Good misfit { s with x := misfit s.model } := ⟨rfl, h.1 ▸ h.2.1, h.1 ▸ h.2.2⟩
  by_cases hbad : misfit (propose (s.model, p0)).1 = Ext.nan ∨ misfit (propose (s.model, p0)).1 = Ext.pinf
  · have hE := C02.hmc_bad_misfit_bad_energy _ (kin (propose (s.model, p0)).2) hbad (hk _)
    rw [C02.bad_energy_keeps_state _ _ _ u hu _ _ hE]
    exact hs
  · push Not at hbad
    unfold metropolis
    split
    · exact ⟨rfl, hbad.1, hbad.2⟩
    · exact hs

/-- **every HMC history** — every integrator (any trajectory map `propose`), every mass matrix
    (any kinetic energy that is not −inf), every step size -/
theorem hmc_chain_good (misfit : V → Ext) (kin : V → Ext) (hk : ∀ p, kin p ≠ Ext.ninf)
    (propose : V × V → V × V) (s : Chain V Ext) (h : Good misfit s)
    (draws : List (V × Ext)) (hd : UniformDraws draws) :
    Good misfit (hmcRun Ext.exp misfit kin propose s draws) := by
  induction draws generalizing s with
  | nil => exact h
  | cons d ds ih =>
    simp only [hmcRun, List.foldl_cons]
    obtain ⟨u, hu, hdu⟩ := hd d (List.mem_cons_self)
    have := hmc_transition_good misfit kin hk propose s d.1 u hu h
    rw [← hdu] at this
    exact ih _ this (fun d' hd' => hd d' (List.mem_cons_of_mem _ hd'))

theorem hmc_chain_stays_in_box (outside : V → Bool) (base : V → Ext) (kin : V → Ext) (hk : ∀ p, kin p ≠ Ext.ninf)
    (propose : V × V → V × V) (s : Chain V Ext)
    (h : Good (fun x => bmisfit (outside x) (base x)) s)
    (draws : List (V × Ext)) (hd : UniformDraws draws) :
    let s' := hmcRun Ext.exp (fun x => bmisfit (outside x) (base x)) kin propose s draws
    outside s'.model = false ∧ s'.x ≠ Ext.nan ∧ s'.x ≠ Ext.pinf := by
  intro s'
  have hg := hmc_chain_good (fun x => bmisfit (outside x) (base x)) kin hk propose s h draws hd
  refine ⟨?_, hg.2.1, hg.2.2⟩
  by_contra hout
  have ho : outside s'.model = true := by simpa using hout
  have hx : s'.x = bmisfit true (base s'.model) := by
    have := hg.1
    simp only at this
    rw [this]
    show bmisfit (outside s'.model) (base s'.model) = _
    rw [ho]
  rcases misfit_outside (base s'.model) with h1 | h1
  · exact hg.2.2 (by rw [hx, h1])
  · exact hg.2.1 (by rw [hx, h1])
end chain

/-! ### non-vacuity -/
example : Good (fun _ : ℝ => Ext.fin 1) ⟨0, Ext.fin 1, 0⟩ := ⟨rfl, by simp, by simp⟩
example : UniformDraws [((0 : ℝ), Ext.fin 0.3)] := by
  intro d hd; simp at hd; subst hd; exact ⟨0.3, by norm_num, rfl⟩

end C06
end HmcVerif
