import HmcVerif.Model.Metropolis
import HmcVerif.Real.Ext
import HmcVerif.Real.Lit
import Mathlib.Tactic.Linarith
import Mathlib.Tactic.NormNum
import Mathlib.Analysis.SpecialFunctions.Pow.Real
import Mathlib.Tactic.Positivity
/-
  C16 — step-size autotuning stays positive, diminishing and correctly directed.
-/
set_option linter.unusedSectionVars false
namespace HmcVerif
namespace C16

/-- the Robbins–Monro weight of proposal `i` -/
noncomputable def weight (κ : ℝ) (i : Nat) : ℝ := ((i : ℝ) + 1) ^ (-κ)

private theorem lit_zero : (0.0 : ℝ) = 0 := by norm_num

/-! ### the formula -/

/-- after proposal `i` the step changes by `(i+1)^(-κ) · (min(rate,1) − target)` unless that would
    make it non-positive, in which case it is clamped to the minimal positive step -/
theorem autotune_formula (w target minStep m step : ℝ) (hmin : 0 < minStep) :
    autotuneCore w target minStep m step
      = if 0 < step + w * (m - target) then step + w * (m - target) else minStep := by
  unfold autotuneCore
  simp only [lit_zero]
  have e : step - w * (target - m) = step + w * (m - target) := by ring
  rw [e]
  by_cases h : 0 < step + w * (m - target)
  · rw [if_neg (not_le.mpr h), if_pos h]
  · rw [if_pos (not_lt.mp h), if_neg h, if_pos (lt_of_le_of_lt (not_lt.mp h) hmin)]

/-! ### NaN counts as 0, rates above one as 1: the clamped rate lies in [0,1] -/


theorem clampRate_nan : clampRate Ext.isNaN Ext.nan = Ext.fin 0 := by
  have h : ¬ ((1.0 : Ext) < (0.0 : Ext)) := by
    show ¬ Ext.lt (Ext.fin (1.0:ℝ)) (Ext.fin (0.0:ℝ))
    show ¬ ((1.0:ℝ) < (0.0:ℝ))
    norm_num
  simp only [clampRate, Ext.isNaN, if_true]
  rw [if_neg h]
  show Ext.fin (0.0 : ℝ) = Ext.fin 0
  rw [lit_zero]

theorem clampRate_pinf : clampRate Ext.isNaN Ext.pinf = Ext.fin 1 := by
  have h : ((1.0 : Ext) < Ext.pinf) := by
    show Ext.lt (Ext.fin (1.0:ℝ)) Ext.pinf
    trivial
  unfold clampRate
  simp only [Ext.isNaN, Bool.false_eq_true, if_false]
  rw [if_pos h]
  show Ext.fin (1.0 : ℝ) = Ext.fin 1
  rw [lit_one]

theorem clampRate_fin (x : ℝ) : clampRate Ext.isNaN (Ext.fin x) = Ext.fin (min x 1) := by
  unfold clampRate
  simp only [Ext.isNaN, Bool.false_eq_true, if_false]
  by_cases h : (1:ℝ) < x
  · have : (1.0 : Ext) < Ext.fin x := by
      show (1.0:ℝ) < x
      rw [lit_one]; exact h
    rw [if_pos this, min_eq_right (le_of_lt h)]
    show Ext.fin (1.0 : ℝ) = Ext.fin 1
    rw [lit_one]
  · have : ¬ ((1.0 : Ext) < Ext.fin x) := by
      show ¬ ((1.0:ℝ) < x)
      rw [lit_one]; exact h
    rw [if_neg this, min_eq_left (not_lt.mp h)]

/-- every acceptance probability in `[0, ∞] ∪ {NaN}` is clamped to a real number in `[0,1]` -/
theorem clampRate_range (acc : Ext)
    (h : acc = Ext.nan ∨ acc = Ext.pinf ∨ ∃ x, 0 ≤ x ∧ acc = Ext.fin x) :
    ∃ m : ℝ, 0 ≤ m ∧ m ≤ 1 ∧ clampRate Ext.isNaN acc = Ext.fin m := by
  rcases h with rfl | rfl | ⟨x, hx, rfl⟩
  · exact ⟨0, le_refl _, zero_le_one, clampRate_nan⟩
  · exact ⟨1, zero_le_one, le_refl _, clampRate_pinf⟩
  · exact ⟨min x 1, le_min hx zero_le_one, min_le_right _ _, clampRate_fin x⟩

/-! ### positivity for every history -/

theorem autotuneCore_pos (w target minStep m step : ℝ) (hmin : 0 < minStep) :
    0 < autotuneCore w target minStep m step := by
  rw [autotune_formula _ _ _ _ _ hmin]
  split_ifs with h
  · exact h
  · exact hmin

/-- an update that lands exactly on zero is floored like a negative one: zero is not a positive step size -/
theorem update_landing_on_zero_is_floored (w target minStep m step : ℝ) (hmin : 0 < minStep)
    (h0 : step - w * (target - m) = 0) : autotuneCore w target minStep m step = minStep := by
  unfold autotuneCore
  simp only [h0]
  norm_num
  intro h
  linarith

/-- the step after any sequence of updates: for *every* history of clamped rates and weights -/
noncomputable def coreRun (target minStep : ℝ) : ℝ → List (ℝ × ℝ) → ℝ
  | s, [] => s
  | s, (w, m) :: rest => coreRun target minStep (autotuneCore w target minStep m s) rest

/-- the step size is positive (and, being a real number, finite) after every acceptance history -/
theorem stepsize_pos (target minStep step : ℝ) (hmin : 0 < minStep) (h0 : 0 < step)
    (hist : List (ℝ × ℝ)) : 0 < coreRun target minStep step hist := by
  induction hist generalizing step with
  | nil => exact h0
  | cons a rest ih => exact ih _ (autotuneCore_pos _ _ _ _ _ hmin)

/-! ### direction and diminishing increments -/

theorem grows_on_accept (w target minStep step : ℝ) (hmin : 0 < minStep) (hw : 0 < w)
    (ht : target < 1) (hs : 0 < step) :
    step < autotuneCore w target minStep 1 step := by
  rw [autotune_formula _ _ _ _ _ hmin]
  have : 0 < w * (1 - target) := mul_pos hw (by linarith)
  rw [if_pos (by linarith)]
  linarith

theorem shrinks_on_reject (w target minStep step : ℝ) (hmin : 0 < minStep) (hw : 0 < w)
    (ht : 0 < target) (hs : minStep < step) :
    autotuneCore w target minStep 0 step < step := by
  rw [autotune_formula _ _ _ _ _ hmin]
  have : w * (0 - target) < 0 := by nlinarith
  split_ifs <;> linarith

/-- the size of the unclamped change is `weight · |m − target|` -/
theorem change_size (w target minStep m step : ℝ) (hmin : 0 < minStep)
    (h : 0 < step + w * (m - target)) :
    autotuneCore w target minStep m step - step = w * (m - target) := by
  rw [autotune_formula _ _ _ _ _ hmin, if_pos h]; ring

theorem weight_pos (κ : ℝ) (i : Nat) : 0 < weight κ i := by
  unfold weight
  apply Real.rpow_pos_of_pos
  positivity

/-- the weight decreases with the proposal index (κ > 0) -/
theorem increment_diminishes (κ : ℝ) (hκ : 0 < κ) (i j : Nat) (hij : i ≤ j) :
    weight κ j ≤ weight κ i := by
  unfold weight
  apply Real.rpow_le_rpow_of_nonpos
  · positivity
  · have : (i:ℝ) ≤ j := by exact_mod_cast hij
    linarith
  · linarith

/-! ### the recorded histories -/

section hist
variable {α : Type} [Sub α] [Mul α] [LT α] [DecidableLT α] [LE α] [DecidableLE α] [OfScientific α]

private theorem tuneRun_lengths (isNaN : α → Bool) (weight : Nat → α) (target minStep : α)
    (t : Tune α) (i : Nat) (accs : List α) :
    (tuneRun isNaN weight target minStep t i accs).steps.length = t.steps.length + accs.length ∧
    (tuneRun isNaN weight target minStep t i accs).rates.length = t.rates.length + accs.length := by
  induction accs generalizing t i with
  | nil => simp [tuneRun]
  | cons a rest ih =>
    simp only [tuneRun]
    have := ih (tuneStep isNaN weight target minStep t i a) (i + 1)
    simp only [tuneStep, List.length_append, List.length_cons, List.length_nil] at this ⊢
    omega

/-- the recorded histories cover exactly the completed proposals -/
theorem histories_cover_completed (isNaN : α → Bool) (weight : Nat → α) (target minStep step0 : α)
    (accs : List α) :
    (tuneRun isNaN weight target minStep ⟨step0, [], []⟩ 0 accs).steps.length = accs.length ∧
    (tuneRun isNaN weight target minStep ⟨step0, [], []⟩ 0 accs).rates.length = accs.length := by
  have := tuneRun_lengths isNaN weight target minStep ⟨step0, [], []⟩ 0 accs
  simpa using this

private theorem tuneRun_append (isNaN : α → Bool) (weight : Nat → α) (target minStep : α)
    (t : Tune α) (i : Nat) (a b : List α) :
    tuneRun isNaN weight target minStep t i (a ++ b)
      = tuneRun isNaN weight target minStep (tuneRun isNaN weight target minStep t i a) (i + a.length) b := by
  induction a generalizing t i with
  | nil => simp [tuneRun]
  | cons x xs ih =>
    simp only [List.cons_append, tuneRun, List.length_cons]
    rw [ih]
    congr 1
    omega

/-- the step size recorded for proposal `k` is the step in force after the first `k` proposals,
    i.e. the one that generated proposal `k`; the recorded rates are the observed ones -/
theorem recorded_step_generated_proposal (isNaN : α → Bool) (weight : Nat → α) (target minStep step0 : α)
    (pre : List α) (acc : α) (post : List α) :
    let run := tuneRun isNaN weight target minStep ⟨step0, [], []⟩ 0
    (run (pre ++ acc :: post)).steps[pre.length]?
        = some (run pre).step ∧
    (run (pre ++ acc :: post)).rates[pre.length]? = some acc := by
  intro run
  have hl := tuneRun_lengths isNaN weight target minStep ⟨step0, [], []⟩ 0 pre
  simp only [List.length_nil, Nat.zero_add] at hl
  -- histories only grow by appending
  have grow : ∀ (t : Tune α) (i : Nat) (l : List α),
      ∃ s r, (tuneRun isNaN weight target minStep t i l).steps = t.steps ++ s ∧
             (tuneRun isNaN weight target minStep t i l).rates = t.rates ++ r := by
    intro t i l
    induction l generalizing t i with
    | nil => exact ⟨[], [], by simp [tuneRun], by simp [tuneRun]⟩
    | cons x xs ih =>
      obtain ⟨s, r, hs, hr⟩ := ih (tuneStep isNaN weight target minStep t i x) (i + 1)
      refine ⟨[t.step] ++ s, [x] ++ r, ?_, ?_⟩
      · simp only [tuneRun]; rw [hs]; simp [tuneStep]
      · simp only [tuneRun]; rw [hr]; simp [tuneStep]
  have e : run (pre ++ acc :: post) = tuneRun isNaN weight target minStep
      (tuneStep isNaN weight target minStep (run pre) (0 + pre.length) acc) (0 + pre.length + 1) post := by
    show tuneRun isNaN weight target minStep ⟨step0, [], []⟩ 0 (pre ++ acc :: post) = _
    rw [tuneRun_append]; rfl
  obtain ⟨s, r, hs, hr⟩ := grow (tuneStep isNaN weight target minStep (run pre) (0 + pre.length) acc)
      (0 + pre.length + 1) post
  have hl1 : (run pre).steps.length = pre.length := hl.1
  have hl2 : (run pre).rates.length = pre.length := hl.2
  rw [e]
  constructor
  · rw [hs]
    simp only [tuneStep]
    rw [List.getElem?_append_left (by simp [hl1])]
    rw [List.getElem?_append_right (by simp [hl1])]
    simp [hl1]
  · rw [hr]
    simp only [tuneStep]
    rw [List.getElem?_append_left (by simp [hl2])]
    rw [List.getElem?_append_right (by simp [hl2])]
    simp [hl2]
end hist

/-! ### learning rates outside (0.5, 1] are refused -/
theorem learning_rate_ok_iff (lr : ℝ) : learningRateOk lr = true ↔ (1/2 < lr ∧ lr ≤ 1) := by
  simp [learningRateOk, lit_half, lit_one]

/-- a NaN learning rate is refused (IEEE comparisons with NaN are false) -/
theorem learning_rate_nan_refused : learningRateOk Ext.nan = false := by
  have : ¬ ((0.5 : Ext) < Ext.nan) := fun h => h
  simp [learningRateOk, this]

/-! ### non-vacuity -/
example : 0 < coreRun 0.65 1e-18 0.1 [(1, 0), (0.5, 0), (0.3, 1)] :=
  stepsize_pos _ _ _ (by norm_num) (by norm_num) _
example : learningRateOk (0.75 : ℝ) = true := by
  rw [learning_rate_ok_iff]; norm_num

end C16
end HmcVerif
