import HmcVerif.Model.RayTrace
import HmcVerif.Real.Lit
import Mathlib.Analysis.SpecialFunctions.Trigonometric.Inverse
import Mathlib.Analysis.SpecialFunctions.Sqrt
import Mathlib.Tactic.Ring
import Mathlib.Tactic.Linarith
import Mathlib.Tactic.FieldSimp
import Mathlib.Tactic.Positivity
/-
  C18 — the layered ray tracer obeys Snell's law and travel-time accounting
  (model: Model/RayTrace.lean with Mathlib's real sin / cos / arcsin / sqrt).
-/
set_option linter.unusedSectionVars false
namespace HmcVerif
namespace C18
open RayTrace

/-- the model over ℝ -/
noncomputable def traceR (bot vel : Nat → ℝ) (xr p : ℝ) :=
  traceFrom Real.sin Real.cos Real.arcsin Real.sqrt bot vel xr p

private theorem lit_zero : (0.0 : ℝ) = 0 := by norm_num

/-! ### every property of the segments of the result follows from an invariant of the accumulator -/

/-- if a predicate holds for the accumulated segments and for every segment the tracer creates, it
    holds for all segments of the result -/
private theorem segs_forall (P : Seg ℝ → Prop) (bot vel : Nat → ℝ) (xr p : ℝ)
    (hnew : ∀ (k : Nat) (x z x1 z1 len : ℝ), vel k * p < 1 →
      P { layer := k, x0 := x, z0 := z, x1 := x1, z1 := z1, theta := Real.arcsin (vel k * p), len := len, vel := vel k })
    (fuel k : Nat) (x z : ℝ) (acc : List (Seg ℝ)) (tt dist : ℝ) (hacc : ∀ s ∈ acc, P s) :
    ∀ s ∈ (traceR bot vel xr p fuel k x z acc tt dist).segs, P s := by
  induction fuel generalizing k x z acc tt dist with
  | zero => intro s hs; simp only [traceR, traceFrom, List.mem_reverse] at hs; exact hacc s hs
  | succ f ih =>
    intro s hs
    simp only [traceR, traceFrom, lit_one] at hs
    split_ifs at hs with h1 h2
    · simp only [List.mem_reverse] at hs; exact hacc s hs
    · simp only [List.mem_reverse, List.mem_cons] at hs
      rcases hs with rfl | hs
      · exact hnew k x z _ _ _ (not_le.mp h1)
      · exact hacc s hs
    · refine ih _ _ _ _ _ _ ?_ s hs
      intro t ht
      rcases List.mem_cons.mp ht with rfl | ht
      · exact hnew k x z _ _ _ (not_le.mp h1)
      · exact hacc t ht

/-- **Snell's law**: in every layer the ray crosses, `sin(angle)/velocity` equals the ray parameter
    `p = sin θ₀ / v₀` — for every number of layers, every layering, all velocities, every offset -/
theorem snell_invariant (n : Nat) (bot vel : Nat → ℝ) (xr theta0 : ℝ) (hv : ∀ k, 0 < vel k) (hθ : 0 ≤ Real.sin theta0) :
    ∀ s ∈ (trace Real.sin Real.cos Real.arcsin Real.sqrt n bot vel xr theta0).segs,
      Real.sin s.theta / s.vel = Real.sin theta0 / vel 0 ∧ s.vel = vel s.layer := by
  have hp : 0 ≤ Real.sin theta0 / vel 0 := div_nonneg hθ (hv 0).le
  have key := segs_forall (fun s => Real.sin s.theta / s.vel = Real.sin theta0 / vel 0 ∧ s.vel = vel s.layer)
    bot vel xr (Real.sin theta0 / vel 0) (by
      intro k x z x1 z1 len hlt
      simp only [and_true]
      have h0 : 0 ≤ vel k * (Real.sin theta0 / vel 0) := mul_nonneg (hv k).le hp
      rw [Real.sin_arcsin (by linarith) hlt.le]
      field_simp [(hv k).ne']) n 0 0 0 [] 0 0 (by simp)
  simpa [trace, traceR, lit_zero] using key

/-! ### the ray proceeds monotonically downward, towards the receiver line -/

private theorem monotone_from (bot vel : Nat → ℝ) (xr p : ℝ) (hv : ∀ k, 0 < vel k) (hp : 0 < p)
    (fuel k : Nat) (x z : ℝ) (acc : List (Seg ℝ)) (tt dist : ℝ)
    (hbot : ∀ j, z ≤ bot (k + j)) (hmono : ∀ j, bot j ≤ bot (j + 1)) (hx : x ≤ xr)
    (hacc : ∀ s ∈ acc, s.z0 ≤ s.z1 ∧ s.x0 ≤ s.x1 ∧ s.x1 ≤ xr) :
    ∀ s ∈ (traceR bot vel xr p fuel k x z acc tt dist).segs, s.z0 ≤ s.z1 ∧ s.x0 ≤ s.x1 ∧ s.x1 ≤ xr := by
  induction fuel generalizing k x z acc tt dist with
  | zero => intro s hs; simp only [traceR, traceFrom, List.mem_reverse] at hs; exact hacc s hs
  | succ f ih =>
    intro s hs
    simp only [traceR, traceFrom, lit_one] at hs
    have hb : z ≤ bot k := by simpa using hbot 0
    split_ifs at hs with h1 h2
    · simp only [List.mem_reverse] at hs; exact hacc s hs
    · -- clipped segment
      have ha0 : 0 < vel k * p := mul_pos (hv k) hp
      have ha1 : vel k * p < 1 := not_le.mp h1
      have hsin : 0 < Real.sin (Real.arcsin (vel k * p)) := by rw [Real.sin_arcsin (by linarith) ha1.le]; exact ha0
      have hcos : 0 < Real.cos (Real.arcsin (vel k * p)) := by
        rw [Real.cos_arcsin]; apply Real.sqrt_pos.mpr; nlinarith
      have hm := div_pos hcos hsin
      simp only [List.mem_reverse, List.mem_cons] at hs
      rcases hs with rfl | hs
      · refine ⟨?_, hx, le_refl _⟩
        simp only
        have : 0 ≤ Real.cos (Real.arcsin (vel k * p)) / Real.sin (Real.arcsin (vel k * p)) * (xr - x) :=
          mul_nonneg hm.le (by linarith)
        nlinarith
      · exact hacc s hs
    · have ha0 : 0 < vel k * p := mul_pos (hv k) hp
      have ha1 : vel k * p < 1 := not_le.mp h1
      have hsin : 0 < Real.sin (Real.arcsin (vel k * p)) := by rw [Real.sin_arcsin (by linarith) ha1.le]; exact ha0
      have hcos : 0 < Real.cos (Real.arcsin (vel k * p)) := by
        rw [Real.cos_arcsin]; apply Real.sqrt_pos.mpr; nlinarith
      have hm := div_pos hcos hsin
      have hxn : x ≤ (bot k + Real.cos (Real.arcsin (vel k * p)) / Real.sin (Real.arcsin (vel k * p)) * x - z)
          / (Real.cos (Real.arcsin (vel k * p)) / Real.sin (Real.arcsin (vel k * p))) := by
        rw [le_div_iff₀ hm]; nlinarith
      refine ih _ _ _ _ _ _ ?_ (le_of_not_gt h2) ?_ s hs
      · intro j
        have : ∀ i, bot k ≤ bot (k + i) := by
          intro i
          induction i with
          | zero => simp
          | succ i ihi => exact le_trans ihi (by simpa [Nat.add_assoc] using hmono (k + i))
        have := this (1 + j)
        simpa [Nat.add_assoc] using this
      · intro t ht
        rcases List.mem_cons.mp ht with rfl | ht
        · exact ⟨hb, hxn, le_of_not_gt h2⟩
        · exact hacc t ht

/-- every segment of every traced ray goes down (never up) and towards the receiver line, and the
    ray never overshoots it -/
theorem depth_monotone (n : Nat) (bot vel : Nat → ℝ) (xr theta0 : ℝ) (hv : ∀ k, 0 < vel k) (hθ : 0 < Real.sin theta0)
    (hbot0 : 0 ≤ bot 0) (hmono : ∀ j, bot j ≤ bot (j + 1)) (hxr : 0 ≤ xr) :
    ∀ s ∈ (trace Real.sin Real.cos Real.arcsin Real.sqrt n bot vel xr theta0).segs, s.z0 ≤ s.z1 ∧ s.x0 ≤ s.x1 ∧ s.x1 ≤ xr := by
  have hb : ∀ j, (0:ℝ) ≤ bot (0 + j) := by
    intro j
    induction j with
    | zero => simpa using hbot0
    | succ i ihi => exact le_trans ihi (by simpa [Nat.add_assoc] using hmono (0 + i))
  have key := monotone_from bot vel xr (Real.sin theta0 / vel 0) hv (div_pos hθ (hv 0)) n 0 0 0 [] 0 0 hb hmono hxr (by simp)
  simpa [trace, traceR, lit_zero] using key

/-! ### travel time and length are the sums over the segments -/

private theorem accounting_from (bot vel : Nat → ℝ) (xr p : ℝ) (fuel k : Nat) (x z : ℝ) (acc : List (Seg ℝ)) (tt dist : ℝ)
    (h1 : tt = (acc.map (fun s => s.len / s.vel)).sum) (h2 : dist = (acc.map (fun s => s.len)).sum) :
    (traceR bot vel xr p fuel k x z acc tt dist).tt
        = ((traceR bot vel xr p fuel k x z acc tt dist).segs.map (fun s => s.len / s.vel)).sum ∧
    (traceR bot vel xr p fuel k x z acc tt dist).dist
        = ((traceR bot vel xr p fuel k x z acc tt dist).segs.map (fun s => s.len)).sum := by
  induction fuel generalizing k x z acc tt dist with
  | zero => simp [traceR, traceFrom, h1, h2, List.sum_reverse]
  | succ f ih =>
    simp only [traceR, traceFrom, lit_one]
    split_ifs with ha hb
    · simp [h1, h2, List.sum_reverse]
    · simp only [List.map_reverse, List.sum_reverse, List.map_cons, List.sum_cons, h1, h2]
      constructor <;> ring
    · apply ih
      · simp [h1]; ring
      · simp [h2]; ring

/-- the returned travel time is Σ path-length / layer-velocity and the returned length is Σ path-length -/
theorem time_and_length_are_sums (n : Nat) (bot vel : Nat → ℝ) (xr theta0 : ℝ) :
    let r := trace Real.sin Real.cos Real.arcsin Real.sqrt n bot vel xr theta0
    r.tt = (r.segs.map (fun s => s.len / s.vel)).sum ∧ r.dist = (r.segs.map (fun s => s.len)).sum := by
  have := accounting_from bot vel xr (Real.sin theta0 / vel 0) n 0 0 0 [] 0 0 (by simp) (by simp)
  simpa [trace, traceR, lit_zero] using this

/-- the per-layer path lengths add up to the total length -/
theorem per_layer_lengths_sum (segs : List (Seg ℝ)) (n : Nat) (h : ∀ s ∈ segs, s.layer < n) :
    ∑ j ∈ Finset.range n, perLayer 0 segs j = (segs.map (fun s => s.len)).sum := by
  have hfold : ∀ (l : List (Seg ℝ)) (a : ℝ), l.foldl (fun acc s => acc + s.len) a = a + (l.map (fun s => s.len)).sum := by
    intro l
    induction l with
    | nil => intro a; simp
    | cons s ss ih => intro a; simp [List.foldl_cons, ih, add_assoc]
  induction segs with
  | nil => simp [perLayer]
  | cons s ss ih =>
    have hs := h s (List.mem_cons_self)
    have ih' := ih (fun t ht => h t (List.mem_cons_of_mem _ ht))
    have key : ∀ j, perLayer 0 (s :: ss) j = (if s.layer = j then s.len else 0) + perLayer 0 ss j := by
      intro j
      simp only [perLayer, List.filter_cons, beq_iff_eq]
      split_ifs with hj
      · simp [List.foldl_cons, hfold]
      · simp
    simp only [key, Finset.sum_add_distrib, List.map_cons, List.sum_cons, ih']
    congr 1
    rw [Finset.sum_ite_eq (Finset.range n) s.layer (fun _ => s.len)]
    simp [hs]

/-! ### homogeneous medium: the ray is the straight line from the origin -/

/-- algebra of one straight segment: from `(x, z)` on the line `x c = z s` to depth `b` -/
private theorem seg_bottom (s c x z b : ℝ) (hs : 0 < s) (hc : 0 < c) (h1 : s ^ 2 + c ^ 2 = 1) (hline : x * c = z * s) (hb : z ≤ b) :
    ((b + c / s * x - z) / (c / s)) * c = b * s ∧
    Real.sqrt (((b + c / s * x - z) / (c / s) - x) * ((b + c / s * x - z) / (c / s) - x) + (b - z) * (b - z)) = (b - z) / c := by
  have hxn : (b + c / s * x - z) / (c / s) = x + (b - z) * (s / c) := by field_simp; ring
  rw [hxn]
  constructor
  · field_simp; nlinarith [hline]
  · have : (x + (b - z) * (s / c) - x) * (x + (b - z) * (s / c) - x) + (b - z) * (b - z) = ((b - z) / c) ^ 2 := by
      field_simp; nlinarith [h1]
    rw [this, Real.sqrt_sq (div_nonneg (by linarith) hc.le)]

/-- … and to the receiver line `xr` -/
private theorem seg_clip (s c x z xr : ℝ) (hs : 0 < s) (hc : 0 < c) (h1 : s ^ 2 + c ^ 2 = 1) (hline : x * c = z * s) (hx : x ≤ xr) :
    xr * c = (c / s * xr - c / s * x + z) * s ∧ z ≤ c / s * xr - c / s * x + z ∧
    Real.sqrt ((xr - x) * (xr - x) + (c / s * xr - c / s * x + z - z) * (c / s * xr - c / s * x + z - z))
      = (c / s * xr - c / s * x + z - z) / c := by
  have hdz : c / s * xr - c / s * x + z - z = c / s * (xr - x) := by ring
  have hnn : 0 ≤ c / s * (xr - x) := mul_nonneg (div_pos hc hs).le (by linarith)
  refine ⟨?_, by linarith, ?_⟩
  · field_simp; nlinarith [hline]
  · rw [hdz]
    have : (xr - x) * (xr - x) + c / s * (xr - x) * (c / s * (xr - x)) = (c / s * (xr - x) / c) ^ 2 := by
      field_simp; nlinarith [h1]
    rw [this, Real.sqrt_sq (div_nonneg hnn hc.le)]

private theorem homogeneous_from (sn cs as : ℝ → ℝ) (bot vel : Nat → ℝ) (v xr p s c : ℝ) (hv : 0 < v)
    (hvel : ∀ k, vel k = v) (hlt : v * p < 1) (hsn : sn (as (v * p)) = s) (hcs : cs (as (v * p)) = c)
    (hs : 0 < s) (hc : 0 < c) (h1 : s ^ 2 + c ^ 2 = 1)
    (fuel k : Nat) (x z : ℝ) (acc : List (Seg ℝ)) (tt dist : ℝ)
    (hbot : ∀ j, z ≤ bot (k + j)) (hmono : ∀ j, bot j ≤ bot (j + 1)) (hx : x ≤ xr)
    (hline : x * c = z * s) (htt : tt = z / (c * v)) (hd : dist = z / c) :
    let r := traceFrom sn cs as Real.sqrt bot vel xr p fuel k x z acc tt dist
    r.x * c = r.z * s ∧ r.tt = r.z / (c * v) ∧ r.dist = r.z / c ∧ z ≤ r.z := by
  induction fuel generalizing k x z acc tt dist with
  | zero => simp only [traceFrom]; exact ⟨hline, htt, hd, le_refl _⟩
  | succ f ih =>
    simp only [traceFrom, lit_one, hvel, hsn, hcs]
    rw [if_neg (not_le.mpr hlt)]
    have hb : z ≤ bot k := by simpa using hbot 0
    split_ifs with hclip
    · obtain ⟨e1, e2, e3⟩ := seg_clip s c x z xr hs hc h1 hline hx
      refine ⟨e1, ?_, ?_, e2⟩
      · simp only; rw [e3, htt]; field_simp; ring
      · simp only; rw [e3, hd]; field_simp; ring
    · obtain ⟨e1, e2⟩ := seg_bottom s c x z (bot k) hs hc h1 hline hb
      generalize hL : Real.sqrt (((bot k + c / s * x - z) / (c / s) - x) * ((bot k + c / s * x - z) / (c / s) - x)
          + (bot k - z) * (bot k - z)) = L at e2 ⊢
      have hchain : ∀ j, bot k ≤ bot (k + 1 + j) := by
        intro j
        have : ∀ i, bot k ≤ bot (k + i) := by
          intro i
          induction i with
          | zero => simp
          | succ i ihi => exact le_trans ihi (by simpa [Nat.add_assoc] using hmono (k + i))
        have := this (1 + j)
        simpa [Nat.add_assoc] using this
      have hrec := ih (k + 1) ((bot k + c / s * x - z) / (c / s)) (bot k)
        ({ layer := k, x0 := x, z0 := z, x1 := (bot k + c / s * x - z) / (c / s), z1 := bot k, theta := as (v * p), len := L, vel := v } :: acc)
        (tt + L / v) (dist + L) hchain (le_of_not_gt hclip) e1
        (by rw [e2, htt]; field_simp; ring)
        (by rw [e2, hd]; field_simp; ring)
      exact ⟨hrec.1, hrec.2.1, hrec.2.2.1, le_trans hb hrec.2.2.2⟩

/-- **homogeneous medium** (all layer velocities equal): the traced ray is the straight line from the
    origin — its end point lies on the line of take-off angle `θ = arcsin(v p)`, and travel time and
    length are `depth / (cos θ · v)` and `depth / cos θ`, i.e. straight-line length / velocity —
    for every number of layers and every layering -/
theorem homogeneous_is_straight (n : Nat) (bot : Nat → ℝ) (v xr p : ℝ) (hv : 0 < v) (hp0 : 0 < v * p) (hp1 : v * p < 1)
    (hbot0 : 0 ≤ bot 0) (hmono : ∀ j, bot j ≤ bot (j + 1)) (hxr : 0 ≤ xr) :
    let θ := Real.arcsin (v * p)
    let r := traceR bot (fun _ => v) xr p n 0 0 0 [] 0 0
    r.x * Real.cos θ = r.z * Real.sin θ ∧ r.tt = r.z / (Real.cos θ * v) ∧ r.dist = r.z / Real.cos θ ∧ 0 ≤ r.z := by
  intro θ r
  have hsin : 0 < Real.sin θ := by
    show 0 < Real.sin (Real.arcsin (v * p))
    rw [Real.sin_arcsin (by linarith) hp1.le]; exact hp0
  have hcos : 0 < Real.cos θ := by
    show 0 < Real.cos (Real.arcsin (v * p))
    rw [Real.cos_arcsin]
    apply Real.sqrt_pos.mpr
    nlinarith
  have hb : ∀ j, (0:ℝ) ≤ bot (0 + j) := by
    intro j
    induction j with
    | zero => simpa using hbot0
    | succ i ihi => exact le_trans ihi (by simpa [Nat.add_assoc] using hmono (0 + i))
  exact homogeneous_from Real.sin Real.cos Real.arcsin bot (fun _ => v) v xr p (Real.sin θ) (Real.cos θ) hv (fun _ => rfl) hp1 rfl rfl
    hsin hcos (Real.sin_sq_add_cos_sq θ) n 0 0 0 [] 0 0 hb hmono hxr (by ring) (by simp) (by simp)

/-- on that line `depth / cos θ` is the Euclidean distance from the origin -/
theorem straight_length (x z s c : ℝ) (hc : 0 < c) (hz : 0 ≤ z) (h1 : s ^ 2 + c ^ 2 = 1) (hline : x * c = z * s) :
    z / c = Real.sqrt (x ^ 2 + z ^ 2) := by
  have : x ^ 2 + z ^ 2 = (z / c) ^ 2 := by
    have hx : x = z * s / c := by field_simp; linarith
    rw [hx]; field_simp; nlinarith [h1]
  rw [this, Real.sqrt_sq (div_nonneg hz hc.le)]

/-- the 1-Lipschitz bound behind the tolerance: straight-line lengths to two points on the receiver
    line differ by at most their depth difference -/
theorem sqrt_lipschitz (X z z' : ℝ) : |Real.sqrt (X ^ 2 + z ^ 2) - Real.sqrt (X ^ 2 + z' ^ 2)| ≤ |z - z'| := by
  have ha : 0 ≤ X ^ 2 + z ^ 2 := by positivity
  have hb : 0 ≤ X ^ 2 + z' ^ 2 := by positivity
  by_cases hsum : Real.sqrt (X ^ 2 + z ^ 2) + Real.sqrt (X ^ 2 + z' ^ 2) = 0
  · have h1 : Real.sqrt (X ^ 2 + z ^ 2) = 0 := by
      have := Real.sqrt_nonneg (X ^ 2 + z ^ 2); have := Real.sqrt_nonneg (X ^ 2 + z' ^ 2); linarith
    have h2 : Real.sqrt (X ^ 2 + z' ^ 2) = 0 := by
      have := Real.sqrt_nonneg (X ^ 2 + z ^ 2); have := Real.sqrt_nonneg (X ^ 2 + z' ^ 2); linarith
    rw [h1, h2]; simp
  · have hpos : 0 < Real.sqrt (X ^ 2 + z ^ 2) + Real.sqrt (X ^ 2 + z' ^ 2) :=
      lt_of_le_of_ne (add_nonneg (Real.sqrt_nonneg _) (Real.sqrt_nonneg _)) (Ne.symm hsum)
    have hdiff : (Real.sqrt (X ^ 2 + z ^ 2) - Real.sqrt (X ^ 2 + z' ^ 2)) * (Real.sqrt (X ^ 2 + z ^ 2) + Real.sqrt (X ^ 2 + z' ^ 2))
        = (z - z') * (z + z') := by
      have e1 := Real.mul_self_sqrt ha
      have e2 := Real.mul_self_sqrt hb
      nlinarith [e1, e2]
    have hz1 : |z| ≤ Real.sqrt (X ^ 2 + z ^ 2) := by
      rw [← Real.sqrt_sq_eq_abs]; exact Real.sqrt_le_sqrt (by nlinarith [sq_nonneg X])
    have hz2 : |z'| ≤ Real.sqrt (X ^ 2 + z' ^ 2) := by
      rw [← Real.sqrt_sq_eq_abs]; exact Real.sqrt_le_sqrt (by nlinarith [sq_nonneg X])
    have habs : |z + z'| ≤ Real.sqrt (X ^ 2 + z ^ 2) + Real.sqrt (X ^ 2 + z' ^ 2) :=
      le_trans (abs_add_le z z') (add_le_add hz1 hz2)
    have : |Real.sqrt (X ^ 2 + z ^ 2) - Real.sqrt (X ^ 2 + z' ^ 2)| * (Real.sqrt (X ^ 2 + z ^ 2) + Real.sqrt (X ^ 2 + z' ^ 2))
        = |z - z'| * |z + z'| := by
      conv_lhs => rw [← abs_of_pos hpos, ← abs_mul, hdiff, abs_mul]
    by_contra hcon
    push Not at hcon
    have : |z - z'| * |z + z'| > |z - z'| * |z + z'| := by
      calc |z - z'| * |z + z'| ≤ |z - z'| * (Real.sqrt (X ^ 2 + z ^ 2) + Real.sqrt (X ^ 2 + z' ^ 2)) :=
            mul_le_mul_of_nonneg_left habs (abs_nonneg _)
        _ < |Real.sqrt (X ^ 2 + z ^ 2) - Real.sqrt (X ^ 2 + z' ^ 2)| * (Real.sqrt (X ^ 2 + z ^ 2) + Real.sqrt (X ^ 2 + z' ^ 2)) :=
            mul_lt_mul_of_pos_right hcon hpos
        _ = |z - z'| * |z + z'| := this
    exact lt_irrefl _ this

/-- hence: a straight ray that ends within `tol` of a receiver has a travel time within `tol / v`
    of the straight-line travel time to that receiver -/
theorem converged_within_tol_over_v (X zray zrcv v tol : ℝ) (hv : 0 < v) (h : |zray - zrcv| < tol) :
    |Real.sqrt (X ^ 2 + zray ^ 2) / v - Real.sqrt (X ^ 2 + zrcv ^ 2) / v| < tol / v := by
  rw [← sub_div, abs_div, abs_of_pos hv]
  exact div_lt_div_of_pos_right (lt_of_le_of_lt (sqrt_lipschitz X zray zrcv) h) hv

/-! ### non-vacuity -/
example : (0:ℝ) < 2000 * (Real.sin (Real.pi / 6) / 2000) ∧ 2000 * (Real.sin (Real.pi / 6) / 2000) < 1 := by
  rw [Real.sin_pi_div_six]; constructor <;> norm_num

end C18
end HmcVerif
