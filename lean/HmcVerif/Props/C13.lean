import HmcVerif.Real.DistReal
import HmcVerif.Real.Grad
import HmcVerif.Real.Grad2
import HmcVerif.Real.Reflect
import HmcVerif.Real.Fold
import HmcVerif.Real.BoxTreeThm
import HmcVerif.Props.C05
import Mathlib.Analysis.SpecialFunctions.Log.Basic
import Mathlib.LinearAlgebra.Matrix.Determinant.Basic
import Mathlib.Algebra.BigOperators.Fin
import Mathlib.Tactic.Ring
import Mathlib.Tactic.Linarith
/-
  C13 — composite distributions obey their algebra
  (models: Model/DistAlg.lean, Model/Dist.lean; executable counterpart Exec/Dists.lean).
-/
set_option linter.unusedSectionVars false
open Finset Matrix
namespace HmcVerif
namespace C13
open DistReal
variable {ι : Type} [Fintype ι]

/-! ### BayesRule / AdditiveDistribution -/

/-- misfit and gradient are the sums over the parts: if each part's `gradient` is the derivative
    of its `misfit`, the same holds for the sum — any number of parts, any classes -/
theorem additive_gradient_sum {κ : Type} [Fintype κ] (ms : κ → (ι → ℝ) → ℝ) (gs : κ → ι → ℝ) (x : ι → ℝ)
    (h : ∀ k, IsGradAt (ms k) (gs k) x) :
    IsGradAt (fun y => ∑ k, ms k y) (∑ k, gs k) x :=
  IsGradAt.sum univ ms gs (fun k _ => h k)

/-- the left-to-right accumulation the code performs is that sum -/
theorem sumList_eq_sum (l : List ℝ) : Dist.sumList 0 l = l.sum := by
  unfold Dist.sumList
  have : ∀ (a : ℝ) (l : List ℝ), l.foldl (· + ·) a = a + l.sum := by
    intro a l
    induction l generalizing a with
    | nil => simp
    | cons b bs ih => simp [List.foldl_cons, ih, add_assoc]
  simpa using this 0 l

private theorem lower_violated_iff (a b : Option ℝ) (x : ℝ) :
    (∃ l, Dist.maxLower a b = some l ∧ x < l) ↔ (∃ l, a = some l ∧ x < l) ∨ (∃ l, b = some l ∧ x < l) := by
  cases a with
  | none => simp [Dist.maxLower]
  | some p =>
    cases b with
    | none => simp [Dist.maxLower]
    | some q =>
      simp only [Dist.maxLower, Option.some.injEq, exists_eq_left']
      split_ifs with h
      · constructor
        · intro hx; right; exact hx
        · rintro (hx | hx)
          · linarith
          · exact hx
      · constructor
        · intro hx; left; exact hx
        · rintro (hx | hx)
          · exact hx
          · linarith

private theorem upper_violated_iff (c d : Option ℝ) (x : ℝ) :
    (∃ u, Dist.minUpper c d = some u ∧ u < x) ↔ (∃ u, c = some u ∧ u < x) ∨ (∃ u, d = some u ∧ u < x) := by
  cases c with
  | none => simp [Dist.minUpper]
  | some p =>
    cases d with
    | none => simp [Dist.minUpper]
    | some q =>
      simp only [Dist.minUpper, Option.some.injEq, exists_eq_left']
      split_ifs with h
      · constructor
        · intro hx; right; exact hx
        · rintro (hx | hx)
          · linarith
          · exact hx
      · constructor
        · intro hx; left; exact hx
        · rintro (hx | hx)
          · exact hx
          · linarith

private theorem outside1_iff (lb ub : Option ℝ) (x : ℝ) :
    Dist.outside1 lb ub x = true ↔ (∃ l, lb = some l ∧ x < l) ∨ (∃ u, ub = some u ∧ u < x) := by
  cases lb <;> cases ub <;> simp [Dist.outside1]

/-- bounds of a sum = intersection of the parts' bounds: a coordinate violates the collapsed
    bounds iff it violates one operand's bounds -/
theorem collapse_is_intersection (a b c d : Option ℝ) (x : ℝ) :
    Dist.outside1 (Dist.maxLower a b) (Dist.minUpper c d) x
      = (Dist.outside1 a c x || Dist.outside1 b d x) := by
  rw [Bool.eq_iff_iff, Bool.or_eq_true, outside1_iff, outside1_iff, outside1_iff, lower_violated_iff,
    upper_violated_iff]
  generalize (∃ l, a = some l ∧ x < l) = A
  generalize (∃ l, b = some l ∧ x < l) = B
  generalize (∃ u, c = some u ∧ u < x) = C'
  generalize (∃ u, d = some u ∧ u < x) = D
  constructor
  · rintro ((h | h) | (h | h))
    · exact Or.inl (Or.inl h)
    · exact Or.inr (Or.inl h)
    · exact Or.inl (Or.inr h)
    · exact Or.inr (Or.inr h)
  · rintro ((h | h) | (h | h))
    · exact Or.inl (Or.inl h)
    · exact Or.inr (Or.inl h)
    · exact Or.inl (Or.inr h)
    · exact Or.inr (Or.inr h)

/-- collapsing a whole list of parts (as `add_distribution` does, one at a time) -/
noncomputable def collapseAll (boxes : List (Option ℝ × Option ℝ)) (own : Option ℝ × Option ℝ) : Option ℝ × Option ℝ :=
  boxes.foldl (fun acc b => (Dist.maxLower acc.1 b.1, Dist.minUpper acc.2 b.2)) own

theorem collapseAll_is_intersection (boxes : List (Option ℝ × Option ℝ)) (own : Option ℝ × Option ℝ) (x : ℝ) :
    Dist.outside1 (collapseAll boxes own).1 (collapseAll boxes own).2 x
      = (Dist.outside1 own.1 own.2 x || boxes.any (fun b => Dist.outside1 b.1 b.2 x)) := by
  induction boxes generalizing own with
  | nil => simp [collapseAll]
  | cons b bs ih =>
    simp only [collapseAll, List.foldl_cons, List.any_cons] at ih ⊢
    rw [ih, collapse_is_intersection, Bool.or_assoc]

/-! ### CompositeDistribution -/

/-- misfit = sum over consecutive coordinate blocks, gradients stacked -/
theorem composite_gradient_stack {ι₁ ι₂ : Type} [Fintype ι₁] [Fintype ι₂]
    (m₁ : (ι₁ → ℝ) → ℝ) (m₂ : (ι₂ → ℝ) → ℝ) (g₁ : ι₁ → ℝ) (g₂ : ι₂ → ℝ) (x : (ι₁ ⊕ ι₂) → ℝ)
    (h₁ : IsGradAt m₁ g₁ (fun i => x (Sum.inl i))) (h₂ : IsGradAt m₂ g₂ (fun i => x (Sum.inr i))) :
    IsGradAt (fun y : (ι₁ ⊕ ι₂) → ℝ => m₁ (fun i => y (Sum.inl i)) + m₂ (fun i => y (Sum.inr i))) (Sum.elim g₁ g₂) x :=
  isGradAt_composite m₁ m₂ g₁ g₂ x h₁ h₂

/-- each block's bounds are reflected on its own coordinates: reflecting the stacked vector with
    the stacked bounds is reflecting every block with its own bounds -/
theorem composite_reflect_blockwise {ι₁ ι₂ : Type} (lb₁ ub₁ : ι₁ → Option ℝ) (lb₂ ub₂ : ι₂ → Option ℝ)
    (q p : (ι₁ ⊕ ι₂) → ℝ) (i : ι₁ ⊕ ι₂) :
    correctorR (Sum.elim lb₁ lb₂ i) (Sum.elim ub₁ ub₂ i) (q i) (p i)
      = Sum.elim (fun j => correctorR (lb₁ j) (ub₁ j) (q (Sum.inl j)) (p (Sum.inl j)))
                 (fun j => correctorR (lb₂ j) (ub₂ j) (q (Sum.inr j)) (p (Sum.inr j))) i := by
  cases i <;> rfl

/-! ### Mixture -/

/-- the model's Mixture misfit is `−log Σᵢ wᵢ exp(−mᵢ)` -/
theorem mixture_logsumexp (k : Nat) (w m : Fin k → ℝ) (hw : ∀ j, 0 < w j) :
    Dist.mixtureMisfit Real.exp Real.log 0 (List.ofFn w) (List.ofFn m)
      = -Real.log (∑ j, w j * Real.exp (-(m j))) := by
  unfold Dist.mixtureMisfit
  rw [sumList_eq_sum]
  congr 2
  have : List.zipWith (fun wi mi => Real.exp (Real.log wi - mi)) (List.ofFn w) (List.ofFn m)
      = List.ofFn (fun j => w j * Real.exp (-(m j))) := by
    apply List.ext_getElem
    · simp
    · intro n h1 h2
      simp only [List.getElem_zipWith, List.getElem_ofFn]
      rw [sub_eq_add_neg, Real.exp_add, Real.exp_log (hw _)]
  rw [this, List.sum_ofFn]

/-- terms that tie: a mixture that lists one and the same component `k` times with equal weights is
    that component - however many terms share the maximum of the log-sum-exp -/
theorem mixture_of_copies (k : Nat) (hk : 0 < k) (m : ℝ) :
    Dist.mixtureMisfit Real.exp Real.log 0 (List.ofFn (fun _ : Fin k => (1 : ℝ) / k)) (List.ofFn (fun _ : Fin k => m)) = m := by
  have hk' : (0 : ℝ) < k := Nat.cast_pos.mpr hk
  rw [mixture_logsumexp k (fun _ => (1 : ℝ) / k) (fun _ => m) (fun _ => by positivity)]
  rw [Finset.sum_const, Finset.card_univ, Fintype.card_fin, nsmul_eq_mul]
  have : (k : ℝ) * (1 / (k : ℝ) * Real.exp (-m)) = Real.exp (-m) := by field_simp
  rw [this, Real.log_exp]; ring

/-- a symmetric pair on its symmetry plane (equal component misfits, weights ½ and ½) -/
theorem mixture_symmetric_pair (m : ℝ) :
    Dist.mixtureMisfit Real.exp Real.log 0 (List.ofFn ![(1 : ℝ) / 2, 1 / 2]) (List.ofFn ![m, m]) = m := by
  rw [mixture_logsumexp 2 ![(1 : ℝ) / 2, 1 / 2] ![m, m] (fun j => by fin_cases j <;> simp)]
  rw [Fin.sum_univ_two]
  simp only [Matrix.cons_val_zero, Matrix.cons_val_one]
  have : (1 : ℝ) / 2 * Real.exp (-m) + 1 / 2 * Real.exp (-m) = Real.exp (-m) := by ring
  rw [this, Real.log_exp]; ring

/-- the shifted (log-sum-exp) form the code evaluates is the same number for every shift -/
theorem mixture_shift_invariant (k : Nat) [NeZero k] (w m : Fin k → ℝ) (c : ℝ) :
    Dist.mixtureMisfitShift Real.exp Real.log 0 c (List.ofFn w) (List.ofFn m)
      = Dist.mixtureMisfit Real.exp Real.log 0 (List.ofFn w) (List.ofFn m) := by
  unfold Dist.mixtureMisfitShift Dist.mixtureMisfit
  rw [sumList_eq_sum, sumList_eq_sum]
  have e1 : List.zipWith (fun wi mi => Real.exp (Real.log wi - mi - c)) (List.ofFn w) (List.ofFn m)
      = List.ofFn (fun j => Real.exp (Real.log (w j) - m j) * Real.exp (-c)) := by
    apply List.ext_getElem
    · simp
    · intro n h1 h2
      simp only [List.getElem_zipWith, List.getElem_ofFn]
      rw [sub_eq_add_neg (Real.log _ - _) c, Real.exp_add]
  have e2 : List.zipWith (fun wi mi => Real.exp (Real.log wi - mi)) (List.ofFn w) (List.ofFn m)
      = List.ofFn (fun j => Real.exp (Real.log (w j) - m j)) := by
    apply List.ext_getElem
    · simp
    · intro n h1 h2; simp
  rw [e1, e2, List.sum_ofFn, List.sum_ofFn, ← Finset.sum_mul]
  have hpos : 0 < ∑ j, Real.exp (Real.log (w j) - m j) :=
    Finset.sum_pos (fun j _ => Real.exp_pos _) ⟨0, Finset.mem_univ _⟩
  rw [Real.log_mul hpos.ne' (Real.exp_pos _).ne', Real.log_exp]
  ring

/-- … with the matching gradient `Σ pⱼ gⱼ / Σ pⱼ` -/
theorem mixture_gradient (k : Nat) [NeZero k] (w : Fin k → ℝ) (ms : Fin k → (ι → ℝ) → ℝ) (gs : Fin k → ι → ℝ) (x : ι → ℝ)
    (h : ∀ j, IsGradAt (ms j) (gs j) x) :
    IsGradAt (fun y => -Real.log (∑ j, Real.exp (Real.log (w j) - ms j y)))
      (fun i => (∑ j, Real.exp (Real.log (w j) - ms j x) * gs j i) / (∑ j, Real.exp (Real.log (w j) - ms j x))) x :=
  isGradAt_mixture (fun j => Real.log (w j)) ms gs x h

/-- the model's per-coordinate Mixture gradient is that quotient -/
theorem mixtureGrad1_eq (k : Nat) (p g : Fin k → ℝ) :
    Dist.mixtureGrad1 0 (List.ofFn p) (List.ofFn g) = (∑ j, p j * g j) / (∑ j, p j) := by
  unfold Dist.mixtureGrad1
  rw [sumList_eq_sum, sumList_eq_sum]
  have : List.zipWith (· * ·) (List.ofFn p) (List.ofFn g) = List.ofFn (fun j => p j * g j) := by
    apply List.ext_getElem
    · simp
    · intro n h1 h2; simp
  rw [this, List.sum_ofFn, List.sum_ofFn]

/-- … and the responsibilities enter the gradient only through their ratios -/
theorem mixture_grad_shift_invariant (k : Nat) (p g : Fin k → ℝ) (c : ℝ) :
    Dist.mixtureGrad1 0 (List.ofFn (fun j => p j * Real.exp (-c))) (List.ofFn g) = Dist.mixtureGrad1 0 (List.ofFn p) (List.ofFn g) := by
  rw [mixtureGrad1_eq, mixtureGrad1_eq]
  have h1 : ∑ j, p j * Real.exp (-c) * g j = (∑ j, p j * g j) * Real.exp (-c) := by
    rw [Finset.sum_mul]; apply Finset.sum_congr rfl; intro j _; ring
  have h2 : ∑ j, p j * Real.exp (-c) = (∑ j, p j) * Real.exp (-c) := by rw [Finset.sum_mul]
  rw [h1, h2, mul_div_mul_right _ _ (Real.exp_pos _).ne']

/-! ### TransformToLogSpace: the exact change of variables `m = base^x` -/

/-- density form: `exp(−misfit(m)) = p_inner(log_b m) · Πᵢ 1/(mᵢ ln b)` — the inner density times the
    Jacobian of `m ↦ log_b m` -/
theorem logspace_change_of_variables (inner : (ι → ℝ) → ℝ) (b : ℝ) (hb : 0 < Real.log b) (x : ι → ℝ) (hx : ∀ i, 0 < x i) :
    Real.exp (-(inner (fun i => Dist.logForward Real.log b (x i)) - ∑ i, Real.log (Dist.logJac Real.log b (x i))))
      = Real.exp (-(inner (fun i => Real.log (x i) / Real.log b))) * ∏ i, (1 / x i) / Real.log b := by
  have hpos : ∀ i, 0 < (1 / x i) / Real.log b := fun i => div_pos (one_div_pos.mpr (hx i)) hb
  simp only [Dist.logForward, Dist.logJac, lit_one]
  rw [neg_sub, sub_eq_add_neg, Real.exp_add, mul_comm]
  congr 1
  rw [Real.exp_sum]
  apply Finset.prod_congr rfl
  intro i _
  exact Real.exp_log (hpos i)

/-- the same for every base other than 1 (a base below one has a negative Jacobian): with the
    absolute value of the Jacobian, as the code takes it, the density is the inner density times
    `Πᵢ |1 / (mᵢ ln b)|` -/
theorem logspace_change_of_variables_abs (inner : (ι → ℝ) → ℝ) (b : ℝ) (hb : Real.log b ≠ 0) (x : ι → ℝ) (hx : ∀ i, 0 < x i) :
    Real.exp (-(inner (fun i => Dist.logForward Real.log b (x i)) - ∑ i, Real.log |Dist.logJac Real.log b (x i)|))
      = Real.exp (-(inner (fun i => Real.log (x i) / Real.log b))) * ∏ i, |(1 / x i) / Real.log b| := by
  have hpos : ∀ i, 0 < |(1 / x i) / Real.log b| := fun i =>
    abs_pos.mpr (div_ne_zero (one_div_ne_zero (hx i).ne') hb)
  simp only [Dist.logForward, Dist.logJac, lit_one]
  rw [neg_sub, sub_eq_add_neg, Real.exp_add, mul_comm]
  congr 1
  rw [Real.exp_sum]
  apply Finset.prod_congr rfl
  intro i _
  exact Real.exp_log (hpos i)

/-- `base^(log_base m) = m`: `transform_backward` inverts `transform_forward` on positive `m` -/
theorem logspace_roundtrip (b m : ℝ) (hb1 : 1 < b) (hm : 0 < m) :
    b ^ (Dist.logForward Real.log b m) = m := by
  unfold Dist.logForward
  have hb0 : 0 < b := by linarith
  have hlb : Real.log b ≠ 0 := (Real.log_pos hb1).ne'
  rw [Real.rpow_def_of_pos hb0, mul_div_cancel₀ _ hlb, Real.exp_log hm]

/-- the model's gradient formula is `g·(1/m)/ln b + 1/m` and is the derivative (positive `m`) -/
theorem logspace_gradient (inner : (ι → ℝ) → ℝ) (gin : ι → ℝ) (b : ℝ) (hb : Real.log b ≠ 0) (x : ι → ℝ)
    (hx : ∀ i, 0 < x i) (hin : IsGradAt inner gin (fun i => Real.log (x i) / Real.log b)) :
    IsGradAt (fun y => inner (fun i => Dist.logForward Real.log b (y i)) - ∑ i, Real.log (Dist.logJac Real.log b (y i)))
      (fun i => Dist.logGrad1 Real.log b (x i) (gin i)) x := by
  have h := isGradAt_logTransform inner gin b hb x hx hin
  have e : (fun i => Dist.logGrad1 Real.log b (x i) (gin i)) = fun i => gin i * ((1 / x i) / Real.log b) + 1 / x i := by
    funext i
    have hxi := (hx i).ne'
    simp only [Dist.logGrad1, Dist.logJac, lit_one]
    field_simp
    ring
  rw [e]
  simpa only [Dist.logForward, Dist.logJac, lit_one] using h

/-! ### temperature -/

theorem temperature_divides_stdNormal (T x : ℝ) :
    Dist.stdNormalMisfit T x = Dist.stdNormalMisfit 1 x / T ∧ Dist.stdNormalGrad T x = Dist.stdNormalGrad 1 x / T := by
  simp [Dist.stdNormalMisfit, Dist.stdNormalGrad]

theorem temperature_divides_himmelblau (T x y : ℝ) :
    Dist.himmelblauMisfit T x y = Dist.himmelblauMisfit 1 x y / T ∧
    Dist.himmelblauGradX T x y = Dist.himmelblauGradX 1 x y / T ∧
    Dist.himmelblauGradY T x y = Dist.himmelblauGradY 1 x y / T := by
  simp [Dist.himmelblauMisfit, Dist.himmelblauGradX, Dist.himmelblauGradY]

/-- dividing any misfit by `T` divides its gradient by `T` -/
theorem temperature_divides (m : (ι → ℝ) → ℝ) (g x : ι → ℝ) (T : ℝ) (h : IsGradAt m g x) :
    IsGradAt (fun y => m y / T) (fun i => g i / T) x := h.div_const T

/-! ### scalar, per-dimension and diagonal-matrix covariances describe the same Normal -/

theorem normal_encodings_agree [DecidableEq ι] (mu invc : ι → ℝ) (c : ℝ) (x : ι → ℝ) :
    normalFullM mu (Matrix.diagonal invc) c x = normalDiagM mu invc c x ∧
    normalFullG mu (Matrix.diagonal invc) x = normalDiagG mu invc x := by
  constructor
  · simp only [normalFullM, normalDiagM, Dist.normalDiagTerm, Matrix.mulVec_diagonal, dotProduct, Pi.sub_apply]
  · funext i
    simp [normalFullG, normalDiagG, Dist.normalDiagGrad, Matrix.mulVec_diagonal]

/-- a scalar variance `c` is the per-dimension vector `(c, …, c)` -/
theorem normal_scalar_is_constant_vector (mu : ι → ℝ) (ic c : ℝ) (x : ι → ℝ) :
    normalDiagM mu (fun _ => ic) c x = 0.5 * (ic * ∑ i, (mu i - x i) ^ 2) + c := by
  simp only [normalDiagM, Dist.normalDiagTerm]
  congr 2
  rw [Finset.mul_sum]
  apply Finset.sum_congr rfl
  intro i _; ring

/-- … and the determinant used for the normalisation is the product of the variances -/
theorem normal_det_diagonal [DecidableEq ι] (var : ι → ℝ) : (Matrix.diagonal var).det = ∏ i, var i :=
  Matrix.det_diagonal

/-! ### non-vacuity -/
example : Dist.outside1 (Dist.maxLower (some (0:ℝ)) (some 1)) (Dist.minUpper (some 3) none) (0.5:ℝ) = true := by
  simp [Dist.maxLower, Dist.minUpper, Dist.outside1]; norm_num

end C13
end HmcVerif
