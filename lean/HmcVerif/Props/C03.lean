import HmcVerif.Model.Mass
import HmcVerif.Model.Integrator
import HmcVerif.Real.Lit
import HmcVerif.Real.LinAlg
import HmcVerif.Real.Calculus
import Mathlib.LinearAlgebra.Matrix.NonsingularInverse
import Mathlib.LinearAlgebra.Matrix.DotProduct
import Mathlib.LinearAlgebra.Matrix.Symmetric
import Mathlib.LinearAlgebra.Matrix.PosDef
import Mathlib.Analysis.SpecialFunctions.Sqrt
import Mathlib.Tactic.Ring
import Mathlib.Tactic.Linarith
import Mathlib.Tactic.FieldSimp
import Mathlib.Tactic.Positivity
/-
  C03 — each mass matrix defines one consistent Gaussian momentum law (model: Model/Mass.lean,
  instantiated at Mathlib matrices by Real/LinAlg.lean).
-/
set_option linter.unusedSectionVars false
open Matrix
namespace HmcVerif
namespace C03
variable {ι : Type} [Fintype ι] [DecidableEq ι]

/-- the kinetic energy the property names: `½ pᵀ M⁻¹ p` -/
noncomputable def specKinetic (M : Matrix ι ι ℝ) (p : ι → ℝ) : ℝ := 1 / 2 * (p ⬝ᵥ (M⁻¹ *ᵥ p))
/-- its gradient `M⁻¹ p` -/
noncomputable def specVelocity (M : Matrix ι ι ℝ) (p : ι → ℝ) : ι → ℝ := M⁻¹ *ᵥ p

/-! ### Unit -/
theorem unit_kinetic (p : ι → ℝ) : unitKinetic (realLA ι) p = specKinetic 1 p := by
  simp [unitKinetic, specKinetic, realLA, lit_half]
theorem unit_velocity (p : ι → ℝ) : unitVelocity p = specVelocity (1 : Matrix ι ι ℝ) p := by
  simp [unitVelocity, specVelocity]
theorem unit_factor (z : ι → ℝ) :
    unitMomentum z = (1 : Matrix ι ι ℝ) *ᵥ z ∧ (1 : Matrix ι ι ℝ) * (1 : Matrix ι ι ℝ)ᵀ = 1 := by
  simp [unitMomentum]

/-! ### Diagonal (all positive diagonals) -/
theorem diag_kinetic (d : ι → ℝ) (hd : ∀ i, 0 < d i) (p : ι → ℝ) :
    diagKinetic (realLA ι) (fun i => 1 / d i) p = specKinetic (Matrix.diagonal d) p := by
  have hu : IsUnit (Matrix.diagonal d).det := by
    rw [Matrix.det_diagonal]
    exact isUnit_iff_ne_zero.mpr (Finset.prod_ne_zero_iff.mpr fun i _ => (hd i).ne')
  have hinv : (Matrix.diagonal d)⁻¹ = Matrix.diagonal (fun i => 1 / d i) := by
    apply Matrix.inv_eq_right_inv
    rw [Matrix.diagonal_mul_diagonal]
    ext i j
    by_cases h : i = j
    · subst h; simp [(hd i).ne']
    · simp [h]
  simp only [diagKinetic, specKinetic, realLA, lit_half, hinv]
  congr 2
  funext i
  simp [Matrix.mulVec_diagonal]

theorem diag_velocity (d : ι → ℝ) (hd : ∀ i, 0 < d i) (p : ι → ℝ) :
    diagVelocity (realLA ι) (fun i => 1 / d i) p = specVelocity (Matrix.diagonal d) p := by
  have hinv : (Matrix.diagonal d)⁻¹ = Matrix.diagonal (fun i => 1 / d i) := by
    apply Matrix.inv_eq_right_inv
    rw [Matrix.diagonal_mul_diagonal]
    ext i j
    by_cases h : i = j
    · subst h; simp [(hd i).ne']
    · simp [h]
  funext i
  simp [diagVelocity, specVelocity, realLA, hinv, Matrix.mulVec_diagonal]

theorem diag_factor (d : ι → ℝ) (hd : ∀ i, 0 < d i) (z : ι → ℝ) :
    diagMomentum (realLA ι) (fun i => Real.sqrt (d i)) z = Matrix.diagonal (fun i => Real.sqrt (d i)) *ᵥ z ∧
    Matrix.diagonal (fun i => Real.sqrt (d i)) * (Matrix.diagonal (fun i => Real.sqrt (d i)))ᵀ = Matrix.diagonal d := by
  constructor
  · funext i; simp [diagMomentum, realLA, Matrix.mulVec_diagonal]
  · rw [Matrix.diagonal_transpose, Matrix.diagonal_mul_diagonal]
    congr 1; funext i
    exact Real.mul_self_sqrt (hd i).le

/-! ### Full: Cholesky factor and solver are library calls with their specification -/
theorem full_kinetic (M : Matrix ι ι ℝ) (solve : (ι → ℝ) → (ι → ℝ)) (hs : ∀ b, solve b = M⁻¹ *ᵥ b) (p : ι → ℝ) :
    fullKinetic (realLA ι) solve p = specKinetic M p := by
  simp [fullKinetic, specKinetic, realLA, lit_half, hs]
theorem full_velocity (M : Matrix ι ι ℝ) (solve : (ι → ℝ) → (ι → ℝ)) (hs : ∀ b, solve b = M⁻¹ *ᵥ b) (p : ι → ℝ) :
    fullVelocity solve p = specVelocity M p := by
  simp [fullVelocity, specVelocity, hs]
theorem full_factor (A : Matrix ι ι ℝ) (z : ι → ℝ) : fullMomentum (realLA ι) A z = A *ᵥ z := rfl

/-! ### the algebraic core of "momenta are exactly Gibbs-distributed for the kinetic energy used":
    `K(A z) = ½ zᵀ z` whenever `A Aᵀ = M` -/
theorem kinetic_of_momentum (M A : Matrix ι ι ℝ) (hA : A * Aᵀ = M) (hM : IsUnit M.det) (z : ι → ℝ) :
    specKinetic M (A *ᵥ z) = 1 / 2 * (z ⬝ᵥ z) := by
  have hdet : IsUnit A.det := by
    have : M.det = A.det * A.det := by rw [← hA, Matrix.det_mul, Matrix.det_transpose]
    rw [this] at hM
    exact isUnit_of_mul_isUnit_left hM
  have hAT : IsUnit (Aᵀ).det := by rwa [Matrix.det_transpose]
  have key : Aᵀ * M⁻¹ * A = 1 := by
    rw [← hA, Matrix.mul_inv_rev, ← Matrix.mul_assoc, Matrix.mul_nonsing_inv _ hAT, Matrix.one_mul,
      Matrix.nonsing_inv_mul _ hdet]
  unfold specKinetic
  congr 1
  rw [Matrix.mulVec_mulVec, Matrix.dotProduct_mulVec, Matrix.vecMul_mulVec, ← Matrix.mul_assoc, key, Matrix.vecMul_one]

/-- `kinetic_energy_gradient` *is* the gradient of `kinetic_energy`: derivative along every line -/
theorem velocity_is_gradient (M : Matrix ι ι ℝ) (hM : M.IsSymm) (p v : ι → ℝ) :
    HasDerivAt (fun t : ℝ => specKinetic M (p + t • v)) (specVelocity M p ⬝ᵥ v) 0 := by
  have hW : (M⁻¹).IsSymm := by
    unfold Matrix.IsSymm; rw [Matrix.transpose_nonsing_inv, hM.eq]
  have := quadForm_hasDerivAt (M⁻¹) hW 0 (-p) (-v)
  have e : ∀ t : ℝ, (0 : ι → ℝ) - (-p + t • -v) = p + t • v := by
    intro t; simp [smul_neg]; abel
  simp only [e] at this
  unfold specKinetic specVelocity
  refine this.congr_deriv ?_
  simp

/-! ### step size ε·f with mass M  ≡  step size ε with mass M/f² -/
section equiv
variable {V : Type} [AddCommGroup V] [Module ℝ V]

/-- simulation relation: same position, momentum scaled by 1/f -/
def Rel (f : ℝ) (a b : PS V) : Prop := b.q = a.q ∧ b.p = f⁻¹ • a.p

def scaleOp (u : ℝ) : Op ℝ → Op ℝ
  | .drift c => .drift (u * c)
  | .kick c => .kick (u * c)

theorem equivalence_step (f : ℝ) (hf : f ≠ 0) (velA : V →ₗ[ℝ] V) (grad : V → V) (a b : PS V) (o : Op ℝ)
    (h : Rel f a b) :
    Rel f (stepOp (fun p => velA p) grad id a (scaleOp f o))
          (stepOp (fun p => (f ^ 2) • velA p) grad id b o) := by
  obtain ⟨hq, hp⟩ := h
  cases o with
  | drift c =>
    refine ⟨?_, ?_⟩
    · simp only [stepOp, scaleOp, id, hq, hp, map_smul, smul_smul]
      congr 2
      field_simp
    · simp only [stepOp, id, hp, scaleOp]
  | kick c =>
    refine ⟨?_, ?_⟩
    · simp only [stepOp, scaleOp, hq]
    · simp only [stepOp, scaleOp, hq, hp, smul_sub, smul_smul]
      congr 2
      field_simp

/-- as documented: `(f·ε, M)` and `(ε, M/f²)` yield the same positions along the whole trajectory,
    from momenta `A z` and `(A/f) z` respectively (same random numbers) — for every op list -/
theorem stepsize_mass_equivalence (f : ℝ) (hf : f ≠ 0) (velA : V →ₗ[ℝ] V) (grad : V → V)
    (ops : List (Op ℝ)) (a b : PS V) (h : Rel f a b) :
    Rel f (runOps (fun p => velA p) grad id (ops.map (scaleOp f)) a)
          (runOps (fun p => (f ^ 2) • velA p) grad id ops b) := by
  induction ops generalizing a b with
  | nil => exact h
  | cons o os ih =>
    simp only [runOps, List.map_cons, List.foldl_cons]
    exact ih _ _ (equivalence_step f hf velA grad a b o h)

/-- … and the same kinetic energies (`K_B(p/f) = K_A(p)` when `W_B = f² W_A`), hence equal energy errors -/
theorem equivalence_kinetic (f : ℝ) (hf : f ≠ 0) (W : Matrix ι ι ℝ) (p : ι → ℝ) :
    1 / 2 * ((f⁻¹ • p) ⬝ᵥ (((f ^ 2) • W) *ᵥ (f⁻¹ • p))) = 1 / 2 * (p ⬝ᵥ (W *ᵥ p)) := by
  rw [Matrix.smul_mulVec, Matrix.mulVec_smul, smul_dotProduct, dotProduct_smul, dotProduct_smul]
  simp only [smul_eq_mul]
  field_simp
end equiv

/-- symmetric positive definite -/
def SPD (H : Matrix ι ι ℝ) : Prop := H.IsSymm ∧ ∀ x : ι → ℝ, x ≠ 0 → 0 < x ⬝ᵥ (H *ᵥ x)

/-- … which is Mathlib's `Matrix.PosDef` over ℝ -/
theorem spd_iff_posDef (H : Matrix ι ι ℝ) : SPD H ↔ H.PosDef := by
  rw [Matrix.posDef_iff_dotProduct_mulVec]
  constructor
  · rintro ⟨h1, h2⟩
    refine ⟨?_, fun x hx => by simpa using h2 x hx⟩
    unfold Matrix.IsHermitian; rw [Matrix.conjTranspose_eq_transpose_of_trivial]; exact h1
  · rintro ⟨h1, h2⟩
    refine ⟨?_, fun x hx => by simpa using h2 hx⟩
    unfold Matrix.IsHermitian at h1; rw [Matrix.conjTranspose_eq_transpose_of_trivial] at h1; exact h1

private theorem lit_zero : (0.0 : ℝ) = 0 := by norm_num

theorem bfgsMatrix_real (H : Matrix ι ι ℝ) (s y : ι → ℝ) :
    bfgsMatrix (realLA ι) H s y =
      if 0 < s ⬝ᵥ y then
        (1 - (1 / (s ⬝ᵥ y)) • vecMulVec s y) * H * (1 - (1 / (s ⬝ᵥ y)) • vecMulVec s y)ᵀ
          + (1 / (s ⬝ᵥ y)) • vecMulVec s s
      else H := by
  simp only [bfgsMatrix, realLA, lit_zero, lit_one, Matrix.transpose_sub, Matrix.transpose_one]

private theorem quad_conj (L H : Matrix ι ι ℝ) (x : ι → ℝ) :
    x ⬝ᵥ ((L * H * Lᵀ) *ᵥ x) = (Lᵀ *ᵥ x) ⬝ᵥ (H *ᵥ (Lᵀ *ᵥ x)) := by
  rw [← Matrix.mulVec_mulVec, ← Matrix.mulVec_mulVec, Matrix.dotProduct_mulVec x L,
    ← Matrix.mulVec_transpose]

private theorem quad_outer (s x : ι → ℝ) : x ⬝ᵥ ((vecMulVec s s) *ᵥ x) = (s ⬝ᵥ x) ^ 2 := by
  rw [Matrix.vecMulVec_mulVec, op_smul_eq_smul, dotProduct_smul, smul_eq_mul,
    dotProduct_comm x s]
  ring

/-- the BFGS update keeps the inverse metric symmetric positive definite (and leaves it unchanged
    when the curvature `sᵀy` is not positive) -/
theorem bfgs_update_spd (H : Matrix ι ι ℝ) (hH : SPD H) (s y : ι → ℝ) :
    SPD (bfgsMatrix (realLA ι) H s y) := by
  rw [bfgsMatrix_real]
  split_ifs with hsy
  · set ρ := 1 / (s ⬝ᵥ y) with hρ
    have hρpos : 0 < ρ := by positivity
    set L := (1 : Matrix ι ι ℝ) - ρ • vecMulVec s y with hL
    refine ⟨?_, ?_⟩
    · -- symmetry
      unfold Matrix.IsSymm
      rw [Matrix.transpose_add, Matrix.transpose_mul, Matrix.transpose_mul, Matrix.transpose_transpose,
        hH.1.eq, Matrix.transpose_smul, Matrix.transpose_vecMulVec, Matrix.mul_assoc]
    · intro x hx
      rw [Matrix.add_mulVec, dotProduct_add, quad_conj, Matrix.smul_mulVec, dotProduct_smul, quad_outer]
      by_cases hw : Lᵀ *ᵥ x = 0
      · -- then x is a non-zero multiple of y, so sᵀx ≠ 0
        have hsx : s ⬝ᵥ x ≠ 0 := by
          intro h0
          apply hx
          have : Lᵀ *ᵥ x = x - ρ • ((vecMulVec y s) *ᵥ x) := by
            rw [hL, Matrix.transpose_sub, Matrix.transpose_one, Matrix.transpose_smul,
              Matrix.transpose_vecMulVec, Matrix.sub_mulVec, Matrix.one_mulVec, Matrix.smul_mulVec]
          rw [this, Matrix.vecMulVec_mulVec, h0] at hw
          simpa using hw
        rw [hw]
        simp only [Matrix.mulVec_zero, dotProduct_zero, zero_add, smul_eq_mul]
        positivity
      · have h1 := hH.2 _ hw
        have h2 : 0 ≤ ρ • (s ⬝ᵥ x) ^ 2 := by
          simp only [smul_eq_mul]; positivity
        linarith
  · exact hH


/-! ### the BFGS state machine: invariant over every history of {update, accept, reject} -/

/-- the library factorisation is sound whenever it succeeds: `F Fᵀ = H⁻¹` -/
def FactorSound (factor : Matrix ι ι ℝ → Option (Matrix ι ι ℝ)) : Prop :=
  ∀ H F, factor H = some F → F * Fᵀ * H = 1

/-- metric symmetric positive definite, momentum factor consistent with it — for the live state
    and for the rollback copy -/
def Inv (st : BFGS (ι → ℝ) (Matrix ι ι ℝ)) : Prop :=
  SPD st.Minv ∧ st.F * st.Fᵀ * st.Minv = 1 ∧ SPD st.bMinv ∧ st.bF * st.bFᵀ * st.bMinv = 1

theorem inv_init (Minv F : Matrix ι ι ℝ) (m g : ι → ℝ) (h1 : SPD Minv) (h2 : F * Fᵀ * Minv = 1) :
    Inv (bfgsInit Minv F m g) := ⟨h1, h2, h1, h2⟩

theorem inv_step (factor : Matrix ι ι ℝ → Option (Matrix ι ι ℝ)) (hf : FactorSound factor)
    (st : BFGS (ι → ℝ) (Matrix ι ι ℝ)) (h : Inv st) (op : BfgsOp (ι → ℝ)) :
    Inv (bfgsStep (realLA ι) factor st op) := by
  obtain ⟨h1, h2, h3, h4⟩ := h
  cases op with
  | update m g =>
    simp only [bfgsStep, bfgsUpdate]
    split
    · rename_i F hF
      exact ⟨bfgs_update_spd _ h1 _ _, hf _ _ hF, h3, h4⟩
    · exact ⟨h1, h2, h3, h4⟩
  | accept => exact ⟨h1, h2, h1, h2⟩
  | reject => exact ⟨h3, h4, h3, h4⟩

/-- after **any** finite history of in-trajectory updates, acceptances and rejections the metric
    is symmetric positive definite and `generate_momentum` draws `F z` with `F Fᵀ = (Minv)⁻¹` -/
theorem inv_history (factor : Matrix ι ι ℝ → Option (Matrix ι ι ℝ)) (hf : FactorSound factor)
    (st : BFGS (ι → ℝ) (Matrix ι ι ℝ)) (h : Inv st) (ops : List (BfgsOp (ι → ℝ))) :
    Inv (ops.foldl (bfgsStep (realLA ι) factor) st) := by
  induction ops generalizing st with
  | nil => exact h
  | cons o os ih => exact ih _ (inv_step factor hf st h o)

/-- the same with queued updates (`update(m, g)` … `accept()`): every history over
    {direct update, queued update, accept, reject} keeps the invariant, and a rejection (or an
    acceptance) leaves no pending update behind -/
theorem inv_history_queued (factor : Matrix ι ι ℝ → Option (Matrix ι ι ℝ)) (hf : FactorSound factor)
    (s : BFGS (ι → ℝ) (Matrix ι ι ℝ) × List ((ι → ℝ) × (ι → ℝ))) (h : Inv s.1) (ops : List (BfgsQOp (ι → ℝ))) :
    Inv (ops.foldl (bfgsQStep (realLA ι) factor) s).1 := by
  induction ops generalizing s with
  | nil => exact h
  | cons o os ih =>
    apply ih
    cases o with
    | direct m g => exact inv_step factor hf s.1 h (.update m g)
    | queued m g => exact h
    | accept =>
      have hfold : Inv (s.2.foldl (fun st mg => bfgsUpdate (realLA ι) factor st mg.1 mg.2) s.1) := by
        have := inv_history factor hf s.1 h (s.2.map (fun mg => BfgsOp.update mg.1 mg.2))
        rwa [List.foldl_map] at this
      exact inv_step factor hf _ hfold .accept
    | reject => exact inv_step factor hf s.1 h .reject

theorem queue_empty_after_accept_or_reject {V M : Type} (la : LinAlg ℝ V M) (factor : M → Option M)
    (s : BFGS V M × List (V × V)) : (bfgsQStep la factor s .accept).2 = [] ∧ (bfgsQStep la factor s .reject).2 = [] :=
  ⟨rfl, rfl⟩

/-- `F Fᵀ Minv = 1` says the momentum covariance is the mass matrix `Minv⁻¹` -/
theorem factor_is_mass (Minv F : Matrix ι ι ℝ) (h : F * Fᵀ * Minv = 1) : F * Fᵀ = Minv⁻¹ :=
  (Matrix.inv_eq_left_inv h).symm

section restore
variable {V M α : Type} [Div α] [LT α] [DecidableLT α] [OfScientific α] (la : LinAlg α V M)

/-- the live part of the state (what the four public methods depend on) -/
def live (st : BFGS V M) : M × M × V × V := (st.Minv, st.F, st.m, st.g)
def saved (st : BFGS V M) : M × M × V × V := (st.bMinv, st.bF, st.bm, st.bg)

private theorem updates_keep_backup (factor : M → Option M) (st : BFGS V M) (us : List (V × V)) :
    saved (us.foldl (fun s u => bfgsUpdate la factor s u.1 u.2) st) = saved st := by
  induction us generalizing st with
  | nil => rfl
  | cons u us ih =>
    rw [List.foldl_cons, ih]
    simp only [bfgsUpdate, saved]
    split <;> rfl

/-- a rejection restores exactly the state of the last acceptance — metric, momentum factor and
    reference point — whatever in-trajectory updates happened in between -/
theorem reject_restores_last_accept (factor : M → Option M) (st : BFGS V M) (us : List (V × V)) :
    live (bfgsReject (us.foldl (fun s u => bfgsUpdate la factor s u.1 u.2) (bfgsAccept st))) = live st := by
  have h := updates_keep_backup la factor (bfgsAccept st) us
  simp only [saved, bfgsAccept, Prod.mk.injEq] at h
  simp only [live, bfgsReject, Prod.mk.injEq]
  exact h

/-- the same from the initial state -/
theorem reject_restores_initial (factor : M → Option M) (Minv F : M) (m g : V) (us : List (V × V)) :
    live (bfgsReject (us.foldl (fun s u => bfgsUpdate la factor s u.1 u.2) (bfgsInit Minv F m g)))
      = (Minv, F, m, g) := by
  have h := updates_keep_backup la factor (bfgsInit Minv F m g) us
  simp only [saved, bfgsInit, Prod.mk.injEq] at h
  simp only [live, bfgsReject, Prod.mk.injEq]
  exact h
end restore

/-! ### a rejected trajectory leaves no trace (the queue of pending updates included) -/

section prune
variable {V M α : Type} [Div α] [LT α] [DecidableLT α] [OfScientific α] (la : LinAlg α V M)

/-- an operation inside a trajectory (no accept, no reject) -/
def inTrajectory : BfgsQOp V → Bool
  | .direct _ _ => true
  | .queued _ _ => true
  | _ => false

/-- a state right after an acceptance or a rejection: the live state is the rollback point and nothing is queued -/
def CleanQ (s : BFGS V M × List (V × V)) : Prop := s.2 = [] ∧ live s.1 = saved s.1

private theorem trajectory_keeps_backup (factor : M → Option M) (s : BFGS V M × List (V × V)) (t : List (BfgsQOp V))
    (ht : ∀ o ∈ t, inTrajectory o = true) : saved (t.foldl (bfgsQStep la factor) s).1 = saved s.1 := by
  induction t generalizing s with
  | nil => rfl
  | cons o os ih =>
    rw [List.foldl_cons, ih _ (fun o' h => ht o' (List.mem_cons_of_mem _ h))]
    have ho := ht o List.mem_cons_self
    cases o with
    | direct m g =>
      simp only [bfgsQStep, bfgsUpdate, saved]
      split <;> rfl
    | queued m g => rfl
    | accept => simp [inTrajectory] at ho
    | reject => simp [inTrajectory] at ho

/-- **a rejected trajectory leaves no trace**: from a state right after an acceptance or rejection, any
    trajectory of in-trajectory and queued updates followed by `reject()` ends in exactly that state
    again - live metric, momentum factor, reference point, rollback point and (empty) queue -/
theorem rejected_trajectory_leaves_no_trace (factor : M → Option M) (s : BFGS V M × List (V × V)) (hc : CleanQ s)
    (t : List (BfgsQOp V)) (ht : ∀ o ∈ t, inTrajectory o = true) :
    (t ++ [BfgsQOp.reject]).foldl (bfgsQStep la factor) s = s := by
  obtain ⟨hq, hl⟩ := hc
  have hb := trajectory_keeps_backup la factor s t ht
  rw [List.foldl_append]
  simp only [List.foldl_cons, List.foldl_nil, bfgsQStep]
  obtain ⟨st, q⟩ := s
  simp only at hq hl hb ⊢
  subst hq
  congr 1
  simp only [saved, Prod.mk.injEq] at hb
  simp only [live, saved, Prod.mk.injEq] at hl
  obtain ⟨h1, h2, h3, h4⟩ := hb
  obtain ⟨l1, l2, l3, l4⟩ := hl
  cases st
  simp only [bfgsReject] at *
  simp_all

/-- hence a history may be pruned: the rest of a history behaves the same whether or not a rejected
    trajectory preceded it -/
theorem history_without_rejected_trajectory (factor : M → Option M) (s : BFGS V M × List (V × V)) (hc : CleanQ s)
    (t rest : List (BfgsQOp V)) (ht : ∀ o ∈ t, inTrajectory o = true) :
    (t ++ [BfgsQOp.reject] ++ rest).foldl (bfgsQStep la factor) s = rest.foldl (bfgsQStep la factor) s := by
  rw [List.foldl_append, rejected_trajectory_leaves_no_trace la factor s hc t ht]

/-- accept and reject both lead to such a state, and so does construction -/
theorem clean_after_accept_or_reject (factor : M → Option M) (s : BFGS V M × List (V × V)) :
    CleanQ (bfgsQStep la factor s .accept) ∧ CleanQ (bfgsQStep la factor s .reject) := by
  constructor <;> exact ⟨rfl, rfl⟩
theorem clean_init (Minv F : M) (m g : V) : CleanQ ((bfgsInit Minv F m g : BFGS V M), ([] : List (V × V))) := ⟨rfl, rfl⟩
end prune

/-! ### non-vacuity -/
example : SPD (1 : Matrix (Fin 2) (Fin 2) ℝ) := by
  refine ⟨Matrix.isSymm_one, fun x hx => ?_⟩
  rw [Matrix.one_mulVec]
  have : x ⬝ᵥ x ≠ 0 := fun h => hx (dotProduct_self_eq_zero.mp h)
  have h2 : 0 ≤ x ⬝ᵥ x := by
    simp only [dotProduct]; exact Finset.sum_nonneg fun i _ => mul_self_nonneg _
  exact lt_of_le_of_ne h2 (Ne.symm this)

end C03
end HmcVerif
