import HmcVerif.Model.Loop
import HmcVerif.Model.Metropolis
import HmcVerif.Props.C08
import HmcVerif.Props.C02
import Mathlib.Data.List.Basic
import Mathlib.Tactic.Linarith
/-
  C07 — the samples file is the chain: thinned states with their own misfits
  (models: Model/Loop.lean, Model/Store.lean, Model/Metropolis.lean).
-/
set_option linter.unusedSectionVars false
namespace HmcVerif
namespace C07
variable {C τ : Type} (clock : Nat → τ) (fast slow : τ → τ → Bool)

/-- proposals whose state is stored: the indices `i < P` with `i % t = 0` -/
def storedIdx (t P : Nat) : List Nat := (List.range P).filter (fun i => i % t = 0)

private theorem stored_proposal (col : Nat → C) (ncalls : Nat → Nat) (t i : Nat) :
    C08.stored col (proposalEvents ncalls t i) = if i % t = 0 then [col i] else [] := by
  unfold proposalEvents
  have hcalls : ∀ n, C08.stored col (List.replicate n (Ev.call i)) = [] := by
    intro n; induction n with
    | zero => rfl
    | succ k ih => simp [List.replicate_succ, C08.stored, ih]
  have happ : ∀ a b : List Ev, C08.stored col (a ++ b) = C08.stored col a ++ C08.stored col b := by
    intro a b
    induction a with
    | nil => rfl
    | cons e es ih => cases e <;> simp [C08.stored, ih]
  rw [happ, happ, hcalls]
  split <;> simp [C08.stored]

private theorem stored_trace_range (col : Nat → C) (ncalls : Nat → Nat) (t : Nat) (l : List Nat) :
    C08.stored col (l.flatMap (proposalEvents ncalls t)) = (l.filter (fun i => i % t = 0)).map col := by
  have happ : ∀ a b : List Ev, C08.stored col (a ++ b) = C08.stored col a ++ C08.stored col b := by
    intro a b
    induction a with
    | nil => rfl
    | cons e es ih => cases e <;> simp [C08.stored, ih]
  induction l with
  | nil => rfl
  | cons i is ih =>
    rw [List.flatMap_cons, happ, ih, stored_proposal]
    by_cases h : i % t = 0 <;> simp [List.filter_cons, h]

/-- the file of an uninterrupted run holds exactly the states after the proposals `i` with
    `i % t = 0`, in order -/
theorem file_is_thinned_chain (col : Nat → C) (ncalls : Nat → Nat) (t P : Nat) :
    (runFree clock fast slow col ncalls t P).columns = (storedIdx t P).map col ∧
    (runFree clock fast slow col ncalls t P).writeIndex = (storedIdx t P).length := by
  have h := C08.finish_spec clock fast slow col (trace ncalls t P) true
  unfold runFree
  rw [h.1, h.2.1]
  unfold trace storedIdx
  rw [stored_trace_range]
  simp

/-- with `t ∣ P` the stored proposals are `0, t, 2t, …, (P/t − 1)·t` -/
theorem storedIdx_multiples (t P : Nat) (ht : 0 < t) (hd : t ∣ P) :
    storedIdx t P = (List.range (P / t)).map (fun j => j * t) := by
  obtain ⟨m, rfl⟩ := hd
  rw [Nat.mul_div_cancel_left m ht]
  unfold storedIdx
  induction m with
  | zero => simp
  | succ k ih =>
    have : t * (k + 1) = t * k + t := by ring
    rw [this, List.range_add, List.filter_append, ih, List.range_succ, List.map_append]
    congr 1
    -- among t*k, …, t*k + t − 1 only the first is a multiple of t
    have : (List.map (fun x => t * k + x) (List.range t)).filter (fun i => i % t = 0) = [k * t] := by
      cases t with
      | zero => omega
      | succ u =>
        rw [List.range_succ_eq_map, List.map_cons, List.filter_cons]
        have h0 : ((u + 1) * k + 0) % (u + 1) = 0 := by simp
        simp only [h0, decide_true, if_true]
        congr 1
        · ring
        · rw [List.filter_eq_nil_iff]
          intro x hx
          simp only [List.mem_map, List.mem_range] at hx
          obtain ⟨y, ⟨z, hz, rfl⟩, rfl⟩ := hx
          simp only [decide_eq_true_eq]
          rw [Nat.mul_add_mod]
          rw [Nat.mod_eq_of_lt (by omega)]
          omega
    simpa using this

/-- after `P` proposals with thinning `t ∣ P` the file holds exactly `P / t` columns, and column
    `j` is the chain state after proposal `j·t` -/
theorem columns_are_multiples (col : Nat → C) (ncalls : Nat → Nat) (t P : Nat) (ht : 0 < t) (hd : t ∣ P) :
    (runFree clock fast slow col ncalls t P).columns = (List.range (P / t)).map (fun j => col (j * t)) ∧
    (runFree clock fast slow col ncalls t P).columns.length = P / t ∧
    (runFree clock fast slow col ncalls t P).writeIndex = P / t := by
  have h := file_is_thinned_chain clock fast slow col ncalls t P
  rw [storedIdx_multiples t P ht hd] at h
  refine ⟨by rw [h.1, List.map_map]; rfl, by rw [h.1]; simp, by rw [h.2]; simp⟩

/-- a run with thinning `t` equals every `t`-th column of the unthinned run with the same seed
    (same `col`): column `j` of the thinned file is column `j·t` of the unthinned one -/
theorem thinning_is_subsequence (col : Nat → C) (ncalls ncalls' : Nat → Nat) (t P : Nat) (ht : 0 < t) (hd : t ∣ P)
    (j : Nat) (hj : j < P / t) :
    (runFree clock fast slow col ncalls t P).columns[j]?
      = (runFree clock fast slow col ncalls' 1 P).columns[j * t]? := by
  have h1 := (columns_are_multiples clock fast slow col ncalls t P ht hd).1
  have h2 := (columns_are_multiples clock fast slow col ncalls' 1 P Nat.one_pos (Nat.one_dvd P)).1
  rw [h1, h2]
  have hjt : j * t < P := by
    calc j * t < (P / t) * t := Nat.mul_lt_mul_of_pos_right hj ht
      _ ≤ P := Nat.div_mul_le_self P t
  simp [hj, hjt]

/-- the stored misfit is the target's misfit at exactly the stored state (RWMH chain; the HMC
    statement is C02.hmc_carried_misfit_is_own) -/
theorem stored_misfit_is_own_rwmh {V α : Type} [Sub α] [LT α] [DecidableLT α] [Add V]
    (exp : α → α) (misfit : V → α) (scale : V → V) (s0 : Chain V α) (h0 : s0.x = misfit s0.model)
    (draws : List (V × α)) (i : Nat) :
    let s := rwmhRun exp misfit scale s0 (draws.take (i + 1))
    s.x = misfit s.model :=
  C02.rwmh_carried_misfit_is_own exp misfit scale s0 h0 _

/-- acceptance rate written at close = accepted / completed proposals -/
theorem close_rate (accepted completed : Nat) (h : 0 < completed) :
    closeAcceptanceRate (fun n => (n : ℚ)) accepted completed = (accepted : ℚ) / completed := by
  simp [closeAcceptanceRate, Nat.pos_iff_ne_zero.mp h]

/-! ### the file describes the run, not the object's past -/

/-- a run on an object with any past writes the file a fresh object writes when started from the
    same generator state (structural in the model: `_init_sampler` reads nothing but the generator;
    the force of this statement on hmclab comes from the C07.reuse correspondence, which runs both) -/
theorem reuse_eq_fresh {A R L F : Type} (run : A → R → F × R × L) (o : SamplerObj R L) (l' : L) (a : A) :
    (sampleCall run o a).1 = (sampleCall run { rng := o.rng, left := l' } a).1 := rfl

/-- … after any history of earlier calls: the last file of a session is the file of a fresh object
    started from the generator state the earlier calls ended in -/
theorem session_last_file {A R L F : Type} (run : A → R → F × R × L) (o : SamplerObj R L) (hist : List A) (a : A) (l' : L) :
    (session run o (hist ++ [a])).1.getLast? =
      some (sampleCall run { rng := (session run o hist).2.rng, left := l' } a).1 := by
  induction hist generalizing o with
  | nil => simp [session, sampleCall]
  | cons h rest ih =>
    have := ih (sampleCall run o h).2
    simp only [List.cons_append, session]
    rw [List.getLast?_cons_of_ne_nil ?_]
    · exact this
    · intro hnil
      rw [hnil] at this
      simp at this

/-! ### non-vacuity -/
example : storedIdx 3 12 = [0, 3, 6, 9] := by decide
example : (3 : Nat) ∣ 12 ∧ 0 < 3 := by decide

end C07
end HmcVerif
