import HmcVerif.Model.Tempering
import HmcVerif.Real.AsyncThm
import Mathlib.Tactic.Linarith
import Mathlib.Data.List.Basic
/-
  C12 — parallel tempering exchanges conserve states, obey the swap rule, terminate.
  Models: Model/Async.lean (processes, FIFO channels, every interleaving), Model/Tempering.lean (the
  choreography of kernels, exchanges and appends). Real/AsyncThm.lean proves, for the projections of
  any well-formed choreography: termination, deadlock-freedom and schedule-independence.
-/
set_option linter.unusedSectionVars false
namespace HmcVerif
namespace C12
open Async Tempering

variable {V α : Type} [Sub α] [Add α] [LT α] [DecidableLT α] [DecidableEq V]

/-! ### the exchange block, executed in program order -/

/-- the Metropolis swap rule of the property: `u < exp(Δ_master + Δ_slave)` with the two misfit improvements -/
def swapRule (exp : α → α) (misfit : Nat → V → α) (s m : Nat) (u : α) (st : Nat → ChainSt V α) : Prop :=
  u < exp (((st m).x - misfit m (st s).model) + ((st s).x - misfit s (st m).model))

instance (exp : α → α) (misfit : Nat → V → α) (s m : Nat) (u : α) (st : Nat → ChainSt V α) :
    Decidable (swapRule exp misfit s m u st) := by unfold swapRule; infer_instance

/-- at a scheduled exchange the two chains either both keep or exactly swap their states, the swap
    happening exactly when the rule holds -/
theorem pair_keeps_or_swaps (exp : α → α) (misfit : Nat → V → α) (s m : Nat) (hsm : s ≠ m) (u : α) (st : Nat → ChainSt V α) :
    let st' := seqRun (exchangeBlock exp misfit s m u) st
    (swapRule exp misfit s m u st → (st' s).model = (st m).model ∧ (st' m).model = (st s).model) ∧
    (¬ swapRule exp misfit s m u st → (st' s).model = (st s).model ∧ (st' m).model = (st m).model) := by
  have hms : m ≠ s := fun h => hsm h.symm
  simp only [exchangeBlock, seqRun, swapRule, upd, hsm, hms, if_true, if_false, msgModel, msgDelta]
  constructor
  · intro h
    simp only [h, if_true]
    constructor
    · first | trivial | rfl | (split_ifs <;> first | rfl | trivial)
    · first | rfl | trivial
  · intro h
    simp only [h, if_false]
    constructor
    · first | trivial | rfl | (split_ifs <;> first | rfl | trivial)
    · first | rfl | trivial

/-- every stored misfit — and the energy used by the next transition — is the chain's own target
    misfit of the state it now holds -/
theorem stored_misfit_is_own (exp : α → α) (misfit : Nat → V → α) (s m : Nat) (hsm : s ≠ m) (u : α) (st : Nat → ChainSt V α)
    (hs : (st s).x = misfit s (st s).model) (hm : (st m).x = misfit m (st m).model) :
    let st' := seqRun (exchangeBlock exp misfit s m u) st
    (st' s).x = misfit s (st' s).model ∧ (st' m).x = misfit m (st' m).model := by
  have hms : m ≠ s := fun h => hsm h.symm
  simp only [exchangeBlock, seqRun, upd, hsm, hms, if_true, if_false, msgModel, msgDelta]
  by_cases h : u < exp ((st m).x - misfit m (st s).model + ((st s).x - misfit s (st m).model))
  · simp only [h, if_true]
    constructor
    · first | trivial | (split_ifs <;> simp_all)
    · first | trivial | rfl
  · simp only [h, if_false]
    constructor
    · split_ifs with h2
      · first | trivial | (simp only; rw [h2])
      · first | trivial | exact hs
    · first | trivial | exact hm

/-- the exchange touches nothing but the two chains' states: no column is added or lost, and every
    other chain is unaffected -/
theorem exchange_frame (exp : α → α) (misfit : Nat → V → α) (s m : Nat) (hsm : s ≠ m) (u : α) (st : Nat → ChainSt V α) :
    let st' := seqRun (exchangeBlock exp misfit s m u) st
    (st' s).cols = (st s).cols ∧ (st' m).cols = (st m).cols ∧ ∀ p, p ≠ s → p ≠ m → st' p = st p := by
  have hms : m ≠ s := fun h => hsm h.symm
  simp only [exchangeBlock, seqRun, upd, hsm, hms, if_true, if_false, msgModel, msgDelta]
  refine ⟨?_, ?_, ?_⟩
  · split_ifs <;> rfl
  · split_ifs <;> rfl
  · intro p hps hpm
    simp [hps, hpm]

/-! ### the schedule has a row for every exchange proposal (dividing interval or not) -/

theorem row_available (P I k : Nat) (hI : 0 < I) (hk : k < P) : k / I < rowsNeeded P I := by
  unfold rowsNeeded
  rw [Nat.div_lt_iff_lt_mul hI]
  have h1 : (P + I - 1) / I * I + (P + I - 1) % I = P + I - 1 := Nat.div_add_mod' _ _
  have h2 : (P + I - 1) % I < I := Nat.mod_lt _ hI
  omega

/-! ### every interleaving -/

/-- communications are between distinct chains when every scheduled pair is -/
def SchedOK (sched : Nat → List Nat) : Prop := ∀ r, ∀ sm ∈ pairs (sched r), sm.1 ≠ sm.2

private theorem wf_append (a b : List (GEv (ChainSt V α) (TMsg V α))) (ha : WellFormed a) (hb : WellFormed b) : WellFormed (a ++ b) := by
  induction a with
  | nil => exact hb
  | cons e es ih =>
    cases e with
    | loc i f => exact ih ha
    | comm i j mk uf => exact ⟨ha.1, ih ha.2⟩

private theorem wf_locs (l : List Nat) (f : Nat → ChainSt V α → ChainSt V α) :
    WellFormed ((l.map (fun i => GEv.loc i (f i))) : List (GEv (ChainSt V α) (TMsg V α))) := by
  induction l with
  | nil => trivial
  | cons i is ih => exact ih

private theorem wf_flatten (ls : List (List (GEv (ChainSt V α) (TMsg V α)))) (h : ∀ l ∈ ls, WellFormed l) : WellFormed ls.flatten := by
  induction ls with
  | nil => trivial
  | cons l rest ih =>
    rw [List.flatten_cons]
    exact wf_append _ _ (h l (List.mem_cons_self)) (ih (fun l' hl' => h l' (List.mem_cons_of_mem _ hl')))

theorem script_wellFormed (exp : α → α) (misfit : Nat → V → α) (kern : Nat → Nat → V × α → V × α) (udraw : Nat → Nat → α)
    (n P I : Nat) (sched : Nat → List Nat) (hs : SchedOK sched) :
    WellFormed (script exp misfit kern udraw n P I sched) := by
  unfold script
  apply wf_flatten
  intro l hl
  simp only [List.mem_map, List.mem_range] at hl
  obtain ⟨k, _, rfl⟩ := hl
  unfold proposalScript
  apply wf_append
  · apply wf_append
    · exact wf_locs _ _
    · split_ifs
      · apply wf_flatten
        intro l hl
        simp only [List.mem_map] at hl
        obtain ⟨sm, hsm, rfl⟩ := hl
        have := hs _ sm hsm
        exact ⟨this, fun h => this h.symm, this, fun h => this h.symm, trivial⟩
      · trivial
  · exact wf_locs _ _

/-- **for all chain counts, proposal counts, exchange intervals, schedules, kernels and targets, and
    for every interleaving of the chains' send/receive/compute steps**: the run terminates (no
    execution is longer than the canonical one), never deadlocks (every reachable state is finished
    or has an enabled chain), and every maximal execution ends with empty pipes and exactly the
    stores of the sequential reference run — the result does not depend on how the operating system
    schedules the processes. -/
theorem tempering_all_interleavings (cap : Option Nat) (exp : α → α) (misfit : Nat → V → α) (kern : Nat → Nat → V × α → V × α) (udraw : Nat → Nat → α)
    (n P I : Nat) (sched : Nat → List Nat) (hs : SchedOK sched) (st : Nat → ChainSt V α)
    (osSchedule : List Nat) (u : Sys (ChainSt V α) (TMsg V α))
    (hu : runSched cap (initSys (script exp misfit kern udraw n P I sched) st) osSchedule = some u) :
    osSchedule.length ≤ (canonicalSched (script exp misfit kern udraw n P I sched)).length ∧
    (u = doneSys (seqRun (script exp misfit kern udraw n P I sched) st) ∨ ∃ i u', stepP cap u i = some u') ∧
    ((∀ i, stepP cap u i = none) → u = doneSys (seqRun (script exp misfit kern udraw n P I sched) st)) :=
  choreography_all_interleavings cap _ (script_wellFormed exp misfit kern udraw n P I sched hs) st osSchedule u hu

/-! ### why the order of send and receive inside an exchange matters

  `tempering_all_interleavings` holds for **every** pipe capacity because in hmclab's protocol one
  side of a pair always receives while the other sends. A protocol in which both chains of a pair
  first send their model and then receive the other's is fine while the models fit into the pipe
  buffer, and deadlocks as soon as they do not (capacity 0 = a send completes only while the
  receiver receives). -/

/-- two processes that both send first and receive second -/
def symmetricSend : Sys Unit Unit :=
  { prog := fun p => if p = 0 then [Act.send 1 (fun _ => ()), Act.recv 1 (fun s _ => s)]
                     else if p = 1 then [Act.send 0 (fun _ => ()), Act.recv 0 (fun s _ => s)] else [],
    store := fun _ => (), chan := fun _ _ => [] }

/-- with room in the pipes the symmetric protocol completes … -/
theorem symmetric_send_completes_when_buffered :
    ∃ t, runSched none symmetricSend [0, 1, 0, 1] = some t ∧ ∀ i, t.prog i = [] := by
  refine ⟨_, rfl, ?_⟩
  intro i
  by_cases h0 : i = 0
  · subst h0; simp [upd]
  · by_cases h1 : i = 1
    · subst h1; simp [upd]
    · simp [upd, h0, h1, symmetricSend]

/-- … and without room it is stuck at once: nobody can move and nobody is finished -/
theorem symmetric_send_deadlocks :
    (∀ i, stepP (some 0) symmetricSend i = none) ∧ symmetricSend.prog 0 ≠ [] ∧ symmetricSend.prog 1 ≠ [] := by
  refine ⟨?_, by simp [symmetricSend], by simp [symmetricSend]⟩
  intro i
  by_cases h0 : i = 0
  · subst h0; simp [stepP, symmetricSend, sendOk, room, headIsRecvFrom]
  · by_cases h1 : i = 1
    · subst h1; simp [stepP, symmetricSend, sendOk, room, headIsRecvFrom]
    · simp [stepP, symmetricSend, h0, h1]

/-! ### a chain that leaves its loop early (its own `max_time`, an exception of its target)

  The theorems above are about chains that all run the whole schedule. The choreography has no
  message for "I have stopped": a chain that ends before a scheduled exchange leaves its partner
  in a receive that nobody will ever answer, whatever the capacity of the pipes (a negative theorem;
  the witness - two chains with different time limits - is replayed on hmclab by the harness and
  recorded in known_findings.json). -/

/-- chain 0 has stopped before the exchange; chain 1, the master of the pair, waits for its state -/
def partnerStopped : Sys Unit Unit :=
  { prog := fun p => if p = 1 then [Act.recv 0 (fun s _ => s), Act.send 0 (fun _ => ())] else [],
    store := fun _ => (), chan := fun _ _ => [] }

theorem stopped_partner_blocks_forever (cap : Option Nat) :
    (∀ i, stepP cap partnerStopped i = none) ∧ partnerStopped.prog 1 ≠ [] := by
  refine ⟨?_, by simp [partnerStopped]⟩
  intro i
  by_cases h1 : i = 1
  · subst h1; simp [stepP, partnerStopped]
  · simp [stepP, partnerStopped, h1]

/-! ### the reference run writes exactly `P` columns per chain -/

private theorem seqRun_append (a b : List (GEv (ChainSt V α) (TMsg V α))) (st : Nat → ChainSt V α) :
    seqRun (a ++ b) st = seqRun b (seqRun a st) := by
  induction a generalizing st with
  | nil => rfl
  | cons e es ih => cases e <;> simp [seqRun, ih]

/-- number of columns of chain `i` -/
def ncols (st : Nat → ChainSt V α) (i : Nat) : Nat := (st i).cols.length

private theorem kernels_cols (kern : Nat → Nat → V × α → V × α) (k : Nat) (l : List Nat) (st : Nat → ChainSt V α) (i : Nat) :
    ncols (seqRun ((l.map (fun i => GEv.loc i (fun st : ChainSt V α => let r := kern i k (st.model, st.x); { st with model := r.1, x := r.2 })))
      : List (GEv (ChainSt V α) (TMsg V α))) st) i = ncols st i := by
  induction l generalizing st with
  | nil => rfl
  | cons j js ih =>
    simp only [List.map_cons, seqRun]
    rw [ih]
    simp only [ncols, upd]
    split_ifs with h
    · subst h; rfl
    · rfl

private theorem appends_cols (l : List Nat) (hl : l.Nodup) (st : Nat → ChainSt V α) (i : Nat) :
    ncols (seqRun ((l.map (fun i => GEv.loc i (fun st : ChainSt V α => { st with cols := st.cols ++ [(st.model, st.x)] })))
      : List (GEv (ChainSt V α) (TMsg V α))) st) i = ncols st i + (if i ∈ l then 1 else 0) := by
  induction l generalizing st with
  | nil => simp [seqRun]
  | cons j js ih =>
    simp only [List.map_cons, seqRun]
    rw [ih (List.nodup_cons.mp hl).2]
    have hj : j ∉ js := (List.nodup_cons.mp hl).1
    simp only [ncols, upd, List.mem_cons]
    by_cases h : i = j
    · subst h; simp [hj]
    · simp [h]

private theorem exchanges_cols (exp : α → α) (misfit : Nat → V → α) (udraw : Nat → Nat → α) (k : Nat)
    (ps : List (Nat × Nat)) (hp : ∀ sm ∈ ps, sm.1 ≠ sm.2) (st : Nat → ChainSt V α) (i : Nat) :
    ncols (seqRun ((ps.map (fun sm => exchangeBlock exp misfit sm.1 sm.2 (udraw sm.2 k))).flatten) st) i = ncols st i := by
  induction ps generalizing st with
  | nil => rfl
  | cons sm rest ih =>
    simp only [List.map_cons, List.flatten_cons, seqRun_append]
    rw [ih (fun x hx => hp x (List.mem_cons_of_mem _ hx))]
    have hne := hp sm (List.mem_cons_self)
    have hf := exchange_frame exp misfit sm.1 sm.2 hne (udraw sm.2 k) st
    simp only [ncols]
    by_cases h1 : i = sm.1
    · subst h1; rw [hf.1]
    · by_cases h2 : i = sm.2
      · subst h2; rw [hf.2.1]
      · rw [hf.2.2 i h1 h2]

private theorem proposal_cols (exp : α → α) (misfit : Nat → V → α) (kern : Nat → Nat → V × α → V × α) (udraw : Nat → Nat → α)
    (n I : Nat) (sched : Nat → List Nat) (hs : SchedOK sched) (k : Nat) (st : Nat → ChainSt V α) (i : Nat) (hi : i < n) :
    ncols (seqRun (proposalScript exp misfit kern udraw n I sched k) st) i = ncols st i + 1 := by
  unfold proposalScript
  rw [seqRun_append, seqRun_append, appends_cols _ (List.nodup_range) _ i]
  have hmem : i ∈ List.range n := List.mem_range.mpr hi
  simp only [hmem, if_true]
  split_ifs
  · rw [exchanges_cols exp misfit udraw k _ (hs _), kernels_cols]
  · simp only [seqRun]; rw [kernels_cols]

private theorem proposals_cols (exp : α → α) (misfit : Nat → V → α) (kern : Nat → Nat → V × α → V × α) (udraw : Nat → Nat → α)
    (n I : Nat) (sched : Nat → List Nat) (hs : SchedOK sched) (ks : List Nat) (st : Nat → ChainSt V α) (i : Nat) (hi : i < n) :
    ncols (seqRun ((ks.map (proposalScript exp misfit kern udraw n I sched)).flatten) st) i = ncols st i + ks.length := by
  induction ks generalizing st with
  | nil => rfl
  | cons k rest ih =>
    rw [List.map_cons, List.flatten_cons, seqRun_append, ih, proposal_cols exp misfit kern udraw n I sched hs k st i hi]
    simp only [List.length_cons]; omega

/-- **exactly `proposals` columns per chain**, for every number of chains, every proposal count and
    every exchange interval — dividing the proposal count or not, exchange on or off (`I = 0`) -/
theorem columns_per_chain (exp : α → α) (misfit : Nat → V → α) (kern : Nat → Nat → V × α → V × α) (udraw : Nat → Nat → α)
    (n P I : Nat) (sched : Nat → List Nat) (hs : SchedOK sched) (st : Nat → ChainSt V α) (i : Nat) (hi : i < n) :
    ncols (seqRun (script exp misfit kern udraw n P I sched) st) i = ncols st i + P := by
  unfold script
  rw [proposals_cols exp misfit kern udraw n I sched hs _ st i hi, List.length_range]

/-! ### non-vacuity: two chains, a schedule that pairs them -/
example : SchedOK (fun _ => [0, 1]) := by
  intro r sm h; simp [pairs] at h; subst h; decide
example : rowsNeeded 10 3 = 4 := by decide

end C12
end HmcVerif
