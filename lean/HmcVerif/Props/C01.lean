import HmcVerif.Model.Integrator
import HmcVerif.Real.Split
import HmcVerif.Real.Lit
import HmcVerif.Real.Reflect
import HmcVerif.Real.Fold
import HmcVerif.Real.Volume
import HmcVerif.Real.FoldVolume
import Mathlib.Algebra.Module.Basic
import Mathlib.Tactic.Ring
import Mathlib.Tactic.NormNum
import Mathlib.Tactic.Abel
import Mathlib.Tactic.Linarith
import Mathlib.Data.Real.Basic
import Mathlib.Algebra.BigOperators.Group.List.Basic
/-
  C01 — HMC integrators are reversible, volume-preserving splitting schemes.
  Statements are about the model in Model/Integrator.lean — the same definitions the driver
  executes at `Float` and the harness compares with hmclab on every run.
-/
set_option linter.unusedSectionVars false
set_option linter.unusedSimpArgs false
open MeasureTheory
namespace HmcVerif
namespace C01

/-! ### 1. The schedules are palindromes (any scalar type: purely structural), and
    ### 2. position-update and momentum-update times each sum to `n * h` (over ℝ) -/

private theorem flatten_replicate_reverse {β : Type} (l : List β) (h : l.reverse = l) (n : Nat) :
    (List.replicate n l).flatten.reverse = (List.replicate n l).flatten := by
  rw [List.reverse_flatten, List.map_replicate, h, List.reverse_replicate]

section palin
variable {α : Type} [Sub α] [Mul α] [OfScientific α]

private theorem kd_block_reverse (h : α) (m : Nat) :
    ((List.replicate m [Op.kick h, Op.drift h]).flatten).reverse
      = (List.replicate m [Op.drift h, Op.kick h]).flatten := by
  rw [List.reverse_flatten, List.map_replicate, List.reverse_replicate]
  rfl

private theorem key (h : α) (m : Nat) : (Op.kick h :: (List.replicate m [Op.drift h, Op.kick h]).flatten)
      = (List.replicate m [Op.kick h, Op.drift h]).flatten ++ [Op.kick h] := by
    induction m with
    | zero => rfl
    | succ k ih =>
      simp only [List.replicate_succ, List.flatten_cons, List.cons_append, List.nil_append]
      rw [ih]

theorem lf_schedule_palindrome (h : α) (n : Nat) :
    (lfSchedule h n).reverse = lfSchedule h n := by
  unfold lfSchedule
  simp only [List.reverse_append, List.reverse_cons, List.reverse_nil, List.nil_append,
    List.cons_append, kd_block_reverse, List.append_assoc]
  congr 1
  rw [← List.cons_append, key]
  simp
end palin

def Op.driftC : Op ℝ → ℝ | .drift c => c | .kick _ => 0
def Op.kickC : Op ℝ → ℝ | .drift _ => 0 | .kick c => c
def driftTime (ops : List (Op ℝ)) : ℝ := (ops.map Op.driftC).sum
def kickTime (ops : List (Op ℝ)) : ℝ := (ops.map Op.kickC).sum

private theorem driftTime_append (a b : List (Op ℝ)) : driftTime (a ++ b) = driftTime a + driftTime b := by
  simp [driftTime]
private theorem kickTime_append (a b : List (Op ℝ)) : kickTime (a ++ b) = kickTime a + kickTime b := by
  simp [kickTime]

private theorem driftTime_replicate (l : List (Op ℝ)) (n : Nat) :
    driftTime (List.replicate n l).flatten = n * driftTime l := by
  induction n with
  | zero => simp [driftTime]
  | succ k ih =>
    rw [List.replicate_succ, List.flatten_cons, driftTime_append, ih]; push_cast; ring
private theorem kickTime_replicate (l : List (Op ℝ)) (n : Nat) :
    kickTime (List.replicate n l).flatten = n * kickTime l := by
  induction n with
  | zero => simp [kickTime]
  | succ k ih =>
    rw [List.replicate_succ, List.flatten_cons, kickTime_append, ih]; push_cast; ring

theorem lf_time_sums (h : ℝ) (n : Nat) (hn : 1 ≤ n) :
    driftTime (lfSchedule h n) = n * h ∧ kickTime (lfSchedule h n) = n * h := by
  obtain ⟨m, rfl⟩ : ∃ m, n = m + 1 := ⟨n - 1, by omega⟩
  unfold lfSchedule
  simp only [Nat.add_sub_cancel, driftTime_append, kickTime_append, driftTime_replicate,
    kickTime_replicate]
  constructor
  · simp [driftTime, Op.driftC]; norm_num; ring
  · simp [kickTime, Op.kickC]; ring

theorem stage3_times (a1 b1 h : ℝ) :
    driftTime (stage3 (a1 * h) ((0.5 - a1) * h) (b1 * h) ((1.0 - 2.0 * b1) * h)) = h ∧
    kickTime (stage3 (a1 * h) ((0.5 - a1) * h) (b1 * h) ((1.0 - 2.0 * b1) * h)) = h := by
  constructor
  · simp only [driftTime, stage3, Op.driftC, List.map_cons, List.map_nil, List.sum_cons, List.sum_nil]
    norm_num; ring
  · simp only [kickTime, stage3, Op.kickC, List.map_cons, List.map_nil, List.sum_cons, List.sum_nil]
    norm_num; ring

theorem s3_time_sums (a1 b1 h : ℝ) (n : Nat) :
    driftTime (s3Schedule a1 b1 h n) = n * h ∧ kickTime (s3Schedule a1 b1 h n) = n * h := by
  unfold s3Schedule
  simp only [driftTime_replicate, kickTime_replicate, (stage3_times a1 b1 h).1, (stage3_times a1 b1 h).2]
  exact ⟨trivial, trivial⟩

theorem stage4_times (a1 a2 b1 h : ℝ) :
    driftTime (stage4 (a1 * h) (a2 * h) ((1.0 - 2.0 * a1 - 2.0 * a2) * h) (b1 * h) ((0.5 - b1) * h)) = h ∧
    kickTime (stage4 (a1 * h) (a2 * h) ((1.0 - 2.0 * a1 - 2.0 * a2) * h) (b1 * h) ((0.5 - b1) * h)) = h := by
  constructor
  · simp only [driftTime, stage4, Op.driftC, List.map_cons, List.map_nil, List.sum_cons, List.sum_nil]
    norm_num; ring
  · simp only [kickTime, stage4, Op.kickC, List.map_cons, List.map_nil, List.sum_cons, List.sum_nil]
    norm_num; ring

theorem s4_time_sums (a1 a2 b1 h : ℝ) (n : Nat) :
    driftTime (s4Schedule a1 a2 b1 h n) = n * h ∧ kickTime (s4Schedule a1 a2 b1 h n) = n * h := by
  unfold s4Schedule
  simp only [driftTime_replicate, kickTime_replicate, (stage4_times a1 a2 b1 h).1, (stage4_times a1 a2 b1 h).2]
  exact ⟨trivial, trivial⟩

section palin2
variable {α : Type} [Sub α] [Mul α] [OfScientific α]
theorem stage3_palindrome (a1 a2 b1 b2 : α) :
    (stage3 a1 a2 b1 b2).reverse = stage3 a1 a2 b1 b2 := rfl
theorem stage4_palindrome (a1 a2 a3 b1 b2 : α) :
    (stage4 a1 a2 a3 b1 b2).reverse = stage4 a1 a2 a3 b1 b2 := rfl
theorem s3_schedule_palindrome (a1 b1 h : α) (n : Nat) :
    (s3Schedule a1 b1 h n).reverse = s3Schedule a1 b1 h n := by
  unfold s3Schedule
  exact flatten_replicate_reverse _ (stage3_palindrome _ _ _ _) n
theorem s4_schedule_palindrome (a1 a2 b1 h : α) (n : Nat) :
    (s4Schedule a1 a2 b1 h n).reverse = s4Schedule a1 a2 b1 h n := by
  unfold s4Schedule
  exact flatten_replicate_reverse _ (stage4_palindrome _ _ _ _ _) n

/-- every integrator (the animated leapfrog is the same `lf`), every coefficient set, every
    step size, every step count: the op list with each `drift;corrector` as one op is a palindrome -/
theorem schedule_palindrome (c : Coeffs α) (i : Integrator) (h : α) (n : Nat) :
    (schedule c i h n).reverse = schedule c i h n := by
  cases i
  · exact lf_schedule_palindrome h n
  · exact s3_schedule_palindrome _ _ h n
  · exact s4_schedule_palindrome _ _ _ h n
end palin2

/-- for every integrator and every coefficient set (`a2`, `a3`, `b2` are *derived* in the model
    exactly as in the code), both time sums equal `stepsize × amount_of_steps` -/
theorem schedule_time_sums (c : Coeffs ℝ) (i : Integrator) (h : ℝ) (n : Nat) (hn : 1 ≤ n) :
    driftTime (schedule c i h n) = n * h ∧ kickTime (schedule c i h n) = n * h := by
  cases i
  · exact lf_time_sums h n hn
  · exact s3_time_sums _ _ h n
  · exact s4_time_sums _ _ _ h n

/-! ### 3. Reversibility for every target and every odd (in particular linear) metric, unbounded;
    ### 4. step-size randomisation scales the whole scheme uniformly -/

section rev
variable {V : Type} [AddCommGroup V] [Module ℝ V]

def flip (s : PS V) : PS V := { q := s.q, p := -s.p }

theorem op_reversible (vel grad : V → V) (hodd : ∀ p, vel (-p) = -vel p) :
    Split.StepReversible (stepOp (α := ℝ) vel grad id) flip := by
  intro o s
  cases o with
  | drift c =>
    simp only [stepOp, flip, id, hodd, smul_neg]
    congr 1; abel
  | kick c =>
    simp only [stepOp, flip]
    congr 1; abel
end rev
def scaleOp (u : ℝ) : Op ℝ → Op ℝ
  | .drift c => .drift (u * c)
  | .kick c => .kick (u * c)

theorem randomised_scales_uniformly (c : Coeffs ℝ) (i : Integrator) (u h : ℝ) (n : Nat) :
    schedule c i (localStep true u h) n = (schedule c i h n).map (scaleOp u) := by
  cases i
  · simp only [schedule, lfSchedule, localStep, if_true, List.map_append, List.map_cons, List.map_nil,
      scaleOp, List.map_flatten, List.map_replicate, lit_half]
    have e : (1/2:ℝ) * (u * h) = u * (1/2 * h) := by ring
    rw [e]
  · simp only [schedule, s3Schedule, localStep, if_true, List.map_flatten, List.map_replicate, stage3,
      List.map_cons, List.map_nil, scaleOp, lit_half, lit_one, lit_two]
    congr 2
    simp only [List.cons.injEq, Op.drift.injEq, Op.kick.injEq, and_true]
    refine ⟨?_, ?_, ?_, ?_, ?_, ?_, ?_⟩ <;> ring
  · simp only [schedule, s4Schedule, localStep, if_true, List.map_flatten, List.map_replicate, stage4,
      List.map_cons, List.map_nil, scaleOp, lit_half, lit_one, lit_two]
    congr 2
    simp only [List.cons.injEq, Op.drift.injEq, Op.kick.injEq, and_true]
    refine ⟨?_, ?_, ?_, ?_, ?_, ?_, ?_, ?_, ?_⟩ <;> ring

section rev2
variable {V : Type} [AddCommGroup V] [Module ℝ V]
/-- integrating the proposal with negated momentum returns the start with negated momentum:
    all integrators, all `n`, all `h`, all coefficient sets, all `(q,p)`, every gradient field,
    every odd velocity map (in particular `p ↦ M⁻¹ p` for every fixed mass matrix). -/
theorem propose_reversible (vel grad : V → V) (hodd : ∀ p, vel (-p) = -vel p)
    (c : Coeffs ℝ) (i : Integrator) (h : ℝ) (n : Nat) (s : PS V) :
    runOps vel grad id (schedule c i h n) (flip (runOps vel grad id (schedule c i h n) s)) = flip s :=
  Split.palindrome_reversible _ _ (op_reversible vel grad hodd) _ (schedule_palindrome c i h n) s

/-- a linear velocity map `p ↦ M⁻¹ p` is odd -/
theorem linear_vel_odd (M : V →ₗ[ℝ] V) (p : V) : M (-p) = -M p := map_neg M p
end rev2

/-- without randomisation the step is the nominal one; with it the factor is an *argument* of the
    scheme (drawn by the caller once per trajectory), never a function of the state -/
theorem not_randomised (u h : ℝ) : localStep false u h = h := rfl
theorem randomised_step (u h : ℝ) : localStep true u h = u * h := rfl

/-! ### 5. Volume preservation: every measurable gradient field and velocity map, all schedules -/

section vol
variable {ι : Type} [Fintype ι]
/-- the proposal map preserves Lebesgue measure on phase space `(ι → ℝ) × (ι → ℝ)` — for every
    integrator, `n`, `h`, coefficient set, measurable gradient and measurable velocity map. -/
theorem propose_volume_preserving_all (vel grad : Vec ι → Vec ι) (hv : Measurable vel) (hg : Measurable grad)
    (c : Coeffs ℝ) (i : Integrator) (h : ℝ) (n : Nat) :
    MeasurePreserving (fun x : Vec ι × Vec ι => toProd (runOps vel grad id (schedule c i h n) (ofProd x)))
      ((volume : Measure (Vec ι)).prod volume) ((volume : Measure (Vec ι)).prod volume) :=
  propose_volume_preserving vel grad hv hg _
end vol

/-! ### 6. Box-bounded targets with Unit / Diagonal metric: mirror reflection keeps the scheme
    reversible, for drifts of every length (any number of bounces) — `…_partial` only because states
    exactly on a bound and non-diagonal metrics (section 7) are excluded -/

section box
variable {ι : Type}

/-- the corrector on vectors: `corrector1` (one reflection per wall, then the fold) on every coordinate -/
noncomputable def boxRefl (lb ub : ι → Option ℝ) (s : PS (ι → ℝ)) : PS (ι → ℝ) :=
  { q := fun i => (correctorR (lb i) (ub i) (s.q i) (s.p i)).1,
    p := fun i => (correctorR (lb i) (ub i) (s.q i) (s.p i)).2 }

/-- velocity of a diagonal metric (`w i = 1 / m i`; Unit is `w = 1`) -/
def diagVel (w : ι → ℝ) (p : ι → ℝ) : ι → ℝ := fun i => w i * p i

/-- a box: where both bounds exist the lower one is below the upper one -/
def WellFormed (lb ub : ι → Option ℝ) : Prop := ∀ i l u, lb i = some l → ub i = some u → l < u

/-- the regime in which the theorem applies: before every drift the state is strictly inside the
    box. Nothing is asked of the drift: it may overshoot the box by any multiple of its width. -/
def Regular (lb ub : ι → Option ℝ) (s : PS (ι → ℝ)) : Op ℝ → Prop
  | .drift _ => ∀ i, strictlyInBox1 (lb i) (ub i) (s.q i)
  | .kick _ => True

theorem boxed_step_reversible (lb ub : ι → Option ℝ) (hwf : WellFormed lb ub) (w : ι → ℝ) (grad : (ι → ℝ) → (ι → ℝ))
    (o : Op ℝ) (s : PS (ι → ℝ)) (hreg : Regular lb ub s o) :
    stepOp (diagVel w) grad (boxRefl lb ub) (flip (stepOp (diagVel w) grad (boxRefl lb ub) s o)) o = flip s := by
  cases o with
  | drift c =>
    have key : ∀ i, cdrift1 (lb i) (ub i) (c * w i) (cdrift1 (lb i) (ub i) (c * w i) (s.q i) (s.p i)).1
        (-(cdrift1 (lb i) (ub i) (c * w i) (s.q i) (s.p i)).2) = (s.q i, -s.p i) :=
      fun i => cdrift1_reversible _ _ _ _ _ (hwf i) (hreg i)
    have e : ∀ (t : PS (ι → ℝ)) i, (t.q + c • diagVel w t.p) i = t.q i + (c * w i) * t.p i := by
      intro t i; simp [diagVel]; ring
    simp only [stepOp, flip, boxRefl]
    congr 1 <;> funext i
    · have := congrArg Prod.fst (key i)
      simpa [cdrift1, e, diagVel, mul_assoc] using this
    · have := congrArg Prod.snd (key i)
      simpa [cdrift1, e, diagVel, mul_assoc] using this
  | kick c =>
    simp only [stepOp, flip]
    congr 1; abel

/-- **partial**: reversibility with mirror reflection, Unit/Diagonal metric, for every step size and
    every number of bounces, along every trajectory whose drifts start strictly inside the box.
    What is missing for the full statement: states exactly on a bound (a null set) and non-diagonal
    metrics (see below). -/
theorem propose_reversible_boxed_diag_partial (lb ub : ι → Option ℝ) (hwf : WellFormed lb ub) (w : ι → ℝ)
    (grad : (ι → ℝ) → (ι → ℝ)) (c : Coeffs ℝ) (i : Integrator) (h : ℝ) (n : Nat) (s : PS (ι → ℝ))
    (hreg : Split.PathGood (stepOp (diagVel w) grad (boxRefl lb ub)) (Regular lb ub) (schedule c i h n) s) :
    runOps (diagVel w) grad (boxRefl lb ub) (schedule c i h n)
      (flip (runOps (diagVel w) grad (boxRefl lb ub) (schedule c i h n) s)) = flip s :=
  Split.palindrome_reversible_on _ _ (Regular lb ub)
    (fun o s hg => boxed_step_reversible lb ub hwf w grad o s hg) _ (schedule_palindrome c i h n) s hreg

/-- after the corrector every coordinate with two bounds lies between them, whatever the drift was -/
theorem boxRefl_in_box (lb ub : ι → Option ℝ) (hwf : WellFormed lb ub) (s : PS (ι → ℝ)) (i : ι) (l u : ℝ)
    (hl : lb i = some l) (hu : ub i = some u) : l ≤ (boxRefl lb ub s).q i ∧ (boxRefl lb ub s).q i ≤ u := by
  simp only [boxRefl, hl, hu]
  exact correctorR_in_box l u _ _ (hwf i l u hl hu)

/-- the corrector conserves the kinetic energy of every diagonal metric -/
theorem reflect_conserves_kinetic [Fintype ι] (lb ub : ι → Option ℝ) (w : ι → ℝ) (s : PS (ι → ℝ)) :
    ∑ i, w i * ((boxRefl lb ub s).p i) ^ 2 = ∑ i, w i * (s.p i) ^ 2 := by
  apply Finset.sum_congr rfl
  intro i _
  simp only [boxRefl, correctorR_momentum_sq]
end box

/-! ### 7. The full cross product of the property's quantifier fails: a non-diagonal metric with
    mirror reflection is **not** reversible (a negative theorem; the witness is replayed on hmclab
    by the harness and recorded in known_findings.json) -/

/-- `M⁻¹ = [[1, 1/2], [1/2, 1]]`, upper bound 1 on coordinate 0, one drift of length 1 from
    `q = (9/10, 0)`, `p = (1, 0)` -/
noncomputable def fullVel (p : Fin 2 → ℝ) : Fin 2 → ℝ := ![p 0 + p 1 / 2, p 0 / 2 + p 1]
def witnessUb : Fin 2 → Option ℝ := ![some 1, none]
def witnessLb : Fin 2 → Option ℝ := ![none, none]
noncomputable def witnessS : PS (Fin 2 → ℝ) := ⟨![9/10, 0], ![1, 0]⟩

theorem full_mass_box_not_reversible :
    stepOp fullVel (fun _ => 0) (boxRefl witnessLb witnessUb)
      (flip (stepOp fullVel (fun _ => 0) (boxRefl witnessLb witnessUb) witnessS (Op.drift 1))) (Op.drift 1)
      ≠ flip witnessS := by
  intro h
  have h1 := congrFun (congrArg PS.q h) 1
  simp [stepOp, flip, boxRefl, witnessS, witnessLb, witnessUb, fullVel, correctorR, corrector1, reflect1, reflLow, reflHigh] at h1

/-! ### volume preservation **with** reflections (one coordinate; a diagonal metric acts coordinate by coordinate)

   `cdriftMap l u c (q, p) = corrector (q + c p, p)` is the drift sub-step of every integrator on a coordinate with
   the box `[l, u]` (`c` = time × inverse mass).  However long the drift and however many walls it crosses, the map
   is injective on the open strip `l < q < u`, lands in the closed strip, and carries Lebesgue measure to Lebesgue
   measure.  Partial with respect to the property: one coordinate (the product over coordinates and the
   composition with the kicks are not stated), and starts exactly on a wall (a null set) are left out. -/

open MeasureTheory in
theorem boxed_drift_volume_preserving_1d_partial (l u c : ℝ) (hlu : l < u) (A : Set (ℝ × ℝ)) (hA : MeasurableSet A) :
    volume (cdriftMap l u c ⁻¹' A ∩ openStrip l u) = volume (A ∩ cdriftMap l u c '' openStrip l u) :=
  cdrift_volume l u c hlu A hA

open MeasureTheory in
theorem boxed_drift_pushforward_1d_partial (l u c : ℝ) (hlu : l < u) :
    Measure.map (cdriftMap l u c) (volume.restrict (openStrip l u))
      = volume.restrict (cdriftMap l u c '' openStrip l u) :=
  cdrift_map_restrict l u c hlu

theorem boxed_drift_injective_1d (l u c : ℝ) (hlu : l < u) : Set.InjOn (cdriftMap l u c) (openStrip l u) :=
  cdriftMap_injOn l u c hlu

theorem boxed_drift_lands_in_box_1d (l u c : ℝ) (hlu : l < u) :
    cdriftMap l u c '' openStrip l u ⊆ {z | l ≤ z.1 ∧ z.1 ≤ u} :=
  cdrift_image_in_box l u c hlu

/-! ### non-vacuity: the hypotheses above are met by concrete non-trivial states -/

/-- a regular one-coordinate state in a well-formed box: [0,1], start 1/2 - and a drift of 3·(9/4) that
    crosses six walls is reversed like any other (instance of `cdrift1_reversible`) -/
example : strictlyInBox1 (some 0) (some 1) (1/2 : ℝ) ∧ ((0:ℝ) < 1) := by
  refine ⟨⟨?_, ?_⟩, by norm_num⟩
  · intro l hl; cases hl; norm_num
  · intro u hu; cases hu; norm_num
example : cdrift1 (some 0) (some 1) 3 (cdrift1 (some 0) (some 1) 3 (1/2) (9/4)).1 (-(cdrift1 (some 0) (some 1) 3 (1/2) (9/4)).2) = (1/2, -(9/4)) :=
  cdrift1_reversible_box 0 1 3 (1/2) (9/4) (by norm_num) (by norm_num) (by norm_num)
/-- the start of that six-wall drift lies in the open strip of the volume theorem -/
example : ((1/2, 9/4) : ℝ × ℝ) ∈ openStrip 0 1 := by constructor <;> norm_num
example : ∀ p : ℝ, (fun x => (2:ℝ) * x) (-p) = -((fun x => (2:ℝ) * x) p) := by intro p; ring

end C01
end HmcVerif
