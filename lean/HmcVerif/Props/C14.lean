import HmcVerif.Real.DistReal
import HmcVerif.Props.C13
import Mathlib.Probability.Distributions.Gaussian.Real
import Mathlib.MeasureTheory.Integral.Pi
import Mathlib.MeasureTheory.Measure.Lebesgue.Integral
import Mathlib.Analysis.SpecialFunctions.ImproperIntegrals
import Mathlib.LinearAlgebra.Matrix.NonsingularInverse
import Mathlib.Tactic.Ring
import Mathlib.Tactic.Linarith
import Mathlib.Tactic.FieldSimp
/-
  C14 — normalised misfits are true negative log-densities; generate() matches.
-/
set_option linter.unusedSectionVars false
open Finset Matrix MeasureTheory ProbabilityTheory Real
namespace HmcVerif
namespace C14
open DistReal
variable {ι : Type} [Fintype ι]

/-- the model's normalisation constant of a Normal with variance product `det` in `d` dimensions -/
noncomputable def normConst (det d : ℝ) : ℝ := Dist.normalNorm Real.log (fun s => |s|) (2 * π) det d

/-! ### Normal -/

/-- one dimension, every mean and positive variance: the normalised misfit is −log of Mathlib's
    Gaussian density -/
theorem normal1d_misfit_eq_neglog_pdf (μ v x : ℝ) (hv : 0 < v) :
    0.5 * Dist.normalDiagTerm μ (1 / v) x + normConst v 1
      = -Real.log (gaussianPDFReal μ (NNReal.mk v hv.le) x) := by
  have h2pv : 0 < 2 * π * v := by positivity
  have hs : 0 < √(2 * π * v) := Real.sqrt_pos.mpr h2pv
  have hpdf : gaussianPDFReal μ (NNReal.mk v hv.le) x = (√(2 * π * v))⁻¹ * Real.exp (-(x - μ) ^ 2 / (2 * v)) := rfl
  rw [hpdf, Real.log_mul (inv_ne_zero hs.ne') (Real.exp_pos _).ne', Real.log_exp, Real.log_inv,
    Real.log_sqrt h2pv.le, Real.log_mul (by positivity) hv.ne']
  simp only [normConst, Dist.normalNorm, Dist.normalDiagTerm, lit_half, abs_of_pos hv]
  field_simp
  ring

/-- hence `exp(−misfit)` integrates to one -/
theorem normal1d_integral_one (μ v : ℝ) (hv : 0 < v) :
    ∫ x, Real.exp (-(0.5 * Dist.normalDiagTerm μ (1 / v) x + normConst v 1)) = 1 := by
  have hnn : (NNReal.mk v hv.le) ≠ 0 := by
    intro h; exact hv.ne' (congrArg NNReal.toReal h)
  have : ∀ x, Real.exp (-(0.5 * Dist.normalDiagTerm μ (1 / v) x + normConst v 1)) = gaussianPDFReal μ (NNReal.mk v hv.le) x := by
    intro x
    rw [normal1d_misfit_eq_neglog_pdf μ v x hv, neg_neg, Real.exp_log (gaussianPDFReal_pos μ _ x hnn)]
  simp_rw [this]
  exact integral_gaussianPDFReal_eq_one μ hnn

/-- every dimension, per-dimension (or scalar) variances: the misfit with the model's constant
    `½(log|∏ vᵢ| + d·log 2π)` is −log of the product of the one-dimensional Gaussian densities -/
theorem normalDiag_misfit_eq_neglog_pdf (mu var x : ι → ℝ) (hv : ∀ i, 0 < var i) :
    normalDiagM mu (fun i => 1 / var i) (normConst (∏ i, var i) (Fintype.card ι)) x
      = -Real.log (∏ i, gaussianPDFReal (mu i) (NNReal.mk (var i) (hv i).le) (x i)) := by
  have hnn : ∀ i, (NNReal.mk (var i) (hv i).le) ≠ 0 := fun i h => (hv i).ne' (congrArg NNReal.toReal h)
  rw [Real.log_prod (fun i _ => (gaussianPDFReal_pos _ _ _ (hnn i)).ne'), ← Finset.sum_neg_distrib]
  have h1 : ∀ i, -Real.log (gaussianPDFReal (mu i) (NNReal.mk (var i) (hv i).le) (x i))
      = 0.5 * Dist.normalDiagTerm (mu i) (1 / var i) (x i) + normConst (var i) 1 :=
    fun i => (normal1d_misfit_eq_neglog_pdf _ _ _ (hv i)).symm
  simp_rw [h1]
  have hprod : 0 < ∏ i, var i := Finset.prod_pos (fun i _ => hv i)
  have hlog : Real.log |∏ i, var i| = ∑ i, Real.log |var i| := by
    rw [abs_of_pos hprod, Real.log_prod (fun i _ => (hv i).ne')]
    apply Finset.sum_congr rfl
    intro i _; rw [abs_of_pos (hv i)]
  simp only [normalDiagM, normConst, Dist.normalNorm, lit_half]
  rw [Finset.sum_add_distrib, ← Finset.mul_sum, hlog]
  congr 1
  rw [← Finset.mul_sum, Finset.sum_add_distrib, Finset.sum_const, Finset.card_univ, nsmul_eq_mul]
  ring

/-- … so `exp(−misfit)` integrates to one over `ℝ^d` -/
theorem normalDiag_integral_one (mu var : ι → ℝ) (hv : ∀ i, 0 < var i) :
    ∫ x : ι → ℝ, Real.exp (-(normalDiagM mu (fun i => 1 / var i) (normConst (∏ i, var i) (Fintype.card ι)) x)) = 1 := by
  have hnn : ∀ i, (NNReal.mk (var i) (hv i).le) ≠ 0 := fun i h => (hv i).ne' (congrArg NNReal.toReal h)
  have : ∀ x : ι → ℝ, Real.exp (-(normalDiagM mu (fun i => 1 / var i) (normConst (∏ i, var i) (Fintype.card ι)) x))
      = ∏ i, gaussianPDFReal (mu i) (NNReal.mk (var i) (hv i).le) (x i) := by
    intro x
    rw [normalDiag_misfit_eq_neglog_pdf mu var x hv, neg_neg, Real.exp_log]
    exact Finset.prod_pos (fun i _ => gaussianPDFReal_pos _ _ _ (hnn i))
  simp_rw [this]
  rw [integral_fintype_prod_volume_eq_prod (fun i s => gaussianPDFReal (mu i) (NNReal.mk (var i) (hv i).le) s)]
  exact Finset.prod_eq_one (fun i _ => integral_gaussianPDFReal_eq_one _ (hnn i))

/-! ### Laplace -/

/-- the normalised Laplace misfit is −log of the textbook density `∏ (1/(2bᵢ)) exp(−|xᵢ−μᵢ|/bᵢ)` -/
theorem laplace_misfit_eq_neglog_pdf (mu b x : ι → ℝ) (hb : ∀ i, 0 < b i) :
    laplaceM mu (fun i => 1 / b i) (∑ i, Real.log (2 * b i)) x
      = -Real.log (∏ i, (1 / (2 * b i)) * Real.exp (-(|x i - mu i| / b i))) := by
  have hpos : ∀ i, 0 < (1 / (2 * b i)) * Real.exp (-(|x i - mu i| / b i)) := fun i =>
    mul_pos (by have := hb i; positivity) (Real.exp_pos _)
  rw [Real.log_prod (fun i _ => (hpos i).ne'), ← Finset.sum_neg_distrib]
  simp only [laplaceM, Dist.laplaceTerm]
  rw [← Finset.sum_add_distrib]
  apply Finset.sum_congr rfl
  intro i _
  have h2b : (0:ℝ) < 2 * b i := by have := hb i; positivity
  rw [Real.log_mul (by positivity) (Real.exp_pos _).ne', Real.log_exp, one_div (2 * b i), Real.log_inv]
  field_simp
  ring

/-- the model's constant is that sum -/
theorem laplaceNorm_eq (k : Nat) (b : Fin k → ℝ) :
    Dist.laplaceNorm Real.log 0 (List.ofFn b) = ∑ i, Real.log (2 * b i) := by
  unfold Dist.laplaceNorm
  rw [C13.sumList_eq_sum, List.map_ofFn, List.sum_ofFn]
  simp [lit_two, Function.comp]

/-- one dimension: the Laplace density integrates to one -/
theorem laplace1d_integral_one (μ b : ℝ) (hb : 0 < b) :
    ∫ x, (1 / (2 * b)) * Real.exp (-(|x - μ| / b)) = 1 := by
  rw [integral_const_mul]
  have h1 : ∫ x : ℝ, Real.exp (-(|x - μ| / b)) = ∫ x : ℝ, Real.exp (-(|x| / b)) :=
    integral_sub_right_eq_self (fun x => Real.exp (-(|x| / b))) μ
  have h2 : ∫ x : ℝ, Real.exp (-(|x| / b)) = |b| • ∫ y : ℝ, Real.exp (-|y|) := by
    have := Measure.integral_comp_div (fun y : ℝ => Real.exp (-|y|)) b
    rw [← this]
    congr 1; funext x
    rw [abs_div, abs_of_pos hb]
  have h3 : ∫ y : ℝ, Real.exp (-|y|) = 2 := by
    rw [integral_comp_abs (f := fun x => Real.exp (-x)), integral_exp_neg_Ioi_zero]; ring
  rw [h1, h2, h3, abs_of_pos hb, smul_eq_mul]
  field_simp

/-! ### generate(): the returned columns are the named images of primitive draws -/

/-- Normal, one coordinate: `z·σ + μ` with `z` standard normal is `N(μ, σ²)` (Mathlib pushforward) -/
theorem normal_generate_law (μ σ : ℝ) :
    (gaussianReal 0 1).map (fun z => z * σ + μ) = gaussianReal μ (NNReal.mk (σ ^ 2) (sq_nonneg σ)) := by
  have h1 : (gaussianReal 0 1).map (fun z => z * σ) = gaussianReal 0 (NNReal.mk (σ ^ 2) (sq_nonneg σ)) := by
    have := gaussianReal_map_mul_const (μ := 0) (v := 1) σ
    rw [this]; simp
  have hcomp : (fun z : ℝ => z * σ + μ) = (fun y => y + μ) ∘ (fun z => z * σ) := rfl
  have hm1 : Measurable (fun y : ℝ => y + μ) := measurable_id.add_const μ
  have hm2 : Measurable (fun z : ℝ => z * σ) := measurable_id.mul_const σ
  rw [hcomp, ← Measure.map_map hm1 hm2, h1, gaussianReal_map_add_const]
  simp

/-- Normal with full covariance: `μ + L z` with `L Lᵀ = Σ` has misfit `½ zᵀz + c` — the standard
    normal density of `z` is carried to the density `exp(−misfit)` -/
theorem normalFull_generate [DecidableEq ι] (mu : ι → ℝ) (S L : Matrix ι ι ℝ) (hL : L * Lᵀ = S) (hS : IsUnit S.det)
    (c : ℝ) (z : ι → ℝ) :
    normalFullM mu S⁻¹ c (L *ᵥ z + mu) = 0.5 * (z ⬝ᵥ z) + c := by
  have hdet : IsUnit L.det := by
    have : S.det = L.det * L.det := by rw [← hL, Matrix.det_mul, Matrix.det_transpose]
    rw [this] at hS
    exact isUnit_of_mul_isUnit_left hS
  have hLT : IsUnit (Lᵀ).det := by rwa [Matrix.det_transpose]
  have key : Lᵀ * S⁻¹ * L = 1 := by
    rw [← hL, Matrix.mul_inv_rev, ← Matrix.mul_assoc, Matrix.mul_nonsing_inv _ hLT, Matrix.one_mul,
      Matrix.nonsing_inv_mul _ hdet]
  simp only [normalFullM]
  congr 2
  have e : mu - (L *ᵥ z + mu) = -(L *ᵥ z) := by abel
  rw [e, Matrix.mulVec_neg, neg_dotProduct, dotProduct_neg, neg_neg, Matrix.mulVec_mulVec, Matrix.dotProduct_mulVec,
    Matrix.vecMul_mulVec, ← Matrix.mul_assoc, key, Matrix.vecMul_one]

/-- Laplace: `μ + b·e` with `e` a standard Laplace draw has misfit `Σ|eᵢ| + c` -/
theorem laplace_generate (mu b e : ι → ℝ) (hb : ∀ i, 0 < b i) (c : ℝ) :
    laplaceM mu (fun i => 1 / b i) c (fun i => mu i + b i * e i) = c + ∑ i, |e i| := by
  simp only [laplaceM, Dist.laplaceTerm]
  congr 1
  apply Finset.sum_congr rfl
  intro i _
  have : mu i + b i * e i - mu i = b i * e i := by ring
  rw [this, abs_mul, abs_of_pos (hb i)]
  have := (hb i).ne'
  field_simp

/-- Uniform: `lb + (ub − lb)·u` with `u ∈ [0,1)` lies in the box -/
theorem uniform_generate_in_box (l u t : ℝ) (hlu : l < u) (ht0 : 0 ≤ t) (ht1 : t < 1) :
    l ≤ l + (u - l) * t ∧ l + (u - l) * t < u := by
  constructor
  · nlinarith
  · nlinarith

/-- TransformToLogSpace: `base^x` is mapped back to `x` by `transform_forward`, so the generated
    points have the density the transformed misfit describes (change of variables of C13) -/
theorem logspace_generate (b x : ℝ) (hb : 1 < b) :
    Dist.logForward Real.log b (b ^ x) = x := by
  unfold Dist.logForward
  have hb0 : 0 < b := by linarith
  rw [Real.log_rpow hb0, mul_div_assoc, div_self (Real.log_pos hb).ne', mul_one]

/-! ### the constant as a sum of logarithms (what the code computes) is the constant of the determinant -/

/-- `Σ log |vᵢ| = log |∏ vᵢ|` for non-zero `vᵢ`: the stable form used by `normalize()` equals the
    textbook constant `½ (log |det| + d log 2π)` in every dimension -/
theorem normalNormSum_eq (vars : List ℝ) (d : ℝ) (h : ∀ v ∈ vars, v ≠ 0) :
    Dist.normalNormSum Real.log (fun s => |s|) 0 (2 * π) vars d = normConst vars.prod d := by
  unfold Dist.normalNormSum normConst Dist.normalNorm
  congr 2
  induction vars with
  | nil => simp [Dist.sumList]
  | cons v rest ih =>
    have hv : v ≠ 0 := h v (List.mem_cons_self)
    have hr : ∀ w ∈ rest, w ≠ 0 := fun w hw => h w (List.mem_cons_of_mem _ hw)
    have hp : rest.prod ≠ 0 := List.prod_ne_zero (fun h0 => (hr 0 h0) rfl)
    have e : Dist.sumList (0:ℝ) ((v :: rest).map (fun v => Real.log |v|))
        = Real.log |v| + Dist.sumList 0 (rest.map (fun v => Real.log |v|)) := by
      simp only [Dist.sumList, List.map_cons, List.foldl_cons, zero_add]
      have : ∀ (l : List ℝ) (a : ℝ), l.foldl (· + ·) a = a + l.foldl (· + ·) 0 := by
        intro l
        induction l with
        | nil => intro a; simp
        | cons x xs ihx => intro a; simp only [List.foldl_cons]; rw [ihx (a + x), ihx (0 + x)]; ring
      exact this _ _
    rw [e, ih hr, List.prod_cons]
    show Real.log |v| + Real.log |rest.prod| = Real.log |v * rest.prod|
    rw [abs_mul, Real.log_mul (abs_ne_zero.mpr hv) (abs_ne_zero.mpr hp)]

/-! ### "after normalize()" over every history of the object -/

/-- whatever else happened to the object, once `normalize()` has been called (directly or by a
    `Mixture` constructor) — any number of times — the constant it carries is the textbook one -/
theorem normalize_history {α : Type} (c zero : α) (ops : List Dist.NormOp)
    (h : ∃ o ∈ ops, o ≠ Dist.NormOp.evaluate) : Dist.normRun c zero ops = c := by
  unfold Dist.normRun
  -- generalise the start value; induct from the right
  induction ops using List.reverseRecOn with
  | nil => obtain ⟨o, ho, _⟩ := h; cases ho
  | append_singleton l a ih =>
    rw [List.foldl_append]
    cases a with
    | normalize => rfl
    | mixtureInit => rfl
    | evaluate =>
      simp only [List.foldl_cons, List.foldl_nil, Dist.normStep]
      apply ih
      obtain ⟨o, ho, hne⟩ := h
      rcases List.mem_append.mp ho with h1 | h1
      · exact ⟨o, h1, hne⟩
      · simp at h1; exact absurd h1 hne

/-- and an object that was never normalised carries the constructor's 0 -/
theorem never_normalized {α : Type} (c zero : α) (ops : List Dist.NormOp)
    (h : ∀ o ∈ ops, o = Dist.NormOp.evaluate) : Dist.normRun c zero ops = zero := by
  unfold Dist.normRun
  induction ops with
  | nil => rfl
  | cons a l ih =>
    have ha := h a (by simp)
    subst ha
    simp only [List.foldl_cons, Dist.normStep]
    exact ih (fun o ho => h o (by simp [ho]))

/-! ### non-vacuity -/
example : (0:ℝ) < 2.5 := by norm_num
example : Dist.normRun (3:ℝ) 0 [.evaluate, .normalize, .mixtureInit, .normalize, .evaluate] = 3 :=
  normalize_history _ _ _ ⟨.normalize, by simp, by simp⟩

end C14
end HmcVerif
