import HmcVerif.Real.DistReal
import HmcVerif.Real.Grad
import HmcVerif.Real.Grad2
import Mathlib.Analysis.Calculus.Deriv.Abs
import Mathlib.Analysis.Calculus.Deriv.Pow
import Mathlib.Tactic.Ring
import Mathlib.Algebra.BigOperators.Field
import Mathlib.Tactic.FieldSimp
import Mathlib.Tactic.Linarith
/-
  C05 — gradient() is the derivative of misfit() for every distribution.
  `IsGradAt m g x` (Real/Grad.lean) says the Fréchet derivative of `m` at `x` is `v ↦ Σ gᵢ vᵢ`;
  `IsGradAt.partial_deriv` turns it into the coordinate-by-coordinate statement of the property.
  Leaves are proved here; the wrappers (BayesRule, Composite, Mixture, TransformToLogSpace,
  temperature, bounds) are the closure theorems of Real/Grad.lean / Real/Grad2.lean, re-stated in
  terms of the model in Props/C13.lean — together they cover every nesting depth.
  LinearMatrix and SourceLocation are in Props/C15.lean and Props/C17.lean.
-/
set_option linter.unusedSectionVars false
open Finset Matrix
namespace HmcVerif
namespace C05
open DistReal
variable {ι : Type} [Fintype ι]

/-- StandardNormal1D, every temperature -/
theorem stdNormal_isGrad (T : ℝ) (x : Fin 1 → ℝ) : IsGradAt (stdNormalM T) (stdNormalG T x) x := by
  have h := isGradAt_separable (ι := Fin 1) (fun _ s => (1/2 * (s * s)) / T) (fun i => x i / T) x (by
    intro i
    have := (((hasDerivAt_id (x i)).mul (hasDerivAt_id (x i))).const_mul (1/2 : ℝ)).div_const T
    refine this.congr_deriv ?_
    simp; ring)
  have e1 : (fun y : Fin 1 → ℝ => ∑ i, (1/2 * (y i * y i)) / T) = stdNormalM T := by
    funext y; simp [stdNormalM, Dist.stdNormalMisfit, lit_half]
  have e2 : (fun i => x i / T) = stdNormalG T x := by
    funext i; fin_cases i; simp [stdNormalG, Dist.stdNormalGrad]
  rwa [e1, e2] at h

/-- Normal with per-dimension (or scalar) variance: every mean, every inverse variance, every
    normalisation constant, every point -/
theorem normalDiag_isGrad (mu invc : ι → ℝ) (c : ℝ) (x : ι → ℝ) :
    IsGradAt (normalDiagM mu invc c) (normalDiagG mu invc x) x := by
  have hs := isGradAt_separable (fun i s => (mu i - s) * (invc i * (mu i - s)))
    (fun i => 2 * ((-(invc i)) * (mu i - x i))) x (by
      intro i
      have h1 : HasDerivAt (fun s : ℝ => mu i - s) (-1) (x i) := by
        simpa using (hasDerivAt_id (x i)).const_sub (mu i)
      have := h1.mul (h1.const_mul (invc i))
      refine this.congr_deriv ?_
      ring)
  have := (hs.const_mul (1/2)).add_const c
  have e1 : (fun y => 1/2 * ∑ i, (mu i - y i) * (invc i * (mu i - y i)) + c) = normalDiagM mu invc c := by
    funext y; simp [normalDiagM, Dist.normalDiagTerm, lit_half]
  have e2 : ((1/2 : ℝ) • fun i => 2 * ((-(invc i)) * (mu i - x i))) = normalDiagG mu invc x := by
    funext i; simp [normalDiagG, Dist.normalDiagGrad]
  rwa [e1, e2] at this

/-- Normal with a full symmetric inverse covariance -/
theorem normalFull_isGrad [DecidableEq ι] (mu : ι → ℝ) (A : Matrix ι ι ℝ) (hA : A.IsSymm) (c : ℝ) (x : ι → ℝ) :
    IsGradAt (normalFullM mu A c) (normalFullG mu A x) x := by
  have := (isGradAt_quadForm A hA mu x).add_const c
  have e : (fun y => 1/2 * ((mu - y) ⬝ᵥ (A *ᵥ (mu - y))) + c) = normalFullM mu A c := by
    funext y; simp [normalFullM, lit_half]
  rwa [e] at this

/-- Laplace, away from the kinks `xᵢ = μᵢ` -/
theorem laplace_isGrad (mu invb : ι → ℝ) (c : ℝ) (x : ι → ℝ) (hx : ∀ i, x i ≠ mu i) :
    IsGradAt (laplaceM mu invb c) (laplaceG mu invb x) x := by
  have hs := isGradAt_separable (fun i s => |s - mu i| * invb i) (fun i => sgn (x i - mu i) * invb i) x (by
    intro i
    have h1 : HasDerivAt (fun s : ℝ => s - mu i) 1 (x i) := by
      simpa using (hasDerivAt_id (x i)).sub_const (mu i)
    have h2 := (hasDerivAt_abs (sub_ne_zero.mpr (hx i))).comp (x i) h1
    have := h2.mul_const (invb i)
    refine this.congr_deriv ?_
    simp [sgn])
  have := hs.const_add c
  have e1 : (fun y => c + ∑ i, |y i - mu i| * invb i) = laplaceM mu invb c := by
    funext y; simp [laplaceM, Dist.laplaceTerm]
  have e2 : (fun i => sgn (x i - mu i) * invb i) = laplaceG mu invb x := by
    funext i; simp [laplaceG, Dist.laplaceGrad]
  rwa [e1, e2] at this

/-- Uniform: inside the box the misfit is constant, the gradient zero -/
theorem uniform_isGrad (x : ι → ℝ) : IsGradAt (fun _ : ι → ℝ => (0:ℝ)) 0 x := IsGradAt.const 0

/-- Himmelblau, every temperature -/
theorem himmelblau_isGrad (T : ℝ) (x : Fin 2 → ℝ) : IsGradAt (himmelblauM T) (himmelblauG T x) x := by
  -- a(x) = x₀² + x₁ − 11, b(x) = x₀ + x₁² − 7 are separable sums
  have ha := (isGradAt_separable (ι := Fin 2) (fun i s => if i = 0 then s * s else s) (fun i => if i = 0 then 2 * x 0 else 1) x (by
    intro i
    fin_cases i
    · have := (hasDerivAt_id (x 0)).mul (hasDerivAt_id (x 0))
      refine this.congr_deriv ?_
      simp; ring
    · exact hasDerivAt_id' (x 1))).add_const (-11)
  have hb := (isGradAt_separable (ι := Fin 2) (fun i s => if i = 0 then s else s * s) (fun i => if i = 0 then 1 else 2 * x 1) x (by
    intro i
    fin_cases i
    · exact hasDerivAt_id' (x 0)
    · have := (hasDerivAt_id (x 1)).mul (hasDerivAt_id (x 1))
      refine this.congr_deriv ?_
      simp; ring)).add_const (-7)
  have hsq : ∀ s : ℝ, HasDerivAt (fun u : ℝ => u * u) (2 * s) s := by
    intro s
    have := (hasDerivAt_id s).mul (hasDerivAt_id s)
    refine this.congr_deriv ?_
    simp; ring
  have h := ((ha.scomp _ _ (hsq _)).add (hb.scomp _ _ (hsq _))).div_const T
  have e1 : (fun y : Fin 2 → ℝ => ((∑ i, (if i = 0 then y i * y i else y i) + -11) * (∑ i, (if i = 0 then y i * y i else y i) + -11)
      + (∑ i, (if i = 0 then y i else y i * y i) + -7) * (∑ i, (if i = 0 then y i else y i * y i) + -7)) / T) = himmelblauM T := by
    funext y
    simp [himmelblauM, Dist.himmelblauMisfit, Fin.sum_univ_two, lit_seven, lit_eleven]
    ring
  rw [e1] at h
  convert h using 1
  funext i
  fin_cases i <;>
    simp [himmelblauG, Dist.himmelblauGradX, Dist.himmelblauGradY, Fin.sum_univ_two, lit_two, lit_seven, lit_eleven] <;> ring

/-- coordinate by coordinate: for each of the leaves above, `∂misfit/∂xᵢ = gradient(x)ᵢ` -/
theorem normalDiag_partial [DecidableEq ι] (mu invc : ι → ℝ) (c : ℝ) (x : ι → ℝ) (i : ι) :
    HasDerivAt (fun t : ℝ => normalDiagM mu invc c (x + t • Pi.single i 1)) (normalDiagG mu invc x i) 0 :=
  (normalDiag_isGrad mu invc c x).partial_deriv i

/-- adding the bounds term does not change the gradient strictly inside the box: there the bounded
    misfit coincides with the unbounded one on a neighbourhood -/
theorem bounded_isGrad (m mb : (ι → ℝ) → ℝ) (g x : ι → ℝ) (h : IsGradAt m g x)
    (hloc : mb =ᶠ[nhds x] m) : IsGradAt mb g x := h.congr_of_eventuallyEq hloc

/-! ### AdditiveDistribution / BayesRule as a list that can grow (`add_distribution`) -/

/-- misfit of an additive distribution with the given list of terms -/
def additiveM (terms : List (((ι → ℝ) → ℝ) × (ι → ℝ))) : (ι → ℝ) → ℝ := fun y => (terms.map (fun t => t.1 y)).sum
/-- its gradient: the sum of the terms' gradients -/
def additiveG (terms : List (((ι → ℝ) → ℝ) × (ι → ℝ))) : ι → ℝ := (terms.map (fun t => t.2)).sum

/-- the gradient of an additive distribution is the derivative of its misfit for **every** list of
    terms — however the list was assembled (constructor, then any number of `add_distribution`) -/
theorem additive_isGrad (terms : List (((ι → ℝ) → ℝ) × (ι → ℝ))) (x : ι → ℝ)
    (h : ∀ t ∈ terms, IsGradAt t.1 t.2 x) : IsGradAt (additiveM terms) (additiveG terms) x := by
  induction terms with
  | nil =>
    have : additiveM ([] : List (((ι → ℝ) → ℝ) × (ι → ℝ))) = fun _ => (0:ℝ) := by funext y; simp [additiveM]
    rw [this]; simpa [additiveG] using (IsGradAt.const (x := x) 0)
  | cons t rest ih =>
    have h1 := h t (List.mem_cons_self)
    have h2 := ih (fun t' ht' => h t' (List.mem_cons_of_mem _ ht'))
    have := h1.add h2
    have e : additiveM (t :: rest) = fun y => t.1 y + additiveM rest y := by funext y; simp [additiveM]
    rw [e]; simpa [additiveG] using this

/-- `add_distribution`: after appending a term, the gradient must include it -/
theorem additive_after_add (terms : List (((ι → ℝ) → ℝ) × (ι → ℝ))) (t : ((ι → ℝ) → ℝ) × (ι → ℝ)) (x : ι → ℝ)
    (h : ∀ t' ∈ terms, IsGradAt t'.1 t'.2 x) (ht : IsGradAt t.1 t.2 x) :
    IsGradAt (additiveM (terms ++ [t])) (additiveG terms + t.2) x := by
  have := additive_isGrad (terms ++ [t]) x (by
    intro t' ht'
    rcases List.mem_append.mp ht' with h1 | h1
    · exact h t' h1
    · simp at h1; subst h1; exact ht)
  simpa [additiveG, List.map_append, List.sum_append] using this

/-! ### non-vacuity -/
example : ∀ i : Fin 2, (![1, 2] : Fin 2 → ℝ) i ≠ (![0, 0] : Fin 2 → ℝ) i := by
  intro i; fin_cases i <;> simp

/-! ### LayeredRayTracing2D: the travel-time misfit and its derivative with respect to the synthetic
    travel times (the chain rule to the layer velocities goes through the per-layer path lengths of
    C18: `∂tt/∂v_l = −L_l / v_l²`) -/

/-- `LayeredRayTracing2D._misfit` as a function of the residuals `r = tts_syn − tts_obs` (no NaN):
    `Σ (rᵢ − mean r)² / σ²` — a sum of squares without a factor ½ -/
noncomputable def rayMisfit {n : Nat} (sigma : ℝ) (r : Fin n → ℝ) : ℝ :=
  (∑ i, (r i - (∑ j, r j) / n) ^ 2) / sigma ^ 2

/-- `_dmisfitdsyn`: `2 (rⱼ − mean r) / σ²` -/
noncomputable def rayDMisfit {n : Nat} (sigma : ℝ) (r : Fin n → ℝ) (j : Fin n) : ℝ :=
  2 * (r j - (∑ k, r k) / n) / sigma ^ 2

theorem centered_sum_zero {n : Nat} (hn : n ≠ 0) (r : Fin n → ℝ) : ∑ i, (r i - (∑ j, r j) / n) = 0 := by
  have hn' : (n : ℝ) ≠ 0 := Nat.cast_ne_zero.mpr hn
  rw [Finset.sum_sub_distrib, Finset.sum_const, Finset.card_univ, Fintype.card_fin, nsmul_eq_mul]
  field_simp
  ring

/-- exact second-order expansion of the travel-time misfit along any perturbation `δ` of the synthetic
    travel times: the first-order coefficient is `Σⱼ _dmisfitdsyn(r)ⱼ δⱼ`. Hence `_dmisfitdsyn` is the
    derivative of `_misfit` (factor 2 included), for every data set and every number of receivers. -/
theorem rayMisfit_expand {n : Nat} (hn : n ≠ 0) (sigma : ℝ) (r δ : Fin n → ℝ) (ε : ℝ) :
    rayMisfit sigma (fun i => r i + ε * δ i) =
      rayMisfit sigma r + ε * (∑ j, rayDMisfit sigma r j * δ j) + ε ^ 2 * rayMisfit sigma δ := by
  have hn' : (n : ℝ) ≠ 0 := Nat.cast_ne_zero.mpr hn
  have hc := centered_sum_zero hn r
  set mr := (∑ j, r j) / n with hmr
  set md := (∑ j, δ j) / n with hmd
  have hmean : (∑ j, (r j + ε * δ j)) / n = mr + ε * md := by
    rw [Finset.sum_add_distrib, ← Finset.mul_sum, hmr, hmd]; ring
  have hcross : ∑ i, (r i - mr) * (δ i - md) = ∑ i, (r i - mr) * δ i := by
    have : ∑ i, (r i - mr) * (δ i - md) = ∑ i, (r i - mr) * δ i - md * ∑ i, (r i - mr) := by
      rw [Finset.mul_sum, ← Finset.sum_sub_distrib]; apply Finset.sum_congr rfl; intro i _; ring
    rw [this, hc]; ring
  have hsq : ∑ i, (r i + ε * δ i - (mr + ε * md)) ^ 2
      = ∑ i, (r i - mr) ^ 2 + 2 * ε * ∑ i, (r i - mr) * (δ i - md) + ε ^ 2 * ∑ i, (δ i - md) ^ 2 := by
    rw [Finset.mul_sum, Finset.mul_sum, ← Finset.sum_add_distrib, ← Finset.sum_add_distrib]
    apply Finset.sum_congr rfl; intro i _; ring
  unfold rayMisfit rayDMisfit
  simp only [hmean, ← hmr, ← hmd]
  rw [hsq, hcross]
  have : ∑ j, 2 * (r j - mr) / sigma ^ 2 * δ j = (2 * ∑ j, (r j - mr) * δ j) / sigma ^ 2 := by
    rw [Finset.mul_sum, Finset.sum_div]; apply Finset.sum_congr rfl; intro i _; ring
  rw [this]; ring


/-- non-vacuity: three receivers, the expansion at a concrete point -/
example : rayMisfit 1 (fun i : Fin 3 => ((i : ℕ) : ℝ) + 2 * 1) = rayMisfit 1 (fun i : Fin 3 => ((i : ℕ) : ℝ))
    + 2 * (∑ j, rayDMisfit 1 (fun i : Fin 3 => ((i : ℕ) : ℝ)) j * 1) + 2 ^ 2 * rayMisfit 1 (fun _ : Fin 3 => (1 : ℝ)) :=
  rayMisfit_expand (by decide) 1 _ _ 2

end C05
end HmcVerif
