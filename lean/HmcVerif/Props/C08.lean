import HmcVerif.Model.Loop
import HmcVerif.Props.C10
import Mathlib.Data.List.Basic
import Mathlib.Tactic.Linarith
import Mathlib.Tactic.NormNum
/-
  C08 — interruptions, time-outs and user exceptions leave an intact prefix
  (model: Model/Loop.lean on top of the store model of C10).
-/
set_option linter.unusedSectionVars false
namespace HmcVerif
namespace C08
variable {C τ : Type} (clock : Nat → τ) (fast slow : τ → τ → Bool)

/-- columns taken by a list of events, in order -/
def stored (col : Nat → C) : List Ev → List C
  | [] => []
  | Ev.appendEntry i :: rest => col i :: stored col rest
  | _ :: rest => stored col rest

private theorem stored_append (col : Nat → C) (a b : List Ev) :
    stored col (a ++ b) = stored col a ++ stored col b := by
  induction a with
  | nil => rfl
  | cons e es ih => cases e <;> simp [stored, ih]

private theorem appended_storeOps (col : Nat → C) (evs : List Ev) :
    C10.appended (storeOps col evs) = stored col evs := by
  induction evs with
  | nil => rfl
  | cons e es ih => cases e <;> simp [storeOps, stored, C10.appended, ih]

private theorem noClose_storeOps (col : Nat → C) (evs : List Ev) : C10.NoClose (storeOps col evs) := by
  induction evs with
  | nil => intro o ho; simp [storeOps] at ho
  | cons e es ih =>
    cases e <;> simp only [storeOps] <;> try exact ih
    intro o ho
    rcases List.mem_cons.mp ho with rfl | h
    · simp
    · exact ih o h

/-- whatever was executed: after the `finally` block the file is closed, holds exactly the columns
    taken so far, in order, and the write index counts them -/
theorem finish_spec (col : Nat → C) (executed : List Ev) (r : Bool) :
    (finish clock fast slow col executed r).columns = stored col executed ∧
    (finish clock fast slow col executed r).writeIndex = (stored col executed).length ∧
    (finish clock fast slow col executed r).closed = true ∧
    (finish clock fast slow col executed r).returns = r := by
  have h := C10.after_close clock fast slow (storeOps col executed) (noClose_storeOps col executed)
  simp only [appended_storeOps] at h
  exact ⟨h.1, h.2.1, h.2.2.2, rfl⟩

/-- **every call boundary `k`, every exception kind**: the file holds exactly the leading columns
    of the uninterrupted run -/
theorem fault_prefix (col : Nat → C) (ncalls : Nat → Nat) (t P k : Nat) (kind : FaultKind) :
    (runFault clock fast slow col ncalls t P k kind).columns
      = (runFree clock fast slow col ncalls t P).columns.take
          (runFault clock fast slow col ncalls t P k kind).columns.length := by
  simp only [runFault, runFree, (finish_spec clock fast slow col _ _).1]
  have hsplit : stored col (trace ncalls t P)
      = stored col ((trace ncalls t P).take k) ++ stored col ((trace ncalls t P).drop k) := by
    rw [← stored_append, List.take_append_drop]
  rw [hsplit, List.take_left']
  rfl

/-- a KeyboardInterrupt makes `sample()` return normally; any other exception is re-raised -/
theorem interrupt_returns (col : Nat → C) (ncalls : Nat → Nat) (t P k : Nat) :
    (runFault clock fast slow col ncalls t P k FaultKind.interrupt).returns = true := rfl
theorem other_reraises (col : Nat → C) (ncalls : Nat → Nat) (t P k : Nat) :
    (runFault clock fast slow col ncalls t P k FaultKind.other).returns = false := rfl

/-- in every case the file is closed and its write index equals its number of columns -/
theorem closed_and_counted (col : Nat → C) (ncalls : Nat → Nat) (t P k : Nat) (kind : FaultKind) :
    (runFault clock fast slow col ncalls t P k kind).closed = true ∧
    (runFault clock fast slow col ncalls t P k kind).writeIndex
      = (runFault clock fast slow col ncalls t P k kind).columns.length := by
  have h := finish_spec clock fast slow col ((trace ncalls t P).take k) (kind == FaultKind.interrupt)
  exact ⟨h.2.2.1, by rw [runFault, h.2.1, h.1]⟩

/-- every proposal whose append was entered before the stop is in the file -/
theorem completed_included (col : Nat → C) (ncalls : Nat → Nat) (t P k : Nat) (kind : FaultKind) (i : Nat)
    (h : Ev.appendEntry i ∈ (trace ncalls t P).take k) :
    col i ∈ (runFault clock fast slow col ncalls t P k kind).columns := by
  simp only [runFault, (finish_spec clock fast slow col _ _).1]
  generalize (trace ncalls t P).take k = l at h
  induction l with
  | nil => simp at h
  | cons e es ih =>
    rcases List.mem_cons.mp h with rfl | h'
    · simp [stored]
    · cases e <;> simp [stored, ih h']

private theorem trace_prefix (ncalls : Nat → Nat) (t : Nat) (n P : Nat) (h : n ≤ P) :
    ∃ rest, trace ncalls t P = trace ncalls t n ++ rest := by
  obtain ⟨d, rfl⟩ := Nat.exists_eq_add_of_le h
  refine ⟨(List.range' n d).flatMap (proposalEvents ncalls t), ?_⟩
  unfold trace
  rw [List.range_eq_range', List.range_eq_range', ← List.flatMap_append]
  congr 1
  have := List.range'_append (s := 0) (m := n) (n := d) (step := 1)
  simpa using this.symm

/-- **every time-out instant** (every clock): a run stopped by `max_time` returns normally, its
    file is closed and holds the leading columns of the uninterrupted run -/
theorem timeout_prefix (col : Nat → C) (ncalls : Nat → Nat) (t P : Nat) (over : Nat → Bool) :
    (runTimeout clock fast slow col ncalls t P over).returns = true ∧
    (runTimeout clock fast slow col ncalls t P over).closed = true ∧
    (runTimeout clock fast slow col ncalls t P over).columns
      = (runFree clock fast slow col ncalls t P).columns.take
          (runTimeout clock fast slow col ncalls t P over).columns.length := by
  unfold runTimeout
  cases hto : timeoutAt over P with
  | none =>
    simp only
    have h := finish_spec clock fast slow col (trace ncalls t P) true
    exact ⟨rfl, h.2.2.1, by simp [runFree]⟩
  | some i =>
    simp only
    have hi : i < P := by
      have := List.find?_some hto
      have hm := List.mem_of_find?_eq_some hto
      simpa using hm
    obtain ⟨rest, hrest⟩ := trace_prefix ncalls t (i + 1) P hi
    have h := finish_spec clock fast slow col (trace ncalls t (i + 1)) true
    refine ⟨rfl, h.2.2.1, ?_⟩
    simp only [runFree, (finish_spec clock fast slow col _ _).1, hrest, stored_append]
    rw [List.take_left']
    rfl

/-- a run stopped by the time limit after iteration `i` includes every completed proposal: it is
    the uninterrupted run of `i + 1` proposals -/
theorem timeout_is_shorter_run (col : Nat → C) (ncalls : Nat → Nat) (t P : Nat) (over : Nat → Bool) (i : Nat)
    (h : timeoutAt over P = some i) :
    runTimeout clock fast slow col ncalls t P over = runFree clock fast slow col ncalls t (i + 1) := by
  simp [runTimeout, h, runFree]

/-- the acceptance rate written at close is defined for every stop, including one inside the
    first proposal -/
theorem close_rate_zero_completed (accepted : Nat) :
    closeAcceptanceRate (fun n => (n : ℚ)) accepted 0 = 0 := by
  simp only [closeAcceptanceRate, if_true]
  norm_num

/-! ### the evaluation limiter: after it has interrupted a run, the next run gets a fresh budget -/

/-- whichever call raises (misfit or gradient), the counter is back at its initial value -/
theorem limiter_raise_resets (limit gcount c : Nat) (k : LimCall) (h : (limStep limit gcount c k).2 = true) :
    (limStep limit gcount c k).1 = 0 := by
  unfold limStep at h ⊢
  split
  · rfl
  · rename_i hc; simp [hc] at h

/-- hence a second sequence of calls on the same object behaves exactly like the first one did:
    the sampler (and the target) can immediately be used for another run -/
theorem limiter_next_run_like_first (limit gcount c : Nat) (k : LimCall) (calls : List LimCall)
    (h : (limStep limit gcount c k).2 = true) :
    limRun limit gcount (limStep limit gcount c k).1 calls = limRun limit gcount 0 calls := by
  rw [limiter_raise_resets limit gcount c k h]

/-- with a positive limit, a call evaluates iff the budget has not been exceeded before it -/
theorem limiter_raises_iff (limit gcount c : Nat) (k : LimCall) :
    (limStep limit gcount c k).2 = true ↔ (limit ≠ 0 ∧ limit < c) := by
  unfold limStep
  split <;> simp_all

/-! ### non-vacuity: a concrete run (HMC-like: 5 calls per proposal, thinning 2, 4 proposals),
    interrupted at boundary 9, i.e. inside proposal 1 -/
example : (trace (fun _ => 5) 2 4).length = 28 := by decide
example : stored (fun i => i) ((trace (fun _ => 5) 2 4).take 9) = [0] := by decide
example : stored (fun i => i) (trace (fun _ => 5) 2 4) = [0, 2] := by decide

end C08
end HmcVerif
