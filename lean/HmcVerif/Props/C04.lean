import HmcVerif.Model.Integrator
import HmcVerif.Model.Metropolis
import HmcVerif.Real.Kernel
import HmcVerif.Real.Volume
import HmcVerif.Real.BoxedKernel
import HmcVerif.Real.BoxedKernelN
import HmcVerif.Props.C01
import Mathlib.MeasureTheory.Measure.Lebesgue.Basic
import Mathlib.MeasureTheory.Measure.Prod
import Mathlib.MeasureTheory.Integral.Lebesgue.Markov
import Mathlib.Analysis.SpecialFunctions.Exp
import Mathlib.MeasureTheory.Constructions.BorelSpace.Real
import Mathlib.Tactic.Linarith
import Mathlib.MeasureTheory.Measure.Lebesgue.EqHaar
import Mathlib.MeasureTheory.Measure.Haar.Unique
/-
  C04 — a transition started on the target stays on the target (stationarity).
-/
set_option linter.unusedSectionVars false
open MeasureTheory ENNReal
namespace HmcVerif
namespace C04

/-! ### the acceptance test `u < exp(E − E')`, `u` uniform on [0,1), accepts with probability
    `min 1 (exp(E − E'))` -/
theorem accept_probability (r : ℝ) (hr : 0 ≤ r) :
    volume {u : ℝ | u ∈ Set.Ico (0:ℝ) 1 ∧ u < r} = ENNReal.ofReal (min 1 r) := by
  have : {u : ℝ | u ∈ Set.Ico (0:ℝ) 1 ∧ u < r} = Set.Ico 0 (min 1 r) := by
    ext u; simp only [Set.mem_setOf_eq, Set.mem_Ico, lt_min_iff]; tauto
  rw [this, Real.volume_Ico, sub_zero]

/-- with `π = exp(−H)` and acceptance probability `a = min 1 (exp(H − H∘Ψ))` the Metropolis rule
    `π·a = min π (π∘Ψ)` holds -/
theorem rule_is_min {X : Type*} (H : X → ℝ) (Ψ : X → X) (x : X) :
    ENNReal.ofReal (Real.exp (-H x)) * ENNReal.ofReal (min 1 (Real.exp (H x - H (Ψ x))))
      = min (ENNReal.ofReal (Real.exp (-H x))) (ENNReal.ofReal (Real.exp (-H (Ψ x)))) := by
  rw [← ENNReal.ofReal_mul (Real.exp_pos _).le, ← ENNReal.ofReal_min]
  congr 1
  rw [mul_min_of_nonneg _ _ (Real.exp_pos _).le, mul_one, ← Real.exp_add]
  congr 2
  ring

/-- the same for densities that may vanish (box-truncated targets): `a = min 1 (π∘Ψ / π)` -/
theorem rule_is_min_general {X : Type*} (π : X → ℝ≥0∞) (Ψ : X → X) (x : X) (hfin : π x ≠ ∞) :
    π x * min 1 (π (Ψ x) / π x) = min (π x) (π (Ψ x)) := by
  by_cases h0 : π x = 0
  · simp [h0]
  · rw [mul_min, mul_one, ENNReal.mul_div_cancel h0 hfin]

/-! ### HMC: the trajectory followed by a momentum flip is a measure-preserving involution -/
section hmc
variable {ι : Type} [Fintype ι]

abbrev Phase (ι : Type) := Vec ι × Vec ι

def flipP (x : Phase ι) : Phase ι := (x.1, -x.2)
def proposeP (vel grad : Vec ι → Vec ι) (ops : List (Op ℝ)) (x : Phase ι) : Phase ι :=
  toProd (runOps vel grad id ops (ofProd x))
/-- `Ψ = flip ∘ trajectory` -/
def psi (vel grad : Vec ι → Vec ι) (ops : List (Op ℝ)) (x : Phase ι) : Phase ι := flipP (proposeP vel grad ops x)

theorem flipP_measurePreserving :
    MeasurePreserving (flipP : Phase ι → Phase ι) ((volume : Measure (Vec ι)).prod volume)
      ((volume : Measure (Vec ι)).prod volume) := by
  have h := (MeasurePreserving.id (volume : Measure (Vec ι))).prod
    (Measure.measurePreserving_neg (volume : Measure (Vec ι)))
  exact h

theorem psi_measurePreserving (vel grad : Vec ι → Vec ι) (hv : Measurable vel) (hg : Measurable grad)
    (c : Coeffs ℝ) (i : Integrator) (h : ℝ) (n : Nat) :
    MeasurePreserving (psi vel grad (schedule c i h n)) ((volume : Measure (Vec ι)).prod volume)
      ((volume : Measure (Vec ι)).prod volume) :=
  flipP_measurePreserving.comp (C01.propose_volume_preserving_all vel grad hv hg c i h n)

/-- for every palindromic op list (every integrator schedule, and the one-drift RWMH proposal) -/
theorem psi_involution_of_palindrome (vel grad : Vec ι → Vec ι) (hodd : ∀ p, vel (-p) = -vel p)
    (ops : List (Op ℝ)) (hp : ops.reverse = ops) (x : Phase ι) :
    psi vel grad ops (psi vel grad ops x) = x := by
  have hr := Split.palindrome_reversible _ _ (C01.op_reversible vel grad hodd) ops hp (ofProd x)
  simp only [psi, proposeP, flipP, toProd, ofProd, runOps] at hr ⊢
  have e : (⟨(List.foldl (stepOp vel grad id) ⟨x.1, x.2⟩ ops).q,
      -(List.foldl (stepOp vel grad id) ⟨x.1, x.2⟩ ops).p⟩ : PS (Vec ι))
      = C01.flip (List.foldl (stepOp vel grad id) ⟨x.1, x.2⟩ ops) := rfl
  rw [e, hr]
  simp [C01.flip]

theorem psi_involution (vel grad : Vec ι → Vec ι) (hodd : ∀ p, vel (-p) = -vel p)
    (c : Coeffs ℝ) (i : Integrator) (h : ℝ) (n : Nat) (x : Phase ι) :
    psi vel grad (schedule c i h n) (psi vel grad (schedule c i h n) x) = x :=
  psi_involution_of_palindrome vel grad hodd _ (C01.schedule_palindrome c i h n) x

theorem psi_measurePreserving_ops (vel grad : Vec ι → Vec ι) (hv : Measurable vel) (hg : Measurable grad)
    (ops : List (Op ℝ)) :
    MeasurePreserving (psi vel grad ops) ((volume : Measure (Vec ι)).prod volume)
      ((volume : Measure (Vec ι)).prod volume) :=
  flipP_measurePreserving.comp (propose_volume_preserving vel grad hv hg ops)

/-- total energy `H(q,p) = U(q) + K(p)` -/
def energy (U K : Vec ι → ℝ) (x : Phase ι) : ℝ := U x.1 + K x.2

/-- Gibbs density `exp(−H)` -/
noncomputable def gibbs (U K : Vec ι → ℝ) (x : Phase ι) : ℝ≥0∞ := ENNReal.ofReal (Real.exp (-energy U K x))

/-- acceptance probability of the rule `u < exp(H(x) − H(proposal))` -/
noncomputable def acceptProb (U K : Vec ι → ℝ) (Ψ : Phase ι → Phase ι) (x : Phase ι) : ℝ≥0∞ :=
  ENNReal.ofReal (min 1 (Real.exp (energy U K x - energy U K (Ψ x))))

theorem energy_flip (U K : Vec ι → ℝ) (hK : ∀ p, K (-p) = K p) (y : Phase ι) :
    energy U K (flipP y) = energy U K y := by simp [energy, flipP, hK]

/-- **joint invariance**: one Metropolis-corrected trajectory leaves `exp(−U(q) − K(p))` invariant —
    every palindromic op list, every measurable gradient, every odd measurable velocity map,
    every measurable potential and kinetic energy -/
theorem joint_invariant (U K : Vec ι → ℝ) (hU : Measurable U) (hK : Measurable K)
    (vel grad : Vec ι → Vec ι) (hv : Measurable vel) (hg : Measurable grad) (hodd : ∀ p, vel (-p) = -vel p)
    (ops : List (Op ℝ)) (hp : ops.reverse = ops) (g : Phase ι → ℝ≥0∞) (hgm : Measurable g) :
    ∫⁻ x, gibbs U K x * metropolisOp (psi vel grad ops) (acceptProb U K (psi vel grad ops)) g x
        ∂((volume : Measure (Vec ι)).prod volume)
      = ∫⁻ x, gibbs U K x * g x ∂((volume : Measure (Vec ι)).prod volume) := by
  have hΨ := psi_measurePreserving_ops vel grad hv hg ops
  have hH : Measurable (energy U K) := (hU.comp measurable_fst).add (hK.comp measurable_snd)
  apply metropolis_invariant _ _ hΨ (psi_involution_of_palindrome vel grad hodd ops hp)
  · exact ENNReal.measurable_ofReal.comp (Real.measurable_exp.comp hH.neg)
  · exact ENNReal.measurable_ofReal.comp
      (measurable_const.min (Real.measurable_exp.comp (hH.sub (hH.comp hΨ.measurable))))
  · intro x; exact ENNReal.ofReal_ne_top
  · intro x; exact rule_is_min (energy U K) _ x
  · exact hgm

/-- the kernel as the code runs it (no momentum flip; only the position is kept), applied to a
    test function of the position -/
noncomputable def codeKernel (U K : Vec ι → ℝ) (vel grad : Vec ι → Vec ι) (ops : List (Op ℝ))
    (f : Vec ι → ℝ≥0∞) (x : Phase ι) : ℝ≥0∞ :=
  ENNReal.ofReal (min 1 (Real.exp (energy U K x - energy U K (proposeP vel grad ops x)))) * f (proposeP vel grad ops x).1
    + (1 - ENNReal.ofReal (min 1 (Real.exp (energy U K x - energy U K (proposeP vel grad ops x))))) * f x.1

/-- **stationarity of the position**: if `(q, p)` is distributed as `exp(−U(q) − K(p))` (q from the
    target, p from the momentum refresh) then after the transition `E[f(q')] = E[f(q)]` for every
    test function — i.e. `q'` is again distributed as the target -/
theorem position_invariant (U K : Vec ι → ℝ) (hU : Measurable U) (hK : Measurable K) (hKeven : ∀ p, K (-p) = K p)
    (vel grad : Vec ι → Vec ι) (hv : Measurable vel) (hg : Measurable grad) (hodd : ∀ p, vel (-p) = -vel p)
    (ops : List (Op ℝ)) (hp : ops.reverse = ops) (f : Vec ι → ℝ≥0∞) (hf : Measurable f) :
    ∫⁻ x, gibbs U K x * codeKernel U K vel grad ops f x ∂((volume : Measure (Vec ι)).prod volume)
      = ∫⁻ x, gibbs U K x * f x.1 ∂((volume : Measure (Vec ι)).prod volume) := by
  have h := joint_invariant U K hU hK vel grad hv hg hodd ops hp (fun x => f x.1) (hf.comp measurable_fst)
  rw [← h]
  congr 1; funext x
  simp only [codeKernel, metropolisOp, acceptProb, psi, energy_flip U K hKeven]
  rfl

/-- HMC: all integrators, all `n`, all `h`, all coefficient sets -/
theorem hmc_invariant (U K : Vec ι → ℝ) (hU : Measurable U) (hK : Measurable K) (hKeven : ∀ p, K (-p) = K p)
    (vel grad : Vec ι → Vec ι) (hv : Measurable vel) (hg : Measurable grad) (hodd : ∀ p, vel (-p) = -vel p)
    (c : Coeffs ℝ) (i : Integrator) (h : ℝ) (n : Nat) (f : Vec ι → ℝ≥0∞) (hf : Measurable f) :
    ∫⁻ x, gibbs U K x * codeKernel U K vel grad (schedule c i h n) f x ∂((volume : Measure (Vec ι)).prod volume)
      = ∫⁻ x, gibbs U K x * f x.1 ∂((volume : Measure (Vec ι)).prod volume) :=
  position_invariant U K hU hK hKeven vel grad hv hg hodd _ (C01.schedule_palindrome c i h n) f hf

/-- RWMH with scalar or per-dimension step `s`: the proposal `(q, z) ↦ (q + s ⊙ z, z)` is the
    one-drift scheme with velocity `z ↦ s ⊙ z`; the auxiliary energy is `½|z|²` -/
theorem rwmh_invariant (U : Vec ι → ℝ) (hU : Measurable U) (s : Vec ι) (f : Vec ι → ℝ≥0∞) (hf : Measurable f) :
    let K : Vec ι → ℝ := fun z => (1 / 2) * ∑ j, z j ^ 2
    let vel : Vec ι → Vec ι := fun z => s * z
    ∫⁻ x, gibbs U K x * codeKernel U K vel (fun _ => 0) [Op.drift 1] f x ∂((volume : Measure (Vec ι)).prod volume)
      = ∫⁻ x, gibbs U K x * f x.1 ∂((volume : Measure (Vec ι)).prod volume) := by
  intro K vel
  have hK : Measurable K := by
    apply Measurable.const_mul
    exact Finset.measurable_sum _ (fun j _ => (measurable_pi_apply j).pow_const 2)
  have hv : Measurable vel := measurable_const.mul measurable_id
  apply position_invariant U K hU hK (by intro p; simp [K]) vel _ hv measurable_const
    (by intro p; simp [vel]) [Op.drift 1] rfl f hf

/-- in the RWMH kernel the acceptance ratio only involves the target misfit: the auxiliary
    energies cancel — `H(q,z) − H(q',z) = U(q) − U(q')` -/
theorem rwmh_ratio (U : Vec ι → ℝ) (q q' z : Vec ι) :
    energy U (fun z => (1 / 2) * ∑ j, z j ^ 2) (q, z) - energy U (fun z => (1 / 2) * ∑ j, z j ^ 2) (q', z)
      = U q - U q' := by
  simp [energy]
/-! ### RWMH on a target with bounded support (any measurable support `B`): no corrector is involved - a proposal
    outside has misfit `+∞`, acceptance probability `exp(−∞) = 0` - and the truncated density is invariant -/

/-- the truncated joint density `1_B(q) · exp(−U(q) − K(z))` -/
noncomputable def gibbsOn (B : Set (Vec ι)) (U K : Vec ι → ℝ) (x : Phase ι) : ℝ≥0∞ :=
  B.indicator (fun _ => (1 : ℝ≥0∞)) x.1 * gibbs U K x

/-- acceptance probability as the code computes it: `exp(E − E')`, where `E' = +∞` outside the support -/
noncomputable def acceptOn (B : Set (Vec ι)) (U K : Vec ι → ℝ) (Ψ : Phase ι → Phase ι) (x : Phase ι) : ℝ≥0∞ :=
  B.indicator (fun _ => (1 : ℝ≥0∞)) (Ψ x).1 * acceptProb U K Ψ x

theorem rule_is_min_on (B : Set (Vec ι)) (U K : Vec ι → ℝ) (Ψ : Phase ι → Phase ι) (x : Phase ι) :
    gibbsOn B U K x * acceptOn B U K Ψ x = min (gibbsOn B U K x) (gibbsOn B U K (Ψ x)) := by
  unfold gibbsOn acceptOn
  by_cases h1 : x.1 ∈ B <;> by_cases h2 : (Ψ x).1 ∈ B <;>
    simp only [Set.indicator_of_mem, Set.indicator_of_notMem, h1, h2, not_false_eq_true, one_mul, zero_mul,
      mul_zero, min_self, zero_le, min_eq_right, min_eq_left]
  exact rule_is_min (energy U K) Ψ x

theorem rwmh_invariant_bounded (B : Set (Vec ι)) (hB : MeasurableSet B) (U : Vec ι → ℝ) (hU : Measurable U) (s : Vec ι)
    (G : Phase ι → ℝ≥0∞) (hG : Measurable G) :
    let K : Vec ι → ℝ := fun z => (1 / 2) * ∑ j, z j ^ 2
    let Ψ : Phase ι → Phase ι := psi (fun z => s * z) (fun _ => 0) [Op.drift 1]
    ∫⁻ x, gibbsOn B U K x * metropolisOp Ψ (acceptOn B U K Ψ) G x ∂((volume : Measure (Vec ι)).prod volume)
      = ∫⁻ x, gibbsOn B U K x * G x ∂((volume : Measure (Vec ι)).prod volume) := by
  intro K Ψ
  have hK : Measurable K := by
    apply Measurable.const_mul
    exact Finset.measurable_sum _ (fun j _ => (measurable_pi_apply j).pow_const 2)
  have hv : Measurable (fun z : Vec ι => s * z) := measurable_const.mul measurable_id
  have hΨ : MeasurePreserving Ψ ((volume : Measure (Vec ι)).prod volume) ((volume : Measure (Vec ι)).prod volume) :=
    psi_measurePreserving_ops _ _ hv measurable_const [Op.drift 1]
  have hinv : ∀ x, Ψ (Ψ x) = x :=
    psi_involution_of_palindrome _ _ (by intro p; simp) [Op.drift 1] rfl
  have hH : Measurable (energy U K) := (hU.comp measurable_fst).add (hK.comp measurable_snd)
  have hind : Measurable (fun x : Phase ι => B.indicator (fun _ => (1 : ℝ≥0∞)) x.1) :=
    (measurable_const.indicator hB).comp measurable_fst
  have hgib : Measurable (gibbs U K) := ENNReal.measurable_ofReal.comp (Real.measurable_exp.comp hH.neg)
  apply metropolis_invariant _ _ hΨ hinv
  · exact hind.mul hgib
  · exact (hind.comp hΨ.measurable).mul (ENNReal.measurable_ofReal.comp
      (measurable_const.min (Real.measurable_exp.comp (hH.sub (hH.comp hΨ.measurable)))))
  · intro x
    unfold gibbsOn gibbs
    by_cases h1 : x.1 ∈ B <;> simp [h1]
  · intro x; exact rule_is_min_on B U K Ψ x
  · exact hG

end hmc

/-! ### boxed targets, one coordinate: stationarity **with** reflections

   The target lives on `l < q < u` (density `exp(−U(q))` there, zero outside); every drift is followed by the
   corrector (`cdriftMap`), however many walls it crosses.  `w` is the inverse mass of the coordinate, `g` the
   gradient the code evaluates (any measurable function - it need not be the derivative of `U`).
   Partial with respect to the property: one coordinate (a Unit / Diagonal metric acts coordinate by
   coordinate, but the product over coordinates is not stated here). -/
section boxed
def energy1 (U K : ℝ → ℝ) (z : ℝ × ℝ) : ℝ := U z.1 + K z.2
noncomputable def gibbs1 (U K : ℝ → ℝ) (z : ℝ × ℝ) : ℝ≥0∞ := ENNReal.ofReal (Real.exp (-energy1 U K z))
noncomputable def psi1 (l u w : ℝ) (g : ℝ → ℝ) (ops : List (Op ℝ)) (z : ℝ × ℝ) : ℝ × ℝ := flip1 (traj1 l u w g ops z)
noncomputable def acceptProb1 (U K : ℝ → ℝ) (Ψ : ℝ × ℝ → ℝ × ℝ) (z : ℝ × ℝ) : ℝ≥0∞ :=
  ENNReal.ofReal (min 1 (Real.exp (energy1 U K z - energy1 U K (Ψ z))))

theorem psi1_measurePreserving (l u w : ℝ) (hlu : l < u) (g : ℝ → ℝ) (hg : Measurable g) (ops : List (Op ℝ)) :
    MeasurePreserving (psi1 l u w g ops) (volume.restrict (openStrip l u)) (volume.restrict (openStrip l u)) :=
  (flip1_mp_strip l u).comp (traj1_mp_strip l u w hlu g hg ops)

/-- **joint invariance in a box**: the Metropolis-corrected trajectory with reflections leaves
    `exp(−U(q) − K(p))` restricted to the box invariant - every palindromic op list, every box of positive
    width, every drift length -/
theorem boxed_joint_invariant_1d (l u w : ℝ) (hlu : l < u) (U K : ℝ → ℝ) (hU : Measurable U) (hK : Measurable K)
    (g : ℝ → ℝ) (hg : Measurable g) (ops : List (Op ℝ)) (hp : ops.reverse = ops)
    (G : ℝ × ℝ → ℝ≥0∞) (hG : Measurable G) :
    ∫⁻ z, gibbs1 U K z * metropolisOp (psi1 l u w g ops) (acceptProb1 U K (psi1 l u w g ops)) G z
        ∂(volume.restrict (openStrip l u))
      = ∫⁻ z, gibbs1 U K z * G z ∂(volume.restrict (openStrip l u)) := by
  have hΨ := psi1_measurePreserving l u w hlu g hg ops
  have hH : Measurable (energy1 U K) := (hU.comp measurable_fst).add (hK.comp measurable_snd)
  apply metropolis_invariant_ae _ _ hΨ (psi1_involution_ae l u w hlu g hg ops hp)
  · exact ENNReal.measurable_ofReal.comp (Real.measurable_exp.comp hH.neg)
  · exact ENNReal.measurable_ofReal.comp
      (measurable_const.min (Real.measurable_exp.comp (hH.sub (hH.comp hΨ.measurable))))
  · intro x; exact ENNReal.ofReal_ne_top
  · intro x; exact rule_is_min (energy1 U K) _ x
  · exact hG

/-- the kernel as the code runs it on one boxed coordinate (no momentum flip, the position is kept) -/
noncomputable def codeKernel1 (l u w : ℝ) (U K : ℝ → ℝ) (g : ℝ → ℝ) (ops : List (Op ℝ)) (f : ℝ → ℝ≥0∞) (z : ℝ × ℝ) : ℝ≥0∞ :=
  ENNReal.ofReal (min 1 (Real.exp (energy1 U K z - energy1 U K (traj1 l u w g ops z)))) * f (traj1 l u w g ops z).1
    + (1 - ENNReal.ofReal (min 1 (Real.exp (energy1 U K z - energy1 U K (traj1 l u w g ops z))))) * f z.1

/-- **stationarity of the position in a box**: `q` from the boxed target, `p` from the momentum refresh,
    then `E[f(q')] = E[f(q)]` for every test function -/
theorem boxed_position_invariant_1d (l u w : ℝ) (hlu : l < u) (U K : ℝ → ℝ) (hU : Measurable U) (hK : Measurable K)
    (hKeven : ∀ p, K (-p) = K p) (g : ℝ → ℝ) (hg : Measurable g) (ops : List (Op ℝ)) (hp : ops.reverse = ops)
    (f : ℝ → ℝ≥0∞) (hf : Measurable f) :
    ∫⁻ z, gibbs1 U K z * codeKernel1 l u w U K g ops f z ∂(volume.restrict (openStrip l u))
      = ∫⁻ z, gibbs1 U K z * f z.1 ∂(volume.restrict (openStrip l u)) := by
  have h := boxed_joint_invariant_1d l u w hlu U K hU hK g hg ops hp (fun z => f z.1) (hf.comp measurable_fst)
  rw [← h]
  congr 1; funext z
  have e : ∀ y : ℝ × ℝ, energy1 U K (flip1 y) = energy1 U K y := fun y => by simp [energy1, flip1, hKeven]
  simp only [codeKernel1, metropolisOp, acceptProb1, psi1, e]
  rfl

/-- HMC on one boxed coordinate: all integrators, all `n`, all `h`, all coefficient sets -/
theorem boxed_hmc_invariant_1d (l u w : ℝ) (hlu : l < u) (U K : ℝ → ℝ) (hU : Measurable U) (hK : Measurable K)
    (hKeven : ∀ p, K (-p) = K p) (g : ℝ → ℝ) (hg : Measurable g)
    (c : Coeffs ℝ) (i : Integrator) (h : ℝ) (n : Nat) (f : ℝ → ℝ≥0∞) (hf : Measurable f) :
    ∫⁻ z, gibbs1 U K z * codeKernel1 l u w U K g (schedule c i h n) f z ∂(volume.restrict (openStrip l u))
      = ∫⁻ z, gibbs1 U K z * f z.1 ∂(volume.restrict (openStrip l u)) :=
  boxed_position_invariant_1d l u w hlu U K hU hK hKeven g hg _ (C01.schedule_palindrome c i h n) f hf

/-- the model's trajectory on one coordinate is `traj1`: `stepOp` with the diagonal velocity `w · p` and the
    box corrector, read on `ι = Unit` -/
theorem traj1_is_model_step (l u w : ℝ) (g : ℝ → ℝ) (o : Op ℝ) (z : ℝ × ℝ) :
    step1 l u w g z o =
      (let s := stepOp (C01.diagVel (fun _ : Unit => w)) (fun q _ => g (q ()))
          (C01.boxRefl (fun _ => some l) (fun _ => some u)) ⟨fun _ => z.1, fun _ => z.2⟩ o
       (s.q (), s.p ())) := by
  cases o with
  | drift c => simp [step1, stepOp, C01.boxRefl, C01.diagVel, cdriftMap, cdrift1, mul_assoc]
  | kick c => simp [step1, stepOp, kick1]
end boxed

/-! ### step-size randomisation: a state-independent mixture of invariant kernels is invariant -/
section mixture
variable {X Ω : Type*} [MeasurableSpace X] [MeasurableSpace Ω] (μ : Measure X) [SFinite μ]
  (ν : Measure Ω) [IsProbabilityMeasure ν]

/-- the factor is drawn from `ν` independently of the state; every `K u` leaves `π` invariant;
    then so does the averaged kernel `x ↦ ∫ K u g x dν(u)` -/
theorem mixture_invariant (π : X → ℝ≥0∞) (hπ : Measurable π)
    (K : Ω → (X → ℝ≥0∞) → (X → ℝ≥0∞)) (g : X → ℝ≥0∞)
    (hjoint : Measurable (fun p : X × Ω => K p.2 g p.1))
    (hinv : ∀ u, ∫⁻ x, π x * K u g x ∂μ = ∫⁻ x, π x * g x ∂μ) :
    ∫⁻ x, π x * (∫⁻ u, K u g x ∂ν) ∂μ = ∫⁻ x, π x * g x ∂μ := by
  have hsec : ∀ x, Measurable (fun u => K u g x) := fun x => hjoint.comp (measurable_prodMk_left)
  have h1 : ∀ x, π x * (∫⁻ u, K u g x ∂ν) = ∫⁻ u, π x * K u g x ∂ν := by
    intro x
    rw [lintegral_const_mul _ (hsec x)]
  simp_rw [h1]
  rw [lintegral_lintegral_swap]
  · simp_rw [hinv]
    simp
  · exact ((hπ.comp measurable_fst).mul hjoint).aemeasurable
end mixture

/-! ### step-size randomisation for HMC: the joint measurability that `mixture_invariant` assumes holds for the
    concrete family `u ↦ kernel with step u · h`, so the randomised transition is stationary outright -/
section randomised
variable {ι : Type} [Fintype ι]

/-- the trajectory with every coefficient scaled by `u`, as a function of `(state, u)` -/
def scaledTraj (vel grad : Vec ι → Vec ι) : List (Op ℝ) → Phase ι × ℝ → Phase ι
  | [], p => p.1
  | o :: os, p => scaledTraj vel grad os (stepProd vel grad (C01.scaleOp p.2 o) p.1, p.2)

theorem scaledTraj_eq (vel grad : Vec ι → Vec ι) (ops : List (Op ℝ)) (x : Phase ι) (u : ℝ) :
    scaledTraj vel grad ops (x, u) = proposeP vel grad (ops.map (C01.scaleOp u)) x := by
  induction ops generalizing x with
  | nil => rfl
  | cons o os ih =>
    simp only [scaledTraj, List.map_cons]
    rw [ih]
    simp only [proposeP, runOps_prod, List.foldl_cons]

theorem scaledTraj_measurable (vel grad : Vec ι → Vec ι) (hv : Measurable vel) (hg : Measurable grad) (ops : List (Op ℝ)) :
    Measurable (scaledTraj vel grad ops) := by
  induction ops with
  | nil => exact measurable_fst
  | cons o os ih =>
    have hstep : Measurable (fun p : Phase ι × ℝ => (stepProd vel grad (C01.scaleOp p.2 o) p.1, p.2)) := by
      refine Measurable.prodMk ?_ measurable_snd
      cases o with
      | drift c =>
        change Measurable (fun p : Phase ι × ℝ => (p.1.1 + (p.2 * c) • vel p.1.2, p.1.2))
        exact ((measurable_fst.comp measurable_fst).add
          ((measurable_snd.mul_const c).smul (hv.comp (measurable_snd.comp measurable_fst)))).prodMk
          (measurable_snd.comp measurable_fst)
      | kick c =>
        change Measurable (fun p : Phase ι × ℝ => (p.1.1, p.1.2 - (p.2 * c) • grad p.1.1))
        exact (measurable_fst.comp measurable_fst).prodMk
          ((measurable_snd.comp measurable_fst).sub
            ((measurable_snd.mul_const c).smul (hg.comp (measurable_fst.comp measurable_fst))))
    exact ih.comp hstep

/-- **HMC with a randomised step size is stationary**: the factor `u` is drawn from any probability law `ν`
    (the code: uniform on [0.5, 1.5)) independently of the state, once per trajectory -/
theorem hmc_randomised_invariant (U K : Vec ι → ℝ) (hU : Measurable U) (hK : Measurable K) (hKeven : ∀ p, K (-p) = K p)
    (vel grad : Vec ι → Vec ι) (hv : Measurable vel) (hg : Measurable grad) (hodd : ∀ p, vel (-p) = -vel p)
    (c : Coeffs ℝ) (i : Integrator) (h : ℝ) (n : Nat) (ν : Measure ℝ) [IsProbabilityMeasure ν]
    (f : Vec ι → ℝ≥0∞) (hf : Measurable f) :
    ∫⁻ x, gibbs U K x * (∫⁻ u, codeKernel U K vel grad (schedule c i (localStep true u h) n) f x ∂ν)
        ∂((volume : Measure (Vec ι)).prod volume)
      = ∫⁻ x, gibbs U K x * f x.1 ∂((volume : Measure (Vec ι)).prod volume) := by
  have hH : Measurable (energy U K) := (hU.comp measurable_fst).add (hK.comp measurable_snd)
  have hT := scaledTraj_measurable vel grad hv hg (schedule c i h n)
  have hprop : ∀ (x : Phase ι) (u : ℝ),
      proposeP vel grad (schedule c i (localStep true u h) n) x = scaledTraj vel grad (schedule c i h n) (x, u) := by
    intro x u; rw [scaledTraj_eq, C01.randomised_scales_uniformly]
  have hacc : Measurable (fun p : Phase ι × ℝ =>
      ENNReal.ofReal (min 1 (Real.exp (energy U K p.1 - energy U K (scaledTraj vel grad (schedule c i h n) p))))) :=
    ENNReal.measurable_ofReal.comp (measurable_const.min
      (Real.measurable_exp.comp ((hH.comp measurable_fst).sub (hH.comp hT))))
  refine mixture_invariant ((volume : Measure (Vec ι)).prod volume) ν (gibbs U K)
    (ENNReal.measurable_ofReal.comp (Real.measurable_exp.comp hH.neg))
    (fun u _ x => codeKernel U K vel grad (schedule c i (localStep true u h) n) f x) (fun x => f x.1) ?_ ?_
  · simp only [codeKernel, hprop]
    exact (hacc.mul (hf.comp (measurable_fst.comp hT))).add
      ((measurable_const.sub hacc).mul (hf.comp (measurable_fst.comp measurable_fst)))
  · intro u
    exact hmc_invariant U K hU hK hKeven vel grad hv hg hodd c i (localStep true u h) n f hf
end randomised

/-! ### boxed targets in any dimension, Unit / Diagonal metric: stationarity **with** reflections

   `trajBox l u w g ops` is the model's own trajectory `runOps (diagVel w) g (boxRefl l u) ops` (the one the
   correspondence check of C01 / C06 compares with `HMC._propagate_*` and `corrector`), read on `V × V`.
   The target is `exp(−U(q))` strictly inside the box and zero outside; every coordinate may be bounded on both
   sides (positive width), on one side, or not at all (`lb ub : ι → Option ℝ`, `C01.WellFormed`).  Still excluded:
   non-diagonal metrics (the known finding of C01). -/
section boxedN
variable {ι : Type} [Fintype ι]

noncomputable def psiBox (lb ub : ι → Option ℝ) (w : ι → ℝ) (g : Vec ι → Vec ι) (ops : List (Op ℝ)) (x : Phase ι) : Phase ι :=
  flipN (trajBox lb ub w g ops x)

theorem psiBox_measurePreserving (lb ub : ι → Option ℝ) (w : ι → ℝ) (hwf : C01.WellFormed lb ub) (g : Vec ι → Vec ι) (hg : Measurable g)
    (ops : List (Op ℝ)) :
    MeasurePreserving (psiBox lb ub w g ops) (((volume : Measure (Vec ι)).prod volume).restrict (openBox lb ub))
      (((volume : Measure (Vec ι)).prod volume).restrict (openBox lb ub)) :=
  (flipN_mp_box lb ub).comp (trajBox_mp lb ub w hwf g hg ops)

/-- **joint invariance in a box, any dimension** -/
theorem boxed_joint_invariant (lb ub : ι → Option ℝ) (w : ι → ℝ) (hwf : C01.WellFormed lb ub) (U K : Vec ι → ℝ) (hU : Measurable U)
    (hK : Measurable K) (g : Vec ι → Vec ι) (hg : Measurable g) (ops : List (Op ℝ)) (hp : ops.reverse = ops)
    (G : Phase ι → ℝ≥0∞) (hG : Measurable G) :
    ∫⁻ x, gibbs U K x * metropolisOp (psiBox lb ub w g ops) (acceptProb U K (psiBox lb ub w g ops)) G x
        ∂(((volume : Measure (Vec ι)).prod volume).restrict (openBox lb ub))
      = ∫⁻ x, gibbs U K x * G x ∂(((volume : Measure (Vec ι)).prod volume).restrict (openBox lb ub)) := by
  have hΨ := psiBox_measurePreserving lb ub w hwf g hg ops
  have hH : Measurable (energy U K) := (hU.comp measurable_fst).add (hK.comp measurable_snd)
  apply metropolis_invariant_ae _ _ hΨ (psiN_involution_ae lb ub w hwf g hg ops hp)
  · exact ENNReal.measurable_ofReal.comp (Real.measurable_exp.comp hH.neg)
  · exact ENNReal.measurable_ofReal.comp
      (measurable_const.min (Real.measurable_exp.comp (hH.sub (hH.comp hΨ.measurable))))
  · intro x; exact ENNReal.ofReal_ne_top
  · intro x; exact rule_is_min (energy U K) _ x
  · exact hG

/-- the kernel as the code runs it in a box (no momentum flip, the position is kept) -/
noncomputable def codeKernelBox (lb ub : ι → Option ℝ) (w : ι → ℝ) (U K : Vec ι → ℝ) (g : Vec ι → Vec ι) (ops : List (Op ℝ))
    (f : Vec ι → ℝ≥0∞) (x : Phase ι) : ℝ≥0∞ :=
  ENNReal.ofReal (min 1 (Real.exp (energy U K x - energy U K (trajBox lb ub w g ops x)))) * f (trajBox lb ub w g ops x).1
    + (1 - ENNReal.ofReal (min 1 (Real.exp (energy U K x - energy U K (trajBox lb ub w g ops x))))) * f x.1

/-- **stationarity of the position in a box, any dimension** -/
theorem boxed_position_invariant (lb ub : ι → Option ℝ) (w : ι → ℝ) (hwf : C01.WellFormed lb ub) (U K : Vec ι → ℝ) (hU : Measurable U)
    (hK : Measurable K) (hKeven : ∀ p, K (-p) = K p) (g : Vec ι → Vec ι) (hg : Measurable g)
    (ops : List (Op ℝ)) (hp : ops.reverse = ops) (f : Vec ι → ℝ≥0∞) (hf : Measurable f) :
    ∫⁻ x, gibbs U K x * codeKernelBox lb ub w U K g ops f x ∂(((volume : Measure (Vec ι)).prod volume).restrict (openBox lb ub))
      = ∫⁻ x, gibbs U K x * f x.1 ∂(((volume : Measure (Vec ι)).prod volume).restrict (openBox lb ub)) := by
  have h := boxed_joint_invariant lb ub w hwf U K hU hK g hg ops hp (fun x => f x.1) (hf.comp measurable_fst)
  rw [← h]
  congr 1; funext x
  have e : ∀ y : Phase ι, energy U K (flipN y) = energy U K y := fun y => by simp [energy, flipN, hKeven]
  simp only [codeKernelBox, metropolisOp, acceptProb, psiBox, e]
  rfl

/-- HMC in a box with a Unit / Diagonal metric: all integrators, all `n`, all `h`, all coefficient sets -/
theorem boxed_hmc_invariant (lb ub : ι → Option ℝ) (w : ι → ℝ) (hwf : C01.WellFormed lb ub) (U K : Vec ι → ℝ) (hU : Measurable U)
    (hK : Measurable K) (hKeven : ∀ p, K (-p) = K p) (g : Vec ι → Vec ι) (hg : Measurable g)
    (c : Coeffs ℝ) (i : Integrator) (h : ℝ) (n : Nat) (f : Vec ι → ℝ≥0∞) (hf : Measurable f) :
    ∫⁻ x, gibbs U K x * codeKernelBox lb ub w U K g (schedule c i h n) f x
        ∂(((volume : Measure (Vec ι)).prod volume).restrict (openBox lb ub))
      = ∫⁻ x, gibbs U K x * f x.1 ∂(((volume : Measure (Vec ι)).prod volume).restrict (openBox lb ub)) :=
  boxed_position_invariant lb ub w hwf U K hU hK hKeven g hg _ (C01.schedule_palindrome c i h n) f hf
end boxedN

/-! ### randomised step size in a box: both features together -/
section boxedRandomised
variable {ι : Type} [Fintype ι]

theorem correctorPair_measurable (lb ub : Option ℝ) : Measurable (fun z : ℝ × ℝ => correctorR lb ub z.1 z.2) := by
  have h := cdriftMapO_measurable lb ub 0
  have e : cdriftMapO lb ub 0 = fun z : ℝ × ℝ => correctorR lb ub z.1 z.2 := by
    funext z; simp [cdriftMapO, cdrift1]
  rwa [e] at h

attribute [local irreducible] correctorR in
/-- the box corrector on `V × V` is measurable -/
theorem boxReflProd_measurable (lb ub : ι → Option ℝ) :
    Measurable (fun x : Phase ι => toProd (C01.boxRefl lb ub (ofProd x))) := by
  have hc : ∀ i, Measurable (fun x : Phase ι => correctorR (lb i) (ub i) (x.1 i) (x.2 i)) := fun i =>
    Measurable.comp (g := fun z : ℝ × ℝ => correctorR (lb i) (ub i) z.1 z.2) (f := fun x : Phase ι => (x.1 i, x.2 i))
      (correctorPair_measurable (lb i) (ub i))
      (((measurable_pi_apply i).comp measurable_fst).prodMk ((measurable_pi_apply i).comp measurable_snd))
  have e : (fun x : Phase ι => toProd (C01.boxRefl lb ub (ofProd x)))
      = fun x : Phase ι => ((fun i => (correctorR (lb i) (ub i) (x.1 i) (x.2 i)).1 : Vec ι),
          (fun i => (correctorR (lb i) (ub i) (x.1 i) (x.2 i)).2 : Vec ι)) := by
    funext x; simp only [toProd, ofProd, C01.boxRefl]
  rw [e]
  refine Measurable.prodMk ?_ ?_
  · exact measurable_pi_iff.mpr fun i => measurable_fst.comp (hc i)
  · exact measurable_pi_iff.mpr fun i => measurable_snd.comp (hc i)

/-- the boxed trajectory with every coefficient scaled by `u`, as a function of `(state, u)` -/
noncomputable def scaledTrajBox (lb ub : ι → Option ℝ) (w : ι → ℝ) (g : Vec ι → Vec ι) : List (Op ℝ) → Phase ι × ℝ → Phase ι
  | [], p => p.1
  | o :: os, p => scaledTrajBox lb ub w g os (stepBox lb ub w g p.1 (C01.scaleOp p.2 o), p.2)

theorem scaledTrajBox_eq (lb ub : ι → Option ℝ) (w : ι → ℝ) (g : Vec ι → Vec ι) (ops : List (Op ℝ)) (x : Phase ι) (u : ℝ) :
    scaledTrajBox lb ub w g ops (x, u) = trajBox lb ub w g (ops.map (C01.scaleOp u)) x := by
  induction ops generalizing x with
  | nil => rfl
  | cons o os ih =>
    simp only [scaledTrajBox, List.map_cons]
    rw [ih, trajBox_cons]

theorem scaledTrajBox_measurable (lb ub : ι → Option ℝ) (w : ι → ℝ) (g : Vec ι → Vec ι) (hg : Measurable g)
    (ops : List (Op ℝ)) : Measurable (scaledTrajBox lb ub w g ops) := by
  induction ops with
  | nil => exact measurable_fst
  | cons o os ih =>
    have hstep : Measurable (fun p : Phase ι × ℝ => (stepBox lb ub w g p.1 (C01.scaleOp p.2 o), p.2)) := by
      refine Measurable.prodMk ?_ measurable_snd
      cases o with
      | drift c =>
        have hd : Measurable (fun p : Phase ι × ℝ => ((p.1.1 + (p.2 * c) • C01.diagVel w p.1.2, p.1.2) : Phase ι)) := by
          have hvel : Measurable (C01.diagVel w) := by
            unfold C01.diagVel
            exact measurable_pi_iff.mpr fun i => measurable_const.mul (measurable_pi_apply i)
          exact ((measurable_fst.comp measurable_fst).add
            ((measurable_snd.mul_const c).smul (hvel.comp (measurable_snd.comp measurable_fst)))).prodMk
            (measurable_snd.comp measurable_fst)
        have e : (fun p : Phase ι × ℝ => stepBox lb ub w g p.1 (C01.scaleOp p.2 (Op.drift c)))
            = (fun x : Phase ι => toProd (C01.boxRefl lb ub (ofProd x))) ∘
              (fun p : Phase ι × ℝ => ((p.1.1 + (p.2 * c) • C01.diagVel w p.1.2, p.1.2) : Phase ι)) := by
          funext p; simp only [stepBox, stepOp, C01.scaleOp, Function.comp, ofProd]
        rw [e]
        exact (boxReflProd_measurable lb ub).comp hd
      | kick c =>
        change Measurable (fun p : Phase ι × ℝ => (p.1.1, p.1.2 - (p.2 * c) • g p.1.1))
        exact (measurable_fst.comp measurable_fst).prodMk
          ((measurable_snd.comp measurable_fst).sub
            ((measurable_snd.mul_const c).smul (hg.comp (measurable_fst.comp measurable_fst))))
    exact ih.comp hstep

/-- **HMC in a box with a randomised step size is stationary** (any dimension, any box, Unit / Diagonal metric,
    any probability law of the factor) -/
theorem boxed_hmc_randomised_invariant (lb ub : ι → Option ℝ) (w : ι → ℝ) (hwf : C01.WellFormed lb ub)
    (U K : Vec ι → ℝ) (hU : Measurable U) (hK : Measurable K) (hKeven : ∀ p, K (-p) = K p)
    (g : Vec ι → Vec ι) (hg : Measurable g) (c : Coeffs ℝ) (i : Integrator) (h : ℝ) (n : Nat)
    (ν : Measure ℝ) [IsProbabilityMeasure ν] (f : Vec ι → ℝ≥0∞) (hf : Measurable f) :
    ∫⁻ x, gibbs U K x * (∫⁻ u, codeKernelBox lb ub w U K g (schedule c i (localStep true u h) n) f x ∂ν)
        ∂(((volume : Measure (Vec ι)).prod volume).restrict (openBox lb ub))
      = ∫⁻ x, gibbs U K x * f x.1 ∂(((volume : Measure (Vec ι)).prod volume).restrict (openBox lb ub)) := by
  have hH : Measurable (energy U K) := (hU.comp measurable_fst).add (hK.comp measurable_snd)
  have hT := scaledTrajBox_measurable lb ub w g hg (schedule c i h n)
  have hprop : ∀ (x : Phase ι) (u : ℝ),
      trajBox lb ub w g (schedule c i (localStep true u h) n) x = scaledTrajBox lb ub w g (schedule c i h n) (x, u) := by
    intro x u; rw [scaledTrajBox_eq, C01.randomised_scales_uniformly]
  have hacc : Measurable (fun p : Phase ι × ℝ =>
      ENNReal.ofReal (min 1 (Real.exp (energy U K p.1 - energy U K (scaledTrajBox lb ub w g (schedule c i h n) p))))) :=
    ENNReal.measurable_ofReal.comp (measurable_const.min
      (Real.measurable_exp.comp ((hH.comp measurable_fst).sub (hH.comp hT))))
  refine mixture_invariant (((volume : Measure (Vec ι)).prod volume).restrict (openBox lb ub)) ν (gibbs U K)
    (ENNReal.measurable_ofReal.comp (Real.measurable_exp.comp hH.neg))
    (fun u _ x => codeKernelBox lb ub w U K g (schedule c i (localStep true u h) n) f x) (fun x => f x.1) ?_ ?_
  · simp only [codeKernelBox, hprop]
    exact (hacc.mul (hf.comp (measurable_fst.comp hT))).add
      ((measurable_const.sub hacc).mul (hf.comp (measurable_fst.comp measurable_fst)))
  · intro u
    exact boxed_hmc_invariant lb ub w hwf U K hU hK hKeven g hg c i (localStep true u h) n f hf
end boxedRandomised

/-! ### the code's own law of the step-size factor: `rng.uniform(0.5, 1.5)` -/
section codeLaw
variable {ι : Type} [Fintype ι]

/-- the law of `rng.uniform(0.5, 1.5)`: Lebesgue measure on `[1/2, 3/2]` -/
noncomputable def stepFactorLaw : Measure ℝ := volume.restrict (Set.Icc (1/2 : ℝ) (3/2))

instance stepFactorLaw_prob : IsProbabilityMeasure stepFactorLaw := by
  constructor
  simp only [stepFactorLaw, Measure.restrict_apply_univ, Real.volume_Icc]
  norm_num

/-- HMC as the code runs it with `randomize_stepsize=True` (unbounded target, any fixed metric) -/
theorem hmc_randomised_invariant_code (U K : Vec ι → ℝ) (hU : Measurable U) (hK : Measurable K) (hKeven : ∀ p, K (-p) = K p)
    (vel grad : Vec ι → Vec ι) (hv : Measurable vel) (hg : Measurable grad) (hodd : ∀ p, vel (-p) = -vel p)
    (c : Coeffs ℝ) (i : Integrator) (h : ℝ) (n : Nat) (f : Vec ι → ℝ≥0∞) (hf : Measurable f) :
    ∫⁻ x, gibbs U K x * (∫⁻ u, codeKernel U K vel grad (schedule c i (localStep true u h) n) f x ∂stepFactorLaw)
        ∂((volume : Measure (Vec ι)).prod volume)
      = ∫⁻ x, gibbs U K x * f x.1 ∂((volume : Measure (Vec ι)).prod volume) :=
  hmc_randomised_invariant U K hU hK hKeven vel grad hv hg hodd c i h n stepFactorLaw f hf

/-- the same in a box (Unit / Diagonal metric) -/
theorem boxed_hmc_randomised_invariant_code (lb ub : ι → Option ℝ) (w : ι → ℝ) (hwf : C01.WellFormed lb ub)
    (U K : Vec ι → ℝ) (hU : Measurable U) (hK : Measurable K) (hKeven : ∀ p, K (-p) = K p)
    (g : Vec ι → Vec ι) (hg : Measurable g) (c : Coeffs ℝ) (i : Integrator) (h : ℝ) (n : Nat)
    (f : Vec ι → ℝ≥0∞) (hf : Measurable f) :
    ∫⁻ x, gibbs U K x * (∫⁻ u, codeKernelBox lb ub w U K g (schedule c i (localStep true u h) n) f x ∂stepFactorLaw)
        ∂(((volume : Measure (Vec ι)).prod volume).restrict (openBox lb ub))
      = ∫⁻ x, gibbs U K x * f x.1 ∂(((volume : Measure (Vec ι)).prod volume).restrict (openBox lb ub)) :=
  boxed_hmc_randomised_invariant lb ub w hwf U K hU hK hKeven g hg c i h n stepFactorLaw f hf
end codeLaw

/-! ### non-vacuity of the boxed theorems: a concrete box, potential, kinetic energy and gradient meet the hypotheses,
    and the strip carries mass (`volume.restrict (openStrip 0 1) ≠ 0`) -/
example : (0:ℝ) < 1 ∧ Measurable (fun q : ℝ => q ^ 2 / 2) ∧ Measurable (fun p : ℝ => p ^ 2 / 2)
    ∧ (∀ p : ℝ, (fun p : ℝ => p ^ 2 / 2) (-p) = (fun p : ℝ => p ^ 2 / 2) p) ∧ Measurable (fun q : ℝ => q) := by
  refine ⟨by norm_num, by fun_prop, by fun_prop, fun p => by simp, measurable_id⟩
example : ((1/2, 9/4) : ℝ × ℝ) ∈ openStrip 0 1 := by constructor <;> norm_num

/-- a well-formed box with a two-sided and a one-sided coordinate, and a point strictly inside it -/
example : C01.WellFormed (![some 0, none] : Fin 2 → Option ℝ) ![some 1, some 5] := by
  intro i l u hl hu
  fin_cases i
  · simp at hl hu; subst hl hu; norm_num
  · simp at hl
example : ((![1/2, 3], ![9/4, -1]) : Vec (Fin 2) × Vec (Fin 2)) ∈ openBox (![some 0, none] : Fin 2 → Option ℝ) ![some 1, some 5] := by
  intro i
  fin_cases i
  · refine ⟨?_, ?_⟩ <;> intro a ha <;> simp at ha <;> subst ha <;> norm_num
  · refine ⟨?_, ?_⟩ <;> intro a ha <;> simp at ha <;> subst ha <;> norm_num

end C04
end HmcVerif
