import HmcVerif.Model.Bounds
import HmcVerif.Model.Linear
import HmcVerif.Real.Lit
import HmcVerif.Real.Grad
import HmcVerif.Real.Grad2
import Mathlib.Data.Matrix.Mul
import Mathlib.LinearAlgebra.Matrix.Symmetric
import Mathlib.Tactic.Ring
import Mathlib.Tactic.Linarith
import Mathlib.Tactic.FunProp
/-
  C15 — all LinearMatrix back ends compute the same Gaussian likelihood
  (model: Model/Linear.lean, instantiated at Mathlib matrices: `G : Matrix κ ι ℝ` has one row per
  datum and one column per model parameter, any shape).
-/
set_option linter.unusedSectionVars false
open Finset Matrix
namespace HmcVerif
namespace C15
variable {ι κ : Type} [Fintype ι] [Fintype κ]

/-- `½ (Gm − d)ᵀ W (Gm − d)` over ℝ -/
noncomputable def spec (G : Matrix κ ι ℝ) (W : Matrix κ κ ℝ) (d : κ → ℝ) (m : ι → ℝ) : ℝ :=
  Linear.specMisfit (fun v => G *ᵥ v) (fun r => W *ᵥ r) (fun a b => a ⬝ᵥ b) d m

noncomputable def specGrad (G : Matrix κ ι ℝ) (W : Matrix κ κ ℝ) (d : κ → ℝ) (m : ι → ℝ) : ι → ℝ :=
  Linear.specGradient (fun v => G *ᵥ v) (fun r => Gᵀ *ᵥ r) (fun r => W *ᵥ r) d m

theorem spec_eq (G : Matrix κ ι ℝ) (W : Matrix κ κ ℝ) (d : κ → ℝ) (m : ι → ℝ) :
    spec G W d m = 1 / 2 * ((G *ᵥ m - d) ⬝ᵥ (W *ᵥ (G *ᵥ m - d))) := by
  simp [spec, Linear.specMisfit, lit_half]

/-- the premultiplied normal-equation form equals the residual form, for every shape of `G`,
    every data vector, every symmetric inverse covariance (scalar, per-datum or full) -/
theorem premultiplied_eq_residual (G : Matrix κ ι ℝ) (W : Matrix κ κ ℝ) (hW : W.IsSymm) (d : κ → ℝ) (m : ι → ℝ) :
    Linear.premulMisfit (fun v => (Gᵀ * W * G) *ᵥ v) ((Gᵀ * W) *ᵥ d) (d ⬝ᵥ (W *ᵥ d)) (fun a b => a ⬝ᵥ b) m
      = spec G W d m := by
  rw [spec_eq]
  simp only [Linear.premulMisfit, lit_half, lit_two]
  congr 1
  have h1 : m ⬝ᵥ ((Gᵀ * W * G) *ᵥ m) = (G *ᵥ m) ⬝ᵥ (W *ᵥ (G *ᵥ m)) := by
    rw [← Matrix.mulVec_mulVec, ← Matrix.mulVec_mulVec, Matrix.dotProduct_mulVec, Matrix.vecMul_transpose]
  have h2 : m ⬝ᵥ ((Gᵀ * W) *ᵥ d) = (G *ᵥ m) ⬝ᵥ (W *ᵥ d) := by
    rw [← Matrix.mulVec_mulVec, Matrix.dotProduct_mulVec, Matrix.vecMul_transpose]
  have h3 : d ⬝ᵥ (W *ᵥ (G *ᵥ m)) = (G *ᵥ m) ⬝ᵥ (W *ᵥ d) := by
    rw [Matrix.dotProduct_mulVec, ← hW.eq, Matrix.vecMul_transpose, hW.eq, dotProduct_comm]
  rw [dotProduct_sub, dotProduct_smul, h1, h2, Matrix.mulVec_sub, sub_dotProduct, dotProduct_sub, dotProduct_sub, h3]
  simp only [smul_eq_mul]
  ring

theorem premultiplied_gradient (G : Matrix κ ι ℝ) (W : Matrix κ κ ℝ) (d : κ → ℝ) (m : ι → ℝ) :
    Linear.premulGradient (fun v => (Gᵀ * W * G) *ᵥ v) ((Gᵀ * W) *ᵥ d) m = specGrad G W d m := by
  simp only [Linear.premulGradient, specGrad, Linear.specGradient]
  rw [Matrix.mulVec_sub, Matrix.mulVec_sub, Matrix.mulVec_mulVec, Matrix.mulVec_mulVec, Matrix.mulVec_mulVec,
    Matrix.mul_assoc]

/-- the Cholesky form `½‖U r‖²` with `UᵀU = W` equals `½ rᵀ W r` -/
theorem cholesky_form_eq (G : Matrix κ ι ℝ) (W U : Matrix κ κ ℝ) (hU : Uᵀ * U = W) (d : κ → ℝ) (m : ι → ℝ) :
    Linear.factorMisfit (fun v => G *ᵥ v) (fun r => U *ᵥ r) (fun a b => a ⬝ᵥ b) d m = spec G W d m := by
  rw [spec_eq]
  simp only [Linear.factorMisfit, lit_half]
  congr 1
  rw [← hU, ← Matrix.mulVec_mulVec, Matrix.dotProduct_mulVec (G *ᵥ m - d) Uᵀ, Matrix.vecMul_transpose]

/-- scalar or per-datum variances: `½‖r/σ‖²` with `σᵢ² = varᵢ` is the spec with `W = diag(1/var)` -/
theorem simple_covariance_form [DecidableEq κ] (G : Matrix κ ι ℝ) (var sig : κ → ℝ) (hs : ∀ i, sig i ^ 2 = var i)
    (hv : ∀ i, var i ≠ 0) (d : κ → ℝ) (m : ι → ℝ) :
    1 / 2 * ∑ i, ((G *ᵥ m - d) i / sig i) ^ 2 = spec G (Matrix.diagonal (fun i => 1 / var i)) d m := by
  rw [spec_eq]
  congr 1
  simp only [dotProduct, Matrix.mulVec_diagonal]
  apply Finset.sum_congr rfl
  intro i _
  have : sig i ≠ 0 := by
    intro h; apply hv i; rw [← hs i, h]; ring
  rw [div_pow, hs i]
  field_simp

/-- `gradient` is the derivative of `misfit`: every shape, every symmetric `W` -/
theorem gradient_is_derivative [DecidableEq κ] (G : Matrix κ ι ℝ) (W : Matrix κ κ ℝ) (hW : W.IsSymm) (d : κ → ℝ) (m : ι → ℝ) :
    IsGradAt (spec G W d) (specGrad G W d m) m := by
  apply isGradAt_of_line
  · have : spec G W d = fun y => 1 / 2 * ((G *ᵥ y - d) ⬝ᵥ (W *ᵥ (G *ᵥ y - d))) := by
      funext y; exact spec_eq G W d y
    rw [this]
    simp only [dotProduct, mulVec, Pi.sub_apply]
    fun_prop
  · intro v
    have h := quadForm_hasDerivAt W hW d (G *ᵥ m) (G *ᵥ v)
    have e : ∀ t : ℝ, spec G W d (m + t • v) = 1 / 2 * ((d - (G *ᵥ m + t • G *ᵥ v)) ⬝ᵥ (W *ᵥ (d - (G *ᵥ m + t • G *ᵥ v)))) := by
      intro t
      rw [spec_eq, Matrix.mulVec_add, Matrix.mulVec_smul]
      have hneg : G *ᵥ m + t • G *ᵥ v - d = -(d - (G *ᵥ m + t • G *ᵥ v)) := by abel
      rw [hneg, Matrix.mulVec_neg, neg_dotProduct, dotProduct_neg, neg_neg]
    simp only [e]
    refine h.congr_deriv ?_
    show (-(W *ᵥ (d - G *ᵥ m))) ⬝ᵥ (G *ᵥ v) = (Gᵀ *ᵥ (W *ᵥ (G *ᵥ m - d))) ⬝ᵥ v
    have hneg : -(W *ᵥ (d - G *ᵥ m)) = W *ᵥ (G *ᵥ m - d) := by
      rw [← Matrix.mulVec_neg]; congr 1; abel
    rw [hneg, Matrix.dotProduct_mulVec, Matrix.mulVec_transpose]

/-- `forward(m) = G m` -/
theorem forward_eq (G : Matrix κ ι ℝ) (m : ι → ℝ) : (fun v => G *ᵥ v) m = G *ᵥ m := rfl

/-! ### "after a pickle round trip": round trips are invisible in every history of the object -/

/-- the box in force after any history of bound updates and pickle/copy round trips is the box the
    bound updates alone produce -/
theorem roundtrips_invisible {V : Type} (clash : V → V → Bool) (b : Option V × Option V) (ops : List (DistOp V)) :
    distRun clash b ops = distRun clash b (ops.filter (fun o => !o.isRoundTrip)) := by
  unfold distRun
  induction ops generalizing b with
  | nil => rfl
  | cons o rest ih =>
    cases o with
    | setBounds lo up => simp only [List.foldl_cons, List.filter_cons, DistOp.isRoundTrip, Bool.not_false, if_true]; exact ih _
    | roundTrip => simp only [List.foldl_cons, List.filter_cons, DistOp.isRoundTrip, Bool.not_true, distStep]; exact ih _

/-- in particular bounds set before a round trip are in force after it -/
theorem bounds_survive_roundtrip {V : Type} (clash : V → V → Bool) (b : Option V × Option V) (l u : V) (h : clash l u = false) (k : Nat) :
    distRun clash b (DistOp.setBounds (.ok l) (.ok u) :: List.replicate k DistOp.roundTrip) = (some l, some u) := by
  rw [roundtrips_invisible]
  have : (List.replicate k (DistOp.roundTrip : DistOp V)).filter (fun o => !o.isRoundTrip) = [] := by
    induction k with
    | zero => rfl
    | succ n ih => simpa [List.replicate_succ, DistOp.isRoundTrip] using ih
  simp [distRun, List.filter_cons, DistOp.isRoundTrip, this, distStep, updateBounds, h]

/-! ### non-vacuity: an over-determined 3×2 system -/
example : (Matrix.of ![![1, 0], ![0, 1], ![1, 1]] : Matrix (Fin 3) (Fin 2) ℝ) *ᵥ ![1, 2] = ![1, 2, 3] := by
  funext i; fin_cases i <;> simp [Matrix.mulVec, dotProduct, Fin.sum_univ_two] <;> norm_num

end C15
end HmcVerif
