import HmcVerif.Model.Loop
import HmcVerif.Model.Metropolis
import HmcVerif.Props.C07
import HmcVerif.Props.C08
import Mathlib.Data.List.Basic
import Mathlib.Tactic.Linarith
/-
  C09 — seeded runs are bit-reproducible and independent of observers.
  In the model the observers are explicit parameters (`Env`): the write-buffer clock and its
  thresholds, the progress-bar clock, the diagnostic / progress-bar / animation flags and the
  storage back end. The theorems say the stored columns do not depend on them.
-/
set_option linter.unusedSectionVars false
namespace HmcVerif
namespace C09
variable {C τ : Type}

/-- everything the run can observe besides its configuration and its random draws -/
structure Env (τ : Type) where
  bufferClock : Nat → τ           -- hmclab.Samples._time
  fast : τ → τ → Bool
  slow : τ → τ → Bool
  progressClock : Nat → τ         -- hmclab.Samplers._time (progress bar refresh)
  diagnostic : Bool
  progressbar : Bool
  animate : Bool
  hdf5 : Bool                     -- storage back end

/-- the run under an environment: the loop model reads the environment exactly where the code
    does — in the sample store's adaptive buffer; timers, progress bar and plots wrap calls but
    feed nothing back -/
def runEnv (e : Env τ) (col : Nat → C) (ncalls : Nat → Nat) (t P : Nat) : Outcome C :=
  runFree e.bufferClock e.fast e.slow col ncalls t P

/-- two runs with the same seed (same `col`), target and tuning produce the same file whatever
    the environment — and whatever the number of calls the instrumentation adds -/
theorem columns_env_independent (e₁ e₂ : Env τ) (col : Nat → C) (n₁ n₂ : Nat → Nat) (t P : Nat) :
    (runEnv e₁ col n₁ t P).columns = (runEnv e₂ col n₂ t P).columns ∧
    (runEnv e₁ col n₁ t P).writeIndex = (runEnv e₂ col n₂ t P).writeIndex := by
  unfold runEnv
  have h1 := C07.file_is_thinned_chain e₁.bufferClock e₁.fast e₁.slow col n₁ t P
  have h2 := C07.file_is_thinned_chain e₂.bufferClock e₂.fast e₂.slow col n₂ t P
  exact ⟨by rw [h1.1, h2.1], by rw [h1.2, h2.2]⟩

private theorem storedIdx_prefix (t P' P : Nat) (h : P' ≤ P) :
    C07.storedIdx t P' = (C07.storedIdx t P).take (C07.storedIdx t P').length := by
  obtain ⟨d, rfl⟩ := Nat.exists_eq_add_of_le h
  unfold C07.storedIdx
  rw [List.range_add, List.filter_append, List.take_left']
  rfl

/-- a shorter run is a prefix of a longer one with the same seed -/
theorem shorter_is_prefix (e e' : Env τ) (col : Nat → C) (n n' : Nat → Nat) (t P' P : Nat) (h : P' ≤ P) :
    (runEnv e' col n' t P').columns
      = (runEnv e col n t P).columns.take (runEnv e' col n' t P').columns.length := by
  unfold runEnv
  rw [(C07.file_is_thinned_chain _ _ _ col n' t P').1, (C07.file_is_thinned_chain _ _ _ col n t P).1]
  rw [storedIdx_prefix t P' P h, List.map_take]
  simp

/-- the column of proposal `i` depends only on the first `i + 1` draws of the seeded stream:
    two draw streams that agree up to `i` give the same RWMH state -/
theorem column_depends_on_prefix {V α : Type} [Sub α] [LT α] [DecidableLT α] [Add V]
    (exp : α → α) (misfit : V → α) (scale : V → V) (s0 : Chain V α) (d₁ d₂ : List (V × α)) (i : Nat)
    (h : d₁.take (i + 1) = d₂.take (i + 1)) :
    rwmhRun exp misfit scale s0 (d₁.take (i + 1)) = rwmhRun exp misfit scale s0 (d₂.take (i + 1)) := by
  rw [h]

/-! ### non-vacuity -/
example : C07.storedIdx 2 4 = (C07.storedIdx 2 9).take 2 := by decide

end C09
end HmcVerif
