import HmcVerif.Model.Store
import Mathlib.Tactic.Linarith
import Mathlib.Data.List.Basic
/-
  C10 — the Samples container round-trips data exactly under any buffering
  (model: Model/Store.lean). The statements hold for every op sequence, every clock, every
  column type.
-/
set_option linter.unusedSectionVars false
namespace HmcVerif
namespace C10
variable {C τ : Type} (clock : Nat → τ) (fast slow : τ → τ → Bool)

/-- the refinement invariant: file ++ buffer is what was appended, the write index counts the file -/
def Inv (s : Store C τ) (appended : List C) : Prop :=
  s.disk ++ s.buffer = appended ∧ s.writeIndex = s.disk.length ∧ s.closed = false

private theorem flush_inv (s : Store C τ) (a : List C) (h : Inv s a) : Inv s.flush a := by
  obtain ⟨h1, h2, h3⟩ := h
  unfold Store.flush
  split
  · exact ⟨h1, h2, h3⟩
  · refine ⟨by simpa using h1, ?_, h3⟩
    simp [h2]

private theorem append_inv (s : Store C τ) (a : List C) (c : C) (h : Inv s a) :
    Inv (s.append clock fast slow c) (a ++ [c]) := by
  obtain ⟨h1, h2, h3⟩ := h
  unfold Store.append
  simp only
  split
  · apply flush_inv
    exact ⟨by simp [← h1], h2, h3⟩
  · exact ⟨by simp [← h1], h2, h3⟩

/-- columns appended by an op list that contains no `close` -/
def appended : List (StoreOp C) → List C
  | [] => []
  | .append c :: rest => c :: appended rest
  | _ :: rest => appended rest

def NoClose (ops : List (StoreOp C)) : Prop := ∀ o ∈ ops, o ≠ StoreOp.close

private theorem run_inv (ops : List (StoreOp C)) (hn : NoClose ops) (s : Store C τ) (a : List C) (h : Inv s a) :
    Inv (Store.run clock fast slow ops s) (a ++ appended ops) := by
  induction ops generalizing s a with
  | nil => simpa [Store.run, appended] using h
  | cons o os ih =>
    have hn' : NoClose os := fun o' ho' => hn o' (List.mem_cons_of_mem _ ho')
    simp only [Store.run, List.foldl_cons]
    cases o with
    | append c =>
      have := ih hn' (Store.step clock fast slow s (.append c)) (a ++ [c])
        (by simp only [Store.step, h.2.2]; exact append_inv clock fast slow s a c h)
      simpa [appended, Store.run] using this
    | flush =>
      have := ih hn' (Store.step clock fast slow s .flush) a
        (by simp only [Store.step, h.2.2]; exact flush_inv s a h)
      simpa [appended, Store.run] using this
    | writeAttr =>
      have := ih hn' (Store.step clock fast slow s .writeAttr) a (by simpa [Store.step] using h)
      simpa [appended, Store.run] using this
    | close => exact absurd rfl (hn _ (List.mem_cons_self))

/-- **whatever** sequence of appends, explicit flushes and attribute writes is performed and
    **whatever** clock drives the adaptive buffer: file ++ buffer = the appended columns in order -/
theorem store_invariant (ops : List (StoreOp C)) (hn : NoClose ops) :
    let s := Store.run clock fast slow ops (Store.init : Store C τ)
    s.disk ++ s.buffer = appended ops ∧ s.writeIndex = s.disk.length := by
  have := run_inv clock fast slow ops hn (Store.init : Store C τ) [] ⟨rfl, rfl, rfl⟩
  simp only [List.nil_append] at this
  exact ⟨this.1, this.2.1⟩

/-- after close the file holds exactly the appended columns in order and the write index equals
    the number of columns -/
theorem after_close (ops : List (StoreOp C)) (hn : NoClose ops) :
    let s := Store.run clock fast slow (ops ++ [StoreOp.close]) (Store.init : Store C τ)
    s.disk = appended ops ∧ s.writeIndex = (appended ops).length ∧ s.buffer = [] ∧ s.closed = true := by
  have h := run_inv clock fast slow ops hn (Store.init : Store C τ) [] ⟨rfl, rfl, rfl⟩
  simp only [List.nil_append] at h
  simp only [Store.run, List.foldl_append, List.foldl_cons, List.foldl_nil, Store.step, Store.close]
  have hf := flush_inv _ _ h
  obtain ⟨h1, h2, h3⟩ := hf
  have hb : (Store.flush (List.foldl (Store.step clock fast slow) Store.init ops)).buffer = [] := by
    unfold Store.flush
    split
    · rename_i he; simpa using he
    · rfl
  simp only [Store.run] at h1 h2
  rw [hb, List.append_nil] at h1
  exact ⟨h1, by rw [h2, h1], hb, by trivial⟩

private theorem flush_interval (s : Store C τ) : s.flush.interval = s.interval := by
  unfold Store.flush; split <;> rfl

private theorem append_interval_pos (s : Store C τ) (c : C) (h : 1 ≤ s.interval) :
    1 ≤ (s.append clock fast slow c).interval := by
  unfold Store.append
  simp only
  split
  · rw [flush_interval]
    simp only
    split
    · exact h
    · split
      · omega
      · split
        · exact le_max_right _ _
        · exact h
  · exact h

/-- the adaptive interval never drops below one column -/
theorem interval_pos (ops : List (StoreOp C)) (s : Store C τ) (h : 1 ≤ s.interval) :
    1 ≤ (Store.run clock fast slow ops s).interval := by
  induction ops generalizing s with
  | nil => exact h
  | cons o os ih =>
    simp only [Store.run, List.foldl_cons]
    apply ih
    cases o with
    | append c =>
      simp only [Store.step]
      split
      · exact h
      · exact append_interval_pos clock fast slow s c h
    | flush =>
      simp only [Store.step]; split
      · exact h
      · rw [flush_interval]; exact h
    | writeAttr => exact h
    | close => simp only [Store.step, Store.close]; rw [flush_interval]; exact h

/-! ### read side -/

/-- read back with burn-in `b`: the appended columns in order with the first `b` dropped -/
theorem read_drops_burn_in (ops : List (StoreOp C)) (hn : NoClose ops) (b : Nat) :
    readColumns (Store.run clock fast slow (ops ++ [StoreOp.close]) (Store.init : Store C τ)).disk b
      = (appended ops).drop b := by
  rw [(after_close clock fast slow ops hn).1]; rfl

/-- indexing a column after burn-in -/
theorem read_column (disk : List C) (b j : Nat) : readColumn? disk b j = disk[b + j]? := by
  simp [readColumn?, List.getElem?_drop]

/-- a burn-in not shorter than the chain is refused, and only such a burn-in -/
theorem burn_in_refused_iff (n b : Nat) : readRefused n b = true ↔ n ≤ b := by
  simp [readRefused]

/-- combine_samples = concatenation of the inputs without the NaN-containing columns, in order -/
theorem combine_is_concat_without_nan (hasNaN : C → Bool) (views : List (List C)) :
    combine hasNaN views = (views.map (fun v => v.filter (fun c => !hasNaN c))).flatten := by
  induction views with
  | nil => rfl
  | cons v vs ih =>
    simp only [combine, List.flatten_cons, List.filter_append, List.map_cons] at ih ⊢
    rw [ih]

theorem combine_no_nan (hasNaN : C → Bool) (views : List (List C)) :
    ∀ c ∈ combine hasNaN views, hasNaN c = false := by
  intro c hc
  simp only [combine, List.mem_filter] at hc
  simpa using hc.2

/-! ### non-vacuity -/
example : NoClose [StoreOp.append (1 : Nat), .flush, .append 2, .writeAttr, .append 3] := by
  intro o ho; simp at ho; rcases ho with rfl | rfl | rfl | rfl | rfl <;> simp

end C10
end HmcVerif
