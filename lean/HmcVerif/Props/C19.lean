import HmcVerif.Model.Optimizer
import HmcVerif.Real.Ext
import Mathlib.Data.List.Chain
import Mathlib.Tactic.Linarith
import Mathlib.Tactic.NormNum
/-
  C19 — gradient_descent returns a consistent, finite, guarded trajectory.
  All statements hold for every scalar type (in particular the IEEE-like `Ext`, where `bad` is
  "NaN or ±inf"), every target, every iteration count.
-/
set_option linter.unusedSectionVars false
namespace HmcVerif
namespace C19

section
variable {V α : Type} [Sub V] [SMul α V] [LT α] [DecidableLT α]
variable (misfit : V → α) (grad : V → V) (pre : V → V) (bad : α → Bool) (strict : Bool) (eps : α)

private theorem hist_ne_nil (cur : V × α) (k : Nat) :
    (gdFrom misfit grad pre bad strict eps cur k).hist ≠ [] := by
  cases k with
  | zero => simp [gdFrom]
  | succ k =>
    simp only [gdFrom]
    split
    · simp
    · split <;> simp

private theorem hist_head (cur : V × α) (k : Nat) :
    (gdFrom misfit grad pre bad strict eps cur k).hist.head? = some cur := by
  cases k with
  | zero => simp [gdFrom]
  | succ k =>
    simp only [gdFrom]
    split
    · simp
    · split <;> simp

private theorem returned_is_last_from (cur : V × α) (k : Nat) :
    (gdFrom misfit grad pre bad strict eps cur k).hist.getLast? =
      some ((gdFrom misfit grad pre bad strict eps cur k).m, (gdFrom misfit grad pre bad strict eps cur k).x) := by
  induction k generalizing cur with
  | zero => simp [gdFrom]
  | succ k ih =>
    simp only [gdFrom]
    split
    · simp
    · split
      · simp
      · simp only
        have := ih (cur.1 - eps • pre (grad cur.1), misfit (cur.1 - eps • pre (grad cur.1)))
        rw [List.getLast?_cons_of_ne_nil (hist_ne_nil misfit grad pre bad strict eps _ k)]
        exact this

/-- the returned model and misfit are the last entries of the returned histories -/
theorem returned_is_last (m0 : V) (n : Nat) :
    (gradientDescent misfit grad pre bad strict eps m0 n).hist.getLast? =
      some ((gradientDescent misfit grad pre bad strict eps m0 n).m,
            (gradientDescent misfit grad pre bad strict eps m0 n).x) :=
  returned_is_last_from misfit grad pre bad strict eps _ n

private theorem own_from (cur : V × α) (h : cur.2 = misfit cur.1) (k : Nat) :
    ∀ e ∈ (gdFrom misfit grad pre bad strict eps cur k).hist, e.2 = misfit e.1 := by
  induction k generalizing cur with
  | zero => intro e he; simp [gdFrom] at he; rw [he]; exact h
  | succ k ih =>
    intro e he
    simp only [gdFrom] at he
    split at he
    · simp at he; rw [he]; exact h
    · split at he
      · simp at he; rw [he]; exact h
      · simp only [List.mem_cons] at he
        rcases he with rfl | he
        · exact h
        · exact ih _ rfl e he

/-- every history misfit equals the target's misfit at the corresponding model -/
theorem history_misfit_is_own (m0 : V) (n : Nat) :
    ∀ e ∈ (gradientDescent misfit grad pre bad strict eps m0 n).hist, e.2 = misfit e.1 :=
  own_from misfit grad pre bad strict eps _ rfl n

/-- adjacent history entries: the step relation, the guard, and monotonicity -/
def Adjacent (a b : V × α) : Prop :=
  b.1 = a.1 - eps • pre (grad a.1) ∧ bad b.2 = false ∧ (strict = true → ¬ a.2 < b.2)

private theorem chain_from (cur : V × α) (k : Nat) :
    List.IsChain (Adjacent grad pre bad strict eps) (gdFrom misfit grad pre bad strict eps cur k).hist := by
  induction k generalizing cur with
  | zero => simp [gdFrom]
  | succ k ih =>
    simp only [gdFrom]
    split
    · simp
    · rename_i hb
      split
      · simp
      · rename_i hs
        simp only
        set nxt : V × α := (cur.1 - eps • pre (grad cur.1), misfit (cur.1 - eps • pre (grad cur.1))) with hn
        have hchain := ih nxt
        have hhead := hist_head misfit grad pre bad strict eps nxt k
        cases hl : (gdFrom misfit grad pre bad strict eps nxt k).hist with
        | nil => exact absurd hl (hist_ne_nil misfit grad pre bad strict eps nxt k)
        | cons b rest =>
          rw [hl] at hchain hhead
          simp at hhead
          subst hhead
          refine List.IsChain.cons_cons ⟨rfl, by simpa using hb, ?_⟩ hchain
          intro hst
          simp only [hst, Bool.true_and, decide_eq_true_eq] at hs
          exact hs

/-- consecutive models differ by −ε × (preconditioned) gradient at the earlier one; no entry after
    the first has a NaN/infinite misfit; with `strictly_monotonic` the misfit never increases -/
theorem history_chain (m0 : V) (n : Nat) :
    List.IsChain (Adjacent grad pre bad strict eps) (gradientDescent misfit grad pre bad strict eps m0 n).hist :=
  chain_from misfit grad pre bad strict eps _ n

/-- the first history entry is the initial model with its misfit -/
theorem history_starts_at_initial (m0 : V) (n : Nat) :
    (gradientDescent misfit grad pre bad strict eps m0 n).hist.head? = some (m0, misfit m0) :=
  hist_head misfit grad pre bad strict eps _ n

private theorem ret_from (cur : V × α) (k : Nat) :
    (gdFrom misfit grad pre bad strict eps cur k).x = cur.2 ∨
    bad (gdFrom misfit grad pre bad strict eps cur k).x = false := by
  induction k generalizing cur with
  | zero => left; simp [gdFrom]
  | succ k ih =>
    simp only [gdFrom]
    split
    · left; rfl
    · rename_i hb
      split
      · left; rfl
      · right
        simp only
        rcases ih (cur.1 - eps • pre (grad cur.1), misfit (cur.1 - eps • pre (grad cur.1))) with h | h
        · rw [h]; simpa using hb
        · exact h

/-- a step that produced a NaN or infinite misfit is never returned: the returned misfit is the
    initial one or not NaN/infinite -/
theorem bad_step_never_returned (m0 : V) (n : Nat) :
    (gradientDescent misfit grad pre bad strict eps m0 n).x = misfit m0 ∨
    bad (gradientDescent misfit grad pre bad strict eps m0 n).x = false :=
  ret_from misfit grad pre bad strict eps _ n

/-- an interrupted run is the shorter run, so everything above holds for it as well; in particular
    the returned model and misfit are the last history entry -/
theorem interrupted_returned_is_last (m0 : V) (n completed : Nat) :
    (gradientDescentInterrupted misfit grad pre bad strict eps m0 n completed).hist.getLast?
      = some ((gradientDescentInterrupted misfit grad pre bad strict eps m0 n completed).m,
              (gradientDescentInterrupted misfit grad pre bad strict eps m0 n completed).x) :=
  returned_is_last misfit grad pre bad strict eps m0 _
end

/-! ### non-vacuity: a two-step descent on `x ↦ x²/2` over ℝ has a three-entry history -/
example : (gradientDescent (fun x : ℝ => x * x / 2) (fun x => x) id (fun _ => false) true (1/2 : ℝ) 1 2).hist.length = 3 := by
  simp [gradientDescent, gdFrom]
  norm_num

end C19
end HmcVerif
