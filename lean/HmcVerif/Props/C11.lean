import HmcVerif.Model.Consent
/-
  C11 — existing sample files are never modified without overwrite consent
  (model: Model/Consent.lean). The theorem is structural — the model *says* which operations touch
  the file; its force on the code comes from the correspondence, which hashes real files before
  and after every real operation.
-/
namespace HmcVerif
namespace C11
open Consent

/-- one operation without consent leaves file and sidecar as they are, when a file exists -/
theorem step_no_consent (npy : Bool) (w : World) (o : Op) (hc : o.consents = false) (hex : exists_ w npy = true) :
    (step npy w o).1.file = w.file ∧ (step npy w o).1.sidecar = w.sidecar := by
  cases o with
  | sample st ow =>
    simp only [Op.consents] at hc
    subst hc
    cases st <;> simp [step, hex]
  | openWrite ow =>
    simp only [Op.consents] at hc
    subst hc
    simp [step, hex]
  | copyObj => simp [step]
  | deepcopyObj => simp [step]
  | pickleObj => simp [step]
  | loadResults => simp [step]
  | parallelStart ow =>
    simp only [Op.consents] at hc
    subst hc
    simp [step]

/-- **every operation sequence** in which no operation carries `overwrite = True` leaves an existing
    samples file and its sidecar unchanged -/
theorem no_consent_no_change (npy : Bool) (w : World) (ops : List Op) (hc : ∀ o ∈ ops, o.consents = false)
    (hex : exists_ w npy = true) :
    (run npy w ops).file = w.file ∧ (run npy w ops).sidecar = w.sidecar := by
  induction ops generalizing w with
  | nil => exact ⟨rfl, rfl⟩
  | cons o os ih =>
    have h1 := step_no_consent npy w o (hc o (List.mem_cons_self)) hex
    have hex' : exists_ (step npy w o).1 npy = true := by
      simp only [exists_] at hex ⊢
      rw [h1.1, h1.2]; exact hex
    have := ih (step npy w o).1 (fun o' ho' => hc o' (List.mem_cons_of_mem _ ho')) hex'
    simp only [run, List.foldl_cons] at this ⊢
    exact ⟨this.1.trans h1.1, this.2.trans h1.2⟩

/-- an attempt to write to an existing file with otherwise valid arguments and without consent
    raises FileExistsError -/
theorem valid_write_raises_exists (npy : Bool) (w : World) (hex : exists_ w npy = true) :
    (step npy w (.sample .valid false)).2 = .fileExists ∧ (step npy w (.openWrite false)).2 = .fileExists := by
  simp [step, hex]

/-- no operation leaves a handle open on the path -/
theorem no_open_handle (npy : Bool) (w : World) (h : w.handles = 0) (ops : List Op) : (run npy w ops).handles = 0 := by
  induction ops generalizing w with
  | nil => exact h
  | cons o os ih =>
    simp only [run, List.foldl_cons]
    apply ih
    cases o with
    | sample st ow => cases st <;> simp [step, rewrite, h] <;> split <;> simp [h, rewrite]
    | openWrite ow => simp only [step]; split <;> simp [h, rewrite]
    | copyObj => simpa [step] using h
    | deepcopyObj => simpa [step] using h
    | pickleObj => simpa [step] using h
    | loadResults => simpa [step] using h
    | parallelStart ow => cases ow <;> simp [step, rewrite, h]

/-- the parallel controller without `overwrite_existing_files=True` never starts, whatever exists -/
theorem parallel_without_consent_refused (npy : Bool) (w : World) :
    step npy w (.parallelStart false) = (w, .rejected) := by
  simp [step]

/-- hence after any refused or failed start an immediately following valid run (with consent) on the
    same path succeeds -/
theorem next_valid_run_succeeds (npy : Bool) (w : World) (ops : List Op) :
    (step npy (run npy w ops) (.sample .valid true)).2 = .ok := by
  simp [step]

/-! ### several paths: an operation aimed at one path never touches another -/

theorem stepAt_frame (npy : Bool) (d : Disk) (p : Nat) (o : Op) (q : Nat) (hq : q ≠ p) :
    (stepAt npy d (p, o)).1 q = d q := by
  simp [stepAt, setPath, hq]

/-- **every sequence of operations on any paths**: a path that exists, and at which no operation
    with `overwrite = True` is aimed, keeps its file and sidecar — whatever is aimed (with or
    without consent, valid or invalid) at other paths, e.g. by a sampler object that still holds
    this path's handle from an earlier run -/
theorem no_consent_no_change_any_path (npy : Bool) (d : Disk) (ops : List (Nat × Op)) (q : Nat)
    (hc : ∀ po ∈ ops, po.1 = q → po.2.consents = false) (hex : exists_ (d q) npy = true) :
    (runAt npy d ops q).file = (d q).file ∧ (runAt npy d ops q).sidecar = (d q).sidecar := by
  induction ops generalizing d with
  | nil => exact ⟨rfl, rfl⟩
  | cons po rest ih =>
    obtain ⟨p, o⟩ := po
    have hstep : ((stepAt npy d (p, o)).1 q).file = (d q).file ∧ ((stepAt npy d (p, o)).1 q).sidecar = (d q).sidecar := by
      by_cases hpq : q = p
      · subst hpq
        have := step_no_consent npy (d q) o (hc (q, o) (List.mem_cons_self) rfl) hex
        simpa [stepAt, setPath] using this
      · rw [stepAt_frame npy d p o q hpq]; exact ⟨rfl, rfl⟩
    have hex' : exists_ ((stepAt npy d (p, o)).1 q) npy = true := by
      simp only [exists_] at hex ⊢
      rw [hstep.1, hstep.2]; exact hex
    have := ih (stepAt npy d (p, o)).1 (fun po' h' => hc po' (List.mem_cons_of_mem _ h')) hex'
    simp only [runAt, List.foldl_cons] at this ⊢
    exact ⟨this.1.trans hstep.1, this.2.trans hstep.2⟩

/-! ### a writer and its copies -/

/-- copying a writer, and closing or dropping a copy, write nothing and lose nothing -/
theorem copies_write_nothing (w : Writer) :
    (wstep w .copy).file = w.file ∧ (wstep w .copy).buf = w.buf ∧ (wstep w .copy).closed = w.closed ∧
    (wstep w .closeCopy).file = w.file ∧ (wstep w .closeCopy).buf = w.buf ∧ (wstep w .closeCopy).closed = w.closed := by
  simp [wstep]

/-- once the owner is closed the file on disk never changes again, whatever is done with the copies -/
theorem closed_file_is_final (w : Writer) (ops : List WOp) (hc : w.closed = true) :
    (wrun w ops).file = w.file ∧ (wrun w ops).closed = true := by
  induction ops generalizing w with
  | nil => exact ⟨rfl, hc⟩
  | cons o rest ih =>
    have h1 : (wstep w o).file = w.file ∧ (wstep w o).closed = true := by
      cases o <;> simp [wstep, hc]
    have := ih (wstep w o) h1.2
    simp only [wrun, List.foldl_cons] at this ⊢
    exact ⟨this.1.trans h1.1, this.2⟩

/-- nothing is lost or duplicated: on disk plus pending = what was there plus the appends that reached the open owner -/
theorem content_is_appended (w : Writer) (ops : List WOp) :
    (wrun w ops).content = w.content ++ accepted w.closed ops := by
  induction ops generalizing w with
  | nil => simp [wrun, accepted]
  | cons o rest ih =>
    have := ih (wstep w o)
    simp only [wrun, List.foldl_cons] at this ⊢
    rw [this]
    cases o with
    | append c => by_cases h : w.closed = true <;> simp [wstep, accepted, h, Writer.content]
    | flush => by_cases h : w.closed = true <;> simp [wstep, accepted, h, Writer.content]
    | close =>
      by_cases h : w.closed = true
      · simp [wstep, accepted, h, Writer.content]
      · simp [wstep, accepted, h, Writer.content]
    | copy => simp [wstep, accepted, Writer.content]
    | closeCopy => simp [wstep, accepted, Writer.content]

/-- a closed owner has nothing pending: the file holds every accepted column -/
theorem closed_nothing_pending (w : Writer) (ops : List WOp) (h0 : w.closed = true → w.buf = []) :
    (wrun w ops).closed = true → (wrun w ops).buf = [] := by
  induction ops generalizing w with
  | nil => exact h0
  | cons o rest ih =>
    have h1 : (wstep w o).closed = true → (wstep w o).buf = [] := by
      cases o <;> by_cases h : w.closed = true <;> simp_all [wstep]
    have := ih (wstep w o) h1
    simpa [wrun, List.foldl_cons] using this

/-! ### two writers alive at the same time (C10.two_writers, C07 nested samplers) -/

/-- two writers alive at the same time: an operation is addressed to one of them (`false` = the first) -/
def wstep2 (s : Writer × Writer) (a : Bool × WOp) : Writer × Writer :=
  if a.1 then (s.1, wstep s.2 a.2) else (wstep s.1 a.2, s.2)
def wrun2 (s : Writer × Writer) (ops : List (Bool × WOp)) : Writer × Writer := ops.foldl wstep2 s

/-- the operations addressed to one of the writers -/
def opsOf (b : Bool) (ops : List (Bool × WOp)) : List WOp := (ops.filter (fun a => a.1 == b)).map (·.2)

/-- **two writers do not see each other**: whatever the interleaving, each writer ends where it would
    have ended alone with the operations addressed to it (its file holds its own columns, in order) -/
theorem two_writers_independent (s : Writer × Writer) (ops : List (Bool × WOp)) :
    wrun2 s ops = (wrun s.1 (opsOf false ops), wrun s.2 (opsOf true ops)) := by
  induction ops generalizing s with
  | nil => rfl
  | cons a rest ih =>
    obtain ⟨b, o⟩ := a
    simp only [wrun2, List.foldl_cons] at ih ⊢
    rw [ih]
    cases b <;> simp [wstep2, opsOf, wrun]

/-! ### non-vacuity -/
example : (wrun ⟨[], [], false, 0⟩ [.copy, .append 1, .append 2, .flush, .append 3, .close, .closeCopy, .append 4]).file = [1, 2, 3] := by decide

example : exists_ { file := some 0, sidecar := none, handles := 0, fresh := 1 } false = true := by decide
example : (run false { file := some 0, sidecar := none, handles := 0, fresh := 1 }
    [.sample .valid false, .deepcopyObj, .sample .afterOpen false, .openWrite false, .loadResults]).file = some 0 := by decide

end C11
end HmcVerif
