import HmcVerif.Model.Tempering
import HmcVerif.Model.Controller
import HmcVerif.Real.AsyncThm
import HmcVerif.Props.C12
import Mathlib.Data.List.Basic
import Mathlib.Tactic.Linarith
/-
  C20 — parallel chains without exchange are exactly the sequential chains.
  With exchange disabled (`I = 0`) the choreography contains no communication at all; every
  interleaving of the processes therefore yields, for every chain, the stand-alone run of that chain.
-/
set_option linter.unusedSectionVars false
namespace HmcVerif
namespace C20
open Async Tempering

variable {V α : Type} [Sub α] [Add α] [LT α] [DecidableLT α] [DecidableEq V]

/-! ### routing of per-chain and shared arguments -/

/-- a shared argument reaches every chain; a per-chain argument reaches exactly the chain it was
    given for; the fixed arguments (`overwrite_existing_file`, `proposals`, `queue`) override -/
theorem routing_shared {I K : Type} (dI : I) (dK : K) (merge : K → K → K) (a : I) (kw : K) (fixed : K) (i : Nat) :
    chainArgs dI dK merge (.shared a) (.shared kw) fixed i = (a, merge kw fixed) := rfl

/-! ### the keyword dictionary a chain is started with -/

theorem kwLookup_merge {β : Type} (a b : Kw β) (k : String) :
    kwLookup (kwMerge a b) k = (kwLookup b k).or (kwLookup a k) := by
  unfold kwLookup kwMerge
  rw [List.find?_append]
  cases h : b.find? (fun e => e.1 == k) <;> simp

/-- the keys the controller fixes (`proposals`, `overwrite_existing_file`, `queue`) carry the controller's
    values whatever the user's kwargs say -/
theorem fixed_keys_win {β : Type} (init : β) (kwargs fixed : Kw β) (k : String) (v : β) (h : kwLookup fixed k = some v) :
    kwLookup (totalKwargs init kwargs fixed) k = some v := by
  unfold totalKwargs
  rw [kwLookup_merge, h]; rfl

/-- every other key comes from the chain's own kwargs; `initial_model` from the kwargs if given there,
    else from the initial model routed to this chain -/
theorem other_keys_from_chain {β : Type} (init : β) (kwargs fixed : Kw β) (k : String) (h : kwLookup fixed k = none) :
    kwLookup (totalKwargs init kwargs fixed) k = (kwLookup kwargs k).or (if k = "initial_model" then some init else none) := by
  unfold totalKwargs
  rw [kwLookup_merge, h, kwLookup_merge]
  simp only [Option.none_or]
  congr 1
  unfold kwLookup
  by_cases hk : k = "initial_model"
  · subst hk; simp
  · have : ("initial_model" == k) = false := by simpa using fun h' => hk h'.symm
    simp [List.find?, this, hk]

theorem routing_each {I K : Type} (dI : I) (dK : K) (merge : K → K → K) (as : List I) (kws : List K) (fixed : K) (i : Nat)
    (hi : i < as.length) (hk : i < kws.length) :
    chainArgs dI dK merge (.each as) (.each kws) fixed i = (as[i], merge kws[i] fixed) := by
  simp [chainArgs, PerChain.pick, List.getD, hi, hk]

/-! ### without exchange every chain runs on its own -/

private theorem seqRun_append' {σ Msg : Type} (a b : List (GEv σ Msg)) (st : Nat → σ) :
    seqRun (a ++ b) st = seqRun b (seqRun a st) := by
  induction a generalizing st with
  | nil => rfl
  | cons e es ih => cases e <;> simp [seqRun, ih]

/-- a list of local steps of distinct processes applies each process's function once -/
private theorem seqRun_locs {σ Msg : Type} (l : List Nat) (hl : l.Nodup) (f : Nat → σ → σ) (st : Nat → σ) (i : Nat) :
    seqRun ((l.map (fun j => GEv.loc j (f j))) : List (GEv σ Msg)) st i = if i ∈ l then f i (st i) else st i := by
  induction l generalizing st with
  | nil => simp [seqRun]
  | cons j js ih =>
    have hj : j ∉ js := (List.nodup_cons.mp hl).1
    simp only [List.map_cons, seqRun]
    rw [ih (List.nodup_cons.mp hl).2]
    by_cases h : i = j
    · subst h; simp [hj, upd]
    · simp [h, upd]

/-- one proposal without exchange = every chain's stand-alone step -/
private theorem proposal_solo (exp : α → α) (misfit : Nat → V → α) (kern : Nat → Nat → V × α → V × α) (udraw : Nat → Nat → α)
    (n : Nat) (sched : Nat → List Nat) (k : Nat) (st : Nat → ChainSt V α) (i : Nat) (hi : i < n) :
    seqRun (proposalScript exp misfit kern udraw n 0 sched k) st i = soloStep (kern i) (st i) k := by
  unfold proposalScript
  have hmem : i ∈ List.range n := List.mem_range.mpr hi
  simp only [ne_eq, not_true_eq_false, false_and, if_false, List.append_nil]
  rw [seqRun_append']
  have h1 := seqRun_locs (Msg := TMsg V α) (List.range n) List.nodup_range
    (fun (i : Nat) (st : ChainSt V α) => let r := kern i k (st.model, st.x); ({ st with model := r.1, x := r.2 } : ChainSt V α)) st i
  have h2 := seqRun_locs (Msg := TMsg V α) (List.range n) List.nodup_range
    (fun (_ : Nat) (st : ChainSt V α) => ({ st with cols := st.cols ++ [(st.model, st.x)] } : ChainSt V α))
    (seqRun (Msg := TMsg V α) ((List.range n).map (fun i => GEv.loc i
      (fun (st : ChainSt V α) => let r := kern i k (st.model, st.x); ({ st with model := r.1, x := r.2 } : ChainSt V α)))) st) i
  simp only [hmem, if_true] at h1 h2
  rw [h2, h1]
  rfl

/-- **the sequential reference of a run without exchange is, chain by chain, the stand-alone run** -/
theorem no_exchange_is_solo (exp : α → α) (misfit : Nat → V → α) (kern : Nat → Nat → V × α → V × α) (udraw : Nat → Nat → α)
    (n P : Nat) (sched : Nat → List Nat) (st : Nat → ChainSt V α) (i : Nat) (hi : i < n) :
    seqRun (script exp misfit kern udraw n P 0 sched) st i = soloRun (kern i) P (st i) := by
  unfold script soloRun
  have gen : ∀ (ks : List Nat) (st : Nat → ChainSt V α),
      seqRun ((ks.map (proposalScript exp misfit kern udraw n 0 sched)).flatten) st i = ks.foldl (soloStep (kern i)) (st i) := by
    intro ks
    induction ks with
    | nil => intro st; rfl
    | cons k rest ih =>
      intro st
      rw [List.map_cons, List.flatten_cons, seqRun_append', ih, List.foldl_cons, proposal_solo exp misfit kern udraw n sched k st i hi]
  exact gen _ st

/-- without exchange the choreography is well formed whatever the schedule (there is no communication) -/
theorem script_no_comm (exp : α → α) (misfit : Nat → V → α) (kern : Nat → Nat → V × α → V × α) (udraw : Nat → Nat → α)
    (n P : Nat) (sched : Nat → List Nat) : WellFormed (script exp misfit kern udraw n P 0 sched) := by
  unfold script
  have wf_locs : ∀ (l : List Nat) (f : Nat → ChainSt V α → ChainSt V α),
      WellFormed ((l.map (fun i => GEv.loc i (f i))) : List (GEv (ChainSt V α) (TMsg V α))) := by
    intro l f; induction l with
    | nil => trivial
    | cons i is ih => exact ih
  have wf_app : ∀ (a b : List (GEv (ChainSt V α) (TMsg V α))), WellFormed a → WellFormed b → WellFormed (a ++ b) := by
    intro a b ha hb
    induction a with
    | nil => exact hb
    | cons e es ih =>
      cases e with
      | loc i f => exact ih ha
      | comm i j mk uf => exact ⟨ha.1, ih ha.2⟩
  induction (List.range P) with
  | nil => trivial
  | cons k rest ih =>
    rw [List.map_cons, List.flatten_cons]
    refine wf_app _ _ ?_ ih
    unfold proposalScript
    simp only [ne_eq, not_true_eq_false, false_and, if_false, List.append_nil]
    exact wf_app _ _ (wf_locs _ _) (wf_locs _ _)

/-- **every operating-system schedule of the chain processes** ends, for every chain, with exactly the
    stand-alone run of that chain (same kernel = same sampler, seed, target, initial model, settings);
    and no execution deadlocks -/
theorem parallel_eq_sequential (exp : α → α) (misfit : Nat → V → α) (kern : Nat → Nat → V × α → V × α) (udraw : Nat → Nat → α)
    (n P : Nat) (sched : Nat → List Nat) (st : Nat → ChainSt V α)
    (osSchedule : List Nat) (u : Sys (ChainSt V α) (TMsg V α))
    (cap : Option Nat)
    (hu : runSched cap (initSys (script exp misfit kern udraw n P 0 sched) st) osSchedule = some u)
    (hmax : ∀ i, stepP cap u i = none) :
    ∀ i, i < n → u.store i = soloRun (kern i) P (st i) := by
  have h := (choreography_all_interleavings cap _ (script_no_comm exp misfit kern udraw n P sched) st osSchedule u hu).2.2 hmax
  intro i hi
  rw [h]
  exact no_exchange_is_solo exp misfit kern udraw n P sched st i hi

/-- in particular each chain writes exactly `P` columns -/
theorem solo_columns (kern : Nat → V × α → V × α) (P : Nat) (st : ChainSt V α) :
    (soloRun kern P st).cols.length = st.cols.length + P := by
  unfold soloRun
  have : ∀ (ks : List Nat) (st : ChainSt V α), (ks.foldl (soloStep kern) st).cols.length = st.cols.length + ks.length := by
    intro ks
    induction ks with
    | nil => intro st; rfl
    | cons k rest ih => intro st; rw [List.foldl_cons, ih]; simp [soloStep]; omega
  rw [this, List.length_range]

/-! ### the controller: reading results while waiting never deadlocks, joining first does -/
section controller
open Controller

/-- invariant of every reachable controller state -/
def CInv (n : Nat) (s : St) : Prop := s.waiting + s.exited = n ∧ s.queued + s.collected = s.exited

theorem cinv_init (n : Nat) : CInv n (Controller.init n) := by simp [CInv, Controller.init]

theorem cinv_step (n cap : Nat) (s s' : St) (h : CInv n s) (hs : childPut cap s = some s' ∨ ctrlGet s = some s') : CInv n s' := by
  obtain ⟨h1, h2⟩ := h
  rcases hs with hs | hs
  · unfold childPut at hs
    split at hs
    · rename_i hc; simp only [Option.some.injEq] at hs; subst hs; simp only [CInv]; omega
    · simp at hs
  · unfold ctrlGet at hs
    split at hs
    · rename_i hc; simp only [Option.some.injEq] at hs; subst hs; simp only [CInv]; omega
    · simp at hs

/-- **for every number of chains and every queue capacity ≥ 1**: a controller that reads results while
    the chains run is stuck only when everything is finished -/
theorem controller_no_deadlock (n cap : Nat) (hcap : 0 < cap) (s : St) (h : CInv n s) (hstuck : drainFirstStuck cap s = true) :
    finished n s := by
  obtain ⟨h1, h2⟩ := h
  simp only [drainFirstStuck, Bool.and_eq_true, Option.isNone_iff_eq_none] at hstuck
  obtain ⟨hc, hg⟩ := hstuck
  have hq : s.queued = 0 := by
    unfold ctrlGet at hg
    split at hg
    · simp at hg
    · omega
  have hw : s.waiting = 0 := by
    unfold childPut at hc
    split at hc
    · simp at hc
    · rename_i hn; rw [hq] at hn; simp only [not_and, not_lt] at hn
      by_contra hne
      have := hn (Nat.pos_of_ne_zero hne)
      omega
  exact ⟨hw, hq, by omega, by omega⟩

/-- … and it makes progress: the number of outstanding actions strictly decreases with every step,
    so the run terminates -/
theorem controller_progress (cap : Nat) (s s' : St) (hs : childPut cap s = some s' ∨ ctrlGet s = some s') :
    2 * s'.waiting + s'.queued < 2 * s.waiting + s.queued := by
  rcases hs with hs | hs
  · unfold childPut at hs
    split at hs
    · simp only [Option.some.injEq] at hs; subst hs; simp only; omega
    · simp at hs
  · unfold ctrlGet at hs
    split at hs
    · simp only [Option.some.injEq] at hs; subst hs; simp only; omega
    · simp at hs

/-- the original controller (join all chains, then read): with more chains than the queue's pipe
    holds it deadlocks — `cap` chains have exited, the others wait for room, nobody reads -/
theorem join_first_deadlocks (n cap : Nat) (h : cap < n) :
    joinFirstStuck cap { waiting := n - cap, queued := cap, exited := cap, collected := 0 } = true ∧
    CInv n { waiting := n - cap, queued := cap, exited := cap, collected := 0 } := by
  constructor
  · simp [joinFirstStuck, childPut]; omega
  · simp only [CInv]; omega
end controller

/-! ### non-vacuity -/
example : chainArgs (0 : Nat) (0 : Nat) (fun a b => a + b) (.each [7, 8, 9]) (.shared 1) 100 2 = (9, 101) := by decide

end C20
end HmcVerif
