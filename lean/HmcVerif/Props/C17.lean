import HmcVerif.Model.SourceLoc
import HmcVerif.Real.Lit
import HmcVerif.Real.Grad
import Mathlib.Analysis.SpecialFunctions.Sqrt
import Mathlib.Analysis.SpecialFunctions.Pow.Real
import Mathlib.Tactic.Ring
import Mathlib.Tactic.Linarith
import Mathlib.Tactic.FieldSimp
/-
  C17 — source location: travel times, missing picks, 2D/3D agreement
  (model: Model/SourceLoc.lean with `Finset.sum` as the summations and `Real.sqrt`).
-/
set_option linter.unusedSectionVars false
open Finset
namespace HmcVerif
namespace C17
open SourceLoc

variable {nc ne ns : Nat}

/-- the summation parameters over ℝ -/
noncomputable def sumR (n : Nat) (f : Fin n → ℝ) : ℝ := ∑ i, f i

private theorem lit_zero : (0.0 : ℝ) = 0 := by norm_num

/-! ### forward model -/

/-- the predicted arrival time is origin time + straight-line distance / velocity -/
theorem forward_eq (src rcv : Fin nc → ℝ) (T v : ℝ) :
    arrival Real.sqrt (sumR nc) src rcv T v = T + Real.sqrt (∑ c, (src c - rcv c) ^ 2) / v := by
  simp [arrival, SourceLoc.dist, sumR, sq]

/-- the misfit is ½ Σ ((observed − predicted)/σ)² over the observations that are not missing -/
theorem misfit_eq_masked_sum (rcv : Fin ns → Fin nc → ℝ) (obs : Fin ne → Fin ns → Option ℝ) (sigma : Fin ne → Fin ns → ℝ)
    (src : Fin ne → Fin nc → ℝ) (T : Fin ne → ℝ) (v : ℝ) :
    misfit Real.sqrt (sumR nc) (sumR ns) (sumR ne) rcv obs sigma src T v
      = 1 / 2 * ∑ e, ∑ s, (match obs e s with
          | none => 0
          | some o => ((o - arrival Real.sqrt (sumR nc) (src e) (rcv s) (T e) v) / sigma e s) ^ 2) := by
  simp only [misfit, sumR, lit_half]
  congr 1
  apply Finset.sum_congr rfl; intro e _
  apply Finset.sum_congr rfl; intro s _
  cases obs e s <;> simp [residTerm, lit_zero, sq]

/-- a 3D problem with all y-coordinates zero has the same distances as the 2D problem -/
theorem threeD_y0_eq_twoD (x z rx rz : ℝ) :
    SourceLoc.dist Real.sqrt (sumR 3) ![x, 0, z] ![rx, 0, rz] = SourceLoc.dist Real.sqrt (sumR 2) ![x, z] ![rx, rz] := by
  simp [SourceLoc.dist, sumR, Fin.sum_univ_three, Fin.sum_univ_two]

/-- noise-free data: at the true model every residual and every gradient weight vanishes -/
theorem noise_free_zero (sigma tcalc : ℝ) :
    residTerm (some tcalc) sigma tcalc = 0 ∧ weight (some tcalc) sigma tcalc = 0 := by
  constructor
  · simp only [residTerm, sub_self, zero_div, mul_zero]
  · simp only [weight, sub_self, zero_div]

/-- a missing pick contributes nothing to misfit and gradient — in particular the gradient is
    finite wherever the misfit is -/
theorem missing_contributes_nothing (sigma tcalc : ℝ) :
    residTerm (none : Option ℝ) sigma tcalc = 0 ∧ weight (none : Option ℝ) sigma tcalc = 0 := by
  simp [residTerm, weight, lit_zero]

/-! ### parameter layout: x, [y,] z, T per event, then the optional velocity -/

theorem param_layout (nc ne : Nat) (e e' c c' : Nat) (hc : c ≤ nc) (hc' : c' ≤ nc) (he : e < ne)
    (h : e * (nc + 1) + c = e' * (nc + 1) + c') : e = e' ∧ c = c' := by
  have h1 : c < nc + 1 := by omega
  have h2 : c' < nc + 1 := by omega
  have : e = e' := by
    rcases Nat.lt_trichotomy e e' with hlt | heq | hgt
    · exfalso
      have : (e + 1) * (nc + 1) ≤ e' * (nc + 1) := Nat.mul_le_mul_right _ hlt
      have e1 : (e + 1) * (nc + 1) = e * (nc + 1) + (nc + 1) := by ring
      omega
    · exact heq
    · exfalso
      have : (e' + 1) * (nc + 1) ≤ e * (nc + 1) := Nat.mul_le_mul_right _ hgt
      have e1 : (e' + 1) * (nc + 1) = e' * (nc + 1) + (nc + 1) := by ring
      omega
  subst this
  exact ⟨rfl, by omega⟩

theorem layout_indices (nc ne e c : Nat) (hc : c < nc) (he : e < ne) :
    coordIndex nc e c < velIndex nc ne ∧ timeIndex nc e < velIndex nc ne ∧ coordIndex nc e c ≠ timeIndex nc e := by
  unfold coordIndex timeIndex velIndex
  have : e * (nc + 1) + (nc + 1) ≤ ne * (nc + 1) := by
    calc e * (nc + 1) + (nc + 1) = (e + 1) * (nc + 1) := by ring
      _ ≤ ne * (nc + 1) := Nat.mul_le_mul_right _ he
  refine ⟨by omega, by omega, by omega⟩

/-! ### the gradient is the derivative of the misfit -/

section grad
variable {ι : Type} [Fintype ι] [DecidableEq ι]

/-- distance as a function of the parameter vector (`ic c` = index of spatial coordinate `c`) -/
private theorem dist_isGrad (ic : Fin nc → ι) (rcv : Fin nc → ℝ) (y : ι → ℝ)
    (hpos : 0 < ∑ c, (y (ic c) - rcv c) * (y (ic c) - rcv c)) :
    IsGradAt (fun z => SourceLoc.dist Real.sqrt (sumR nc) (fun c => z (ic c)) rcv)
      (∑ c, ((y (ic c) - rcv c) / SourceLoc.dist Real.sqrt (sumR nc) (fun c => y (ic c)) rcv) • (Pi.single (ic c) (1:ℝ) : ι → ℝ)) y := by
  have hsq : ∀ c ∈ (univ : Finset (Fin nc)),
      IsGradAt (fun z : ι → ℝ => (z (ic c) - rcv c) * (z (ic c) - rcv c)) ((2 * (y (ic c) - rcv c)) • (Pi.single (ic c) (1:ℝ) : ι → ℝ)) y := by
    intro c _
    have hφ : HasDerivAt (fun s : ℝ => (s - rcv c) * (s - rcv c)) (2 * (y (ic c) - rcv c)) (y (ic c)) := by
      have h1 : HasDerivAt (fun s : ℝ => s - rcv c) 1 (y (ic c)) := by
        simpa using (hasDerivAt_id (y (ic c))).sub_const (rcv c)
      have := h1.mul h1
      refine this.congr_deriv ?_
      ring
    exact (isGradAt_coord (ic c) y).scomp _ _ hφ
  have hsum := IsGradAt.sum univ _ _ hsq
  have hs : HasDerivAt Real.sqrt (1 / (2 * Real.sqrt (∑ c, (y (ic c) - rcv c) * (y (ic c) - rcv c))))
      (∑ c, (y (ic c) - rcv c) * (y (ic c) - rcv c)) := Real.hasDerivAt_sqrt hpos.ne'
  have := hsum.scomp _ _ hs
  simp only [SourceLoc.dist, sumR]
  convert this using 1
  rw [Finset.smul_sum]
  apply Finset.sum_congr rfl
  intro c _
  rw [smul_smul]
  congr 1
  have hne : Real.sqrt (∑ c, (y (ic c) - rcv c) * (y (ic c) - rcv c)) ≠ 0 := (Real.sqrt_pos.mpr hpos).ne'
  field_simp

/-- arrival time as a function of the parameter vector; the velocity is any function `vel` with a
    gradient `gvel` (a coordinate when it is inferred, a constant when it is fixed) -/
private theorem arrival_isGrad (ic : Fin nc → ι) (iT : ι) (vel : (ι → ℝ) → ℝ) (gvel : ι → ℝ) (rcv : Fin nc → ℝ) (y : ι → ℝ)
    (hvel : IsGradAt vel gvel y) (hv : vel y ≠ 0)
    (hpos : 0 < ∑ c, (y (ic c) - rcv c) * (y (ic c) - rcv c)) :
    IsGradAt (fun z => arrival Real.sqrt (sumR nc) (fun c => z (ic c)) rcv (z iT) (vel z))
      ((Pi.single iT (1:ℝ) : ι → ℝ)
        + ∑ c, ((y (ic c) - rcv c) / (vel y * SourceLoc.dist Real.sqrt (sumR nc) (fun c => y (ic c)) rcv)) • (Pi.single (ic c) (1:ℝ) : ι → ℝ)
        + (-(SourceLoc.dist Real.sqrt (sumR nc) (fun c => y (ic c)) rcv) / (vel y * vel y)) • gvel) y := by
  have hd := dist_isGrad ic rcv y hpos
  have hinv : IsGradAt (fun z => (vel z)⁻¹) ((-(vel y ^ 2)⁻¹) • gvel) y := hvel.scomp _ _ (hasDerivAt_inv hv)
  have hq := hd.mul hinv
  have := (isGradAt_coord iT y).add hq
  simp only [arrival]
  have ef : (fun z : ι → ℝ => z iT + SourceLoc.dist Real.sqrt (sumR nc) (fun c => z (ic c)) rcv / vel z)
      = fun z => z iT + SourceLoc.dist Real.sqrt (sumR nc) (fun c => z (ic c)) rcv * (vel z)⁻¹ := by
    funext z; rw [div_eq_mul_inv]
  rw [ef]
  convert this using 1
  rw [add_assoc]
  congr 1
  rw [add_comm]
  congr 1
  · rw [smul_smul]; congr 1; field_simp
  · rw [Finset.smul_sum]
    apply Finset.sum_congr rfl
    intro c _
    rw [smul_smul]; congr 1
    have hdne : SourceLoc.dist Real.sqrt (sumR nc) (fun c => y (ic c)) rcv ≠ 0 := by
      simp only [SourceLoc.dist, sumR]; exact (Real.sqrt_pos.mpr hpos).ne'
    field_simp

/-- one observation: `½ residTerm` has gradient `weight • ∇arrival` — also for a missing pick -/
private theorem term_isGrad (tau : (ι → ℝ) → ℝ) (gtau : ι → ℝ) (y : ι → ℝ) (h : IsGradAt tau gtau y)
    (obs : Option ℝ) (sigma : ℝ) :
    IsGradAt (fun z => 1 / 2 * residTerm obs sigma (tau z)) (weight obs sigma (tau y) • gtau) y := by
  cases obs with
  | none =>
    simp only [residTerm, weight, lit_zero, mul_zero, zero_smul]
    exact IsGradAt.const 0
  | some o =>
    have hφ : HasDerivAt (fun s : ℝ => 1 / 2 * (((o - s) / sigma) * ((o - s) / sigma))) ((tau y - o) / (sigma * sigma)) (tau y) := by
      have h1 : HasDerivAt (fun s : ℝ => (o - s) / sigma) (-1 / sigma) (tau y) := by
        have := ((hasDerivAt_id (tau y)).const_sub o).div_const sigma
        simpa using this
      have := (h1.mul h1).const_mul (1 / 2 : ℝ)
      refine this.congr_deriv ?_
      by_cases hs : sigma = 0
      · simp [hs]
      · field_simp; ring
    simpa only [residTerm, weight] using h.scomp _ _ hφ

/-- **gradient() is the derivative of misfit()**: every geometry, every number of events and
    stations, scalar or per-datum σ, every pattern of missing picks, fixed or inferred velocity,
    2D and 3D (`nc` = 2, 3) — wherever no event sits exactly on a station and the velocity is
    non-zero. The gradient is assembled as in the code: `gradCoord`, `gradTime` per event, `gradVel`. -/
theorem gradient_is_derivative (ic : Fin ne → Fin nc → ι) (iT : Fin ne → ι) (vel : (ι → ℝ) → ℝ) (gvel : ι → ℝ)
    (rcv : Fin ns → Fin nc → ℝ) (obs : Fin ne → Fin ns → Option ℝ) (sigma : Fin ne → Fin ns → ℝ) (y : ι → ℝ)
    (hvel : IsGradAt vel gvel y) (hv : vel y ≠ 0)
    (hoff : ∀ e s, 0 < ∑ c, (y (ic e c) - rcv s c) * (y (ic e c) - rcv s c)) :
    IsGradAt (fun z => misfit Real.sqrt (sumR nc) (sumR ns) (sumR ne) rcv obs sigma (fun e c => z (ic e c)) (fun e => z (iT e)) (vel z))
      (∑ e, (∑ c, gradCoord Real.sqrt (sumR nc) (sumR ns) rcv obs sigma (fun e c => y (ic e c)) (fun e => y (iT e)) (vel y) e c
                    • (Pi.single (ic e c) (1:ℝ) : ι → ℝ))
          + ∑ e, gradTime Real.sqrt (sumR nc) (sumR ns) rcv obs sigma (fun e c => y (ic e c)) (fun e => y (iT e)) (vel y) e
                    • (Pi.single (iT e) (1:ℝ) : ι → ℝ)
          + gradVel Real.sqrt (sumR nc) (sumR ns) (sumR ne) rcv obs sigma (fun e c => y (ic e c)) (fun e => y (iT e)) (vel y) • gvel) y := by
  -- every (event, station) term
  have hterm : ∀ e ∈ (univ : Finset (Fin ne)), ∀ s ∈ (univ : Finset (Fin ns)),
      IsGradAt (fun z => 1 / 2 * residTerm (obs e s) (sigma e s)
          (arrival Real.sqrt (sumR nc) (fun c => z (ic e c)) (rcv s) (z (iT e)) (vel z))) _ y :=
    fun e _ s _ => term_isGrad _ _ y (arrival_isGrad (ic e) (iT e) vel gvel (rcv s) y hvel hv (hoff e s)) (obs e s) (sigma e s)
  have hsum := IsGradAt.sum univ _ _ (fun e he => IsGradAt.sum univ _ _ (hterm e he))
  have ef : (fun z => misfit Real.sqrt (sumR nc) (sumR ns) (sumR ne) rcv obs sigma (fun e c => z (ic e c)) (fun e => z (iT e)) (vel z))
      = fun z => ∑ e, ∑ s, 1 / 2 * residTerm (obs e s) (sigma e s)
          (arrival Real.sqrt (sumR nc) (fun c => z (ic e c)) (rcv s) (z (iT e)) (vel z)) := by
    funext z
    simp only [misfit, sumR, lit_half, Finset.mul_sum]
  rw [ef]
  -- regroup the gradient event by event: Σ_s w • (e_T + Σ_c a_c • e_c + b • gvel)
  have hev : ∀ e : Fin ne,
      (∑ s, weight (obs e s) (sigma e s) (arrival Real.sqrt (sumR nc) (fun c => y (ic e c)) (rcv s) (y (iT e)) (vel y)) •
          ((Pi.single (iT e) (1:ℝ) : ι → ℝ)
            + ∑ c, ((y (ic e c) - rcv s c) / (vel y * SourceLoc.dist Real.sqrt (sumR nc) (fun c => y (ic e c)) (rcv s))) • (Pi.single (ic e c) (1:ℝ) : ι → ℝ)
            + (-(SourceLoc.dist Real.sqrt (sumR nc) (fun c => y (ic e c)) (rcv s)) / (vel y * vel y)) • gvel))
      = (∑ c, gradCoord Real.sqrt (sumR nc) (sumR ns) rcv obs sigma (fun e c => y (ic e c)) (fun e => y (iT e)) (vel y) e c
                    • (Pi.single (ic e c) (1:ℝ) : ι → ℝ))
        + gradTime Real.sqrt (sumR nc) (sumR ns) rcv obs sigma (fun e c => y (ic e c)) (fun e => y (iT e)) (vel y) e
                    • (Pi.single (iT e) (1:ℝ) : ι → ℝ)
        + (∑ s, weight (obs e s) (sigma e s) (arrival Real.sqrt (sumR nc) (fun c => y (ic e c)) (rcv s) (y (iT e)) (vel y))
                  * (-(SourceLoc.dist Real.sqrt (sumR nc) (fun c => y (ic e c)) (rcv s)) / (vel y * vel y))) • gvel := by
    intro e
    have hpos : ∀ s, (0:ℝ) < SourceLoc.dist Real.sqrt (sumR nc) (fun c => y (ic e c)) (rcv s) := fun s => by
      unfold SourceLoc.dist sumR; exact Real.sqrt_pos.mpr (hoff e s)
    simp only [gradCoord, dirTerm, lit_zero, hpos, if_true, gradTime, sumR, smul_add, Finset.sum_add_distrib, Finset.smul_sum, Finset.sum_smul, smul_smul]
    rw [Finset.sum_comm]
    abel
  have hG : (∑ e, ∑ s, weight (obs e s) (sigma e s) (arrival Real.sqrt (sumR nc) (fun c => y (ic e c)) (rcv s) (y (iT e)) (vel y)) •
          ((Pi.single (iT e) (1:ℝ) : ι → ℝ)
            + ∑ c, ((y (ic e c) - rcv s c) / (vel y * SourceLoc.dist Real.sqrt (sumR nc) (fun c => y (ic e c)) (rcv s))) • (Pi.single (ic e c) (1:ℝ) : ι → ℝ)
            + (-(SourceLoc.dist Real.sqrt (sumR nc) (fun c => y (ic e c)) (rcv s)) / (vel y * vel y)) • gvel))
      = (∑ e, (∑ c, gradCoord Real.sqrt (sumR nc) (sumR ns) rcv obs sigma (fun e c => y (ic e c)) (fun e => y (iT e)) (vel y) e c
                    • (Pi.single (ic e c) (1:ℝ) : ι → ℝ))
          + ∑ e, gradTime Real.sqrt (sumR nc) (sumR ns) rcv obs sigma (fun e c => y (ic e c)) (fun e => y (iT e)) (vel y) e
                    • (Pi.single (iT e) (1:ℝ) : ι → ℝ)
          + gradVel Real.sqrt (sumR nc) (sumR ns) (sumR ne) rcv obs sigma (fun e c => y (ic e c)) (fun e => y (iT e)) (vel y) • gvel) := by
    simp_rw [hev]
    simp only [Finset.sum_add_distrib, gradVel, sumR, Finset.sum_smul]
  rw [← hG]
  exact hsum

/-- an event exactly on a station: the (undefined) direction term of that pair is dropped, every
    other term is as usual — nothing is divided by zero, so in IEEE arithmetic the gradient is
    finite wherever the misfit is (checked on the implementation by the C17.eval oracle) -/
theorem coincident_station_term_dropped (num v : ℝ) : dirTerm num v 0 = 0 := by
  simp [dirTerm, lit_zero]

theorem dirTerm_of_pos (num v d : ℝ) (hd : 0 < d) : dirTerm num v d = num / (v * d) := by
  simp [dirTerm, lit_zero, hd]

end grad

/-! ### orientation of the pick and uncertainty arrays -/

/-- an array in the stations × events layout is read transposed whenever the two counts differ -/
theorem oriented_transposed {β : Type} (ne ns : Nat) (h : ne ≠ ns) (a : Nat → Nat → β) :
    oriented ne ns ns ne a = some (fun e s => a s e) := by
  have h1 : ¬ (ns = ne ∧ ne = ns) := fun hh => h hh.2
  simp [oriented, orientation, h1]

/-- an array in the events × stations layout is read as given (also when the counts are equal,
    where the layout cannot be told from the shape) -/
theorem oriented_as_given {β : Type} (ne ns : Nat) (a : Nat → Nat → β) : oriented ne ns ne ns a = some a := by
  simp [oriented, orientation]

/-- any other shape is refused -/
theorem oriented_refused {β : Type} (ne ns rows cols : Nat) (a : Nat → Nat → β)
    (h1 : ¬ (rows = ne ∧ cols = ns)) (h2 : ¬ (rows = ns ∧ cols = ne)) : oriented ne ns rows cols a = none := by
  simp [oriented, orientation, h1, h2]

/-! ### non-vacuity: an event at depth is off every surface station -/
example : 0 < ∑ c : Fin 2, ((![3, 2] : Fin 2 → ℝ) c - (![1, 0] : Fin 2 → ℝ) c) * ((![3, 2] : Fin 2 → ℝ) c - (![1, 0] : Fin 2 → ℝ) c) := by
  simp [Fin.sum_univ_two]; norm_num

end C17
end HmcVerif
