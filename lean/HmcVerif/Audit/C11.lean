import HmcVerif.Props.C11
open HmcVerif.C11
#print axioms step_no_consent
#print axioms no_consent_no_change
#print axioms valid_write_raises_exists
#print axioms no_open_handle
#print axioms next_valid_run_succeeds
#print axioms stepAt_frame
#print axioms no_consent_no_change_any_path
#print axioms copies_write_nothing
#print axioms closed_file_is_final
#print axioms content_is_appended
#print axioms closed_nothing_pending
#print axioms parallel_without_consent_refused
#print axioms two_writers_independent
