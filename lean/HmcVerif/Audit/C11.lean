import HmcVerif.Props.C11
open HmcVerif.C11
#print axioms step_no_consent
#print axioms no_consent_no_change
#print axioms valid_write_raises_exists
#print axioms no_open_handle
#print axioms next_valid_run_succeeds
#print axioms stepAt_frame
#print axioms no_consent_no_change_any_path
