import HmcVerif.Props.C20
open HmcVerif.C20
#print axioms routing_shared
#print axioms routing_each
#print axioms no_exchange_is_solo
#print axioms script_no_comm
#print axioms parallel_eq_sequential
#print axioms solo_columns
#print axioms cinv_step
#print axioms controller_no_deadlock
#print axioms controller_progress
#print axioms join_first_deadlocks
#print axioms kwLookup_merge
#print axioms fixed_keys_win
#print axioms other_keys_from_chain
