import HmcVerif.Props.C17
open HmcVerif.C17
#print axioms forward_eq
#print axioms misfit_eq_masked_sum
#print axioms threeD_y0_eq_twoD
#print axioms noise_free_zero
#print axioms missing_contributes_nothing
#print axioms param_layout
#print axioms layout_indices
#print axioms gradient_is_derivative
#print axioms coincident_station_term_dropped
#print axioms dirTerm_of_pos
#print axioms oriented_transposed
#print axioms oriented_as_given
#print axioms oriented_refused
