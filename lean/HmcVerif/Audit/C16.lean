import HmcVerif.Props.C16
open HmcVerif.C16
#print axioms autotune_formula
#print axioms clampRate_range
#print axioms stepsize_pos
#print axioms grows_on_accept
#print axioms shrinks_on_reject
#print axioms change_size
#print axioms increment_diminishes
#print axioms histories_cover_completed
#print axioms recorded_step_generated_proposal
#print axioms learning_rate_ok_iff
#print axioms learning_rate_nan_refused
#print axioms update_landing_on_zero_is_floored
