import HmcVerif.Props.C08
open HmcVerif.C08
#print axioms finish_spec
#print axioms fault_prefix
#print axioms interrupt_returns
#print axioms other_reraises
#print axioms closed_and_counted
#print axioms completed_included
#print axioms timeout_prefix
#print axioms timeout_is_shorter_run
#print axioms close_rate_zero_completed
#print axioms limiter_raise_resets
#print axioms limiter_next_run_like_first
#print axioms limiter_raises_iff
