import HmcVerif.Props.C15
open HmcVerif.C15
#print axioms premultiplied_eq_residual
#print axioms premultiplied_gradient
#print axioms cholesky_form_eq
#print axioms simple_covariance_form
#print axioms gradient_is_derivative
#print axioms forward_eq
#print axioms roundtrips_invisible
#print axioms bounds_survive_roundtrip
