import HmcVerif.Props.C18
open HmcVerif.C18
#print axioms snell_invariant
#print axioms depth_monotone
#print axioms time_and_length_are_sums
#print axioms per_layer_lengths_sum
#print axioms homogeneous_is_straight
#print axioms straight_length
#print axioms sqrt_lipschitz
#print axioms converged_within_tol_over_v
