import HmcVerif.Props.C12
open HmcVerif HmcVerif.C12 HmcVerif.Async
#print axioms diamond
#print axioms canonical_complete
#print axioms random_descent
#print axioms terminates
#print axioms no_deadlock
#print axioms schedule_independent
#print axioms choreography_all_interleavings
#print axioms pair_keeps_or_swaps
#print axioms stored_misfit_is_own
#print axioms exchange_frame
#print axioms row_available
#print axioms script_wellFormed
#print axioms tempering_all_interleavings
#print axioms columns_per_chain
#print axioms sendOk_preserved
#print axioms symmetric_send_deadlocks
#print axioms symmetric_send_completes_when_buffered
#print axioms stopped_partner_blocks_forever
