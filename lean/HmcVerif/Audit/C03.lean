import HmcVerif.Props.C03
open HmcVerif.C03
#print axioms unit_kinetic
#print axioms unit_velocity
#print axioms unit_factor
#print axioms diag_kinetic
#print axioms diag_velocity
#print axioms diag_factor
#print axioms full_kinetic
#print axioms full_velocity
#print axioms full_factor
#print axioms kinetic_of_momentum
#print axioms velocity_is_gradient
#print axioms stepsize_mass_equivalence
#print axioms equivalence_kinetic
#print axioms spd_iff_posDef
#print axioms bfgs_update_spd
#print axioms inv_init
#print axioms inv_step
#print axioms inv_history
#print axioms factor_is_mass
#print axioms reject_restores_last_accept
#print axioms reject_restores_initial
#print axioms inv_history_queued
#print axioms queue_empty_after_accept_or_reject
#print axioms rejected_trajectory_leaves_no_trace
#print axioms history_without_rejected_trajectory
#print axioms clean_after_accept_or_reject
