import HmcVerif.Props.C07
open HmcVerif.C07
#print axioms file_is_thinned_chain
#print axioms storedIdx_multiples
#print axioms columns_are_multiples
#print axioms thinning_is_subsequence
#print axioms stored_misfit_is_own_rwmh
#print axioms close_rate
#print axioms reuse_eq_fresh
#print axioms session_last_file
