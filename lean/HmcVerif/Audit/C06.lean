import HmcVerif.Props.C06
import HmcVerif.Real.FoldVolumeO
open HmcVerif.C06
#print axioms misfit_outside
#print axioms misfit_inf_outside
#print axioms misfit_eq_unbounded_inside
#print axioms nan_coordinate_outside
#print axioms outside1_iff
#print axioms updateBounds_atomic
#print axioms updateBounds_commit
#print axioms reflect_mirrors_low
#print axioms reflect_mirrors_high
#print axioms reflect_untouched_inside
#print axioms reflect_conserves_kinetic1
#print axioms rwmh_chain_good
#print axioms rwmh_chain_stays_in_box
#print axioms hmc_chain_good
#print axioms hmc_chain_stays_in_box
#print axioms corrector_lands_in_box
#print axioms HmcVerif.BoxTree.ebox_support
-- the corrector lands in the closed box for every kind of box (two-sided, one-sided, none) - Real/FoldVolumeO.lean
#print axioms HmcVerif.correctorR_inBox1
