import HmcVerif.Props.C10
open HmcVerif.C10
#print axioms store_invariant
#print axioms after_close
#print axioms interval_pos
#print axioms read_drops_burn_in
#print axioms read_column
#print axioms burn_in_refused_iff
#print axioms combine_is_concat_without_nan
#print axioms combine_no_nan
