import HmcVerif.Props.C04
open HmcVerif HmcVerif.C04
#print axioms metropolis_invariant
#print axioms iterate_invariant
#print axioms comp_invariant
#print axioms accept_probability
#print axioms rule_is_min
#print axioms rule_is_min_general
#print axioms flipP_measurePreserving
#print axioms psi_measurePreserving
#print axioms psi_involution
#print axioms joint_invariant
#print axioms position_invariant
#print axioms hmc_invariant
#print axioms rwmh_invariant
#print axioms rwmh_ratio
#print axioms mixture_invariant
