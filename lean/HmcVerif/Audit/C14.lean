import HmcVerif.Props.C14
open HmcVerif.C14
#print axioms normal1d_misfit_eq_neglog_pdf
#print axioms normal1d_integral_one
#print axioms normalDiag_misfit_eq_neglog_pdf
#print axioms normalDiag_integral_one
#print axioms laplace_misfit_eq_neglog_pdf
#print axioms laplaceNorm_eq
#print axioms laplace1d_integral_one
#print axioms normal_generate_law
#print axioms normalFull_generate
#print axioms laplace_generate
#print axioms uniform_generate_in_box
#print axioms logspace_generate
#print axioms normalize_history
#print axioms never_normalized
#print axioms normalNormSum_eq
