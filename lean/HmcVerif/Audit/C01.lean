import HmcVerif.Props.C01
import HmcVerif.Real.BoxedKernelN
open HmcVerif.C01
#print axioms schedule_palindrome
#print axioms schedule_time_sums
#print axioms op_reversible
#print axioms propose_reversible
#print axioms linear_vel_odd
#print axioms randomised_scales_uniformly
#print axioms propose_volume_preserving_all
#print axioms boxed_step_reversible
#print axioms propose_reversible_boxed_diag_partial
#print axioms reflect_conserves_kinetic
#print axioms full_mass_box_not_reversible
#print axioms HmcVerif.correctorR_img
#print axioms HmcVerif.correctorR_in_box
#print axioms HmcVerif.correctorR_eq_reflect1
#print axioms HmcVerif.cdrift1_reversible_box
#print axioms HmcVerif.cdrift1_reversible
#print axioms boxRefl_in_box
#print axioms boxed_drift_volume_preserving_1d_partial
#print axioms boxed_drift_pushforward_1d_partial
#print axioms boxed_drift_injective_1d
#print axioms boxed_drift_lands_in_box_1d
#print axioms HmcVerif.piecewise_measure
#print axioms propose_volume_preserving_boxed_diag
#print axioms HmcVerif.trajBox_mp
#print axioms propose_reversible_boxed_diag_ae
