import HmcVerif.Props.C19
open HmcVerif.C19
#print axioms returned_is_last
#print axioms history_misfit_is_own
#print axioms history_chain
#print axioms history_starts_at_initial
#print axioms bad_step_never_returned
#print axioms interrupted_returned_is_last
