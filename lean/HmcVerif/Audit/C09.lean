import HmcVerif.Props.C09
open HmcVerif.C09
#print axioms columns_env_independent
#print axioms shorter_is_prefix
#print axioms column_depends_on_prefix
