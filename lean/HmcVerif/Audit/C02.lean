import HmcVerif.Props.C02
open HmcVerif.C02
#print axioms accept_iff_rule
#print axioms accept_updates_state
#print axioms reject_keeps_state
#print axioms nan_or_posinf_never_accepted
#print axioms bad_energy_keeps_state
#print axioms hmc_bad_misfit_bad_energy
#print axioms rwmh_proposal_independent
#print axioms rwmh_carried_misfit_is_own
#print axioms rwmh_accepted_count
#print axioms hmc_carried_misfit_is_own
#print axioms hmc_accepted_count
