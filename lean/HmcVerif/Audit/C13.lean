import HmcVerif.Props.C13
open HmcVerif.C13
#print axioms additive_gradient_sum
#print axioms sumList_eq_sum
#print axioms collapse_is_intersection
#print axioms collapseAll_is_intersection
#print axioms composite_gradient_stack
#print axioms composite_reflect_blockwise
#print axioms mixture_logsumexp
#print axioms mixture_gradient
#print axioms mixtureGrad1_eq
#print axioms logspace_change_of_variables
#print axioms logspace_roundtrip
#print axioms logspace_gradient
#print axioms temperature_divides_stdNormal
#print axioms temperature_divides_himmelblau
#print axioms temperature_divides
#print axioms normal_encodings_agree
#print axioms normal_scalar_is_constant_vector
#print axioms normal_det_diagonal
#print axioms mixture_shift_invariant
#print axioms mixture_grad_shift_invariant
#print axioms logspace_change_of_variables_abs
#print axioms HmcVerif.BoxTree.inside1_meet
#print axioms HmcVerif.BoxTree.ebox_support
#print axioms mixture_of_copies
#print axioms mixture_symmetric_pair
