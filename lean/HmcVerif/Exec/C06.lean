import HmcVerif.Model.Bounds
import HmcVerif.Exec.Targets
namespace HmcVerif
namespace C06

/-- `misfit <target> <box> <x>` → misfit, gradient -/
def misfit : P String := do
  let t ← pTarget; let b ← pBox; let x ← pVec
  pEnd
  pure (fmtHexFloat (t.misfit b x) ++ " " ++ fmtVec (t.grad b x) ++ " " ++ fmtBool (b.outside x))

def pArg : P (BoundArg FVec) := do
  let k ← tok
  match k with
  | "N" => pure .none
  | "K" => do let v ← pVec; pure (.ok v)
  | "S" => pure .wrongShape
  | "T" => pure .wrongType
  | _ => failure

def fmtOptVec : Option FVec → String
  | none => "-"
  | some v => "+ " ++ fmtVec v

/-- `update <oldlb?> <oldub?> <lowerArg> <upperArg>` → new bounds, error class -/
def update : P String := do
  let ol ← pOpt pVec; let ou ← pOpt pVec; let lo ← pArg; let up ← pArg
  pEnd
  let clash : FVec → FVec → Bool := fun l u => FVec.any2 (fun ui li => ui <= li) u l
  let r := updateBounds clash (ol, ou) lo up
  let e := match r.2 with
    | none => "ok"
    | some .lowerNotUnderstood => "lower-not-understood"
    | some .upperNotUnderstood => "upper-not-understood"
    | some .incorrectSize => "incorrect-size"
    | some .incompatible => "incompatible"
  pure (fmtOptVec r.1.1 ++ " " ++ fmtOptVec r.1.2 ++ " " ++ e)

end C06
end HmcVerif
