import HmcVerif.Exec.Vec
/-
  Line protocol: space separated tokens; floats are 16-hex-digit IEEE-754 words; naturals are
  decimal; vectors are length-prefixed; optional values are `-` or `+ <value>`.
-/
namespace HmcVerif

def hexVal (c : Char) : Option Nat :=
  if c.isDigit then some (c.toNat - 48)
  else if 'a' ≤ c ∧ c ≤ 'f' then some (c.toNat - 87)
  else if 'A' ≤ c ∧ c ≤ 'F' then some (c.toNat - 55)
  else none

def parseHexFloat (s : String) : Option Float :=
  if s.length != 16 then none else
  (s.toList.foldlM (fun acc c => (hexVal c).map (fun v => acc * 16 + v)) 0).map
    (fun n => Float.ofBits (UInt64.ofNat n))

def hexDigit (n : Nat) : Char :=
  if n < 10 then Char.ofNat (48 + n) else Char.ofNat (87 + n)

def fmtHexFloat (x : Float) : String :=
  -- canonical NaN so that payload/sign never produce a diff
  if x.isNaN then "7ff8000000000000" else
  let n := x.toBits.toNat
  let ds := (List.range 16).map (fun i => hexDigit ((n >>> (4 * (15 - i))) % 16))
  String.ofList ds

/-- token reader -/
abbrev P := StateT (List String) Option

def tok : P String := do
  match (← get) with
  | [] => failure
  | t :: ts => set ts; pure t

def pNat : P Nat := do
  let t ← tok
  match t.toNat? with
  | some n => pure n
  | none => failure

def pFloat : P Float := do
  let t ← tok
  match parseHexFloat t with
  | some x => pure x
  | none => failure

def pBool : P Bool := do
  let t ← tok
  if t == "1" then pure true else if t == "0" then pure false else failure

def pRepeat {β : Type} (n : Nat) (p : P β) : P (List β) :=
  match n with
  | 0 => pure []
  | k+1 => do let x ← p; let xs ← pRepeat k p; pure (x :: xs)

def pVec : P FVec := do
  let n ← pNat
  let xs ← pRepeat n pFloat
  pure (FVec.ofList xs)

def pMat : P FMat := do
  let n ← pNat
  let rs ← pRepeat n pVec
  pure ⟨rs.toArray⟩

def pOpt {β : Type} (p : P β) : P (Option β) := do
  let t ← tok
  if t == "-" then pure none
  else if t == "+" then (do let x ← p; pure (some x))
  else failure

def pEnd : P Unit := do
  match (← get) with
  | [] => pure ()
  | _ => failure

def fmtVec (v : FVec) : String :=
  String.intercalate " " (toString v.size :: v.a.toList.map fmtHexFloat)

def fmtBool (b : Bool) : String := if b then "1" else "0"

def tokens (line : String) : List String :=
  (line.splitOn " ").filter (fun s => s != "" && s != "\n") |>.map (fun s => s.trimAscii.toString)

end HmcVerif
