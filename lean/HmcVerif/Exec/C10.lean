import HmcVerif.Model.Store
import HmcVerif.Exec.Proto
namespace HmcVerif
namespace C10

def pOp : P (StoreOp FVec) := do
  let k ← tok
  match k with
  | "P" => do let c ← pVec; pure (.append c)
  | "F" => pure .flush
  | "W" => pure .writeAttr
  | "C" => pure .close
  | _ => failure

def hasNaN (c : FVec) : Bool := c.a.any Float.isNaN   -- an entry is NaN (not: the sum is NaN — +inf and -inf sum to NaN)

/-- `store <nclock> clock… <nops> ops…` → after every op the write index; at the end the columns on disk -/
def store : P String := do
  let clk ← pVec
  let n ← pNat
  let ops ← pRepeat n pOp
  pEnd
  let clock : Nat → Float := fun k => clk.get k
  let fast : Float → Float → Bool := fun t0 t1 => (t1 - t0) < 1.0
  let slow : Float → Float → Bool := fun t0 t1 => (t1 - t0) > 10.0
  let (s, idx) := ops.foldl (fun (acc : Store FVec Float × List Nat) op =>
      let s' := Store.step clock fast slow acc.1 op
      (s', acc.2 ++ [s'.writeIndex])) (Store.init, [])
  pure (String.intercalate " " (idx.map toString) ++ " | " ++ toString s.disk.length ++ " "
    ++ String.intercalate " " (s.disk.map fmtVec) ++ " | " ++ toString s.ticks)

/-- `read <b> <ncols> cols…` → refused flag, then the view -/
def read : P String := do
  let b ← pNat; let n ← pNat
  let cols ← pRepeat n pVec
  pEnd
  if readRefused cols.length b then pure "refused"
  else
    let v := readColumns cols b
    pure (toString v.length ++ " " ++ String.intercalate " " (v.map fmtVec))

/-- `combine <nviews> (<ncols> cols…)*` -/
def comb : P String := do
  let nv ← pNat
  let views ← pRepeat nv (do let n ← pNat; pRepeat n pVec)
  pEnd
  let v := combine hasNaN views
  pure (toString v.length ++ " " ++ String.intercalate " " (v.map fmtVec))

end C10
end HmcVerif
