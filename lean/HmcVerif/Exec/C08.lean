import HmcVerif.Model.Loop
import HmcVerif.Exec.Proto
namespace HmcVerif
namespace C08

def fmtOutcome (o : Outcome Nat) : String :=
  toString o.columns.length ++ " " ++ String.intercalate " " (o.columns.map toString) ++ " | "
    ++ toString o.writeIndex ++ " " ++ fmtBool o.returns ++ " " ++ fmtBool o.closed ++ " " ++ toString o.completed

def clk : Nat → Nat := fun k => k
def fastB : Nat → Nat → Bool := fun _ _ => true
def slowB : Nat → Nat → Bool := fun _ _ => false

/-- `fault <P> <t> <ncalls…(P)> <k|-> <I|O>`: columns are reported as proposal indices -/
def fault : P String := do
  let Pn ← pNat; let t ← pNat
  let nc ← pRepeat Pn pNat
  let k ← pOpt pNat
  let kind ← tok
  pEnd
  if t == 0 then failure
  let ncalls : Nat → Nat := fun i => nc.getD i 0
  match k with
  | none => pure (fmtOutcome (runFree clk fastB slowB (fun i => i) ncalls t Pn))
  | some k =>
    let fk ← (if kind == "I" then pure FaultKind.interrupt else if kind == "O" then pure FaultKind.other else failure)
    pure (fmtOutcome (runFault clk fastB slowB (fun i => i) ncalls t Pn k fk))

/-- `timeout <P> <t> <ncalls…(P)> <over…(P bools)>` -/
def timeout : P String := do
  let Pn ← pNat; let t ← pNat
  let nc ← pRepeat Pn pNat
  let ov ← pRepeat Pn pBool
  pEnd
  if t == 0 then failure
  pure (fmtOutcome (runTimeout clk fastB slowB (fun i => i) (fun i => nc.getD i 0) t Pn (fun i => ov.getD i false)))

/-- `limiter <limit> <gcount> <n> <calls: 0 misfit | 1 gradient>…` → per call: counter afterwards and whether it raised -/
def limiter : P String := do
  let limit ← pNat; let g ← pNat; let n ← pNat
  let cs ← pRepeat n pNat
  pEnd
  let calls := cs.map (fun c => if c = 0 then LimCall.misfit else LimCall.gradient)
  pure (String.intercalate " " ((limRun limit g 0 calls).map (fun r => toString r.1 ++ ":" ++ (if r.2 then "1" else "0"))))

end C08
end HmcVerif
