import HmcVerif.Model.Linear
import HmcVerif.Exec.Targets
namespace HmcVerif
namespace C15

/-- transpose of a rectangular matrix with `nc` columns -/
def transposeR (m : FMat) (nc : Nat) : FMat :=
  ⟨(List.range nc).toArray.map (fun j => ⟨m.rows.map (fun r => r.get j)⟩)⟩

/-- `eval <G rows> <ncols> <d> <Winv (nd×nd)> <U (nd×nd)> <m>` →
    spec misfit, spec gradient, premultiplied misfit/gradient, factor-form misfit, forward -/
def eval : P String := do
  let G ← pMat; let nc ← pNat; let d ← pVec; let Winv ← pMat; let U ← pMat; let m ← pVec
  pEnd
  let Gt := transposeR G nc
  let g : FVec → FVec := G.mulVec
  let gt : FVec → FVec := Gt.mulVec
  let winv : FVec → FVec := Winv.mulVec
  let spec := Linear.specMisfit g winv FVec.dot d m
  let sgrad := Linear.specGradient g gt winv d m
  let gtg : FVec → FVec := fun v => gt (winv (g v))
  let gtd0 := gt (winv d)
  let dtd := d.dot (winv d)
  let pm := Linear.premulMisfit gtg gtd0 dtd FVec.dot m
  let pg := Linear.premulGradient gtg gtd0 m
  let fm := Linear.factorMisfit g U.mulVec FVec.dot d m
  pure (fmtHexFloat spec ++ " " ++ fmtVec sgrad ++ " " ++ fmtHexFloat pm ++ " " ++ fmtVec pg ++ " " ++ fmtHexFloat fm ++ " " ++ fmtVec (g m))

end C15
end HmcVerif
