import HmcVerif.Exec.Dists
namespace HmcVerif
namespace C05

def fmtOptVec : Option FVec → String
  | none => "-"
  | some v => "+ " ++ fmtVec v

/-- `eval <dexpr> <x>` → misfit, gradient, bounds in force -/
def eval : P String := do
  let e ← pDExpr; let x ← pVec
  pEnd
  let b := e.box
  pure (fmtHexFloat (e.misfit x) ++ " " ++ fmtVec (e.grad x) ++ " " ++ fmtOptVec b.lb ++ " " ++ fmtOptVec b.ub ++ (if e.layersAgree then " L1" else " L0"))

/-- `correct <dexpr> <q> <p>` → corrector result -/
def correct : P String := do
  let e ← pDExpr; let q ← pVec; let p ← pVec
  pEnd
  let s := e.correct ⟨q, p⟩
  pure (fmtVec s.q ++ " " ++ fmtVec s.p)

/-- `generate <dexpr> <repeat> <normals> <uniforms>` → the d rows of the (d, repeat) array -/
def generate : P String := do
  let e ← pDExpr; let rep ← pNat; let nz ← pVec; let us ← pVec
  pEnd
  let (rows, rest) := e.generate rep ⟨nz.a.toList, us.a.toList⟩
  pure (toString rows.length ++ " " ++ String.intercalate " " (rows.map fmtVec) ++ " | " ++
    toString rest.normals.length ++ " " ++ toString rest.uniforms.length)

/-- `norm <leaf dexpr, flag = 1> <k> <op>*k` (0 normalize, 1 mixtureInit, 2 evaluate) → the constant after that history -/
def norm : P String := do
  let e ← pDExpr; let k ← pNat
  let ops ← pRepeat k pNat
  pEnd
  let ops' := ops.map (fun o => if o = 0 then Dist.NormOp.normalize else if o = 1 then Dist.NormOp.mixtureInit else Dist.NormOp.evaluate)
  pure (fmtHexFloat (Dist.normRun (DExpr.normConst e) 0.0 ops'))

end C05
end HmcVerif
