import HmcVerif.Model.DistAlg
import HmcVerif.Model.BoxTree
import HmcVerif.Exec.Targets
/-
  Executable model of the whole distribution algebra of hmclab.Distributions.base / Transforms:
  a recursive expression type with misfit, gradient, corrector, collapsed bounds and generate().
-/
namespace HmcVerif

inductive DExpr where
  | stdNormal (T : Float) (b : Box)
  | normalDiag (mu var : FVec) (normalized : Bool) (b : Box)
  | normalFull (mu : FVec) (invc chol : FMat) (normalized : Bool) (b : Box)
  | laplace (mu disp : FVec) (normalized : Bool) (b : Box)
  | himmelblau (T : Float) (b : Box)
  | uniform (b : Box)
  | additive (parts : List DExpr) (own : Box)
  | composite (parts : List DExpr) (own : Box)
  | mixture (parts : List DExpr) (w : FVec) (b : Box)
  | logT (base : Float) (inner : DExpr) (b : Box)
deriving Inhabited

def twoPi : Float := 2.0 * 3.141592653589793

namespace DExpr

def vmax (a b : FVec) : FVec := FVec.zip (fun x y => if x < y then y else x) a b
def vmin (a b : FVec) : FVec := FVec.zip (fun x y => if y < x then y else x) a b

def collapseOpt (f : FVec → FVec → FVec) (a b : Option FVec) : Option FVec :=
  match a, b with
  | none, b => b
  | a, none => a
  | some x, some y => some (f x y)

mutual
/-- dimension -/
partial def dim : DExpr → Nat
  | stdNormal _ _ => 1
  | normalDiag mu _ _ _ => mu.size
  | normalFull mu _ _ _ _ => mu.size
  | laplace mu _ _ _ => mu.size
  | himmelblau _ _ => 2
  | uniform b => match b.lb with | some l => l.size | none => 0
  | additive parts _ => match parts with | p :: _ => dim p | [] => 0
  | composite parts _ => (parts.map dim).foldl (· + ·) 0
  | mixture parts _ _ => match parts with | p :: _ => dim p | [] => 0
  | logT _ inner _ => dim inner

/-- the bounds of the object itself (`lower_bounds`, `upper_bounds` attributes); those of an
    additive distribution are collapsed from the bounds in force in its parts -/
partial def box : DExpr → Box
  | stdNormal _ b => b
  | normalDiag _ _ _ b => b
  | normalFull _ _ _ _ b => b
  | laplace _ _ _ b => b
  | himmelblau _ b => b
  | uniform b => b
  | additive parts own =>
      -- collapse_bounds: intersection of the own box with the bounds in force in every part
      parts.foldl (fun acc p =>
        let pb := ebox p
        ⟨collapseOpt vmax acc.lb pb.lb, collapseOpt vmin acc.ub pb.ub⟩) own
  | composite _ own => own
  | mixture _ _ b => b
  | logT _ _ b => b

/-- the bounds in force for every coordinate: a composite keeps bounds in its blocks, at any depth;
    they are stacked (infinite where a block has none) and intersected with the own box; a side on
    which no coordinate is bounded is `none` -/
partial def ebox : DExpr → Box
  | composite parts own =>
      let lows := parts.map (fun p => match (ebox p).lb with | some l => l | none => FVec.const (dim p) (0.0 - finf))
      let ups := parts.map (fun p => match (ebox p).ub with | some u => u | none => FVec.const (dim p) finf)
      let lo : FVec := ⟨lows.foldl (fun acc v => acc ++ v.a) #[]⟩
      let up : FVec := ⟨ups.foldl (fun acc v => acc ++ v.a) #[]⟩
      let lo := match own.lb with | some l => vmax lo l | none => lo
      let up := match own.ub with | some u => vmin up u | none => up
      ⟨if lo.anyP (fun x => x > 0.0 - finf) then some lo else none, if up.anyP (fun x => x < finf) then some up else none⟩
  | e => box e
end

/-- one coordinate of a box -/
def boxFn (b : Box) : Nat → BoxTree.B1 Float := fun i => (b.lb.map (·.get i), b.ub.map (·.get i))

/-- the expression as far as bounds are concerned (Model/BoxTree.lean, about which `ebox_support` is proved) -/
partial def toE : DExpr → BoxTree.E Float
  | additive parts own => .additive (match parts with | p :: _ => dim p | [] => 0) (boxFn own) (parts.map toE)
  | composite parts own => .composite (boxFn own) (parts.map toE)
  | e => .leaf (dim e) (boxFn (box e))

/-- do the vectors of `ebox` (with their infinities) and the per-coordinate options of `BoxTree.ebox`
    describe the same box? (`none` = no bound = ∓inf) -/
def layersAgree (e : DExpr) : Bool :=
  let b := ebox e
  let t := toE e
  (List.range (dim e)).all (fun i =>
    let c := BoxTree.ebox t i
    let lo := match b.lb with | some v => v.get i | none => 0.0 - finf
    let hi := match b.ub with | some v => v.get i | none => finf
    (c.1.getD (0.0 - finf) == lo) && (c.2.getD finf == hi))

def slice (x : FVec) (start len : Nat) : FVec := ⟨x.a.extract start (start + len)⟩

/-- split a vector into consecutive blocks of the parts' dimensions -/
def splitBlocks (parts : List DExpr) (x : FVec) : List FVec :=
  (parts.foldl (fun (acc : Nat × List FVec) p => (acc.1 + dim p, acc.2 ++ [slice x acc.1 (dim p)])) (0, [])).2

def concat (vs : List FVec) : FVec := ⟨vs.foldl (fun acc v => acc ++ v.a) #[]⟩

/-- the shift of the log-sum-exp: `max (log wᵢ − mᵢ)` as numpy computes it (NaN propagates), replaced by 0 when it is not finite -/
def mixShift (w m : List Float) : Float :=
  let a := List.zipWith (fun wi mi => Float.log wi - mi) w m
  let mx := a.foldl (fun acc v => if acc.isNaN || v.isNaN then (0.0 / 0.0) else if v > acc then v else acc) (-(1.0 / 0.0))
  if mx.isFinite then mx else 0.0

mutual
/-- normalisation constant added to the misfit -/
partial def normConst : DExpr → Float
  | normalDiag _ var true _ =>
      Dist.normalNormSum Float.log Float.abs 0.0 twoPi var.a.toList (Float.ofNat var.size)
  | normalFull mu _ chol true _ =>
      -- |det C| = ∏ Lᵢᵢ²
      Dist.normalNormSum Float.log Float.abs 0.0 twoPi ((List.range mu.size).map (fun i => chol.get i i * chol.get i i)) (Float.ofNat mu.size)
  | laplace _ disp true _ => Dist.laplaceNorm Float.log 0.0 disp.a.toList
  | _ => 0.0

partial def misfit : DExpr → FVec → Float
  | stdNormal T b, x => b.misfitBounds x + Dist.stdNormalMisfit T (x.get 0)
  | e@(normalDiag mu var _ b), x =>
      b.misfitBounds x + 0.5 * (FVec.sum ⟨(List.range x.size).toArray.map
        (fun i => Dist.normalDiagTerm (mu.get i) (1.0 / var.get i) (x.get i))⟩) + normConst e
  | e@(normalFull mu invc _ _ b), x =>
      let r := mu - x
      b.misfitBounds x + 0.5 * (r.dot (invc.mulVec r)) + normConst e
  | e@(laplace mu disp _ b), x =>
      normConst e + b.misfitBounds x + (FVec.sum ⟨(List.range x.size).toArray.map
        (fun i => Dist.laplaceTerm Float.abs (mu.get i) (1.0 / disp.get i) (x.get i))⟩)
  | himmelblau T b, x => b.misfitBounds x + Dist.himmelblauMisfit T (x.get 0) (x.get 1)
  | uniform b, x => b.misfitBounds x
  | e@(additive parts _), x =>
      (parts.foldl (fun acc p => acc + misfit p x) 0.0) + (box e).misfitBounds x
  | composite parts own, x =>
      let blocks := splitBlocks parts x
      ((List.zip parts blocks).foldl (fun acc pb => acc + misfit pb.1 pb.2) 0.0) + own.misfitBounds x
  | mixture parts w b, x =>
      let ms := parts.map (fun p => misfit p x)
      b.misfitBounds x + Dist.mixtureMisfitShift Float.exp Float.log 0.0 (mixShift w.a.toList ms) w.a.toList ms
  | logT base inner b, x =>
      let y := x.map (Dist.logForward Float.log base)
      if y.anyP Float.isNaN then finf
      else misfit inner y - (FVec.sum (x.map (fun m => Float.log (Float.abs (Dist.logJac Float.log base m))))) + b.misfitBounds x

partial def grad : DExpr → FVec → FVec
  | stdNormal T _, x => ⟨#[Dist.stdNormalGrad T (x.get 0)]⟩
  | normalDiag mu var _ b, x =>
      let mb := b.misfitBounds x
      ⟨(List.range x.size).toArray.map (fun i => Dist.normalDiagGrad (mu.get i) (1.0 / var.get i) (x.get i) + mb)⟩
  | normalFull mu invc _ _ b, x =>
      let mb := b.misfitBounds x
      (FVec.map (fun v => -v) (invc.mulVec (mu - x))).map (· + mb)
  | laplace mu disp _ b, x =>
      let mb := b.misfitBounds x
      ⟨(List.range x.size).toArray.map (fun i => mb + Dist.laplaceGrad fsign (mu.get i) (1.0 / disp.get i) (x.get i))⟩
  | himmelblau T _, x => ⟨#[Dist.himmelblauGradX T (x.get 0) (x.get 1), Dist.himmelblauGradY T (x.get 0) (x.get 1)]⟩
  | uniform b, x => FVec.const x.size (0.0 + b.misfitBounds x)
  | e@(additive parts _), x =>
      let g := parts.foldl (fun acc p => acc + grad p x) (FVec.const x.size 0.0)
      g.map (· + (box e).misfitBounds x)
  | composite parts own, x =>
      let blocks := splitBlocks parts x
      (concat ((List.zip parts blocks).map (fun pb => grad pb.1 pb.2))).map (· + own.misfitBounds x)
  | mixture parts w _, x =>
      let ms := parts.map (fun q => misfit q x)
      let p := Dist.mixtureRespShift Float.exp Float.log (mixShift w.a.toList ms) w.a.toList ms
      let gs := parts.map (fun q => grad q x)
      ⟨(List.range x.size).toArray.map (fun i => Dist.mixtureGrad1 0.0 p (gs.map (·.get i)))⟩
  | logT base inner b, x =>
      let y := x.map (Dist.logForward Float.log base)
      let g := grad inner y
      ⟨(List.range x.size).toArray.map (fun i => Dist.logGrad1 Float.log base (x.get i) (g.get i) + b.misfitBounds x)⟩
end

/-- `corrector(coordinates, momentum)` -/
partial def correct : DExpr → PS FVec → PS FVec
  | e@(additive _ _), s => (box e).reflect s
  | composite parts own, s =>
      let s1 := own.reflect s
      match own.lb, own.ub with
      | none, none =>
          let qs := splitBlocks parts s1.q
          let ps := splitBlocks parts s1.p
          -- every block corrects its own part (a block can be a composite itself)
          let rs := (List.zip parts (List.zip qs ps)).map (fun t => correct t.1 ⟨t.2.1, t.2.2⟩)
          ⟨concat (rs.map (·.q)), concat (rs.map (·.p))⟩
      | _, _ => s1
  | e, s => (box e).reflect s

/-- standard-normal / uniform / choice draws are consumed from scripted streams -/
structure Draws where
  normals : List Float
  uniforms : List Float

def takeN (l : List Float) (n : Nat) : List Float × List Float := (l.take n, l.drop n)

/-- column-major matrix of `d × rep` from a flat row-major draw (numpy fills `(d, rep)` row-major) -/
def asRows (flat : List Float) (d rep : Nat) : List FVec :=
  (List.range d).map (fun i => FVec.ofList ((flat.drop (i * rep)).take rep))

/-- `generate(repeat, rng)`: returns the `d` rows of the `(d, repeat)` result and the remaining draws -/
partial def generate : DExpr → Nat → Draws → List FVec × Draws
  | stdNormal T _, rep, dr =>
      -- misfit m² / (2T): standard deviation √T
      let (z, rest) := takeN dr.normals rep
      ([FVec.ofList (z.map (fun v => 0.0 + Float.sqrt T * v))], { dr with normals := rest })
  | normalDiag mu var _ _, rep, dr =>
      let d := mu.size
      let (z, rest) := takeN dr.normals (d * rep)
      let rows := asRows z d rep
      ((List.range d).map (fun i => (rows.getD i default).map (fun v => v * Float.sqrt (var.get i) + mu.get i)),
        { dr with normals := rest })
  | normalFull mu _ chol _ _, rep, dr =>
      let d := mu.size
      let (z, rest) := takeN dr.normals (d * rep)
      let rows := asRows z d rep
      ((List.range d).map (fun i => FVec.ofList ((List.range rep).map (fun j =>
          ((List.range d).foldl (fun acc k => acc + chol.get i k * (rows.getD k default).get j) 0.0) + mu.get i))),
        { dr with normals := rest })
  | laplace mu disp _ _, rep, dr =>
      let d := mu.size
      let (z, rest) := takeN dr.normals (d * rep)
      let rows := asRows z d rep
      ((List.range d).map (fun i => (rows.getD i default).map (fun v => mu.get i + disp.get i * v)), { dr with normals := rest })
  | uniform b, rep, dr =>
      match b.lb, b.ub with
      | some l, some u =>
          let d := l.size
          let (z, rest) := takeN dr.uniforms (d * rep)
          let rows := asRows z d rep
          ((List.range d).map (fun i => (rows.getD i default).map (fun v => l.get i + (u.get i - l.get i) * v)),
            { dr with uniforms := rest })
      | _, _ => ([], dr)
  | composite parts _, rep, dr =>
      parts.foldl (fun (acc : List FVec × Draws) p =>
        let (rows, dr') := generate p rep acc.2
        (acc.1 ++ rows, dr')) ([], dr)
  | mixture parts w _, rep, dr =>
      let (us, rest) := takeN dr.uniforms rep
      let cum := w.a.toList.foldl (fun (acc : List Float) wi => acc ++ [(acc.getLast?.getD 0.0) + wi]) []
      let k := parts.length
      let pick := us.map (fun u => min ((cum.filter (fun c => c <= u)).length) (k - 1))
      -- components in increasing index order, each generating its count; the draws of component `idx` go to the
      -- columns whose label is `idx` (every column is a draw from the mixture), in order
      let d := match parts with | p :: _ => dim p | [] => 0
      let res := (List.range k).foldl (fun (acc : List FVec × Draws) idx =>
        let cnt := (pick.filter (· == idx)).length
        if cnt == 0 then acc else
          let (rows, dr') := generate (parts.getD idx default) cnt acc.2
          let cols := (List.range rep).filter (fun j => pick.getD j 0 == idx)
          ((List.range d).map (fun i =>
              let row := acc.1.getD i (FVec.const rep 0.0)
              let src := rows.getD i ⟨#[]⟩
              ⟨(List.zip cols (List.range cnt)).foldl (fun (a : Array Float) cj => a.set! cj.1 (src.get cj.2)) row.a⟩), dr'))
        ((List.range d).map (fun _ => FVec.const rep 0.0), { dr with uniforms := rest })
      res
  | logT base inner _, rep, dr =>
      let (rows, dr') := generate inner rep dr
      (rows.map (fun r => r.map (fun v => Float.pow base v)), dr')
  | _, _, dr => ([], dr)

end DExpr

/- parser ------------------------------------------------------------------------------- -/
partial def pDExpr : P DExpr := do
  let k ← tok
  match k with
  | "stdnormal" => do let T ← pFloat; let b ← pBox; pure (.stdNormal T b)
  | "normaldiag" => do let mu ← pVec; let var ← pVec; let n ← pBool; let b ← pBox; pure (.normalDiag mu var n b)
  | "normalfull" => do let mu ← pVec; let ic ← pMat; let ch ← pMat; let n ← pBool; let b ← pBox; pure (.normalFull mu ic ch n b)
  | "laplace" => do let mu ← pVec; let d ← pVec; let n ← pBool; let b ← pBox; pure (.laplace mu d n b)
  | "himmelblau" => do let T ← pFloat; let b ← pBox; pure (.himmelblau T b)
  | "uniform" => do let b ← pBox; pure (.uniform b)
  | "additive" => do let n ← pNat; let ps ← pRepeat n pDExpr; let b ← pBox; pure (.additive ps b)
  | "composite" => do let n ← pNat; let ps ← pRepeat n pDExpr; let b ← pBox; pure (.composite ps b)
  | "mixture" => do let n ← pNat; let ps ← pRepeat n pDExpr; let w ← pVec; let b ← pBox; pure (.mixture ps w b)
  | "logt" => do let base ← pFloat; let inner ← pDExpr; let b ← pBox; pure (.logT base inner b)
  | _ => failure

end HmcVerif
