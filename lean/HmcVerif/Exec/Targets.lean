import HmcVerif.Model.Integrator
import HmcVerif.Model.Dist
import HmcVerif.Model.Mass
import HmcVerif.Exec.Proto
/-
  Float targets / mass matrices / boxes used by the executable model, and their parsers.
-/
namespace HmcVerif

def finf : Float := 1.0 / 0.0
def fnan : Float := 0.0 / 0.0
def fsign (x : Float) : Float := if x.isNaN then x else if x > 0.0 then 1.0 else if x < 0.0 then -1.0 else 0.0

/-- box; `none` = the Python attribute is `None` -/
structure Box where
  lb : Option FVec
  ub : Option FVec
deriving Inhabited

def Box.none : Box := ⟨Option.none, Option.none⟩

def Box.outside (b : Box) (x : FVec) : Bool :=
  (List.range x.size).any (fun i => Dist.outside1 (b.lb.map (·.get i)) (b.ub.map (·.get i)) (x.get i))

/-- `misfit_bounds` -/
def Box.misfitBounds (b : Box) (x : FVec) : Float := if b.outside x then finf else 0.0

def fIsOdd (k : Float) : Bool := k - 2.0 * Float.floor (k / 2.0) != 0.0
def fFinite (x : Float) : Bool := !(x.isNaN || x.isInf)

/-- `corrector` for one box: coordinate-wise `corrector1` -/
def Box.reflect (b : Box) (s : PS FVec) : PS FVec := Id.run do
  let n := s.q.size
  let mut q := s.q.a
  let mut p := s.p.a
  for i in [0:n] do
    let r := corrector1 Float.floor fIsOdd fFinite (b.lb.map (·.get i)) (b.ub.map (·.get i)) (s.q.get i) (s.p.get i)
    q := q.set! i r.1
    p := p.set! i r.2
  return ⟨⟨q⟩, ⟨p⟩⟩

inductive Target where
  | stdNormal (T : Float)
  | normalDiag (mu invc : FVec)
  | normalFull (mu : FVec) (invc : FMat)
  | laplace (mu invb : FVec)
  | himmelblau (T : Float)
  | uniform (d : Nat)
deriving Inhabited

/-- gradient(), including the `+ misfit_bounds` term where the code adds it -/
def Target.grad (t : Target) (b : Box) (x : FVec) : FVec :=
  match t with
  | .stdNormal T => ⟨#[Dist.stdNormalGrad T (x.get 0)]⟩
  | .normalDiag mu invc =>
      let mb := b.misfitBounds x
      ⟨(List.range x.size).toArray.map (fun i => Dist.normalDiagGrad (mu.get i) (invc.get i) (x.get i) + mb)⟩
  | .normalFull mu invc =>
      let mb := b.misfitBounds x
      let r := (FVec.map (fun v => -v) ⟨invc.rows.map (fun row => row.dot (mu - x))⟩)
      r.map (· + mb)
  | .laplace mu invb =>
      let mb := b.misfitBounds x
      ⟨(List.range x.size).toArray.map (fun i => mb + Dist.laplaceGrad fsign (mu.get i) (invb.get i) (x.get i))⟩
  | .himmelblau T => ⟨#[Dist.himmelblauGradX T (x.get 0) (x.get 1), Dist.himmelblauGradY T (x.get 0) (x.get 1)]⟩
  | .uniform d => FVec.const d (0.0 + b.misfitBounds x)

def Target.misfit (t : Target) (b : Box) (x : FVec) : Float :=
  match t with
  | .stdNormal T => b.misfitBounds x + Dist.stdNormalMisfit T (x.get 0)
  | .normalDiag mu invc =>
      b.misfitBounds x + 0.5 * (FVec.sum ⟨(List.range x.size).toArray.map
        (fun i => Dist.normalDiagTerm (mu.get i) (invc.get i) (x.get i))⟩) + 0.0
  | .normalFull mu invc =>
      let r := mu - x
      b.misfitBounds x + 0.5 * (r.dot (invc.mulVec r)) + 0.0
  | .laplace mu invb =>
      0.0 + b.misfitBounds x + (FVec.sum ⟨(List.range x.size).toArray.map
        (fun i => Dist.laplaceTerm Float.abs (mu.get i) (invb.get i) (x.get i))⟩)
  | .himmelblau T => b.misfitBounds x + Dist.himmelblauMisfit T (x.get 0) (x.get 1)
  | .uniform _ => b.misfitBounds x

inductive Mass where
  | unit
  | diag (inv : FVec) (sqrtd : FVec)      -- inverse_diagonal, sqrt(diagonal)
  | full (chol : FMat)                    -- lower Cholesky factor of M
deriving Inhabited

/-- the Float instance of the linear-algebra dictionary (trusted wrapper) -/
def floatLA (n : Nat) : LinAlg Float FVec FMat :=
  { one := FMat.one n, mul := FMat.mul, add := FMat.add, sub := FMat.sub, transpose := FMat.transpose,
    smul := FMat.smul, outer := FMat.outer, mulVec := FMat.mulVec, dot := FVec.dot,
    vsub := fun a b => a - b, hmul := FVec.hmul }

/-- kinetic_energy_gradient -/
def Mass.vel : Mass → FVec → FVec
  | .unit, p => unitVelocity p
  | .diag inv _, p => diagVelocity (floatLA p.size) inv p
  | .full l, p => fullVelocity l.choSolve p

/-- kinetic_energy -/
def Mass.kin : Mass → FVec → Float
  | .unit, p => unitKinetic (floatLA p.size) p
  | .diag inv _, p => diagKinetic (floatLA p.size) inv p
  | .full l, p => fullKinetic (floatLA p.size) l.choSolve p

/-- generate_momentum from a standard-normal draw `z` -/
def Mass.momentum : Mass → FVec → FVec
  | .unit, z => unitMomentum z
  | .diag _ s, z => diagMomentum (floatLA z.size) s z
  | .full l, z => fullMomentum (floatLA z.size) l z

/-- `inv(cholesky(H).T)`, `none` when the factorisation fails -/
def floatFactor (H : FMat) : Option FMat :=
  let l := H.cholesky
  if l.cholOk then some l.invLower.transpose else none

/- parsers -------------------------------------------------------------------------- -/

def pBox : P Box := do
  let lb ← pOpt pVec
  let ub ← pOpt pVec
  pure ⟨lb, ub⟩

def pTarget : P Target := do
  let k ← tok
  match k with
  | "stdnormal" => do let T ← pFloat; pure (.stdNormal T)
  | "normaldiag" => do let mu ← pVec; let ic ← pVec; pure (.normalDiag mu ic)
  | "normalfull" => do let mu ← pVec; let ic ← pMat; pure (.normalFull mu ic)
  | "laplace" => do let mu ← pVec; let ib ← pVec; pure (.laplace mu ib)
  | "himmelblau" => do let T ← pFloat; pure (.himmelblau T)
  | "uniform" => do let d ← pNat; pure (.uniform d)
  | _ => failure

def pMass : P Mass := do
  let k ← tok
  match k with
  | "unit" => pure .unit
  | "diag" => do let inv ← pVec; let s ← pVec; pure (.diag inv s)
  | "full" => do let l ← pMat; pure (.full l)
  | _ => failure

def pInteg : P Integrator := do
  let k ← tok
  match k with
  | "lf" => pure .lf
  | "3s" => pure .s3
  | "4s" => pure .s4
  | _ => failure

def pCoeffs : P (Coeffs Float) := do
  let a13 ← pFloat; let b13 ← pFloat; let a14 ← pFloat; let a24 ← pFloat; let b14 ← pFloat
  pure ⟨a13, b13, a14, a24, b14⟩

def fmtOps (ops : List (Op Float)) : String :=
  String.intercalate " " (toString ops.length :: ops.map (fun o =>
    (if o.isDrift then "D" else "K") ++ fmtHexFloat o.coeff))

end HmcVerif
