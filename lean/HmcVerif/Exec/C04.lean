import HmcVerif.Model.Metropolis
import HmcVerif.Exec.Targets
namespace HmcVerif
namespace C04

def fmtChain (s : Chain FVec Float) : String :=
  fmtVec s.model ++ " " ++ fmtHexFloat s.x ++ " " ++ toString s.accepted

/-- `hmc <integ> <coeffs> <randomize> <h> <n> <mass> <target> <box> <q0> <T> (<z> <ustep> <u>)*T`
    → after every transition: acceptance probability, state, carried misfit, counter -/
def hmc : P String := do
  let i ← pInteg; let c ← pCoeffs; let r ← pBool; let h ← pFloat; let n ← pNat
  let m ← pMass; let t ← pTarget; let b ← pBox; let q0 ← pVec; let T ← pNat
  let draws ← pRepeat T (do let z ← pVec; let us ← pFloat; let u ← pFloat; pure (z, us, u))
  pEnd
  if n == 0 then failure
  let misfit := t.misfit b
  let s0 : Chain FVec Float := ⟨q0, misfit q0, 0⟩
  let (_, outs) := draws.foldl (fun (acc : Chain FVec Float × List String) d =>
    let (s, outs) := acc
    let (z, us, u) := d
    let p0 := m.momentum z
    let propose : FVec × FVec → FVec × FVec := fun x =>
      let r' := runOps (α := Float) m.vel (t.grad b) b.reflect (schedule c i (localStep r us h) n) ⟨x.1, x.2⟩
      (r'.q, r'.p)
    let pr := propose (s.model, p0)
    let rate := acceptRate Float.exp (misfit s.model + m.kin p0) (misfit pr.1 + m.kin pr.2)
    let s' := hmcTransition Float.exp misfit m.kin propose s p0 u
    (s', outs ++ [fmtHexFloat rate ++ " " ++ fmtChain s'])) (s0, [])
  pure (String.intercalate " | " outs)

/-- `rwmh <scale> <target> <box> <q0> <T> (<z> <u>)*T` -/
def rwmh : P String := do
  let sc ← pVec; let t ← pTarget; let b ← pBox; let q0 ← pVec; let T ← pNat
  let draws ← pRepeat T (do let z ← pVec; let u ← pFloat; pure (z, u))
  pEnd
  let misfit := t.misfit b
  let s0 : Chain FVec Float := ⟨q0, misfit q0, 0⟩
  let (_, outs) := draws.foldl (fun (acc : Chain FVec Float × List String) d =>
    let (s, outs) := acc
    let rate := acceptRate Float.exp s.x (misfit (rwmhPropose (FVec.hmul sc) s.model d.1))
    let s' := rwmhStep Float.exp misfit (FVec.hmul sc) s d.1 d.2
    (s', outs ++ [fmtHexFloat rate ++ " " ++ fmtChain s'])) (s0, [])
  pure (String.intercalate " | " outs)

end C04
end HmcVerif
