/-
  Executable instantiation of the polymorphic model: `Float` scalars, `FVec` vectors.
  This file (with Exec/Proto.lean and the per-suite drivers) is the only model text that is
  not shared with the proofs; it is part of the trusted base (DESIGN.md §3).
-/
namespace HmcVerif

structure FVec where
  a : Array Float
deriving Inhabited

namespace FVec
def size (v : FVec) : Nat := v.a.size
def get (v : FVec) (i : Nat) : Float := v.a.getD i 0.0
def zip (f : Float → Float → Float) (x y : FVec) : FVec := ⟨Array.zipWith f x.a y.a⟩
def map (f : Float → Float) (x : FVec) : FVec := ⟨x.a.map f⟩
instance : Add FVec := ⟨zip (· + ·)⟩
instance : Sub FVec := ⟨zip (· - ·)⟩
instance : Neg FVec := ⟨map (fun x => -x)⟩
instance : SMul Float FVec := ⟨fun c v => map (fun x => c * x) v⟩
/-- element-wise product -/
def hmul (x y : FVec) : FVec := zip (· * ·) x y
/-- plain left-to-right summation (NumPy/BLAS may sum in another order: tolerance compare) -/
def sum (x : FVec) : Float := x.a.foldl (· + ·) 0.0
def dot (x y : FVec) : Float := (hmul x y).sum
def ofList (l : List Float) : FVec := ⟨l.toArray⟩
def const (n : Nat) (c : Float) : FVec := ⟨Array.replicate n c⟩
def anyP (f : Float → Bool) (x : FVec) : Bool := x.a.any f
def any2 (f : Float → Float → Bool) (x y : FVec) : Bool := (Array.zipWith f x.a y.a).any id
end FVec

/-- dense matrix, row major -/
structure FMat where
  rows : Array FVec
deriving Inhabited

namespace FMat
def mulVec (m : FMat) (v : FVec) : FVec := ⟨m.rows.map (fun r => r.dot v)⟩
def n (m : FMat) : Nat := m.rows.size
def get (m : FMat) (i j : Nat) : Float := (m.rows.getD i default).get j
/-- solve L y = b for lower-triangular L (forward substitution) -/
def solveLower (l : FMat) (b : FVec) : FVec := Id.run do
  let n := b.size
  let mut y : Array Float := Array.replicate n 0.0
  for i in [0:n] do
    let mut s := b.get i
    for j in [0:i] do
      s := s - l.get i j * y.getD j 0.0
    y := y.set! i (s / l.get i i)
  return ⟨y⟩
/-- solve Lᵀ x = y for lower-triangular L (back substitution) -/
def solveLowerT (l : FMat) (y : FVec) : FVec := Id.run do
  let n := y.size
  let mut x : Array Float := Array.replicate n 0.0
  for k in [0:n] do
    let i := n - 1 - k
    let mut s := y.get i
    for j in [i+1:n] do
      s := s - l.get j i * x.getD j 0.0
    x := x.set! i (s / l.get i i)
  return ⟨x⟩
/-- Cholesky factor (lower) of an SPD matrix -/
def cholesky (m : FMat) : FMat := Id.run do
  let n := m.n
  let mut l : Array (Array Float) := Array.replicate n (Array.replicate n 0.0)
  for i in [0:n] do
    for j in [0:i+1] do
      let mut s := m.get i j
      for k in [0:j] do
        s := s - (l.getD i #[]).getD k 0.0 * (l.getD j #[]).getD k 0.0
      if i == j then
        l := l.set! i ((l.getD i #[]).set! j (Float.sqrt s))
      else
        l := l.set! i ((l.getD i #[]).set! j (s / (l.getD j #[]).getD j 1.0))
  return ⟨l.map (fun r => ⟨r⟩)⟩
def choSolve (l : FMat) (b : FVec) : FVec := l.solveLowerT (l.solveLower b)
def ofFn (n : Nat) (f : Nat → Nat → Float) : FMat :=
  ⟨(List.range n).toArray.map (fun i => ⟨(List.range n).toArray.map (fun j => f i j)⟩)⟩
def one (n : Nat) : FMat := ofFn n (fun i j => if i == j then 1.0 else 0.0)
def transpose (m : FMat) : FMat := ofFn m.n (fun i j => m.get j i)
def zipM (f : Float → Float → Float) (a b : FMat) : FMat := ⟨Array.zipWith (FVec.zip f) a.rows b.rows⟩
def add (a b : FMat) : FMat := zipM (· + ·) a b
def sub (a b : FMat) : FMat := zipM (· - ·) a b
def smul (c : Float) (a : FMat) : FMat := ⟨a.rows.map (fun r => r.map (fun x => c * x))⟩
def col (m : FMat) (j : Nat) : FVec := ⟨m.rows.map (fun r => r.get j)⟩
def mul (a b : FMat) : FMat := ofFn a.n (fun i j => (a.rows.getD i default).dot (b.col j))
def outer (u v : FVec) : FMat := ⟨u.a.map (fun ui => v.map (fun vj => ui * vj))⟩
/-- does the Cholesky factor exist (all pivots positive and finite)? -/
def cholOk (l : FMat) : Bool := (List.range l.n).all (fun i => let d := l.get i i; d > 0.0 && !d.isNaN && !d.isInf)
/-- inverse of a lower-triangular matrix -/
def invLower (l : FMat) : FMat :=
  let n := l.n
  let cols := (List.range n).map (fun j => l.solveLower ⟨(List.range n).toArray.map (fun i => if i == j then 1.0 else 0.0)⟩)
  ofFn n (fun i j => (cols.getD j default).get i)
end FMat

end HmcVerif
