import HmcVerif.Model.Tempering
import HmcVerif.Exec.Targets
namespace HmcVerif
namespace C12
open Async Tempering

abbrev BV := List UInt64     -- a state vector as IEEE bit patterns (moved around, compared, looked up)

def toBV (v : FVec) : BV := v.a.toList.map Float.toBits
def ofBV (b : BV) : FVec := FVec.ofList (b.map Float.ofBits)

def emptySt (m : BV) (x : Float) : ChainSt BV Float :=
  { model := m, x := x, tmpModel := [], exX := 0.0, myImp := 0.0, otherImp := 0.0, outgoing := [], cols := [] }

/-- `exchange <M_s> <x_s> <M_m> <x_m> <U_m(M_s)> <U_s(M_m)> <u>` → swapped, new slave state, new master state.
    Slave is process 0, master process 1; the targets are given by the two evaluations the code makes. -/
def exchange : P String := do
  let ms ← pVec; let xs ← pFloat; let mm ← pVec; let xm ← pFloat; let umms ← pFloat; let usmm ← pFloat; let u ← pFloat
  pEnd
  let bs := toBV ms; let bm := toBV mm
  let misfit : Nat → BV → Float := fun i v =>
    if i == 1 && v == bs then umms else if i == 0 && v == bm then usmm
    else if i == 0 && v == bs then xs else if i == 1 && v == bm then xm else fnan
  let st0 : Nat → ChainSt BV Float := fun i => if i == 0 then emptySt bs xs else emptySt bm xm
  let st := seqRun (exchangeBlock Float.exp misfit 0 1 u) st0
  let swapped := (st 1).model == bs && !(bs == bm)
  pure (fmtBool swapped ++ " " ++ fmtVec (ofBV (st 0).model) ++ " " ++ fmtHexFloat (st 0).x ++ " "
    ++ fmtVec (ofBV (st 1).model) ++ " " ++ fmtHexFloat (st 1).x)

/-- `events <n> <P> <I> <nrows> rows…` (each row a list of chain indices) → for every chain the sequence of
    pipe events `S<j>` / `R<j>` of its program, and the number of schedule rows needed -/
def events : P String := do
  let n ← pNat; let Pn ← pNat; let I ← pNat; let nr ← pNat
  let rows ← pRepeat nr (do let k ← pNat; pRepeat k pNat)
  pEnd
  let sched : Nat → List Nat := fun r => rows.getD r []
  let G := script (V := BV) (α := Float) Float.exp (fun _ _ => 0.0) (fun _ _ s => s) (fun _ _ => 0.5) n Pn I sched
  let per := (List.range n).map (fun i =>
    String.intercalate "," ((pipeEvents (proj G i)).map (fun e => (if e.1 then "S" else "R") ++ toString e.2)))
  pure (toString (rowsNeeded Pn I) ++ " " ++ toString (canonicalSched G).length ++ " | " ++ String.intercalate " | " per)

/-- `route <n> <sharedInit?> <sharedKw?>` — which argument index chain i receives (`s` = shared, else its own index) -/
def route : P String := do
  let n ← pNat; let si ← pBool; let sk ← pBool
  pEnd
  let init : PerChain Nat := if si then .shared 1000 else .each (List.range n)
  let kw : PerChain Nat := if sk then .shared 1000 else .each (List.range n)
  let outs := (List.range n).map (fun i =>
    let a := chainArgs 9999 9999 (fun k _ => k) init kw 0 i
    toString a.1 ++ ":" ++ toString a.2)
  pure (String.intercalate " " outs)

end C12
end HmcVerif
