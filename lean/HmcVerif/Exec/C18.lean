import HmcVerif.Model.RayTrace
import HmcVerif.Exec.Proto
namespace HmcVerif
namespace C18

/-- `trace <bottoms> <velocities> <xr> <theta0 (rad)>` → status, end point, tt, length, per-layer lengths, points -/
def trace : P String := do
  let bots ← pVec; let vels ← pVec; let xr ← pFloat; let th ← pFloat
  pEnd
  let n := bots.size
  if n == 0 || vels.size != n then failure
  let bot : Nat → Float := fun k => bots.get k
  let vel : Nat → Float := fun k => vels.get k
  let r := RayTrace.trace Float.sin Float.cos Float.asin Float.sqrt n bot vel xr th
  let topLast : Float := if n ≥ 2 then bots.get (n - 2) else 0.0
  let st := match r.status with | .reached => "reached" | .exited => "exited" | .turned => "turned"
  let per := FVec.ofList ((List.range n).map (fun j => RayTrace.perLayer 0.0 r.segs j))
  let pts := r.segs.map (fun s => fmtHexFloat s.x1 ++ " " ++ fmtHexFloat s.z1 ++ " " ++ fmtHexFloat s.theta)
  pure (st ++ " " ++ fmtBool (RayTrace.reported r topLast) ++ " " ++ fmtHexFloat r.x ++ " " ++ fmtHexFloat r.z ++ " "
    ++ fmtHexFloat r.tt ++ " " ++ fmtHexFloat r.dist ++ " " ++ fmtVec per ++ " " ++ toString r.segs.length ++ " "
    ++ String.intercalate " " pts)

end C18
end HmcVerif
