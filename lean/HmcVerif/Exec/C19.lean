import HmcVerif.Model.Optimizer
import HmcVerif.Exec.Targets
namespace HmcVerif
namespace C19

def veq (a b : FVec) : Bool := a.size == b.size && (Array.zipWith (fun x y => x.toBits == y.toBits || (x == y)) a.a b.a).all id

def lookupF (tab : List (FVec × Float)) (v : FVec) : Float :=
  match tab.find? (fun e => veq e.1 v) with
  | some e => e.2
  | none => fnan
def lookupV (tab : List (FVec × FVec)) (v : FVec) : FVec :=
  match tab.find? (fun e => veq e.1 v) with
  | some e => e.2
  | none => v.map (fun _ => fnan)

/-- `gd <eps> <reg?> <strict> <iters> <m0> <nm> (<arg> <misfit>)* <ng> (<arg> <grad>)*`
    The target is a parameter: it is given as the table of evaluations the implementation made. -/
def gd : P String := do
  let eps ← pFloat; let reg ← pOpt pFloat; let strict ← pBool; let iters ← pNat; let m0 ← pVec
  let nm ← pNat
  let mt ← pRepeat nm (do let a ← pVec; let x ← pFloat; pure (a, x))
  let ng ← pNat
  let gt ← pRepeat ng (do let a ← pVec; let g ← pVec; pure (a, g))
  pEnd
  let pre : FVec → FVec := match reg with
    | none => id
    | some r => fun g => g.map (precond1 r)
  let res := gradientDescent (lookupF mt) (lookupV gt) pre (fun x => x.isNaN || x.isInf) strict eps m0 iters
  pure (fmtVec res.m ++ " " ++ fmtHexFloat res.x ++ " " ++ toString res.hist.length ++ " " ++
    String.intercalate " " (res.hist.map (fun e => fmtVec e.1 ++ " " ++ fmtHexFloat e.2)))

end C19
end HmcVerif
