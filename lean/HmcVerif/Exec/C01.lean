import HmcVerif.Exec.Targets
namespace HmcVerif
namespace C01

/-- `sched <integ> <coeffs> <randomize> <u> <h> <n>` → op list -/
def sched : P String := do
  let i ← pInteg; let c ← pCoeffs; let r ← pBool; let u ← pFloat; let h ← pFloat; let n ← pNat
  pEnd
  if n == 0 then failure
  pure (fmtOps (schedule c i (localStep r u h) n))

/-- `state <integ> <coeffs> <randomize> <u> <h> <n> <mass> <target> <box> <q> <p>` → proposal -/
def state : P String := do
  let i ← pInteg; let c ← pCoeffs; let r ← pBool; let u ← pFloat; let h ← pFloat; let n ← pNat
  let m ← pMass; let t ← pTarget; let b ← pBox; let q ← pVec; let p ← pVec
  pEnd
  if n == 0 then failure
  let s := runOps (α := Float) m.vel (t.grad b) b.reflect (schedule c i (localStep r u h) n) ⟨q, p⟩
  pure (fmtVec s.q ++ " " ++ fmtVec s.p)

/-- `reflect <box> <q> <p>` → corrected (q, p) -/
def reflect : P String := do
  let b ← pBox; let q ← pVec; let p ← pVec
  pEnd
  let s := b.reflect ⟨q, p⟩
  pure (fmtVec s.q ++ " " ++ fmtVec s.p)

end C01
end HmcVerif
