import HmcVerif.Model.Metropolis
import HmcVerif.Exec.Targets
namespace HmcVerif
namespace C02

def fmtChain (s : Chain FVec Float) : String :=
  fmtVec s.model ++ " " ++ fmtHexFloat s.x ++ " " ++ toString s.accepted

/-- `rwmh <model> <x> <accepted> <scale> <z> <u> <propX>` → proposal, rate, new chain state.
    The target's misfit at the proposal is an input (the target is a parameter of the model). -/
def rwmh : P String := do
  let m ← pVec; let x ← pFloat; let acc ← pNat; let sc ← pVec; let z ← pVec; let u ← pFloat; let px ← pFloat
  pEnd
  let s : Chain FVec Float := ⟨m, x, acc⟩
  let prop := rwmhPropose (FVec.hmul sc) m z
  let s' := rwmhStep Float.exp (fun _ => px) (FVec.hmul sc) s z u
  pure (fmtVec prop ++ " " ++ fmtHexFloat (acceptRate Float.exp x px) ++ " " ++ fmtChain s')

/-- `hmc <model> <x> <accepted> <q1> <u> <curX> <curK> <propX> <propK>` -/
def hmc : P String := do
  let m ← pVec; let x ← pFloat; let acc ← pNat; let q1 ← pVec; let u ← pFloat
  let cx ← pFloat; let ck ← pFloat; let px ← pFloat; let pk ← pFloat
  pEnd
  let s : Chain FVec Float := ⟨m, x, acc⟩
  -- misfit/kinetic are parameters: the model is handed the values they returned
  let misfit : Bool → Float := fun isProp => if isProp then px else cx
  let s' := metropolis Float.exp { s with x := misfit false } q1 (misfit true) u (cx + ck) (px + pk)
  pure (fmtHexFloat (acceptRate Float.exp (cx + ck) (px + pk)) ++ " " ++ fmtChain s')

/-- `accept <u> <eCur> <eProp>` -/
def acc : P String := do
  let u ← pFloat; let a ← pFloat; let b ← pFloat
  pEnd
  pure (fmtBool (accept Float.exp u a b) ++ " " ++ fmtHexFloat (acceptRate Float.exp a b))

/-- `autotune <i> <lr> <target> <minstep> <acc> <step>` → new step -/
def autotune : P String := do
  let i ← pNat; let lr ← pFloat; let tg ← pFloat; let ms ← pFloat; let a ← pFloat; let st ← pFloat
  pEnd
  let w := Float.pow (Float.ofNat (i + 1)) (-lr)
  pure (fmtHexFloat (autotuneStep Float.isNaN w tg ms a st) ++ " " ++ fmtHexFloat w)

/-- `tunerun <lr> <target> <minstep> <step0> <accs>` → recorded steps, final step -/
def tunerun : P String := do
  let lr ← pFloat; let tg ← pFloat; let ms ← pFloat; let st ← pFloat; let accs ← pVec
  pEnd
  let weight : Nat → Float := fun i => Float.pow (Float.ofNat (i + 1)) (-lr)
  let t := tuneRun Float.isNaN weight tg ms ⟨st, [], []⟩ 0 accs.a.toList
  pure (fmtVec (FVec.ofList t.steps) ++ " " ++ fmtHexFloat t.step)

/-- `lrok <lr>` -/
def lrok : P String := do
  let lr ← pFloat
  pEnd
  pure (fmtBool (learningRateOk lr))

end C02
end HmcVerif
