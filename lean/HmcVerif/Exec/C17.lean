import HmcVerif.Model.SourceLoc
import HmcVerif.Exec.Targets
namespace HmcVerif
namespace C17

def sumFin (n : Nat) (f : Fin n → Float) : Float := (List.finRange n).foldl (fun acc i => acc + f i) 0.0

/-- `eval <nc> <ne> <ns> <rcv: ns vecs> <obs: ne vecs (NaN = missing)> <sigma: ne vecs> <infer> <vfixed> <m>`
    → misfit, gradient (flat layout), predicted arrival times (ne vecs) -/
def eval : P String := do
  let nc ← pNat; let ne ← pNat; let ns ← pNat
  let rcvL ← pRepeat ns pVec
  let obsL ← pRepeat ne pVec
  let sigL ← pRepeat ne pVec
  let infer ← pBool; let vfix ← pFloat; let m ← pVec
  pEnd
  let rcv : Fin ns → Fin nc → Float := fun s c => (rcvL.getD s.val default).get c.val
  let obs : Fin ne → Fin ns → Option Float := fun e s =>
    let o := (obsL.getD e.val default).get s.val
    if o.isNaN then none else some o
  let sig : Fin ne → Fin ns → Float := fun e s => (sigL.getD e.val default).get s.val
  let src : Fin ne → Fin nc → Float := fun e c => m.get (SourceLoc.coordIndex nc e.val c.val)
  let T : Fin ne → Float := fun e => m.get (SourceLoc.timeIndex nc e.val)
  let v : Float := if infer then m.get (SourceLoc.velIndex nc ne) else vfix
  let sC := sumFin nc; let sS := sumFin ns; let sE := sumFin ne
  let mis := SourceLoc.misfit Float.sqrt sC sS sE rcv obs sig src T v
  let n := ne * (nc + 1) + (if infer then 1 else 0)
  let g : Array Float := Id.run do
    let mut g : Array Float := Array.replicate n 0.0
    for e in List.finRange ne do
      for c in List.finRange nc do
        g := g.set! (SourceLoc.coordIndex nc e.val c.val) (SourceLoc.gradCoord Float.sqrt sC sS rcv obs sig src T v e c)
      g := g.set! (SourceLoc.timeIndex nc e.val) (SourceLoc.gradTime Float.sqrt sC sS rcv obs sig src T v e)
    if infer then
      g := g.set! (SourceLoc.velIndex nc ne) (SourceLoc.gradVel Float.sqrt sC sS sE rcv obs sig src T v)
    return g
  let fw := (List.finRange ne).map (fun e => FVec.ofList ((List.finRange ns).map (fun s =>
    SourceLoc.arrival Float.sqrt sC (src e) (rcv s) (T e) v)))
  pure (fmtHexFloat mis ++ " " ++ fmtVec ⟨g⟩ ++ " " ++ String.intercalate " " (fw.map fmtVec))

/-- `orient <ne> <ns> <rows> <cols>` → how a rows × cols array of picks is read -/
def orient : P String := do
  let ne ← pNat; let ns ← pNat; let rows ← pNat; let cols ← pNat
  pEnd
  pure (match SourceLoc.orientation ne ns rows cols with
    | .asGiven => "as-given" | .transposed => "transposed" | .refused => "refused")

end C17
end HmcVerif
