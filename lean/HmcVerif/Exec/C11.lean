import HmcVerif.Model.Consent
import HmcVerif.Exec.Proto
namespace HmcVerif
namespace C11
open Consent

def pOp : P Op := do
  let t ← tok
  match t with
  | "Sv0" => pure (.sample .valid false)
  | "Sv1" => pure (.sample .valid true)
  | "Sb0" => pure (.sample .beforeOpen false)
  | "Sb1" => pure (.sample .beforeOpen true)
  | "Sa0" => pure (.sample .afterOpen false)
  | "Sa1" => pure (.sample .afterOpen true)
  | "W0" => pure (.openWrite false)
  | "W1" => pure (.openWrite true)
  | "C" => pure .copyObj
  | "D" => pure .deepcopyObj
  | "P" => pure .pickleObj
  | "L" => pure .loadResults
  | "M0" => pure (.parallelStart false)
  | "M1" => pure (.parallelStart true)
  | _ => failure

def fmtOpt : Option Nat → String
  | none => "-"
  | some n => toString n

/-- `run <npy> <fileExists> <sidecarExists> <nops> ops…` → per op: result, file id, sidecar id, handles -/
def run : P String := do
  let npy ← pBool; let fe ← pBool; let se ← pBool; let n ← pNat
  let ops ← pRepeat n pOp
  pEnd
  let w0 : World := { file := if fe then some 0 else none, sidecar := if se then some 1 else none, handles := 0, fresh := 2 }
  let (_, outs) := ops.foldl (fun (acc : World × List String) o =>
    let (w', r) := step npy acc.1 o
    let rs := match r with | .ok => "ok" | .fileExists => "exists" | .rejected => "rejected"
    (w', acc.2 ++ [rs ++ " " ++ fmtOpt w'.file ++ " " ++ fmtOpt w'.sidecar ++ " " ++ toString w'.handles])) (w0, [])
  pure (String.intercalate " | " outs)

/-- `runat <npy> <nops> (<path> <op>)…` → per op: result, then file id and sidecar id of paths 0 and 1.
    Initially path 0 holds a finished run, path 1 does not exist. -/
def runat : P String := do
  let npy ← pBool; let n ← pNat
  let ops ← pRepeat n (do let p ← pNat; let o ← pOp; pure (p, o))
  pEnd
  let w0 : World := { file := some 0, sidecar := if npy then some 1 else none, handles := 0, fresh := 2 }
  let w1 : World := { file := none, sidecar := none, handles := 0, fresh := 100 }
  let d0 : Disk := fun q => if q = 0 then w0 else w1
  let (_, outs) := ops.foldl (fun (acc : Disk × List String) po =>
    let (d', r) := stepAt npy acc.1 po
    let rs := match r with | .ok => "ok" | .fileExists => "exists" | .rejected => "rejected"
    (d', acc.2 ++ [rs ++ " " ++ fmtOpt (d' 0).file ++ " " ++ fmtOpt (d' 0).sidecar ++ " " ++ fmtOpt (d' 1).file ++ " " ++ fmtOpt (d' 1).sidecar])) (d0, [])
  pure (String.intercalate " | " outs)

def pWOp : P WOp := do
  let t ← tok
  match t with
  | "a" => do let c ← pNat; pure (.append c)
  | "f" => pure .flush
  | "x" => pure .close
  | "c" => pure .copy
  | "k" => pure .closeCopy
  | _ => failure

/-- `writer <nops> ops…` → per op: closed flag, columns on disk, columns on disk or pending -/
def writer : P String := do
  let n ← pNat
  let ops ← pRepeat n pWOp
  pEnd
  let w0 : Writer := { file := [], buf := [], closed := false, copies := 0 }
  let (_, outs) := ops.foldl (fun (acc : Writer × List String) o =>
    let w' := wstep acc.1 o
    (w', acc.2 ++ [(if w'.closed then "1" else "0") ++ " " ++ toString w'.file.length ++ " " ++ String.intercalate "," (w'.content.map toString)])) (w0, [])
  pure (String.intercalate " | " outs)

end C11
end HmcVerif
