import HmcVerif.Model.Consent
import HmcVerif.Exec.Proto
namespace HmcVerif
namespace C11
open Consent

def pOp : P Op := do
  let t ← tok
  match t with
  | "Sv0" => pure (.sample .valid false)
  | "Sv1" => pure (.sample .valid true)
  | "Sb0" => pure (.sample .beforeOpen false)
  | "Sb1" => pure (.sample .beforeOpen true)
  | "Sa0" => pure (.sample .afterOpen false)
  | "Sa1" => pure (.sample .afterOpen true)
  | "W0" => pure (.openWrite false)
  | "W1" => pure (.openWrite true)
  | "C" => pure .copyObj
  | "D" => pure .deepcopyObj
  | "P" => pure .pickleObj
  | "L" => pure .loadResults
  | _ => failure

def fmtOpt : Option Nat → String
  | none => "-"
  | some n => toString n

/-- `run <npy> <fileExists> <sidecarExists> <nops> ops…` → per op: result, file id, sidecar id, handles -/
def run : P String := do
  let npy ← pBool; let fe ← pBool; let se ← pBool; let n ← pNat
  let ops ← pRepeat n pOp
  pEnd
  let w0 : World := { file := if fe then some 0 else none, sidecar := if se then some 1 else none, handles := 0, fresh := 2 }
  let (_, outs) := ops.foldl (fun (acc : World × List String) o =>
    let (w', r) := step npy acc.1 o
    let rs := match r with | .ok => "ok" | .fileExists => "exists" | .rejected => "rejected"
    (w', acc.2 ++ [rs ++ " " ++ fmtOpt w'.file ++ " " ++ fmtOpt w'.sidecar ++ " " ++ toString w'.handles])) (w0, [])
  pure (String.intercalate " | " outs)

end C11
end HmcVerif
