import HmcVerif.Exec.Targets
namespace HmcVerif
namespace C03

def fmtMat (m : FMat) : String :=
  String.intercalate " " (toString m.n :: m.rows.toList.map fmtVec)

/-- `mass <mass> <z> <p>` → generate_momentum(z), kinetic_energy(p), kinetic_energy_gradient(p) -/
def mass : P String := do
  let m ← pMass; let z ← pVec; let p ← pVec
  pEnd
  pure (fmtVec (m.momentum z) ++ " " ++ fmtHexFloat (m.kin p) ++ " " ++ fmtVec (m.vel p))

inductive Op where
  | update (m g : FVec) | accept | reject
  | queued (m g : FVec)       -- `update(m, g)`: queued until the next accept
  | refused (m g : FVec)      -- an update whose factorisation the library refused (LinAlgError): the verdict of the library call is an input
  | observe (z p : FVec)      -- generate_momentum(z), kinetic_energy(p), kinetic_energy_gradient(p)

def pOp : P Op := do
  let k ← tok
  match k with
  | "U" => do let m ← pVec; let g ← pVec; pure (.update m g)
  | "X" => do let m ← pVec; let g ← pVec; pure (.refused m g)
  | "Q" => do let m ← pVec; let g ← pVec; pure (.queued m g)
  | "A" => pure .accept
  | "R" => pure .reject
  | "O" => do let z ← pVec; let p ← pVec; pure (.observe z p)
  | _ => failure

/-- `bfgs <Minv0> <m0> <g0> <nops> ops…` → after every op: `Minv`, `F` ; for observe ops the three
    public values -/
def bfgs : P String := do
  let minv ← pMat; let m0 ← pVec; let g0 ← pVec; let n ← pNat
  let ops ← pRepeat n pOp
  pEnd
  let la := floatLA m0.size
  match floatFactor minv with
  | none => failure
  | some f0 =>
    let st0 : BFGS FVec FMat × List (FVec × FVec) := (bfgsInit minv f0 m0 g0, [])
    let show_ := fun (st : BFGS FVec FMat) => fmtMat st.Minv ++ " " ++ fmtMat st.F
    let (_, outs) := ops.foldl (fun (acc : (BFGS FVec FMat × List (FVec × FVec)) × List String) op =>
      let (s, outs) := acc
      match op with
      | .update m g => let s' := bfgsQStep la floatFactor s (.direct m g); (s', outs ++ [show_ s'.1])
      | .queued m g => let s' := bfgsQStep la floatFactor s (.queued m g); (s', outs ++ [show_ s'.1])
      | .refused m g => let s' := bfgsQStep la (fun _ => none) s (.direct m g); (s', outs ++ [show_ s'.1])
      | .accept => let s' := bfgsQStep la floatFactor s .accept; (s', outs ++ [show_ s'.1])
      | .reject => let s' := bfgsQStep la floatFactor s .reject; (s', outs ++ [show_ s'.1])
      | .observe z p => (s, outs ++ [fmtVec (bfgsMomentum la s.1 z) ++ " " ++ fmtHexFloat (bfgsKinetic la s.1 p) ++ " " ++ fmtVec (bfgsVelocity la s.1 p)]))
      (st0, [])
    pure (String.intercalate " | " outs)

end C03
end HmcVerif
