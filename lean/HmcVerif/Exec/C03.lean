import HmcVerif.Exec.Targets
namespace HmcVerif
namespace C03

def fmtMat (m : FMat) : String :=
  String.intercalate " " (toString m.n :: m.rows.toList.map fmtVec)

/-- `mass <mass> <z> <p>` → generate_momentum(z), kinetic_energy(p), kinetic_energy_gradient(p) -/
def mass : P String := do
  let m ← pMass; let z ← pVec; let p ← pVec
  pEnd
  pure (fmtVec (m.momentum z) ++ " " ++ fmtHexFloat (m.kin p) ++ " " ++ fmtVec (m.vel p))

inductive Op where
  | update (m g : FVec) | accept | reject
  | refused (m g : FVec)      -- an update whose factorisation the library refused (LinAlgError): the verdict of the library call is an input
  | observe (z p : FVec)      -- generate_momentum(z), kinetic_energy(p), kinetic_energy_gradient(p)

def pOp : P Op := do
  let k ← tok
  match k with
  | "U" => do let m ← pVec; let g ← pVec; pure (.update m g)
  | "X" => do let m ← pVec; let g ← pVec; pure (.refused m g)
  | "A" => pure .accept
  | "R" => pure .reject
  | "O" => do let z ← pVec; let p ← pVec; pure (.observe z p)
  | _ => failure

/-- `bfgs <Minv0> <m0> <g0> <nops> ops…` → after every op: `Minv`, `F` ; for observe ops the three
    public values -/
def bfgs : P String := do
  let minv ← pMat; let m0 ← pVec; let g0 ← pVec; let n ← pNat
  let ops ← pRepeat n pOp
  pEnd
  let la := floatLA m0.size
  match floatFactor minv with
  | none => failure
  | some f0 =>
    let st0 : BFGS FVec FMat := bfgsInit minv f0 m0 g0
    let (_, outs) := ops.foldl (fun (acc : BFGS FVec FMat × List String) op =>
      let (st, outs) := acc
      match op with
      | .update m g => let st' := bfgsStep la floatFactor st (.update m g); (st', outs ++ [fmtMat st'.Minv ++ " " ++ fmtMat st'.F])
      | .refused m g => let st' := bfgsStep la (fun _ => none) st (.update m g); (st', outs ++ [fmtMat st'.Minv ++ " " ++ fmtMat st'.F])
      | .accept => let st' := bfgsStep la floatFactor st .accept; (st', outs ++ [fmtMat st'.Minv ++ " " ++ fmtMat st'.F])
      | .reject => let st' := bfgsStep la floatFactor st .reject; (st', outs ++ [fmtMat st'.Minv ++ " " ++ fmtMat st'.F])
      | .observe z p => (st, outs ++ [fmtVec (bfgsMomentum la st z) ++ " " ++ fmtHexFloat (bfgsKinetic la st p) ++ " " ++ fmtVec (bfgsVelocity la st p)]))
      (st0, [])
    pure (String.intercalate " | " outs)

end C03
end HmcVerif
