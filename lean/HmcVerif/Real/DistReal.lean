import HmcVerif.Model.Dist
import HmcVerif.Model.DistAlg
import HmcVerif.Real.Lit
import Mathlib.Data.Matrix.Mul
import Mathlib.Analysis.SpecialFunctions.Log.Basic
import Mathlib.Analysis.SpecialFunctions.Exp
import Mathlib.Data.Real.Sign
/-
  Vector-level misfits and gradients over ℝ, assembled from the scalar-level model definitions
  (Model/Dist.lean, Model/DistAlg.lean) by Finset sums — the real-number counterpart of the
  Float wrappers in Exec/Dists.lean (instance dictionaries, DESIGN.md §3).
-/
open Finset Matrix
namespace HmcVerif
namespace DistReal
variable {ι : Type} [Fintype ι]

/-- sign as a real number -/
noncomputable def sgn (s : ℝ) : ℝ := (SignType.sign s : ℝ)

/-- StandardNormal1D (unbounded part) -/
noncomputable def stdNormalM (T : ℝ) (x : Fin 1 → ℝ) : ℝ := Dist.stdNormalMisfit T (x 0)
noncomputable def stdNormalG (T : ℝ) (x : Fin 1 → ℝ) : Fin 1 → ℝ := fun _ => Dist.stdNormalGrad T (x 0)

/-- Normal with diagonal (or scalar) covariance; `c` = normalisation constant -/
noncomputable def normalDiagM (mu invc : ι → ℝ) (c : ℝ) (x : ι → ℝ) : ℝ :=
  0.5 * (∑ i, Dist.normalDiagTerm (mu i) (invc i) (x i)) + c
noncomputable def normalDiagG (mu invc : ι → ℝ) (x : ι → ℝ) : ι → ℝ :=
  fun i => Dist.normalDiagGrad (mu i) (invc i) (x i)

/-- Normal with full inverse covariance `A` -/
noncomputable def normalFullM (mu : ι → ℝ) (A : Matrix ι ι ℝ) (c : ℝ) (x : ι → ℝ) : ℝ :=
  0.5 * ((mu - x) ⬝ᵥ (A *ᵥ (mu - x))) + c
noncomputable def normalFullG (mu : ι → ℝ) (A : Matrix ι ι ℝ) (x : ι → ℝ) : ι → ℝ := -(A *ᵥ (mu - x))

/-- Laplace -/
noncomputable def laplaceM (mu invb : ι → ℝ) (c : ℝ) (x : ι → ℝ) : ℝ :=
  c + ∑ i, Dist.laplaceTerm (fun s => |s|) (mu i) (invb i) (x i)
noncomputable def laplaceG (mu invb : ι → ℝ) (x : ι → ℝ) : ι → ℝ :=
  fun i => Dist.laplaceGrad sgn (mu i) (invb i) (x i)

/-- Himmelblau -/
noncomputable def himmelblauM (T : ℝ) (x : Fin 2 → ℝ) : ℝ := Dist.himmelblauMisfit T (x 0) (x 1)
noncomputable def himmelblauG (T : ℝ) (x : Fin 2 → ℝ) : Fin 2 → ℝ :=
  ![Dist.himmelblauGradX T (x 0) (x 1), Dist.himmelblauGradY T (x 0) (x 1)]

/-- `misfit_bounds` over ℝ (as an extended real it is +∞ outside; inside it contributes 0) -/
def inBox (lb ub : ι → Option ℝ) (x : ι → ℝ) : Prop := ∀ i, Dist.outside1 (lb i) (ub i) (x i) = false

/-- strictly inside every finite bound -/
def strictlyInBox (lb ub : ι → Option ℝ) (x : ι → ℝ) : Prop :=
  ∀ i, (∀ l, lb i = some l → l < x i) ∧ (∀ u, ub i = some u → x i < u)

end DistReal
end HmcVerif
