import HmcVerif.Model.BoxTree
import Mathlib.Data.Real.Basic
import Mathlib.Tactic.Linarith
import Mathlib.Order.Lattice
import Mathlib.Tactic.Tauto
/-
  Bounds of nested distributions over ℝ: the per-coordinate bounds in force (`BoxTree.ebox`) describe
  exactly the intersection of all boxes at all depths (`ebox_support`).
-/
set_option linter.unusedSectionVars false
namespace HmcVerif
namespace BoxTree

def inside1 (b : B1 ℝ) (x : ℝ) : Prop := (∀ l, b.1 = some l → l ≤ x) ∧ (∀ u, b.2 = some u → x ≤ u)

private theorem ite_max (x y : ℝ) : (if x < y then y else x) = max x y := by
  by_cases h : x < y
  · rw [if_pos h, max_eq_right h.le]
  · rw [if_neg h, max_eq_left (not_lt.mp h)]
private theorem ite_min (x y : ℝ) : (if y < x then y else x) = min x y := by
  by_cases h : y < x
  · rw [if_pos h, min_eq_right h.le]
  · rw [if_neg h, min_eq_left (not_lt.mp h)]

/-- the collapsed bounds of one coordinate admit exactly the points both admit -/
theorem inside1_meet (a b : B1 ℝ) (x : ℝ) : inside1 (meet a b) x ↔ inside1 a x ∧ inside1 b x := by
  obtain ⟨al, au⟩ := a
  obtain ⟨bl, bu⟩ := b
  unfold inside1 meet
  cases al <;> cases bl <;> cases au <;> cases bu <;> simp [optMax, optMin, ite_max, ite_min] <;> tauto

mutual
/-- the support as the parts define it: every box at every depth is respected -/
def support : E ℝ → (Nat → ℝ) → Prop
  | .leaf d b, x => ∀ i, i < d → inside1 (b i) (x i)
  | .additive d own parts, x => (∀ i, i < d → inside1 (own i) (x i)) ∧ supportAll parts x
  | .composite own parts, x => (∀ i, i < dims parts → inside1 (own i) (x i)) ∧ supportBlocks parts x
def supportAll : List (E ℝ) → (Nat → ℝ) → Prop
  | [], _ => True
  | p :: ps, x => support p x ∧ supportAll ps x
def supportBlocks : List (E ℝ) → (Nat → ℝ) → Prop
  | [], _ => True
  | p :: ps, x => support p x ∧ supportBlocks ps (fun i => x (i + dim p))
end

mutual
/-- dimensions are consistent: the parts of an additive node have the node's dimension -/
def WellDim : E ℝ → Prop
  | .leaf _ _ => True
  | .additive d _ parts => wellAll d parts
  | .composite _ parts => wellBlocks parts
def wellAll : Nat → List (E ℝ) → Prop
  | _, [] => True
  | d, p :: ps => dim p = d ∧ WellDim p ∧ wellAll d ps
def wellBlocks : List (E ℝ) → Prop
  | [] => True
  | p :: ps => WellDim p ∧ wellBlocks ps
end

def insideUpTo (n : Nat) (b : Nat → B1 ℝ) (x : Nat → ℝ) : Prop := ∀ i, i < n → inside1 (b i) (x i)

mutual
/-- **bounds in force = intersection of all bounds, at every nesting depth**: a point satisfies the
    collapsed per-coordinate bounds of an expression iff it lies in every box of every part, however
    BayesRule and Composite nodes are nested -/
theorem ebox_support : ∀ (e : E ℝ) (x : Nat → ℝ), WellDim e → (insideUpTo (dim e) (ebox e) x ↔ support e x)
  | .leaf d b, x, _ => by simp [insideUpTo, dim, ebox, support]
  | .additive d own parts, x, h => by
      have := eboxAll_support parts d x h (fun i => own i)
      simp only [dim, support]
      unfold insideUpTo
      simp only [ebox]
      exact this
  | .composite own parts, x, h => by
      have := eboxBlock_support parts x h
      simp only [dim, support]
      unfold insideUpTo
      simp only [ebox, inside1_meet]
      constructor
      · intro hh
        exact ⟨fun i hi => (hh i hi).1, this.mp (fun i hi => (hh i hi).2)⟩
      · rintro ⟨h1, h2⟩ i hi
        exact ⟨h1 i hi, this.mpr h2 i hi⟩
theorem eboxAll_support : ∀ (ps : List (E ℝ)) (d : Nat) (x : Nat → ℝ), wellAll d ps → ∀ acc : Nat → B1 ℝ,
    ((∀ i, i < d → inside1 (eboxAll ps i (acc i)) (x i)) ↔ (∀ i, i < d → inside1 (acc i) (x i)) ∧ supportAll ps x)
  | [], d, x, _, acc => by simp [eboxAll, supportAll]
  | p :: ps, d, x, h, acc => by
      obtain ⟨hd, hp, hps⟩ := h
      have ih := eboxAll_support ps d x hps (fun i => meet (acc i) (ebox p i))
      have ip := ebox_support p x hp
      simp only [eboxAll, supportAll]
      rw [ih]
      simp only [inside1_meet]
      rw [← ip]
      unfold insideUpTo
      rw [hd]
      constructor
      · rintro ⟨h1, h2⟩
        exact ⟨fun i hi => (h1 i hi).1, fun i hi => (h1 i hi).2, h2⟩
      · rintro ⟨h1, h2, h3⟩
        exact ⟨fun i hi => ⟨h1 i hi, h2 i hi⟩, h3⟩
theorem eboxBlock_support : ∀ (ps : List (E ℝ)) (x : Nat → ℝ), wellBlocks ps →
    ((∀ i, i < dims ps → inside1 (eboxBlock ps i) (x i)) ↔ supportBlocks ps x)
  | [], x, _ => by simp [dims, supportBlocks]
  | p :: ps, x, h => by
      obtain ⟨hp, hps⟩ := h
      have ih := eboxBlock_support ps (fun i => x (i + dim p)) hps
      have ip := ebox_support p x hp
      simp only [dims, supportBlocks]
      rw [← ip, ← ih]
      unfold insideUpTo
      constructor
      · intro hh
        refine ⟨fun i hi => ?_, fun i hi => ?_⟩
        · have := hh i (by omega)
          simpa [eboxBlock, hi] using this
        · have := hh (i + dim p) (by omega)
          simpa [eboxBlock] using this
      · rintro ⟨h1, h2⟩ i hi
        by_cases c : i < dim p
        · simpa [eboxBlock, c] using h1 i c
        · have := h2 (i - dim p) (by omega)
          have e : i - dim p + dim p = i := by omega
          simp only [e] at this
          simpa [eboxBlock, c] using this
end

/-- non-vacuity: BayesRule([Composite([Uniform(0,1), unbounded]), unbounded]) - the posterior inherits the
    prior's bound on coordinate 0 from two levels down -/
def priorOverLikelihood : E ℝ :=
  .additive 2 (fun _ => (none, none))
    [.composite (fun _ => (none, none)) [.leaf 1 (fun _ => (some 0, some 1)), .leaf 1 (fun _ => (none, none))],
     .leaf 2 (fun _ => (none, none))]
example : WellDim priorOverLikelihood := by simp [priorOverLikelihood, WellDim, wellAll, wellBlocks, dim, dims]
example : ebox priorOverLikelihood 0 = (some 0, some 1) ∧ ebox priorOverLikelihood 1 = (none, none) := by
  simp [priorOverLikelihood, ebox, eboxAll, eboxBlock, meet, optMax, optMin, dim]

end BoxTree
end HmcVerif
