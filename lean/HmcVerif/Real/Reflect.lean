import HmcVerif.Model.Integrator
import HmcVerif.Real.Lit
import Mathlib.Tactic.Linarith
import Mathlib.Tactic.Ring
import Mathlib.Data.Real.Basic
/-
  Real-number facts about the one-coordinate corrector `reflect1` (helper lemmas for C01/C06).
-/
set_option linter.unusedSectionVars false
set_option linter.unusedSimpArgs false
namespace HmcVerif

/-- coordinate inside the closed box -/
def inBox1 (lb ub : Option ℝ) (x : ℝ) : Prop :=
  (∀ l, lb = some l → l ≤ x) ∧ (∀ u, ub = some u → x ≤ u)
/-- coordinate strictly inside the box -/
def strictlyInBox1 (lb ub : Option ℝ) (x : ℝ) : Prop :=
  (∀ l, lb = some l → l < x) ∧ (∀ u, ub = some u → x < u)

theorem reflLow_ge (lb : Option ℝ) (s : ℝ × ℝ) (h : ∀ l, lb = some l → l ≤ s.1) : reflLow lb s = s := by
  cases lb with
  | none => rfl
  | some l => simp only [reflLow]; rw [if_neg (by have := h l rfl; linarith)]
theorem reflLow_lt (l : ℝ) (s : ℝ × ℝ) (h : s.1 < l) : reflLow (some l) s = (2 * l - s.1, -s.2) := by
  simp only [reflLow, if_pos h, lit_two]; congr 1; ring
theorem reflHigh_le (ub : Option ℝ) (s : ℝ × ℝ) (h : ∀ u, ub = some u → s.1 ≤ u) : reflHigh ub s = s := by
  cases ub with
  | none => rfl
  | some u => simp only [reflHigh]; rw [if_neg (by have := h u rfl; linarith)]
theorem reflHigh_gt (u : ℝ) (s : ℝ × ℝ) (h : u < s.1) : reflHigh (some u) s = (2 * u - s.1, -s.2) := by
  simp only [reflHigh, if_pos h, lit_two]; congr 1; ring

theorem reflLow_sq (lb : Option ℝ) (s : ℝ × ℝ) : (reflLow lb s).2 ^ 2 = s.2 ^ 2 := by
  cases lb with
  | none => rfl
  | some l => simp only [reflLow]; split_ifs <;> simp
theorem reflHigh_sq (ub : Option ℝ) (s : ℝ × ℝ) : (reflHigh ub s).2 ^ 2 = s.2 ^ 2 := by
  cases ub with
  | none => rfl
  | some l => simp only [reflHigh]; split_ifs <;> simp

/-- the corrector only ever negates the momentum: kinetic energy of a diagonal metric is conserved -/
theorem reflect1_momentum_sq (lb ub : Option ℝ) (x p : ℝ) :
    (reflect1 lb ub x p).2 ^ 2 = p ^ 2 := by
  unfold reflect1; rw [reflHigh_sq, reflLow_sq]

/-- inside the box the corrector does nothing -/
theorem reflect1_inside (lb ub : Option ℝ) (x p : ℝ) (h : inBox1 lb ub x) :
    reflect1 lb ub x p = (x, p) := by
  unfold reflect1
  rw [reflLow_ge lb _ h.1, reflHigh_le ub _ h.2]

theorem reflect1_low (l : ℝ) (ub : Option ℝ) (x p : ℝ) (h : x < l)
    (hu : ∀ u, ub = some u → 2 * l - x ≤ u) :
    reflect1 (some l) ub x p = (2 * l - x, -p) := by
  unfold reflect1
  rw [reflLow_lt l _ h, reflHigh_le ub _ hu]

theorem reflect1_high (lb : Option ℝ) (u : ℝ) (x p : ℝ) (h : u < x)
    (hl : ∀ l, lb = some l → l ≤ x) :
    reflect1 lb (some u) x p = (2 * u - x, -p) := by
  unfold reflect1
  rw [reflLow_ge lb _ hl, reflHigh_gt u _ h]

/-- one coordinate of a drift with a diagonal metric followed by the corrector -/
noncomputable def bdrift1 (lb ub : Option ℝ) (w : ℝ) (x p : ℝ) : ℝ × ℝ := reflect1 lb ub (x + w * p) p

/-- the overshoot beyond a bound is at most the width of the box (no second bounce) -/
def singleBounce1 (lb ub : Option ℝ) (y : ℝ) : Prop :=
  ∀ l u, lb = some l → ub = some u → (y < l → 2 * l - y ≤ u) ∧ (u < y → l ≤ 2 * u - y)

/-- billiard drift is reversed by momentum flip: start strictly inside, at most one bounce -/
theorem bdrift1_reversible (lb ub : Option ℝ) (w x p : ℝ)
    (hin : strictlyInBox1 lb ub x)
    (hsingle : singleBounce1 lb ub (x + w * p)) :
    bdrift1 lb ub w (bdrift1 lb ub w x p).1 (-(bdrift1 lb ub w x p).2) = (x, -p) := by
  obtain ⟨hl, hu⟩ := hin
  have hxin : inBox1 lb ub x := ⟨fun l h => le_of_lt (hl l h), fun u h => le_of_lt (hu u h)⟩
  unfold bdrift1
  generalize hy : x + w * p = y at hsingle
  by_cases c1 : ∀ l, lb = some l → l ≤ y
  · by_cases c2 : ∀ u, ub = some u → y ≤ u
    · -- no bounce
      rw [reflect1_inside lb ub y p ⟨c1, c2⟩]
      have : y + w * -p = x := by rw [← hy]; ring
      simp only [this]
      exact reflect1_inside lb ub x (-p) hxin
    · -- bounce at the upper bound
      push Not at c2
      obtain ⟨u, rfl, huy⟩ := c2
      have hx := hu u rfl
      rw [reflect1_high lb u y p huy c1]
      simp only [neg_neg]
      have e2 : 2 * u - y + w * p = 2 * u - x := by rw [← hy]; ring
      rw [e2]
      have := reflect1_high lb u (2 * u - x) p (by linarith)
        (fun l h => by have := hl l h; have := (hsingle l u h rfl).2 huy; linarith)
      rw [this]; congr 1; ring
  · -- bounce at the lower bound
    push Not at c1
    obtain ⟨l, rfl, hly⟩ := c1
    have hx := hl l rfl
    have hs2 : ∀ u, ub = some u → 2 * l - y ≤ u := fun u h => (hsingle l u rfl h).1 hly
    rw [reflect1_low l ub y p hly hs2]
    simp only [neg_neg]
    have e2 : 2 * l - y + w * p = 2 * l - x := by rw [← hy]; ring
    rw [e2]
    have := reflect1_low l ub (2 * l - x) p (by linarith)
      (fun u h => by have := hu u h; linarith)
    rw [this]; congr 1; ring
end HmcVerif
