/-
  Abstract splitting schemes: a palindromic composition of individually reversible steps is
  reversible. Core Lean only.
-/
namespace HmcVerif
namespace Split
variable {σ Op : Type} (step : σ → Op → σ) (flip : σ → σ)

/-- each elementary op is reversed by conjugation with flip -/
def StepReversible : Prop := ∀ o s, step (flip (step s o)) o = flip s

theorem run_reverse_flip (h : StepReversible step flip) (ops : List Op) (s : σ) :
    ops.reverse.foldl step (flip (ops.foldl step s)) = flip s := by
  induction ops generalizing s with
  | nil => simp
  | cons o os ih =>
    rw [List.foldl_cons, List.reverse_cons, List.foldl_append, ih]
    simp [h o s]

theorem palindrome_reversible (h : StepReversible step flip) (ops : List Op)
    (hp : ops.reverse = ops) (s : σ) :
    ops.foldl step (flip (ops.foldl step s)) = flip s := by
  have := run_reverse_flip step flip h ops s
  rwa [hp] at this

end Split
end HmcVerif

namespace HmcVerif
namespace Split
variable {σ Op : Type} (step : σ → Op → σ) (flip : σ → σ)

/-- a predicate holds at every sub-step along the forward path -/
def PathGood (Good : σ → Op → Prop) : List Op → σ → Prop
  | [], _ => True
  | o :: os, s => Good s o ∧ PathGood Good os (step s o)

/-- conditional version: reversibility of each step is only known at "good" states -/
theorem run_reverse_flip_on (Good : σ → Op → Prop)
    (h : ∀ o s, Good s o → step (flip (step s o)) o = flip s) (ops : List Op) (s : σ)
    (hg : PathGood step Good ops s) :
    ops.reverse.foldl step (flip (ops.foldl step s)) = flip s := by
  induction ops generalizing s with
  | nil => simp
  | cons o os ih =>
    rw [List.foldl_cons, List.reverse_cons, List.foldl_append, ih _ hg.2]
    simp [h o s hg.1]

theorem palindrome_reversible_on (Good : σ → Op → Prop)
    (h : ∀ o s, Good s o → step (flip (step s o)) o = flip s) (ops : List Op)
    (hp : ops.reverse = ops) (s : σ) (hg : PathGood step Good ops s) :
    ops.foldl step (flip (ops.foldl step s)) = flip s := by
  have := run_reverse_flip_on step flip Good h ops s hg
  rwa [hp] at this
end Split
end HmcVerif
