import HmcVerif.Real.Grad
import HmcVerif.Real.Calculus
import Mathlib.Analysis.Calculus.FDeriv.Linear
import Mathlib.Analysis.SpecialFunctions.Log.Deriv
import Mathlib.Tactic.FunProp
/-
  Gradients of the structured wrappers: block composition (CompositeDistribution), log-sum-exp
  (Mixture), the log-space change of variables (TransformToLogSpace) and symmetric quadratic forms
  (full-covariance Normal, LinearMatrix).
-/
open Finset Matrix
namespace HmcVerif

/-- a differentiable function whose derivative along every line is `Σ gᵢ vᵢ` has gradient `g` -/
theorem isGradAt_of_line {ι : Type} [Fintype ι] (m : (ι → ℝ) → ℝ) (g x : ι → ℝ) (hd : DifferentiableAt ℝ m x)
    (hl : ∀ v : ι → ℝ, HasDerivAt (fun t : ℝ => m (x + t • v)) (∑ i, g i * v i) 0) : IsGradAt m g x := by
  unfold IsGradAt
  have h := hd.hasFDerivAt
  have e : fderiv ℝ m x = gradL g := by
    ext v
    have hline : HasDerivAt (fun t : ℝ => x + t • v) v 0 := by
      have := ((hasDerivAt_id (0:ℝ)).smul_const v).const_add x
      simpa using this
    have h' : HasFDerivAt m (fderiv ℝ m x) (x + (0:ℝ) • v) := by
      have e0 : x + (0:ℝ) • v = x := by simp
      rw [e0]; exact h
    have h1 := h'.comp_hasDerivAt (0:ℝ) hline
    have h2 := hl v
    rw [gradL_apply]
    exact h1.unique h2
  rwa [e] at h

section quad
variable {ι : Type} [Fintype ι] [DecidableEq ι]

/-- `½ (μ − x)ᵀ A (μ − x)` with `A` symmetric has gradient `−A (μ − x)` -/
theorem isGradAt_quadForm (A : Matrix ι ι ℝ) (hA : A.IsSymm) (μ x : ι → ℝ) :
    IsGradAt (fun y => (1/2) * ((μ - y) ⬝ᵥ (A *ᵥ (μ - y)))) (-(A *ᵥ (μ - x))) x := by
  apply isGradAt_of_line
  · simp only [dotProduct, mulVec, Pi.sub_apply]
    fun_prop
  · intro v
    have := quadForm_hasDerivAt A hA μ x v
    simpa [dotProduct] using this
end quad

section composite
variable {ι₁ ι₂ : Type} [Fintype ι₁] [Fintype ι₂]

/-- restriction to the first / second block -/
def blockL : ((ι₁ ⊕ ι₂) → ℝ) →L[ℝ] (ι₁ → ℝ) := ContinuousLinearMap.pi (fun i => ContinuousLinearMap.proj (Sum.inl i))
def blockR : ((ι₁ ⊕ ι₂) → ℝ) →L[ℝ] (ι₂ → ℝ) := ContinuousLinearMap.pi (fun i => ContinuousLinearMap.proj (Sum.inr i))

/-- CompositeDistribution: misfit = sum over consecutive coordinate blocks, gradients stacked -/
theorem isGradAt_composite (m₁ : (ι₁ → ℝ) → ℝ) (m₂ : (ι₂ → ℝ) → ℝ) (g₁ : ι₁ → ℝ) (g₂ : ι₂ → ℝ)
    (x : (ι₁ ⊕ ι₂) → ℝ) (h₁ : IsGradAt m₁ g₁ (fun i => x (Sum.inl i))) (h₂ : IsGradAt m₂ g₂ (fun i => x (Sum.inr i))) :
    IsGradAt (fun y : (ι₁ ⊕ ι₂) → ℝ => m₁ (fun i => y (Sum.inl i)) + m₂ (fun i => y (Sum.inr i))) (Sum.elim g₁ g₂) x := by
  unfold IsGradAt at *
  have e₁ : HasFDerivAt (fun y : (ι₁ ⊕ ι₂) → ℝ => m₁ (fun i => y (Sum.inl i))) ((gradL g₁).comp blockL) x :=
    HasFDerivAt.comp x (f := (blockL : ((ι₁ ⊕ ι₂) → ℝ) → (ι₁ → ℝ))) h₁ blockL.hasFDerivAt
  have e₂ : HasFDerivAt (fun y : (ι₁ ⊕ ι₂) → ℝ => m₂ (fun i => y (Sum.inr i))) ((gradL g₂).comp blockR) x :=
    HasFDerivAt.comp x (f := (blockR : ((ι₁ ⊕ ι₂) → ℝ) → (ι₂ → ℝ))) h₂ blockR.hasFDerivAt
  have := e₁.add e₂
  have e : gradL (Sum.elim g₁ g₂) = (gradL g₁).comp blockL + (gradL g₂).comp blockR := by
    ext v
    simp [gradL_apply, blockL, blockR, Fintype.sum_sum_type]
  rw [e]; exact this
end composite

section mixture
variable {ι κ : Type} [Fintype ι] [Fintype κ]

/-- Mixture: `−log Σⱼ exp(cⱼ − mⱼ)` (`cⱼ = log wⱼ`) has gradient `Σⱼ pⱼ gⱼ / Σⱼ pⱼ`,
    `pⱼ = exp(cⱼ − mⱼ(x))` -/
theorem isGradAt_mixture [Nonempty κ] (c : κ → ℝ) (ms : κ → (ι → ℝ) → ℝ) (gs : κ → ι → ℝ) (x : ι → ℝ)
    (h : ∀ j, IsGradAt (ms j) (gs j) x) :
    IsGradAt (fun y => -Real.log (∑ j, Real.exp (c j - ms j y)))
      (fun i => (∑ j, Real.exp (c j - ms j x) * gs j i) / (∑ j, Real.exp (c j - ms j x))) x := by
  set S : (ι → ℝ) → ℝ := fun y => ∑ j, Real.exp (c j - ms j y) with hS
  have hpos : 0 < S x := Finset.sum_pos (fun j _ => Real.exp_pos _) Finset.univ_nonempty
  have hterm : ∀ j ∈ (univ : Finset κ), IsGradAt (fun y => Real.exp (c j - ms j y)) ((-Real.exp (c j - ms j x)) • gs j) x := by
    intro j _
    have hφ : HasDerivAt (fun s : ℝ => Real.exp (c j - s)) (-Real.exp (c j - ms j x)) (ms j x) := by
      have := ((hasDerivAt_id (ms j x)).const_sub (c j)).exp
      simpa using this
    exact (h j).scomp _ _ hφ
  have hSg := IsGradAt.sum univ _ _ hterm
  have hlog : HasDerivAt (fun s : ℝ => -Real.log s) (-(S x)⁻¹) (S x) := (Real.hasDerivAt_log hpos.ne').neg
  have := hSg.scomp _ _ hlog
  have e : (fun i => (∑ j, Real.exp (c j - ms j x) * gs j i) / (∑ j, Real.exp (c j - ms j x)))
      = (-(S x)⁻¹) • ∑ k, (-Real.exp (c k - ms k x)) • gs k := by
    funext i
    simp only [Pi.smul_apply, Finset.sum_apply, smul_eq_mul, hS]
    rw [Finset.mul_sum, div_eq_mul_inv, Finset.sum_mul]
    apply Finset.sum_congr rfl
    intro j _
    ring
  rw [e]; exact this
end mixture

section logt
variable {ι : Type} [Fintype ι]

/-- TransformToLogSpace: `m(x) = inner(log_b x) − Σᵢ log((1/xᵢ)/log b)`; at a positive point its gradient is
    `ginᵢ · (1/xᵢ)/log b + 1/xᵢ` -/
theorem isGradAt_logTransform (inner : (ι → ℝ) → ℝ) (gin : ι → ℝ) (b : ℝ) (hb : Real.log b ≠ 0) (x : ι → ℝ)
    (hx : ∀ i, 0 < x i) (hin : IsGradAt inner gin (fun i => Real.log (x i) / Real.log b)) :
    IsGradAt (fun y => inner (fun i => Real.log (y i) / Real.log b) - ∑ i, Real.log ((1 / y i) / Real.log b))
      (fun i => gin i * ((1 / x i) / Real.log b) + 1 / x i) x := by
  -- the coordinate change
  have hy : HasFDerivAt (fun y : ι → ℝ => fun i => Real.log (y i) / Real.log b)
      (ContinuousLinearMap.pi (fun i => ((1 / x i) / Real.log b) • (ContinuousLinearMap.proj i : (ι → ℝ) →L[ℝ] ℝ))) x := by
    rw [hasFDerivAt_pi]
    intro i
    have h1 : HasDerivAt (fun s : ℝ => Real.log s / Real.log b) ((1 / x i) / Real.log b) (x i) := by
      have := (Real.hasDerivAt_log (hx i).ne').div_const (Real.log b)
      simpa [one_div] using this
    exact HasDerivAt.comp_hasFDerivAt (f := fun y : ι → ℝ => y i) x h1 (hasFDerivAt_apply i x)
  have h1 : IsGradAt (fun y => inner (fun i => Real.log (y i) / Real.log b)) (fun i => gin i * ((1 / x i) / Real.log b)) x := by
    unfold IsGradAt at *
    have := HasFDerivAt.comp x hin hy
    have e : gradL (fun i => gin i * ((1 / x i) / Real.log b))
        = (gradL gin).comp (ContinuousLinearMap.pi (fun i => ((1 / x i) / Real.log b) • (ContinuousLinearMap.proj i : (ι → ℝ) →L[ℝ] ℝ))) := by
      ext v
      simp [gradL_apply, mul_assoc]
    rw [e]; exact this
  -- the log-Jacobian term is a separable sum
  have h2 : IsGradAt (fun y => ∑ i, (-Real.log ((1 / y i) / Real.log b))) (fun i => 1 / x i) x := by
    refine isGradAt_separable (fun _ s => -Real.log ((1 / s) / Real.log b)) (fun i => 1 / x i) x (fun i => ?_)
    have hxi := (hx i).ne'
    have hinner : HasDerivAt (fun s : ℝ => (1 / s) / Real.log b) ((-(1 / x i ^ 2)) / Real.log b) (x i) := by
      have := ((hasDerivAt_inv hxi).div_const (Real.log b))
      simpa [one_div] using this
    have hne : (1 / x i) / Real.log b ≠ 0 := by
      apply div_ne_zero _ hb
      exact one_div_ne_zero hxi
    have h3 : HasDerivAt (fun s : ℝ => -Real.log ((1 / s) / Real.log b))
        (-((-(1 / x i ^ 2)) / Real.log b / ((1 / x i) / Real.log b))) (x i) := (hinner.log hne).neg
    refine h3.congr_deriv ?_
    field_simp
  have := h1.add h2
  have ef : (fun y : ι → ℝ => inner (fun i => Real.log (y i) / Real.log b) - ∑ i, Real.log ((1 / y i) / Real.log b))
      = fun y => inner (fun i => Real.log (y i) / Real.log b) + ∑ i, (-Real.log ((1 / y i) / Real.log b)) := by
    funext y
    simp [Finset.sum_neg_distrib, sub_eq_add_neg]
  rw [ef]
  exact this
end logt

end HmcVerif
