import HmcVerif.Real.FoldVolume
import HmcVerif.Real.Kernel
import HmcVerif.Real.Split
/-
  One boxed coordinate (C04): every sub-step of a trajectory - boxed drift, kick - and the momentum flip
  preserve Lebesgue measure restricted to the open strip `l < q < u`; a palindromic trajectory followed by
  a flip is an involution almost everywhere; hence the Metropolis-corrected trajectory leaves every
  density on the strip invariant (`metropolis_invariant_ae`).
-/
set_option linter.unusedSectionVars false
set_option linter.unusedSimpArgs false
set_option linter.unusedVariables false
open MeasureTheory Set ENNReal
namespace HmcVerif

/-- `metropolis_invariant` with an involution that holds almost everywhere only -/
theorem metropolis_invariant_ae {X : Type*} [MeasurableSpace X] (μ : Measure X)
    (Ψ : X → X) (hΨ : MeasurePreserving Ψ μ μ) (hinv : ∀ᵐ x ∂μ, Ψ (Ψ x) = x)
    (π a : X → ℝ≥0∞) (hπ : Measurable π) (ha : Measurable a)
    (hπfin : ∀ x, π x ≠ ∞)
    (hrule : ∀ x, π x * a x = min (π x) (π (Ψ x)))
    (g : X → ℝ≥0∞) (hg : Measurable g) :
    ∫⁻ x, π x * metropolisOp Ψ a g x ∂μ = ∫⁻ x, π x * g x ∂μ := by
  set s : X → ℝ≥0∞ := fun x => min (π x) (π (Ψ x)) with hs
  have hsm : Measurable s := hπ.min (hπ.comp hΨ.measurable)
  have hsle : ∀ x, s x ≤ π x := fun x => min_le_left _ _
  have hpt : ∀ x, π x * metropolisOp Ψ a g x = s x * g (Ψ x) + (π x - s x) * g x := by
    intro x
    unfold metropolisOp
    have h1 : π x * (1 - a x) = π x - s x := by
      rw [ENNReal.mul_sub (fun _ _ => hπfin x), mul_one, hrule x]
    rw [mul_add, ← mul_assoc, ← mul_assoc, hrule x, h1]
  simp_rw [hpt]
  rw [lintegral_add_left (f := fun x => s x * g (Ψ x)) (hsm.mul (hg.comp hΨ.measurable))
    (fun x => (π x - s x) * g x)]
  have hcv : ∫⁻ x, s x * g (Ψ x) ∂μ = ∫⁻ x, s x * g x ∂μ := by
    have := hΨ.lintegral_comp (f := fun x => s x * g (Ψ x)) (hsm.mul (hg.comp hΨ.measurable))
    rw [← this]
    refine lintegral_congr_ae ?_
    filter_upwards [hinv] with x hx
    simp only [hs, hx, min_comm]
  rw [hcv, ← lintegral_add_left (f := fun x => s x * g x) (hsm.mul hg)]
  congr 1; funext x
  rw [← add_mul, add_tsub_cancel_of_le (hsle x)]

/-! ### the phase plane of one boxed coordinate -/

def flip1 (z : ℝ × ℝ) : ℝ × ℝ := (z.1, -z.2)
def kick1 (g : ℝ → ℝ) (c : ℝ) (z : ℝ × ℝ) : ℝ × ℝ := (z.1, z.2 - c * g z.1)

/-- a sub-step on one boxed coordinate; `w` is the inverse mass of the coordinate -/
noncomputable def step1 (l u w : ℝ) (g : ℝ → ℝ) (z : ℝ × ℝ) : Op ℝ → ℝ × ℝ
  | .drift c => cdriftMap l u (c * w) z
  | .kick c => kick1 g c z

noncomputable def traj1 (l u w : ℝ) (g : ℝ → ℝ) (ops : List (Op ℝ)) (z : ℝ × ℝ) : ℝ × ℝ :=
  ops.foldl (step1 l u w g) z

/-- the two walls -/
def walls (l u : ℝ) : Set (ℝ × ℝ) := {z | z.1 = l} ∪ {z | z.1 = u}

theorem walls_null (l u : ℝ) : volume (walls l u) = 0 := by
  have h : ∀ a : ℝ, volume ({z : ℝ × ℝ | z.1 = a}) = 0 := by
    intro a
    have : {z : ℝ × ℝ | z.1 = a} = ({a} : Set ℝ) ×ˢ (univ : Set ℝ) := by
      ext z; simp
    rw [this, Measure.volume_eq_prod, Measure.prod_prod]; simp
  exact measure_union_null (h l) (h u)

theorem flip1_mp : MeasurePreserving flip1 (volume : Measure (ℝ × ℝ)) volume := by
  have := volume_neg_invariant
  exact (MeasurePreserving.id (volume : Measure ℝ)).prod (Measure.measurePreserving_neg (volume : Measure ℝ))

theorem kick1_mp (g : ℝ → ℝ) (hg : Measurable g) (c : ℝ) : MeasurePreserving (kick1 g c) (volume : Measure (ℝ × ℝ)) volume := by
  have h := (MeasurePreserving.id (volume : Measure ℝ)).skew_product
      (g := fun q p => p + (-(c * g q))) (μc := (volume : Measure ℝ)) (μd := volume)
      (by fun_prop)
      (ae_of_all _ fun q => (measurePreserving_add_right volume _).map_eq)
  have e : kick1 g c = fun p : ℝ × ℝ => (id p.1, p.2 + -(c * g p.1)) := by
    funext z; simp [kick1, sub_eq_add_neg]
  rw [e]; exact h

theorem flip1_strip (l u : ℝ) : flip1 ⁻¹' openStrip l u = openStrip l u := rfl
theorem kick1_strip (l u : ℝ) (g : ℝ → ℝ) (c : ℝ) : kick1 g c ⁻¹' openStrip l u = openStrip l u := rfl

theorem flip1_mp_strip (l u : ℝ) :
    MeasurePreserving flip1 (volume.restrict (openStrip l u)) (volume.restrict (openStrip l u)) := by
  have := flip1_mp.restrict_preimage (openStrip_measurable l u)
  rwa [flip1_strip] at this

theorem kick1_mp_strip (l u : ℝ) (g : ℝ → ℝ) (hg : Measurable g) (c : ℝ) :
    MeasurePreserving (kick1 g c) (volume.restrict (openStrip l u)) (volume.restrict (openStrip l u)) := by
  have := (kick1_mp g hg c).restrict_preimage (openStrip_measurable l u)
  rwa [kick1_strip] at this

/-- the image of the open strip under a boxed drift is the open strip up to a null set -/
theorem cdrift_image_ae (l u c : ℝ) (hlu : l < u) :
    (cdriftMap l u c '' openStrip l u : Set (ℝ × ℝ)) =ᵐ[volume] openStrip l u := by
  rw [ae_eq_set]
  constructor
  · -- image minus strip: on a wall
    refine measure_mono_null ?_ (walls_null l u)
    rintro y ⟨hy, hny⟩
    have hb := cdrift_image_in_box l u c hlu hy
    simp only [openStrip, mem_ofPred_eq, not_and_or, not_lt] at hny
    rcases hny with h | h
    · left; exact le_antisymm h hb.1
    · right; exact le_antisymm hb.2 h
  · -- strip minus image: the flipped point is sent to a wall
    have hnull : volume (flip1 ⁻¹' (cdriftMap l u c ⁻¹' walls l u ∩ openStrip l u)) = 0 := by
      have hW : MeasurableSet (walls l u) :=
        (measurableSet_eq_fun measurable_fst measurable_const).union (measurableSet_eq_fun measurable_fst measurable_const)
      have h0 : volume (cdriftMap l u c ⁻¹' walls l u ∩ openStrip l u) = 0 := by
        rw [cdrift_volume l u c hlu _ hW]
        exact measure_mono_null inter_subset_left (walls_null l u)
      exact flip1_mp.quasiMeasurePreserving.preimage_null h0
    refine measure_mono_null ?_ hnull
    rintro y ⟨hy, hny⟩
    have hfy : flip1 y ∈ openStrip l u := hy
    have r := cdrift1_reversible_box l u c y.1 (-y.2) hlu hy.1 hy.2
    -- x = flip (Φ (flip y)) is a preimage of y
    set x := cdriftMap l u c (flip1 y) with hx
    have hΦ : cdriftMap l u c (flip1 x) = y := by
      have : cdriftMap l u c (flip1 x) = (y.1, - -y.2) := r
      rw [this]; ext <;> simp
    have hxbox := cdrift_image_in_box l u c hlu ⟨flip1 y, hfy, rfl⟩
    refine ⟨?_, hfy⟩
    by_contra hw
    apply hny
    refine ⟨flip1 x, ?_, hΦ⟩
    simp only [walls, mem_preimage, mem_union, mem_ofPred_eq, not_or] at hw
    exact ⟨lt_of_le_of_ne hxbox.1 (Ne.symm hw.1), lt_of_le_of_ne hxbox.2 hw.2⟩

theorem cdrift_mp_strip (l u c : ℝ) (hlu : l < u) :
    MeasurePreserving (cdriftMap l u c) (volume.restrict (openStrip l u)) (volume.restrict (openStrip l u)) := by
  refine ⟨cdriftMap_measurable l u c, ?_⟩
  rw [cdrift_map_restrict l u c hlu]
  exact Measure.restrict_congr_set (cdrift_image_ae l u c hlu)

theorem step1_mp_strip (l u w : ℝ) (hlu : l < u) (g : ℝ → ℝ) (hg : Measurable g) (o : Op ℝ) :
    MeasurePreserving (fun z => step1 l u w g z o) (volume.restrict (openStrip l u)) (volume.restrict (openStrip l u)) := by
  cases o with
  | drift c => exact cdrift_mp_strip l u (c * w) hlu
  | kick c => exact kick1_mp_strip l u g hg c

theorem traj1_mp_strip (l u w : ℝ) (hlu : l < u) (g : ℝ → ℝ) (hg : Measurable g) (ops : List (Op ℝ)) :
    MeasurePreserving (traj1 l u w g ops) (volume.restrict (openStrip l u)) (volume.restrict (openStrip l u)) := by
  induction ops with
  | nil => exact MeasurePreserving.id _
  | cons o os ih =>
    have : traj1 l u w g (o :: os) = traj1 l u w g os ∘ (fun z => step1 l u w g z o) := by
      funext z; simp [traj1]
    rw [this]
    exact ih.comp (step1_mp_strip l u w hlu g hg o)

/-- every sub-step is reversed by a momentum flip from a start strictly inside -/
theorem step1_reversible (l u w : ℝ) (hlu : l < u) (g : ℝ → ℝ) (o : Op ℝ) (z : ℝ × ℝ) (hz : z ∈ openStrip l u) :
    step1 l u w g (flip1 (step1 l u w g z o)) o = flip1 z := by
  cases o with
  | drift c => exact cdrift1_reversible_box l u (c * w) z.1 z.2 hlu hz.1 hz.2
  | kick c => simp only [step1, kick1, flip1]; ext <;> simp

/-- almost every start stays strictly inside at the beginning of every sub-step -/
theorem pathGood_ae (l u w : ℝ) (hlu : l < u) (g : ℝ → ℝ) (hg : Measurable g) (ops : List (Op ℝ)) :
    ∀ᵐ z ∂(volume.restrict (openStrip l u)),
      Split.PathGood (step1 l u w g) (fun s _ => s ∈ openStrip l u) ops z := by
  induction ops with
  | nil => exact ae_of_all _ fun _ => trivial
  | cons o os ih =>
    have h1 : ∀ᵐ z ∂(volume.restrict (openStrip l u)), z ∈ openStrip l u :=
      ae_restrict_mem (openStrip_measurable l u)
    have h2 : ∀ᵐ z ∂(volume.restrict (openStrip l u)),
        Split.PathGood (step1 l u w g) (fun s _ => s ∈ openStrip l u) os (step1 l u w g z o) :=
      (step1_mp_strip l u w hlu g hg o).quasiMeasurePreserving.ae ih
    filter_upwards [h1, h2] with z a b
    exact ⟨a, b⟩

/-- `Ψ = flip ∘ trajectory` is an involution almost everywhere on the strip (palindromic trajectories) -/
theorem psi1_involution_ae (l u w : ℝ) (hlu : l < u) (g : ℝ → ℝ) (hg : Measurable g) (ops : List (Op ℝ))
    (hp : ops.reverse = ops) :
    ∀ᵐ z ∂(volume.restrict (openStrip l u)),
      flip1 (traj1 l u w g ops (flip1 (traj1 l u w g ops z))) = z := by
  filter_upwards [pathGood_ae l u w hlu g hg ops] with z hz
  have := Split.palindrome_reversible_on (step1 l u w g) flip1 (fun s _ => s ∈ openStrip l u)
    (fun o s hs => step1_reversible l u w hlu g o s hs) ops hp z hz
  simp only [traj1]
  rw [this]; simp [flip1]

end HmcVerif
