import HmcVerif.Model.Mass
import Mathlib.Data.Matrix.Mul
import Mathlib.Data.Real.Basic
/-
  The real-number instance of the linear-algebra dictionary used by Model/Mass.lean:
  Mathlib matrices and vectors (part of the trusted instance dictionaries, DESIGN.md §3).
-/
open Matrix
namespace HmcVerif
noncomputable def realLA (ι : Type) [Fintype ι] [DecidableEq ι] : LinAlg ℝ (ι → ℝ) (Matrix ι ι ℝ) :=
  { one := 1, mul := fun a b => a * b, add := fun a b => a + b, sub := fun a b => a - b,
    transpose := Matrix.transpose, smul := fun c a => c • a, outer := fun u v => Matrix.vecMulVec u v,
    mulVec := Matrix.mulVec, dot := fun u v => u ⬝ᵥ v, vsub := fun a b => a - b, hmul := fun a b => a * b }
end HmcVerif
