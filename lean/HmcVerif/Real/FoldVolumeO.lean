import HmcVerif.Real.BoxedKernel
/-
  The one-coordinate boxed drift for every kind of box: two-sided (`FoldVolume`), one-sided (lower or upper
  bound only: a single mirror) and none.  Same statements as in `FoldVolume` / `BoxedKernel`, with the bounds
  as options: measurable, injective on the strict interior, lands in the closed box, carries Lebesgue measure
  on the strict interior to itself.
-/
set_option linter.unusedSectionVars false
set_option linter.unusedSimpArgs false
set_option linter.unusedVariables false
open MeasureTheory Set
namespace HmcVerif

noncomputable def cdriftMapO (lb ub : Option ℝ) (c : ℝ) (z : ℝ × ℝ) : ℝ × ℝ := cdrift1 lb ub c z.1 z.2

/-- positions strictly inside the (possibly one-sided or absent) box, any momentum -/
def stripO (lb ub : Option ℝ) : Set (ℝ × ℝ) := {z | strictlyInBox1 lb ub z.1}

/-- both bounds, where present, are in the right order -/
def wf1 (lb ub : Option ℝ) : Prop := ∀ l u, lb = some l → ub = some u → l < u

theorem stripO_two (l u : ℝ) : stripO (some l) (some u) = openStrip l u := by
  ext z; simp [stripO, strictlyInBox1, openStrip]

theorem stripO_measurable (lb ub : Option ℝ) : MeasurableSet (stripO lb ub) := by
  cases lb <;> cases ub <;> simp only [stripO, strictlyInBox1]
  · simp
  · rename_i u
    have : {z : ℝ × ℝ | (∀ l, (none : Option ℝ) = some l → l < z.1) ∧ ∀ u', some u = some u' → z.1 < u'} = {z | z.1 < u} := by
      ext z; simp
    rw [this]; exact measurableSet_lt measurable_fst measurable_const
  · rename_i l
    have : {z : ℝ × ℝ | (∀ l', some l = some l' → l' < z.1) ∧ ∀ u', (none : Option ℝ) = some u' → z.1 < u'} = {z | l < z.1} := by
      ext z; simp
    rw [this]; exact measurableSet_lt measurable_const measurable_fst
  · rename_i l u
    have : {z : ℝ × ℝ | (∀ l', some l = some l' → l' < z.1) ∧ ∀ u', some u = some u' → z.1 < u'} = openStrip l u := by
      ext z; simp [openStrip]
    rw [this]; exact openStrip_measurable l u

theorem cdriftMapO_measurable (lb ub : Option ℝ) (c : ℝ) : Measurable (cdriftMapO lb ub c) := by
  have hsh : Measurable (fun z : ℝ × ℝ => (z.1 + c * z.2, z.2)) := by fun_prop
  cases lb with
  | none =>
    cases ub with
    | none =>
      have : cdriftMapO none none c = fun z : ℝ × ℝ => (z.1 + c * z.2, z.2) := by funext z; rfl
      rw [this]; exact hsh
    | some u =>
      have : cdriftMapO none (some u) c = reflHigh (some u) ∘ (fun z : ℝ × ℝ => (z.1 + c * z.2, z.2)) := by funext z; rfl
      rw [this]; exact (reflHigh_measurable u).comp hsh
  | some l =>
    cases ub with
    | none =>
      have : cdriftMapO (some l) none c = reflLow (some l) ∘ (fun z : ℝ × ℝ => (z.1 + c * z.2, z.2)) := by funext z; rfl
      rw [this]; exact (reflLow_measurable l).comp hsh
    | some u => exact cdriftMap_measurable l u c

/-- the countable family of image maps of a box of any kind -/
noncomputable def pieceO (lb ub : Option ℝ) (c : ℝ) (n : ℕ) : ℝ × ℝ ≃ᵐ ℝ × ℝ :=
  match lb, ub with
  | some l, some u => pieceE l u c n
  | some l, none => if n = 0 then evenE c 0 else oddE c (2 * l)
  | none, some u => if n = 0 then evenE c 0 else oddE c (2 * u)
  | none, none => evenE c 0

theorem pieceO_mp (lb ub : Option ℝ) (c : ℝ) (n : ℕ) : MeasurePreserving (pieceO lb ub c n) volume volume := by
  cases lb <;> cases ub <;> simp only [pieceO]
  · exact evenE_mp _ _
  · split
    · exact evenE_mp _ _
    · exact oddE_mp _ _
  · split
    · exact evenE_mp _ _
    · exact oddE_mp _ _
  · exact pieceE_mp _ _ _ _

theorem cdriftMapO_is_piece (lb ub : Option ℝ) (hwf : wf1 lb ub) (c : ℝ) (z : ℝ × ℝ) :
    ∃ n, cdriftMapO lb ub c z = pieceO lb ub c n z := by
  cases lb with
  | none =>
    cases ub with
    | none => exact ⟨0, by simp [cdriftMapO, cdrift1, correctorR, corrector1, reflect1, reflLow, reflHigh, pieceO, evenE]⟩
    | some u =>
      by_cases h : u < z.1 + c * z.2
      · refine ⟨1, ?_⟩
        have := reflect1_high none u (z.1 + c * z.2) z.2 h ((fun l hl => nomatch hl))
        simp only [cdriftMapO, cdrift1, correctorR, corrector1, pieceO, one_ne_zero, if_false]
        rw [this]; simp [oddE]
      · refine ⟨0, ?_⟩
        have := reflect1_inside none (some u) (z.1 + c * z.2) z.2
          ⟨(fun l hl => nomatch hl), (by intro u' hu'; cases hu'; exact not_lt.mp h)⟩
        simp only [cdriftMapO, cdrift1, correctorR, corrector1, pieceO, if_true]
        rw [this]; simp [evenE]
  | some l =>
    cases ub with
    | none =>
      by_cases h : z.1 + c * z.2 < l
      · refine ⟨1, ?_⟩
        have := reflect1_low l none (z.1 + c * z.2) z.2 h ((fun u hu => nomatch hu))
        simp only [cdriftMapO, cdrift1, correctorR, corrector1, pieceO, one_ne_zero, if_false]
        rw [this]; simp [oddE]
      · refine ⟨0, ?_⟩
        have := reflect1_inside (some l) none (z.1 + c * z.2) z.2
          ⟨(by intro l' hl'; cases hl'; exact not_lt.mp h), (fun u' hu' => nomatch hu')⟩
        simp only [cdriftMapO, cdrift1, correctorR, corrector1, pieceO, if_true]
        rw [this]; simp [evenE]
    | some u => exact cdriftMap_is_piece l u c (hwf l u rfl rfl) z

theorem cdriftMapO_injOn (lb ub : Option ℝ) (hwf : wf1 lb ub) (c : ℝ) : Set.InjOn (cdriftMapO lb ub c) (stripO lb ub) := by
  intro z hz z' hz' h
  have r := cdrift1_reversible lb ub c z.1 z.2 hwf hz
  have r' := cdrift1_reversible lb ub c z'.1 z'.2 hwf hz'
  have h' : cdrift1 lb ub c z.1 z.2 = cdrift1 lb ub c z'.1 z'.2 := h
  rw [h', r'] at r
  have h1 := congrArg Prod.fst r
  have h2 := congrArg Prod.snd r
  simp at h1 h2
  exact Prod.ext h1.symm h2.symm

theorem cdriftO_volume (lb ub : Option ℝ) (hwf : wf1 lb ub) (c : ℝ) (A : Set (ℝ × ℝ)) (hA : MeasurableSet A) :
    volume (cdriftMapO lb ub c ⁻¹' A ∩ stripO lb ub) = volume (A ∩ cdriftMapO lb ub c '' stripO lb ub) := by
  have hm := cdriftMapO_measurable lb ub c
  refine piecewise_measure volume (cdriftMapO lb ub c) (stripO lb ub) (pieceO lb ub c) (pieceO_mp lb ub c)
    (fun n => stripO lb ub ∩ {z | cdriftMapO lb ub c z = pieceO lb ub c n z}) ?_ ?_ ?_
    (cdriftMapO_injOn lb ub hwf c) A hA
  · intro n
    exact (stripO_measurable lb ub).inter (measurableSet_eq_fun hm (pieceO lb ub c n).measurable)
  · ext z; simp only [mem_iUnion, mem_inter_iff, mem_ofPred_eq]
    constructor
    · intro hz; obtain ⟨n, hn⟩ := cdriftMapO_is_piece lb ub hwf c z; exact ⟨n, hz, hn⟩
    · rintro ⟨n, hz, _⟩; exact hz
  · intro n z hz; exact hz.2

theorem cdriftO_map_restrict (lb ub : Option ℝ) (hwf : wf1 lb ub) (c : ℝ) :
    Measure.map (cdriftMapO lb ub c) (volume.restrict (stripO lb ub))
      = volume.restrict (cdriftMapO lb ub c '' stripO lb ub) := by
  ext A hA
  rw [Measure.map_apply (cdriftMapO_measurable lb ub c) hA, Measure.restrict_apply ((cdriftMapO_measurable lb ub c) hA),
    Measure.restrict_apply hA]
  exact cdriftO_volume lb ub hwf c A hA

/-- the corrector lands in the closed box, whatever kind of box -/
theorem correctorR_inBox1 (lb ub : Option ℝ) (hwf : wf1 lb ub) (y p : ℝ) : inBox1 lb ub (correctorR lb ub y p).1 := by
  cases lb with
  | none =>
    cases ub with
    | none => exact ⟨(fun l hl => nomatch hl), (fun u hu => nomatch hu)⟩
    | some u =>
      refine ⟨(fun l hl => nomatch hl), ?_⟩
      intro u' hu'; cases hu'
      by_cases h : u < y
      · have := reflect1_high none u y p h ((fun l hl => nomatch hl))
        simp only [correctorR, corrector1]; rw [this]; simp only; linarith
      · have := reflect1_inside none (some u) y p ⟨(fun l hl => nomatch hl), (by intro u' hu'; cases hu'; exact not_lt.mp h)⟩
        simp only [correctorR, corrector1]; rw [this]; exact not_lt.mp h
  | some l =>
    cases ub with
    | none =>
      refine ⟨?_, (fun u hu => nomatch hu)⟩
      intro l' hl'; cases hl'
      by_cases h : y < l
      · have := reflect1_low l none y p h ((fun u hu => nomatch hu))
        simp only [correctorR, corrector1]; rw [this]; simp only; linarith
      · have := reflect1_inside (some l) none y p ⟨(by intro l' hl'; cases hl'; exact not_lt.mp h), (fun u' hu' => nomatch hu')⟩
        simp only [correctorR, corrector1]; rw [this]; exact not_lt.mp h
    | some u =>
      have := correctorR_in_box l u y p (hwf l u rfl rfl)
      exact ⟨(by intro l' hl'; cases hl'; exact this.1), (by intro u' hu'; cases hu'; exact this.2)⟩

/-- the walls that exist -/
def wallsO (lb ub : Option ℝ) : Set (ℝ × ℝ) := {z | lb = some z.1 ∨ ub = some z.1}

theorem line_null (a : ℝ) : volume ({z : ℝ × ℝ | z.1 = a}) = 0 := by
  have : {z : ℝ × ℝ | z.1 = a} = ({a} : Set ℝ) ×ˢ (univ : Set ℝ) := by
    ext z; simp
  rw [this, Measure.volume_eq_prod, Measure.prod_prod]; simp

theorem wallsO_null (lb ub : Option ℝ) : volume (wallsO lb ub) = 0 := by
  refine measure_mono_null (t := {z : ℝ × ℝ | z.1 = lb.getD 0} ∪ {z : ℝ × ℝ | z.1 = ub.getD 0}) ?_
    (measure_union_null (line_null _) (line_null _))
  rintro z (h | h)
  · left; simp [h]
  · right; simp [h]

theorem wallsO_measurable (lb ub : Option ℝ) : MeasurableSet (wallsO lb ub) := by
  have : wallsO lb ub = (match lb with | some l => {z : ℝ × ℝ | z.1 = l} | none => ∅) ∪
      (match ub with | some u => {z : ℝ × ℝ | z.1 = u} | none => ∅) := by
    ext z; cases lb <;> cases ub <;> simp [wallsO, eq_comm]
  rw [this]
  refine MeasurableSet.union ?_ ?_
  · cases lb
    · exact MeasurableSet.empty
    · exact measurableSet_eq_fun measurable_fst measurable_const
  · cases ub
    · exact MeasurableSet.empty
    · exact measurableSet_eq_fun measurable_fst measurable_const

theorem closed_not_strict_wall (lb ub : Option ℝ) (x : ℝ) (hin : inBox1 lb ub x) (hn : ¬ strictlyInBox1 lb ub x) :
    lb = some x ∨ ub = some x := by
  unfold strictlyInBox1 at hn
  rw [not_and_or] at hn
  rcases hn with h | h
  · push Not at h
    obtain ⟨l, hl, hle⟩ := h
    left; rw [hl]; congr 1; exact le_antisymm (hin.1 l hl) hle
  · push Not at h
    obtain ⟨u, hu, hle⟩ := h
    right; rw [hu]; congr 1; exact le_antisymm hle (hin.2 u hu)

theorem flip1_stripO (lb ub : Option ℝ) : flip1 ⁻¹' stripO lb ub = stripO lb ub := rfl

theorem cdriftO_image_ae (lb ub : Option ℝ) (hwf : wf1 lb ub) (c : ℝ) :
    (cdriftMapO lb ub c '' stripO lb ub : Set (ℝ × ℝ)) =ᵐ[volume] stripO lb ub := by
  rw [ae_eq_set]
  constructor
  · refine measure_mono_null ?_ (wallsO_null lb ub)
    rintro y ⟨⟨z, _, rfl⟩, hny⟩
    exact closed_not_strict_wall lb ub _ (correctorR_inBox1 lb ub hwf _ _) hny
  · have hnull : volume (flip1 ⁻¹' (cdriftMapO lb ub c ⁻¹' wallsO lb ub ∩ stripO lb ub)) = 0 := by
      have h0 : volume (cdriftMapO lb ub c ⁻¹' wallsO lb ub ∩ stripO lb ub) = 0 := by
        rw [cdriftO_volume lb ub hwf c _ (wallsO_measurable lb ub)]
        exact measure_mono_null inter_subset_left (wallsO_null lb ub)
      exact flip1_mp.quasiMeasurePreserving.preimage_null h0
    refine measure_mono_null ?_ hnull
    rintro y ⟨hy, hny⟩
    have hfy : flip1 y ∈ stripO lb ub := hy
    have r := cdrift1_reversible lb ub c y.1 (-y.2) hwf hy
    set x := cdriftMapO lb ub c (flip1 y) with hx
    have hΦ : cdriftMapO lb ub c (flip1 x) = y := by
      have : cdriftMapO lb ub c (flip1 x) = (y.1, - -y.2) := r
      rw [this]; ext <;> simp
    have hxbox : inBox1 lb ub x.1 := correctorR_inBox1 lb ub hwf _ _
    refine ⟨?_, hfy⟩
    by_contra hw
    apply hny
    refine ⟨flip1 x, ?_, hΦ⟩
    by_contra hns
    exact hw (closed_not_strict_wall lb ub _ hxbox hns)

theorem cdriftO_mp_strip (lb ub : Option ℝ) (hwf : wf1 lb ub) (c : ℝ) :
    MeasurePreserving (cdriftMapO lb ub c) (volume.restrict (stripO lb ub)) (volume.restrict (stripO lb ub)) := by
  refine ⟨cdriftMapO_measurable lb ub c, ?_⟩
  rw [cdriftO_map_restrict lb ub hwf c]
  exact Measure.restrict_congr_set (cdriftO_image_ae lb ub hwf c)

end HmcVerif
