import Mathlib.MeasureTheory.Integral.Lebesgue.Map
import Mathlib.MeasureTheory.Integral.Lebesgue.Add
import Mathlib.MeasureTheory.Integral.Lebesgue.Sub
import Mathlib.Dynamics.Ergodic.MeasurePreserving
/-
  Metropolis kernels with a deterministic, involutive, measure-preserving proposal, acting on
  non-negative test functions; invariance of the target density (helper for C04).
-/
open MeasureTheory ENNReal
namespace HmcVerif
variable {X : Type*} [MeasurableSpace X] (μ : Measure X)

/-- Metropolis kernel: move to `Ψ x` with probability `a x`, stay otherwise -/
noncomputable def metropolisOp (Ψ : X → X) (a : X → ℝ≥0∞) (g : X → ℝ≥0∞) : X → ℝ≥0∞ :=
  fun x => a x * g (Ψ x) + (1 - a x) * g x

theorem metropolisOp_measurable (Ψ : X → X) (hΨ : Measurable Ψ) (a : X → ℝ≥0∞) (ha : Measurable a)
    (g : X → ℝ≥0∞) (hg : Measurable g) : Measurable (metropolisOp Ψ a g) :=
  (ha.mul (hg.comp hΨ)).add ((measurable_const.sub ha).mul hg)

/-- **invariance**: if `Ψ` is a measure-preserving involution and `π·a = min π (π∘Ψ)` (the
    Metropolis rule), then `π` is invariant: `∫ π · (K g) = ∫ π · g` for every test function -/
theorem metropolis_invariant
    (Ψ : X → X) (hΨ : MeasurePreserving Ψ μ μ) (hinv : ∀ x, Ψ (Ψ x) = x)
    (π a : X → ℝ≥0∞) (hπ : Measurable π) (ha : Measurable a)
    (hπfin : ∀ x, π x ≠ ∞)
    (hrule : ∀ x, π x * a x = min (π x) (π (Ψ x)))
    (g : X → ℝ≥0∞) (hg : Measurable g) :
    ∫⁻ x, π x * metropolisOp Ψ a g x ∂μ = ∫⁻ x, π x * g x ∂μ := by
  set s : X → ℝ≥0∞ := fun x => min (π x) (π (Ψ x)) with hs
  have hsm : Measurable s := hπ.min (hπ.comp hΨ.measurable)
  have hsymm : ∀ x, s (Ψ x) = s x := by
    intro x; simp only [hs, hinv, min_comm]
  have hsle : ∀ x, s x ≤ π x := fun x => min_le_left _ _
  have hpt : ∀ x, π x * metropolisOp Ψ a g x = s x * g (Ψ x) + (π x - s x) * g x := by
    intro x
    unfold metropolisOp
    have h1 : π x * (1 - a x) = π x - s x := by
      rw [ENNReal.mul_sub (fun _ _ => hπfin x), mul_one, hrule x]
    rw [mul_add, ← mul_assoc, ← mul_assoc, hrule x, h1]
  simp_rw [hpt]
  rw [lintegral_add_left (f := fun x => s x * g (Ψ x)) (hsm.mul (hg.comp hΨ.measurable))
    (fun x => (π x - s x) * g x)]
  have hcv : ∫⁻ x, s x * g (Ψ x) ∂μ = ∫⁻ x, s x * g x ∂μ := by
    have := hΨ.lintegral_comp (f := fun x => s x * g (Ψ x)) (hsm.mul (hg.comp hΨ.measurable))
    rw [← this]
    congr 1; funext x; simp only [hsymm, hinv]
  rw [hcv, ← lintegral_add_left (f := fun x => s x * g x) (hsm.mul hg)]
  congr 1; funext x
  rw [← add_mul, add_tsub_cancel_of_le (hsle x)]

/-- a kernel (acting on test functions) leaves `π` invariant -/
def Invariant (π : X → ℝ≥0∞) (K : (X → ℝ≥0∞) → (X → ℝ≥0∞)) : Prop :=
  (∀ g, Measurable g → Measurable (K g)) ∧
  ∀ g, Measurable g → ∫⁻ x, π x * K g x ∂μ = ∫⁻ x, π x * g x ∂μ

/-- any number of transitions leaves `π` invariant -/
theorem iterate_invariant (π : X → ℝ≥0∞) (K : (X → ℝ≥0∞) → (X → ℝ≥0∞)) (hK : Invariant μ π K) (n : ℕ) :
    Invariant μ π (K^[n]) := by
  induction n with
  | zero => exact ⟨fun g hg => hg, fun g _ => rfl⟩
  | succ k ih =>
    refine ⟨fun g hg => ?_, fun g hg => ?_⟩
    · rw [Function.iterate_succ_apply]; exact ih.1 _ (hK.1 g hg)
    · rw [Function.iterate_succ_apply, ih.2 _ (hK.1 g hg), hK.2 g hg]

/-- the composition of two invariant kernels is invariant -/
theorem comp_invariant (π : X → ℝ≥0∞) (K₁ K₂ : (X → ℝ≥0∞) → (X → ℝ≥0∞))
    (h₁ : Invariant μ π K₁) (h₂ : Invariant μ π K₂) : Invariant μ π (fun g => K₁ (K₂ g)) :=
  ⟨fun g hg => h₁.1 _ (h₂.1 g hg), fun g hg => by rw [h₁.2 _ (h₂.1 g hg), h₂.2 g hg]⟩

end HmcVerif
