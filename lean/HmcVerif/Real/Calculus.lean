import Mathlib.Analysis.Calculus.Deriv.Add
import Mathlib.Analysis.Calculus.Deriv.Mul
import Mathlib.Analysis.Calculus.Deriv.Pow
import Mathlib.Data.Matrix.Mul
import Mathlib.LinearAlgebra.Matrix.Symmetric
import Mathlib.Tactic.Ring
import Mathlib.Tactic.Abel
/-
  Shared calculus helper: the derivative of a symmetric quadratic form along every line.
-/
open Finset Matrix
namespace HmcVerif
variable {ι : Type} [Fintype ι] [DecidableEq ι]

theorem quadForm_hasDerivAt (A : Matrix ι ι ℝ) (hA : A.IsSymm) (μ x v : ι → ℝ) :
    HasDerivAt (fun t : ℝ => (1/2) * ((μ - (x + t • v)) ⬝ᵥ (A *ᵥ (μ - (x + t • v)))))
      ((-(A *ᵥ (μ - x))) ⬝ᵥ v) 0 := by
  have hs : v ⬝ᵥ (A *ᵥ (μ - x)) = (μ - x) ⬝ᵥ (A *ᵥ v) := by
    rw [dotProduct_mulVec, ← hA.eq, vecMul_transpose, hA.eq, dotProduct_comm]
  have hexp : (fun t : ℝ => (1/2) * ((μ - (x + t • v)) ⬝ᵥ (A *ᵥ (μ - (x + t • v)))))
      = fun t => (1/2) * ((μ - x) ⬝ᵥ (A *ᵥ (μ - x))) - t * ((A *ᵥ (μ - x)) ⬝ᵥ v)
        + t^2 * ((1/2) * (v ⬝ᵥ (A *ᵥ v))) := by
    funext t
    have : μ - (x + t • v) = (μ - x) - t • v := by abel
    rw [this, mulVec_sub, mulVec_smul, sub_dotProduct, dotProduct_sub, dotProduct_sub,
      smul_dotProduct, dotProduct_smul, dotProduct_smul, smul_dotProduct, hs,
      dotProduct_comm (A *ᵥ (μ - x)) v, hs]
    simp only [smul_eq_mul]; ring
  rw [hexp]
  have h1 := ((hasDerivAt_id (0:ℝ)).mul_const ((A *ᵥ (μ - x)) ⬝ᵥ v)).const_sub ((1/2) * ((μ - x) ⬝ᵥ (A *ᵥ (μ - x))))
  have h2 := ((hasDerivAt_pow 2 (0:ℝ)).mul_const ((1/2) * (v ⬝ᵥ (A *ᵥ v))))
  have := h1.add h2
  simp only [id] at this
  refine (this.congr_deriv ?_)
  simp [neg_dotProduct]

end HmcVerif
