import Mathlib.Analysis.Calculus.FDeriv.Add
import Mathlib.Analysis.Calculus.FDeriv.Mul
import Mathlib.Analysis.Calculus.FDeriv.Comp
import Mathlib.Analysis.Calculus.FDeriv.Pi
import Mathlib.Analysis.Calculus.FDeriv.Prod
import Mathlib.Analysis.Calculus.Deriv.Comp
import Mathlib.Analysis.SpecialFunctions.ExpDeriv
import Mathlib.Analysis.SpecialFunctions.Log.Deriv
import Mathlib.Data.Matrix.Mul
import Mathlib.Tactic.Ring
import Mathlib.Tactic.FieldSimp
import Mathlib.Tactic.Abel
/-
  "`g` is the gradient of `m` at `x`": the Fréchet derivative of `m` at `x` is the linear form
  `v ↦ Σᵢ gᵢ vᵢ`. Closure under the combinators of hmclab's distribution algebra
  (helper for C05 / C13 / C15 / C17).
-/
open Finset
namespace HmcVerif
variable {ι : Type} [Fintype ι]

/-- the linear form `v ↦ Σᵢ wᵢ vᵢ` -/
noncomputable def gradL (w : ι → ℝ) : (ι → ℝ) →L[ℝ] ℝ :=
  ∑ i, w i • (ContinuousLinearMap.proj i : (ι → ℝ) →L[ℝ] ℝ)

theorem gradL_apply (w v : ι → ℝ) : gradL w v = ∑ i, w i * v i := by
  simp [gradL, ContinuousLinearMap.sum_apply]

/-- `g x` is the gradient of `m` at `x` -/
def IsGradAt (m : (ι → ℝ) → ℝ) (g : ι → ℝ) (x : ι → ℝ) : Prop := HasFDerivAt m (gradL g) x

theorem gradL_add (a b : ι → ℝ) : gradL (a + b) = gradL a + gradL b := by
  ext v; simp [gradL_apply, add_mul, Finset.sum_add_distrib]

theorem gradL_smul (c : ℝ) (a : ι → ℝ) : gradL (c • a) = c • gradL a := by
  ext v; simp [gradL_apply, Finset.mul_sum, mul_assoc]

theorem gradL_zero : gradL (0 : ι → ℝ) = 0 := by
  ext v; simp [gradL_apply]

theorem gradL_sum {κ : Type} (s : Finset κ) (a : κ → ι → ℝ) : gradL (∑ k ∈ s, a k) = ∑ k ∈ s, gradL (a k) := by
  classical
  induction s using Finset.induction_on with
  | empty => simp [gradL_zero]
  | insert k s hk ih => rw [Finset.sum_insert hk, Finset.sum_insert hk, gradL_add, ih]

namespace IsGradAt
variable {m m₁ m₂ : (ι → ℝ) → ℝ} {g g₁ g₂ : ι → ℝ} {x : ι → ℝ}

/-- coordinate by coordinate: the partial derivative in direction `v` is `Σ gᵢ vᵢ`; in particular
    `∂m/∂xᵢ = gᵢ` -/
theorem line (h : IsGradAt m g x) (v : ι → ℝ) :
    HasDerivAt (fun t : ℝ => m (x + t • v)) (∑ i, g i * v i) 0 := by
  have hl : HasDerivAt (fun t : ℝ => x + t • v) v 0 := by
    have := ((hasDerivAt_id (0:ℝ)).smul_const v).const_add x
    simpa using this
  have h' : HasFDerivAt m (gradL g) (x + (0:ℝ) • v) := by
    have e : x + (0:ℝ) • v = x := by simp
    rw [e]; exact h
  have := h'.comp_hasDerivAt (0:ℝ) hl
  rw [gradL_apply] at this
  exact this

theorem partial_deriv [DecidableEq ι] (h : IsGradAt m g x) (i : ι) :
    HasDerivAt (fun t : ℝ => m (x + t • Pi.single i 1)) (g i) 0 := by
  have := h.line (Pi.single i 1)
  simpa [Pi.single_apply] using this

theorem add (h₁ : IsGradAt m₁ g₁ x) (h₂ : IsGradAt m₂ g₂ x) :
    IsGradAt (fun y => m₁ y + m₂ y) (g₁ + g₂) x := by
  unfold IsGradAt; rw [gradL_add]; exact HasFDerivAt.add h₁ h₂

theorem add_const (h : IsGradAt m g x) (c : ℝ) : IsGradAt (fun y => m y + c) g x := by
  unfold IsGradAt; exact HasFDerivAt.add_const c h

theorem const_add (h : IsGradAt m g x) (c : ℝ) : IsGradAt (fun y => c + m y) g x := by
  unfold IsGradAt; exact HasFDerivAt.const_add c h

theorem const (c : ℝ) : IsGradAt (fun _ : ι → ℝ => c) 0 x := by
  unfold IsGradAt; rw [gradL_zero]; exact hasFDerivAt_const c x

theorem const_mul (h : IsGradAt m g x) (c : ℝ) : IsGradAt (fun y => c * m y) (c • g) x := by
  unfold IsGradAt; rw [gradL_smul]; exact HasFDerivAt.const_mul h c

/-- temperature: dividing the misfit by `T` divides the gradient by `T` -/
theorem div_const (h : IsGradAt m g x) (T : ℝ) : IsGradAt (fun y => m y / T) (fun i => g i / T) x := by
  have := h.const_mul (1 / T)
  have e : (fun y => 1 / T * m y) = fun y => m y / T := by funext y; ring
  have e2 : (1 / T) • g = fun i => g i / T := by funext i; simp [div_eq_inv_mul]
  rwa [e, e2] at this

theorem sum {κ : Type} (s : Finset κ) (ms : κ → (ι → ℝ) → ℝ) (gs : κ → ι → ℝ)
    (h : ∀ k ∈ s, IsGradAt (ms k) (gs k) x) : IsGradAt (fun y => ∑ k ∈ s, ms k y) (∑ k ∈ s, gs k) x := by
  unfold IsGradAt; rw [gradL_sum]; exact HasFDerivAt.fun_sum h

/-- locally equal functions have the same gradient (used for the bounds term inside the box) -/
theorem congr_of_eventuallyEq (h : IsGradAt m g x) (h' : m₁ =ᶠ[nhds x] m) : IsGradAt m₁ g x := by
  unfold IsGradAt at *; exact h.congr_of_eventuallyEq h'

/-- chain rule with a scalar outer function -/
theorem scomp (h : IsGradAt m g x) (φ : ℝ → ℝ) (φ' : ℝ) (hφ : HasDerivAt φ φ' (m x)) :
    IsGradAt (fun y => φ (m y)) (φ' • g) x := by
  unfold IsGradAt; rw [gradL_smul]
  exact hφ.comp_hasFDerivAt x h

theorem neg (h : IsGradAt m g x) : IsGradAt (fun y => -m y) (-g) x := by
  have := h.const_mul (-1)
  have e1 : (fun y => -1 * m y) = fun y => -m y := by funext y; ring
  have e2 : (-1 : ℝ) • g = -g := by simp
  rwa [e1, e2] at this

theorem sub (h₁ : IsGradAt m₁ g₁ x) (h₂ : IsGradAt m₂ g₂ x) :
    IsGradAt (fun y => m₁ y - m₂ y) (g₁ - g₂) x := by
  have := h₁.add h₂.neg
  have e1 : (fun y => m₁ y + -m₂ y) = fun y => m₁ y - m₂ y := by funext y; ring
  have e2 : g₁ + -g₂ = g₁ - g₂ := by abel
  rwa [e1, e2] at this

/-- product rule -/
theorem mul (h₁ : IsGradAt m₁ g₁ x) (h₂ : IsGradAt m₂ g₂ x) :
    IsGradAt (fun y => m₁ y * m₂ y) (m₁ x • g₂ + m₂ x • g₁) x := by
  unfold IsGradAt at *
  have := HasFDerivAt.mul h₁ h₂
  rw [gradL_add, gradL_smul, gradL_smul]
  exact this

end IsGradAt

/-- a coordinate function has gradient the corresponding unit vector -/
theorem isGradAt_coord [DecidableEq ι] (i : ι) (x : ι → ℝ) : IsGradAt (fun y : ι → ℝ => y i) (Pi.single i 1) x := by
  unfold IsGradAt
  have : gradL (Pi.single i (1:ℝ)) = (ContinuousLinearMap.proj i : (ι → ℝ) →L[ℝ] ℝ) := by
    ext v
    simp [gradL_apply, Pi.single_apply]
  rw [this]
  exact hasFDerivAt_apply i x

/-- separable sums: `m x = Σᵢ φᵢ (xᵢ)` has gradient `(φᵢ' (xᵢ))ᵢ` -/
theorem isGradAt_separable (φ : ι → ℝ → ℝ) (φ' : ι → ℝ) (x : ι → ℝ)
    (h : ∀ i, HasDerivAt (φ i) (φ' i) (x i)) :
    IsGradAt (fun y => ∑ i, φ i (y i)) φ' x := by
  unfold IsGradAt
  have : ∀ i ∈ (univ : Finset ι), HasFDerivAt (fun y : ι → ℝ => φ i (y i))
      (φ' i • (ContinuousLinearMap.proj i : (ι → ℝ) →L[ℝ] ℝ)) x := by
    intro i _
    exact (h i).comp_hasFDerivAt x (hasFDerivAt_apply i x)
  have hs := HasFDerivAt.fun_sum this
  simpa [gradL] using hs

end HmcVerif
