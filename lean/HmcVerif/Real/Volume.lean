import HmcVerif.Model.Integrator
import Mathlib.MeasureTheory.Measure.Prod
import Mathlib.MeasureTheory.Measure.Lebesgue.Basic
import Mathlib.MeasureTheory.Group.Measure
import Mathlib.MeasureTheory.Constructions.Pi
/-
  Each sub-step of a splitting integrator is a shear of phase space, hence preserves Lebesgue
  volume; so does every composition (helper lemmas for C01/C04).
-/
set_option linter.unusedSectionVars false
set_option linter.unusedSimpArgs false
open MeasureTheory
namespace HmcVerif
variable {ι : Type} [Fintype ι]

abbrev Vec (ι : Type) := ι → ℝ

def toProd {V : Type} (s : PS V) : V × V := (s.q, s.p)
def ofProd {V : Type} (x : V × V) : PS V := ⟨x.1, x.2⟩

/-- a sub-step as a map on `V × V` -/
def stepProd (vel grad : Vec ι → Vec ι) (o : Op ℝ) (x : Vec ι × Vec ι) : Vec ι × Vec ι :=
  toProd (stepOp vel grad id (ofProd x) o)

theorem kick_measurePreserving (g : Vec ι → Vec ι) (hg : Measurable g) (c : ℝ) :
    MeasurePreserving (fun x : Vec ι × Vec ι => (x.1, x.2 - c • g x.1))
      ((volume : Measure (Vec ι)).prod volume) ((volume : Measure (Vec ι)).prod volume) := by
  have h := (MeasurePreserving.id (volume : Measure (Vec ι))).skew_product
      (g := fun q p => p - c • g q) (μc := (volume : Measure (Vec ι))) (μd := volume)
      (by
        apply Measurable.sub measurable_snd
        exact (hg.comp measurable_fst).const_smul c)
      (ae_of_all _ fun q => by
        have : (fun p : Vec ι => p - c • g q) = fun p => p + (-(c • g q)) := by
          funext p; simp [sub_eq_add_neg]
        rw [this]
        exact (measurePreserving_add_right volume _).map_eq)
  simpa using h

theorem drift_measurePreserving (v : Vec ι → Vec ι) (hv : Measurable v) (c : ℝ) :
    MeasurePreserving (fun x : Vec ι × Vec ι => (x.1 + c • v x.2, x.2))
      ((volume : Measure (Vec ι)).prod volume) ((volume : Measure (Vec ι)).prod volume) := by
  have h := (MeasurePreserving.id (volume : Measure (Vec ι))).skew_product
      (g := fun p q => q + c • v p) (μc := (volume : Measure (Vec ι))) (μd := volume)
      (by
        apply Measurable.add measurable_snd
        exact (hv.comp measurable_fst).const_smul c)
      (ae_of_all _ fun p => (measurePreserving_add_right volume _).map_eq)
  have hs : MeasurePreserving (Prod.swap : Vec ι × Vec ι → Vec ι × Vec ι)
      ((volume : Measure (Vec ι)).prod volume) ((volume : Measure (Vec ι)).prod volume) :=
    Measure.measurePreserving_swap
  have := (hs.comp h).comp hs
  convert this using 1
  funext x; rfl

theorem step_measurePreserving (vel grad : Vec ι → Vec ι) (hv : Measurable vel) (hg : Measurable grad)
    (o : Op ℝ) :
    MeasurePreserving (stepProd vel grad o)
      ((volume : Measure (Vec ι)).prod volume) ((volume : Measure (Vec ι)).prod volume) := by
  cases o with
  | drift c => exact drift_measurePreserving vel hv c
  | kick c => exact kick_measurePreserving grad hg c

theorem runOps_prod (vel grad : Vec ι → Vec ι) (ops : List (Op ℝ)) (x : Vec ι × Vec ι) :
    toProd (runOps vel grad id ops (ofProd x)) = ops.foldl (fun y o => stepProd vel grad o y) x := by
  induction ops generalizing x with
  | nil => rfl
  | cons o os ih =>
    simp only [runOps, List.foldl_cons] at ih ⊢
    have : stepOp vel grad id (ofProd x) o = ofProd (stepProd vel grad o x) := rfl
    rw [this, ih]

theorem propose_volume_preserving (vel grad : Vec ι → Vec ι) (hv : Measurable vel) (hg : Measurable grad)
    (ops : List (Op ℝ)) :
    MeasurePreserving (fun x : Vec ι × Vec ι => toProd (runOps vel grad id ops (ofProd x)))
      ((volume : Measure (Vec ι)).prod volume) ((volume : Measure (Vec ι)).prod volume) := by
  simp only [runOps_prod]
  induction ops with
  | nil => exact MeasurePreserving.id _
  | cons o os ih =>
    simp only [List.foldl_cons]
    exact ih.comp (step_measurePreserving vel grad hv hg o)
end HmcVerif
