import Mathlib.Analysis.SpecialFunctions.Exp
import Mathlib.Data.Real.Basic
/-
  `Ext`: real numbers extended with +∞, −∞ and NaN, with IEEE-754-like subtraction, addition,
  exponential and comparison. Used where a property is *about* NaN / ±inf (C02, C06, C16, C19).
  Its agreement with float64 (up to rounding and overflow of finite values) is part of the
  trusted base (DESIGN.md §3).
-/
namespace HmcVerif

inductive Ext where
  | fin (x : ℝ)
  | pinf
  | ninf
  | nan

namespace Ext

noncomputable def add : Ext → Ext → Ext
  | nan, _ => nan
  | _, nan => nan
  | pinf, ninf => nan
  | ninf, pinf => nan
  | pinf, _ => pinf
  | _, pinf => pinf
  | ninf, _ => ninf
  | _, ninf => ninf
  | fin x, fin y => fin (x + y)

def neg : Ext → Ext
  | nan => nan
  | pinf => ninf
  | ninf => pinf
  | fin x => fin (-x)

noncomputable def sub (a b : Ext) : Ext := add a (neg b)

noncomputable def exp : Ext → Ext
  | nan => nan
  | pinf => pinf
  | ninf => fin 0
  | fin x => fin (Real.exp x)

/-- IEEE `<`: false whenever a NaN is involved -/
def lt : Ext → Ext → Prop
  | nan, _ => False
  | _, nan => False
  | pinf, _ => False
  | _, ninf => False
  | ninf, _ => True       -- ninf < fin, ninf < pinf
  | fin _, pinf => True
  | fin x, fin y => x < y

/-- IEEE `≤`: false whenever a NaN is involved -/
def le (a b : Ext) : Prop := lt a b ∨ (a = b ∧ a ≠ nan)

noncomputable instance : Add Ext := ⟨add⟩
instance : LE Ext := ⟨le⟩
noncomputable instance : DecidableLE Ext := fun _ _ => Classical.propDecidable _
/-- scientific literals denote the corresponding finite real -/
noncomputable instance : OfScientific Ext := ⟨fun m s e => fin (OfScientific.ofScientific m s e)⟩
noncomputable instance : Sub Ext := ⟨sub⟩
instance : Neg Ext := ⟨neg⟩
instance : LT Ext := ⟨lt⟩
noncomputable instance : DecidableLT Ext := fun _ _ => Classical.propDecidable _

def isNaN : Ext → Bool
  | nan => true
  | _ => false

def isFinite : Ext → Prop
  | fin _ => True
  | _ => False

end Ext
end HmcVerif
