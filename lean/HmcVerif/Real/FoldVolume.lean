import HmcVerif.Real.Fold
import Mathlib.MeasureTheory.Measure.Prod
import Mathlib.MeasureTheory.Measure.Lebesgue.Basic
import Mathlib.MeasureTheory.Group.Measure
import Mathlib.MeasureTheory.Group.Prod
import Mathlib.MeasureTheory.Constructions.BorelSpace.Order
import Mathlib.Order.Disjointed
import Mathlib.Logic.Denumerable
import Mathlib.MeasureTheory.Function.Floor
/-
  Volume preservation of the boxed drift (C01 / C04): a drift of any length followed by the whole
  corrector (all reflections) maps the open strip `l < q < u` of phase space injectively into the
  closed strip and pushes Lebesgue measure forward to Lebesgue measure.  The proof is the billiard
  argument: on countably many measurable pieces the map is one of the affine isometries
  `(q, p) ↦ (q + c p + 2 j w, p)` / `(q, p) ↦ (2 l + 2 j w − q − c p, −p)` (`correctorR_img`), and it is
  injective because a momentum flip reverses it (`cdrift1_reversible_box`).
-/
set_option linter.unusedSectionVars false
set_option linter.unusedSimpArgs false
set_option linter.unusedVariables false
open MeasureTheory Set
namespace HmcVerif

/-- A map that agrees on countably many measurable pieces with measure-preserving equivalences and is
    injective on their union transports the measure of that union onto the measure of its image. -/
theorem piecewise_measure {X : Type} [MeasurableSpace X] (μ : Measure X) (Φ : X → X) (D : Set X)
    (e : ℕ → X ≃ᵐ X) (he : ∀ n, MeasurePreserving (e n) μ μ)
    (S : ℕ → Set X) (hS : ∀ n, MeasurableSet (S n)) (hcov : D = ⋃ n, S n)
    (hΦ : ∀ n, ∀ x ∈ S n, Φ x = e n x) (hinj : Set.InjOn Φ D)
    (A : Set X) (hA : MeasurableSet A) :
    μ (Φ ⁻¹' A ∩ D) = μ (A ∩ Φ '' D) := by
  set S' := disjointed S with hS'
  have hsub : ∀ n, S' n ⊆ S n := fun n => disjointed_subset S n
  have hmeas : ∀ n, MeasurableSet (S' n) := fun n => MeasurableSet.disjointed hS n
  have hdis : Pairwise (Function.onFun Disjoint S') := disjoint_disjointed S
  have hU : D = ⋃ n, S' n := by rw [hcov, hS', iUnion_disjointed]
  have hsubD : ∀ n, S' n ⊆ D := fun n => by rw [hU]; exact subset_iUnion S' n
  have hΦ' : ∀ n, ∀ x ∈ S' n, Φ x = e n x := fun n x hx => hΦ n x (hsub n hx)
  -- left side
  have hL : Φ ⁻¹' A ∩ D = ⋃ n, ((e n) ⁻¹' A ∩ S' n) := by
    ext x; simp only [mem_inter_iff, mem_preimage, mem_iUnion, hU]
    constructor
    · rintro ⟨hx, n, hn⟩; exact ⟨n, by rw [← hΦ' n x hn]; exact hx, hn⟩
    · rintro ⟨n, hx, hn⟩; exact ⟨by rw [hΦ' n x hn]; exact hx, n, hn⟩
  have hR : A ∩ Φ '' D = ⋃ n, (A ∩ (e n) '' S' n) := by
    ext y; simp only [mem_inter_iff, mem_image, mem_iUnion, hU]
    constructor
    · rintro ⟨hy, x, ⟨n, hn⟩, rfl⟩; exact ⟨n, hy, x, hn, (hΦ' n x hn).symm⟩
    · rintro ⟨n, hy, x, hn, rfl⟩; exact ⟨hy, x, ⟨n, hn⟩, hΦ' n x hn⟩
  rw [hL, hR, measure_iUnion, measure_iUnion]
  · congr 1; funext n
    have : (e n) ⁻¹' A ∩ S' n = (e n) ⁻¹' (A ∩ (e n) '' S' n) := by
      rw [preimage_inter, preimage_image_eq _ (e n).injective]
    rw [this, (he n).measure_preimage_equiv]
  · intro i j hij
    refine Set.disjoint_left.mpr ?_
    rintro y ⟨_, x, hx, rfl⟩ ⟨_, x', hx', h'⟩
    have h1 : Φ x' = Φ x := by rw [hΦ' i x hx, hΦ' j x' hx', h']
    have : x' = x := hinj (hsubD j hx') (hsubD i hx) h1
    subst this
    exact (Set.disjoint_left.mp (hdis hij) hx) hx'
  · intro n; exact hA.inter ((e n).measurableSet_image.mpr (hmeas n))
  · intro i j hij
    exact (hdis hij).mono inter_subset_right inter_subset_right
  · intro n; exact ((e n).measurable hA).inter (hmeas n)

/-- image map without momentum flip -/
noncomputable def evenE (c a : ℝ) : ℝ × ℝ ≃ᵐ ℝ × ℝ where
  toFun z := (z.1 + c * z.2 + a, z.2)
  invFun z := (z.1 - c * z.2 - a, z.2)
  left_inv z := by refine Prod.ext ?_ ?_ <;> dsimp only <;> ring
  right_inv z := by refine Prod.ext ?_ ?_ <;> dsimp only <;> ring
  measurable_toFun := by
    change Measurable (fun z : ℝ × ℝ => (z.1 + c * z.2 + a, z.2)); fun_prop
  measurable_invFun := by
    change Measurable (fun z : ℝ × ℝ => (z.1 - c * z.2 - a, z.2)); fun_prop

/-- image map with momentum flip -/
noncomputable def oddE (c a : ℝ) : ℝ × ℝ ≃ᵐ ℝ × ℝ where
  toFun z := (a - (z.1 + c * z.2), -z.2)
  invFun z := (a - z.1 + c * z.2, -z.2)
  left_inv z := by refine Prod.ext ?_ ?_ <;> dsimp only <;> ring
  right_inv z := by refine Prod.ext ?_ ?_ <;> dsimp only <;> ring
  measurable_toFun := by
    change Measurable (fun z : ℝ × ℝ => (a - (z.1 + c * z.2), -z.2)); fun_prop
  measurable_invFun := by
    change Measurable (fun z : ℝ × ℝ => (a - z.1 + c * z.2, -z.2)); fun_prop

theorem volume_neg_invariant : (volume : Measure ℝ).IsNegInvariant := by
  constructor
  have h := Real.map_volume_mul_left (a := -1) (by norm_num)
  have e : (fun x : ℝ => -1 * x) = Neg.neg := by funext x; simp
  rw [e] at h
  simpa [Measure.neg] using h

theorem evenE_mp (c a : ℝ) : MeasurePreserving (evenE c a) volume volume := by
  have h := (MeasurePreserving.id (volume : Measure ℝ)).skew_product
      (g := fun p q => q + (c * p + a)) (μc := (volume : Measure ℝ)) (μd := volume)
      (by fun_prop)
      (ae_of_all _ fun p => (measurePreserving_add_right volume _).map_eq)
  have hs : MeasurePreserving (Prod.swap : ℝ × ℝ → ℝ × ℝ) volume volume := Measure.measurePreserving_swap
  have := (hs.comp h).comp hs
  convert this using 1
  funext z; simp [evenE, Function.comp]; ring

theorem oddE_mp (c a : ℝ) : MeasurePreserving (oddE c a) volume volume := by
  have := volume_neg_invariant
  have h := (Measure.measurePreserving_neg (volume : Measure ℝ)).skew_product
      (g := fun p q => (a - c * p) - q) (μc := (volume : Measure ℝ)) (μd := volume)
      (by fun_prop)
      (ae_of_all _ fun p => (Measure.measurePreserving_sub_left volume _).map_eq)
  have hs : MeasurePreserving (Prod.swap : ℝ × ℝ → ℝ × ℝ) volume volume := Measure.measurePreserving_swap
  have := (hs.comp h).comp hs
  convert this using 1
  funext z; simp [oddE, Function.comp]; ring

/-- the boxed drift (drift of signed length `c`, then the whole corrector) as a map of the phase plane -/
noncomputable def cdriftMap (l u c : ℝ) (z : ℝ × ℝ) : ℝ × ℝ := cdrift1 (some l) (some u) c z.1 z.2

/-- positions strictly between the walls, any momentum -/
def openStrip (l u : ℝ) : Set (ℝ × ℝ) := {z | l < z.1 ∧ z.1 < u}

theorem openStrip_measurable (l u : ℝ) : MeasurableSet (openStrip l u) :=
  (measurableSet_lt measurable_const measurable_fst).inter (measurableSet_lt measurable_fst measurable_const)

theorem floorR_measurable : Measurable floorR := by
  unfold floorR
  exact (measurable_from_top (f := fun k : ℤ => (k : ℝ))).comp Int.measurable_floor

theorem reflLow_measurable (l : ℝ) : Measurable (reflLow (some l) : ℝ × ℝ → ℝ × ℝ) := by
  change Measurable (fun s : ℝ × ℝ => if s.1 < l then (s.1 + 2.0 * (l - s.1), -s.2) else s)
  exact Measurable.ite (measurableSet_lt measurable_fst measurable_const) (by fun_prop) measurable_id

theorem reflHigh_measurable (u : ℝ) : Measurable (reflHigh (some u) : ℝ × ℝ → ℝ × ℝ) := by
  change Measurable (fun s : ℝ × ℝ => if u < s.1 then (s.1 + 2.0 * (u - s.1), -s.2) else s)
  exact Measurable.ite (measurableSet_lt measurable_const measurable_fst) (by fun_prop) measurable_id

theorem refold_measurable (l u : ℝ) : Measurable (refold floorR isOddR finiteR l u) := by
  have hk : Measurable (fun s : ℝ × ℝ => floorR ((s.1 - l) / (u - l))) :=
    floorR_measurable.comp (by fun_prop)
  change Measurable (fun s : ℝ × ℝ =>
    if (s.1 < l ∨ u < s.1) ∧ finiteR s.1 = true ∧ finiteR (u - l) = true ∧ (0.0 : ℝ) < u - l then
      (if isOddR (floorR ((s.1 - l) / (u - l))) = true
        then (u - ((s.1 - l) - floorR ((s.1 - l) / (u - l)) * (u - l)), -s.2)
        else (l + ((s.1 - l) - floorR ((s.1 - l) / (u - l)) * (u - l)), s.2))
    else s)
  refine Measurable.ite ?_ (Measurable.ite ?_ ?_ ?_) measurable_id
  · have : {a : ℝ × ℝ | (a.1 < l ∨ u < a.1) ∧ finiteR a.1 = true ∧ finiteR (u - l) = true ∧ (0.0 : ℝ) < u - l}
        = ({a | a.1 < l} ∪ {a | u < a.1}) ∩ {a | (0.0 : ℝ) < u - l} := by
      ext a; simp [finiteR]
    rw [this]
    exact ((measurableSet_lt measurable_fst measurable_const).union
      (measurableSet_lt measurable_const measurable_fst)).inter (MeasurableSet.const _)
  · have : {a : ℝ × ℝ | isOddR (floorR ((a.1 - l) / (u - l))) = true}
        = (fun a : ℝ × ℝ => ⌊floorR ((a.1 - l) / (u - l))⌋) ⁻¹' {k : ℤ | k % 2 ≠ 0} := by
      ext a; simp [isOddR]
    rw [this]
    exact (Int.measurable_floor.comp hk) (MeasurableSet.of_discrete)
  · exact (measurable_const.sub ((by fun_prop : Measurable fun s : ℝ × ℝ => s.1 - l).sub (hk.mul measurable_const))).prodMk
      measurable_snd.neg
  · exact (measurable_const.add ((by fun_prop : Measurable fun s : ℝ × ℝ => s.1 - l).sub (hk.mul measurable_const))).prodMk
      measurable_snd

theorem cdriftMap_measurable (l u c : ℝ) : Measurable (cdriftMap l u c) := by
  have : cdriftMap l u c = (refold floorR isOddR finiteR l u) ∘ (reflHigh (some u)) ∘ (reflLow (some l)) ∘
      (fun z : ℝ × ℝ => (z.1 + c * z.2, z.2)) := by
    funext z; rfl
  rw [this]
  exact (refold_measurable l u).comp ((reflHigh_measurable u).comp ((reflLow_measurable l).comp (by fun_prop)))

/-- the countable family of image maps -/
noncomputable def pieceE (l u c : ℝ) (n : ℕ) : ℝ × ℝ ≃ᵐ ℝ × ℝ :=
  if (Denumerable.ofNat (ℤ × ℤ) n).2 = 0 then evenE c (2 * (Denumerable.ofNat (ℤ × ℤ) n).1 * (u - l))
  else oddE c (2 * l + 2 * (Denumerable.ofNat (ℤ × ℤ) n).1 * (u - l))

theorem pieceE_mp (l u c : ℝ) (n : ℕ) : MeasurePreserving (pieceE l u c n) volume volume := by
  unfold pieceE; split
  · exact evenE_mp _ _
  · exact oddE_mp _ _

/-- everywhere the boxed drift is one of the image maps -/
theorem cdriftMap_is_piece (l u c : ℝ) (hlu : l < u) (z : ℝ × ℝ) : ∃ n, cdriftMap l u c z = pieceE l u c n z := by
  obtain ⟨x, s, e, ⟨j, hj⟩, _, _⟩ := correctorR_img l u (z.1 + c * z.2) z.2 hlu
  rcases hj with ⟨hx, hs⟩ | ⟨hx, hs⟩
  · refine ⟨Encodable.encode ((j, 0) : ℤ × ℤ), ?_⟩
    simp only [pieceE, Denumerable.ofNat_encode, if_true]
    change correctorR (some l) (some u) (z.1 + c * z.2) z.2 = _
    rw [e, hx, hs]; simp [evenE]
  · refine ⟨Encodable.encode ((j, 1) : ℤ × ℤ), ?_⟩
    simp only [pieceE, Denumerable.ofNat_encode, one_ne_zero, if_false]
    change correctorR (some l) (some u) (z.1 + c * z.2) z.2 = _
    rw [e, hx, hs]; simp [oddE]

/-- a momentum flip reverses the boxed drift, so it is injective on the open strip -/
theorem cdriftMap_injOn (l u c : ℝ) (hlu : l < u) : Set.InjOn (cdriftMap l u c) (openStrip l u) := by
  intro z hz z' hz' h
  have r := cdrift1_reversible_box l u c z.1 z.2 hlu hz.1 hz.2
  have r' := cdrift1_reversible_box l u c z'.1 z'.2 hlu hz'.1 hz'.2
  have h' : cdrift1 (some l) (some u) c z.1 z.2 = cdrift1 (some l) (some u) c z'.1 z'.2 := h
  rw [h', r'] at r
  have h1 := congrArg Prod.fst r
  have h2 := congrArg Prod.snd r
  simp at h1 h2
  exact Prod.ext h1.symm h2.symm

/-- **Volume preservation of the boxed drift** (any drift length, any number of reflections): for every
    measurable set `A` of phase points, the starts in the open strip that the boxed drift sends into `A`
    have the same Lebesgue measure as the part of `A` that is reached. -/
theorem cdrift_volume (l u c : ℝ) (hlu : l < u) (A : Set (ℝ × ℝ)) (hA : MeasurableSet A) :
    volume (cdriftMap l u c ⁻¹' A ∩ openStrip l u) = volume (A ∩ cdriftMap l u c '' openStrip l u) := by
  have hm := cdriftMap_measurable l u c
  refine piecewise_measure volume (cdriftMap l u c) (openStrip l u) (pieceE l u c) (pieceE_mp l u c)
    (fun n => openStrip l u ∩ {z | cdriftMap l u c z = pieceE l u c n z}) ?_ ?_ ?_
    (cdriftMap_injOn l u c hlu) A hA
  · intro n
    exact (openStrip_measurable l u).inter (measurableSet_eq_fun hm (pieceE l u c n).measurable)
  · ext z; simp only [mem_iUnion, mem_inter_iff, mem_ofPred_eq]
    constructor
    · intro hz; obtain ⟨n, hn⟩ := cdriftMap_is_piece l u c hlu z; exact ⟨n, hz, hn⟩
    · rintro ⟨n, hz, _⟩; exact hz
  · intro n z hz; exact hz.2

/-- the same as a statement about measures: Lebesgue measure on the open strip is pushed forward to
    Lebesgue measure on the image, -/
theorem cdrift_map_restrict (l u c : ℝ) (hlu : l < u) :
    Measure.map (cdriftMap l u c) (volume.restrict (openStrip l u))
      = volume.restrict (cdriftMap l u c '' openStrip l u) := by
  ext A hA
  rw [Measure.map_apply (cdriftMap_measurable l u c) hA, Measure.restrict_apply ((cdriftMap_measurable l u c) hA),
    Measure.restrict_apply hA]
  exact cdrift_volume l u c hlu A hA

/-- and the image lies in the closed strip. -/
theorem cdrift_image_in_box (l u c : ℝ) (hlu : l < u) :
    cdriftMap l u c '' openStrip l u ⊆ {z | l ≤ z.1 ∧ z.1 ≤ u} := by
  rintro _ ⟨z, _, rfl⟩
  exact correctorR_in_box l u (z.1 + c * z.2) z.2 hlu

end HmcVerif
