import HmcVerif.Model.Async
import Mathlib.Tactic.Linarith
import Mathlib.Logic.Basic
/-
  Theory of the asynchronous process model (Model/Async.lean):
  * everything is stated for an arbitrary channel capacity `cap` (unbounded, bounded, or zero =
    rendezvous);
  * steps of different processes commute (diamond);
  * the projections of a choreography can always be executed to completion, ending in the
    sequential result with empty channels — the canonical schedule only ever sends into an empty
    channel whose receiver is waiting, so it is enabled at every capacity;
  * hence (random-descent argument) *every* interleaving terminates, never deadlocks, and ends in
    that same state.
  Core Lean + a few Mathlib tactics.
-/
namespace HmcVerif
namespace Async
variable {σ Msg : Type}

/-! ### point updates -/
@[simp] theorem upd_same {β : Type} (f : Nat → β) (i : Nat) (v : β) : upd f i v i = v := by simp [upd]
theorem upd_other {β : Type} (f : Nat → β) (i j : Nat) (v : β) (h : j ≠ i) : upd f i v j = f j := by simp [upd, h]
theorem upd_comm {β : Type} (f : Nat → β) (i j : Nat) (a b : β) (h : i ≠ j) :
    upd (upd f i a) j b = upd (upd f j b) i a := by
  funext k; simp only [upd]; by_cases h1 : k = j <;> by_cases h2 : k = i <;> simp_all

@[simp] theorem upd2_same {β : Type} (c : Nat → Nat → β) (i j : Nat) (v : β) : upd2 c i j v i j = v := by simp [upd2]
theorem upd2_other {β : Type} (c : Nat → Nat → β) (i j a b : Nat) (v : β) (h : ¬ (a = i ∧ b = j)) :
    upd2 c i j v a b = c a b := by simp [upd2, h]
theorem upd2_comm {β : Type} (c : Nat → Nat → β) (i j k l : Nat) (v w : β) (h : ¬ (i = k ∧ j = l)) :
    upd2 (upd2 c i j v) k l w = upd2 (upd2 c k l w) i j v := by
  funext a b; simp only [upd2]
  by_cases h1 : a = k ∧ b = l
  · by_cases h2 : a = i ∧ b = j
    · exfalso; apply h
      exact ⟨h2.1.symm.trans h1.1, h2.2.symm.trans h1.2⟩
    · rw [if_pos h1, if_pos h1, if_neg h2]
  · by_cases h2 : a = i ∧ b = j
    · rw [if_neg h1, if_pos h2, if_pos h2]
    · rw [if_neg h1, if_neg h2, if_neg h2, if_neg h1]
theorem upd2_upd2 {β : Type} (c : Nat → Nat → β) (i j : Nat) (v w : β) : upd2 (upd2 c i j v) i j w = upd2 c i j w := by
  funext a b; simp only [upd2]; by_cases h1 : a = i ∧ b = j <;> simp [h1]

/-! ### enabledness of sends -/

theorem room_mono (cap : Option Nat) (m n : Nat) (h : m ≤ n) (hr : room cap n = true) : room cap m = true := by
  cases cap with
  | none => rfl
  | some c => simp only [room, decide_eq_true_eq] at *; omega

variable (cap : Option Nat)

/-- a send that is enabled stays enabled when another process takes a step -/
theorem sendOk_preserved (s b : Sys σ Msg) (i j k : Nat) (hik : i ≠ k) (hk : stepP cap s k = some b)
    (h : sendOk cap s i j = true) : sendOk cap b i j = true := by
  unfold stepP at hk
  cases hpk : s.prog k with
  | nil => simp [hpk] at hk
  | cons ak rk =>
    simp only [hpk] at hk
    by_cases hjk : j = k
    · -- the receiver itself moves: it was not waiting for `i` with an empty channel (it could not have moved), so there was room
      subst hjk
      cases ak with
      | loc f =>
        simp only [Option.some.injEq] at hk; subst hk
        simp only [sendOk, hpk, headIsRecvFrom, Bool.and_false, Bool.or_false] at h
        simp [sendOk, h]
      | send l mk =>
        by_cases hok : sendOk cap s j l = true
        · simp only [hok, if_true, Option.some.injEq] at hk; subst hk
          simp only [sendOk, hpk, headIsRecvFrom, Bool.and_false, Bool.or_false] at h
          have : upd2 s.chan j l (s.chan j l ++ [mk (s.store j)]) i j = s.chan i j :=
            upd2_other _ _ _ _ _ _ (fun hh => hik hh.1)
          simp [sendOk, this, h]
        · simp [hok] at hk
      | recv l uf =>
        cases hc : s.chan l j with
        | nil => simp [hc] at hk
        | cons m ms =>
          simp only [hc, Option.some.injEq] at hk; subst hk
          by_cases hli : l = i
          · subst hli
            have hroom : room cap (s.chan l j).length = true := by
              simp only [sendOk, hc, List.isEmpty_cons, Bool.false_and, Bool.or_false] at h
              simpa [hc] using h
            have : room cap ms.length = true := room_mono cap _ _ (by simp [hc]) hroom
            simp [sendOk, this]
          · have hroom : room cap (s.chan i j).length = true := by
              simp only [sendOk, hpk, headIsRecvFrom] at h
              have : (l == i) = false := by simpa using hli
              simpa [this] using h
            have : upd2 s.chan l j ms i j = s.chan i j := upd2_other _ _ _ _ _ _ (fun hh => hli hh.1.symm)
            simp [sendOk, this, hroom]
    · -- somebody else moves: neither the channel `i → j` nor `j`'s program changes
      have hprog : ∀ r, upd s.prog k r j = s.prog j := fun r => upd_other _ _ _ _ hjk
      cases ak with
      | loc f =>
        simp only [Option.some.injEq] at hk; subst hk
        simpa [sendOk, hprog] using h
      | send l mk =>
        by_cases hok : sendOk cap s k l = true
        · simp only [hok, if_true, Option.some.injEq] at hk; subst hk
          have : upd2 s.chan k l (s.chan k l ++ [mk (s.store k)]) i j = s.chan i j :=
            upd2_other _ _ _ _ _ _ (fun hh => hik hh.1)
          simpa [sendOk, hprog, this] using h
        · simp [hok] at hk
      | recv l uf =>
        cases hc : s.chan l k with
        | nil => simp [hc] at hk
        | cons m ms =>
          simp only [hc, Option.some.injEq] at hk; subst hk
          have : upd2 s.chan l k ms i j = s.chan i j := upd2_other _ _ _ _ _ _ (fun hh => hjk hh.2)
          simpa [sendOk, hprog, this] using h

/-! ### a choreography can be executed to completion -/

theorem proj_nil (p : Nat) : proj ([] : List (GEv σ Msg)) p = [] := rfl

/-- communications are between distinct processes -/
def WellFormed : List (GEv σ Msg) → Prop
  | [] => True
  | GEv.loc _ _ :: rest => WellFormed rest
  | GEv.comm i j _ _ :: rest => i ≠ j ∧ WellFormed rest

/-- the final state of a complete run of a choreography -/
def doneSys (st : Nat → σ) : Sys σ Msg := { prog := fun _ => [], store := st, chan := fun _ _ => [] }

theorem canonical_complete (G : List (GEv σ Msg)) (hw : WellFormed G) (st : Nat → σ) :
    runSched cap (initSys G st) (canonicalSched G) = some (doneSys (seqRun G st)) := by
  induction G generalizing st with
  | nil => rfl
  | cons e rest ih =>
    cases e with
    | loc i f =>
      have hstep : stepP cap (initSys (GEv.loc i f :: rest) st) i = some (initSys rest (upd st i (f (st i)))) := by
        simp only [stepP, initSys, proj, if_true]
        congr 1
        simp only [Sys.mk.injEq, and_true]
        funext p
        by_cases hp : p = i
        · subst hp; simp
        · rw [upd_other _ _ _ _ hp]; simp [proj, hp]
      simp only [canonicalSched, runSched, hstep]
      exact ih hw _
    | comm i j mk uf =>
      obtain ⟨hij, hw'⟩ := hw
      have hji : j ≠ i := fun h => hij h.symm
      -- the send step
      have h1 : stepP cap (initSys (GEv.comm i j mk uf :: rest) st) i
          = some { prog := upd (proj (GEv.comm i j mk uf :: rest)) i (proj rest i), store := st,
                   chan := upd2 (fun _ _ => []) i j [mk (st i)] } := by
        simp [stepP, initSys, proj, sendOk, headIsRecvFrom, hji]
      -- then the receive step
      have h2 : stepP cap (Sys.mk (upd (proj (GEv.comm i j mk uf :: rest)) i (proj rest i)) st
            (upd2 (fun _ _ => ([] : List Msg)) i j [mk (st i)])) j
          = some (initSys rest (upd st j (uf (st j) (mk (st i))))) := by
        have hp : upd (proj (GEv.comm i j mk uf :: rest)) i (proj rest i) j = Act.recv i uf :: proj rest j := by
          rw [upd_other _ _ _ _ hji]; simp [proj, hji]
        simp only [stepP, hp, upd2_same, initSys]
        congr 1
        simp only [Sys.mk.injEq, true_and]
        constructor
        · funext p
          by_cases hpj : p = j
          · subst hpj; simp
          · rw [upd_other _ _ _ _ hpj]
            by_cases hpi : p = i
            · subst hpi; simp
            · rw [upd_other _ _ _ _ hpi]; simp [proj, hpi, hpj]
        · rw [upd2_upd2]
          funext a b; simp [upd2]
      simp only [canonicalSched, runSched, h1, h2]
      exact ih hw' _

/-! ### steps of different processes commute -/

theorem diamond (s a b : Sys σ Msg) (i j : Nat) (hij : i ≠ j) (hi : stepP cap s i = some a) (hj : stepP cap s j = some b) :
    ∃ c, stepP cap a j = some c ∧ stepP cap b i = some c := by
  have hji : j ≠ i := fun h => hij h.symm
  have hpres_i : ∀ t, sendOk cap s i t = true → sendOk cap b i t = true :=
    fun t h => sendOk_preserved cap s b i t j hij hj h
  have hpres_j : ∀ t, sendOk cap s j t = true → sendOk cap a j t = true :=
    fun t h => sendOk_preserved cap s a j t i hji hi h
  unfold stepP at hi hj
  cases hpi : s.prog i with
  | nil => simp [hpi] at hi
  | cons ai ri =>
    cases hpj : s.prog j with
    | nil => simp [hpj] at hj
    | cons aj rj =>
      simp only [hpi] at hi
      simp only [hpj] at hj
      cases ai with
      | loc fi =>
        simp only [Option.some.injEq] at hi
        subst hi
        cases aj with
        | loc fj =>
          simp only [Option.some.injEq] at hj; subst hj
          refine ⟨{ prog := upd (upd s.prog i ri) j rj, store := upd (upd s.store i (fi (s.store i))) j (fj (s.store j)), chan := s.chan }, ?_, ?_⟩
          · simp [stepP, upd_other _ _ _ _ hji, hpj] <;> first | assumption | exact hpres_i _ ‹_› | exact hpres_j _ ‹_›
          · simp [stepP, upd_other _ _ _ _ hij, hpi, upd_comm _ _ _ _ _ hij] <;> first | assumption | exact hpres_i _ ‹_› | exact hpres_j _ ‹_›
        | send k mk =>
          by_cases hokj : sendOk cap s j k = true
          case neg => simp [hokj] at hj
          simp only [hokj, if_true, Option.some.injEq] at hj; subst hj
          have hokj' := hpres_j _ hokj
          refine ⟨{ prog := upd (upd s.prog i ri) j rj, store := upd s.store i (fi (s.store i)),
                    chan := upd2 s.chan j k (s.chan j k ++ [mk (s.store j)]) }, ?_, ?_⟩
          · simp [stepP, upd_other _ _ _ _ hji, hpj] <;> first | assumption | exact hpres_i _ ‹_› | exact hpres_j _ ‹_›
          · simp [stepP, upd_other _ _ _ _ hij, hpi, upd_comm _ _ _ _ _ hij] <;> first | assumption | exact hpres_i _ ‹_› | exact hpres_j _ ‹_›
        | recv k uf =>
          cases hc : s.chan k j with
          | nil => simp [hc] at hj
          | cons m ms =>
            simp only [hc, Option.some.injEq] at hj; subst hj
            refine ⟨{ prog := upd (upd s.prog i ri) j rj, store := upd (upd s.store i (fi (s.store i))) j (uf (s.store j) m),
                      chan := upd2 s.chan k j ms }, ?_, ?_⟩
            · simp [stepP, upd_other _ _ _ _ hji, hpj, hc] <;> first | assumption | exact hpres_i _ ‹_› | exact hpres_j _ ‹_›
            · simp [stepP, upd_other _ _ _ _ hij, hpi, upd_comm _ _ _ _ _ hij] <;> first | assumption | exact hpres_i _ ‹_› | exact hpres_j _ ‹_›
      | send ki mki =>
        by_cases hoki : sendOk cap s i ki = true
        case neg => simp [hoki] at hi
        simp only [hoki, if_true, Option.some.injEq] at hi
        subst hi
        cases aj with
        | loc fj =>
          simp only [Option.some.injEq] at hj; subst hj
          refine ⟨{ prog := upd (upd s.prog i ri) j rj, store := upd s.store j (fj (s.store j)),
                    chan := upd2 s.chan i ki (s.chan i ki ++ [mki (s.store i)]) }, ?_, ?_⟩
          · simp [stepP, upd_other _ _ _ _ hji, hpj] <;> first | assumption | exact hpres_i _ ‹_› | exact hpres_j _ ‹_›
          · simp [stepP, upd_other _ _ _ _ hij, hpi, upd_comm _ _ _ _ _ hij] <;> first | assumption | exact hpres_i _ ‹_› | exact hpres_j _ ‹_›
        | send kj mkj =>
          by_cases hokj : sendOk cap s j kj = true
          case neg => simp [hokj] at hj
          simp only [hokj, if_true, Option.some.injEq] at hj; subst hj
          have hokj' := hpres_j _ hokj
          have hne : ¬ (i = j ∧ ki = kj) := fun h => hij h.1
          refine ⟨{ prog := upd (upd s.prog i ri) j rj, store := s.store,
                    chan := upd2 (upd2 s.chan i ki (s.chan i ki ++ [mki (s.store i)])) j kj (s.chan j kj ++ [mkj (s.store j)]) }, ?_, ?_⟩
          · have : upd2 s.chan i ki (s.chan i ki ++ [mki (s.store i)]) j kj = s.chan j kj :=
              upd2_other _ _ _ _ _ _ (fun h => hji h.1)
            simp [stepP, upd_other _ _ _ _ hji, hpj, this] <;> first | assumption | exact hpres_i _ ‹_› | exact hpres_j _ ‹_›
          · have : upd2 s.chan j kj (s.chan j kj ++ [mkj (s.store j)]) i ki = s.chan i ki :=
              upd2_other _ _ _ _ _ _ (fun h => hij h.1)
            simp [stepP, upd_other _ _ _ _ hij, hpi, this, upd_comm _ _ _ _ _ hij, upd2_comm _ _ _ _ _ _ _ hne] <;> first | assumption | exact hpres_i _ ‹_› | exact hpres_j _ ‹_›
        | recv kj uf =>
          cases hc : s.chan kj j with
          | nil => simp [hc] at hj
          | cons m ms =>
            simp only [hc, Option.some.injEq] at hj; subst hj
            by_cases hsame : kj = i ∧ j = ki
            · -- i sends to j on the very channel j receives from: append at the tail, pop at the head
              obtain ⟨rfl, rfl⟩ := hsame
              refine ⟨{ prog := upd (upd s.prog kj ri) j rj, store := upd s.store j (uf (s.store j) m),
                        chan := upd2 s.chan kj j (ms ++ [mki (s.store kj)]) }, ?_, ?_⟩
              · simp [stepP, upd_other _ _ _ _ hji, hpj, hc, upd2_upd2] <;> first | assumption | exact hpres_i _ ‹_› | exact hpres_j _ ‹_›
              · simp [stepP, upd_other _ _ _ _ hij, hpi, upd_comm _ _ _ _ _ hij, upd2_upd2] <;> first | assumption | exact hpres_i _ ‹_› | exact hpres_j _ ‹_›
            · have hne : ¬ (i = kj ∧ ki = j) := fun h => hsame ⟨h.1.symm, h.2.symm⟩
              refine ⟨{ prog := upd (upd s.prog i ri) j rj, store := upd s.store j (uf (s.store j) m),
                        chan := upd2 (upd2 s.chan i ki (s.chan i ki ++ [mki (s.store i)])) kj j ms }, ?_, ?_⟩
              · have : upd2 s.chan i ki (s.chan i ki ++ [mki (s.store i)]) kj j = s.chan kj j :=
                  upd2_other _ _ _ _ _ _ (fun h => hsame ⟨h.1, h.2⟩)
                simp [stepP, upd_other _ _ _ _ hji, hpj, this, hc] <;> first | assumption | exact hpres_i _ ‹_› | exact hpres_j _ ‹_›
              · have : upd2 s.chan kj j ms i ki = s.chan i ki :=
                  upd2_other _ _ _ _ _ _ (fun h => hsame ⟨h.1.symm, h.2.symm⟩)
                simp [stepP, upd_other _ _ _ _ hij, hpi, this, upd_comm _ _ _ _ _ hij, upd2_comm _ _ _ _ _ _ _ hne] <;> first | assumption | exact hpres_i _ ‹_› | exact hpres_j _ ‹_›
      | recv ki usei =>
        cases hci : s.chan ki i with
        | nil => simp [hci] at hi
        | cons mi msi =>
          simp only [hci, Option.some.injEq] at hi
          subst hi
          cases aj with
          | loc fj =>
            simp only [Option.some.injEq] at hj; subst hj
            refine ⟨{ prog := upd (upd s.prog i ri) j rj, store := upd (upd s.store i (usei (s.store i) mi)) j (fj (s.store j)),
                      chan := upd2 s.chan ki i msi }, ?_, ?_⟩
            · simp [stepP, upd_other _ _ _ _ hji, hpj] <;> first | assumption | exact hpres_i _ ‹_› | exact hpres_j _ ‹_›
            · simp [stepP, upd_other _ _ _ _ hij, hpi, hci, upd_comm _ _ _ _ _ hij] <;> first | assumption | exact hpres_i _ ‹_› | exact hpres_j _ ‹_›
          | send kj mkj =>
            by_cases hokj : sendOk cap s j kj = true
            case neg => simp [hokj] at hj
            simp only [hokj, if_true, Option.some.injEq] at hj; subst hj
            have hokj' := hpres_j _ hokj
            by_cases hsame : ki = j ∧ i = kj
            · obtain ⟨rfl, rfl⟩ := hsame
              refine ⟨{ prog := upd (upd s.prog i ri) ki rj, store := upd s.store i (usei (s.store i) mi),
                        chan := upd2 s.chan ki i (msi ++ [mkj (s.store ki)]) }, ?_, ?_⟩
              · simp [stepP, upd_other _ _ _ _ hji, hpj, upd2_upd2] <;> first | assumption | exact hpres_i _ ‹_› | exact hpres_j _ ‹_›
              · simp [stepP, upd_other _ _ _ _ hij, hpi, hci, upd_comm _ _ _ _ _ hij, upd2_upd2] <;> first | assumption | exact hpres_i _ ‹_› | exact hpres_j _ ‹_›
            · have hne : ¬ (ki = j ∧ i = kj) := hsame
              refine ⟨{ prog := upd (upd s.prog i ri) j rj, store := upd s.store i (usei (s.store i) mi),
                        chan := upd2 (upd2 s.chan ki i msi) j kj (s.chan j kj ++ [mkj (s.store j)]) }, ?_, ?_⟩
              · have : upd2 s.chan ki i msi j kj = s.chan j kj :=
                  upd2_other _ _ _ _ _ _ (fun h => hsame ⟨h.1.symm, h.2.symm⟩)
                simp [stepP, upd_other _ _ _ _ hji, hpj, this] <;> first | assumption | exact hpres_i _ ‹_› | exact hpres_j _ ‹_›
              · have : upd2 s.chan j kj (s.chan j kj ++ [mkj (s.store j)]) ki i = s.chan ki i :=
                  upd2_other _ _ _ _ _ _ (fun h => hsame ⟨h.1, h.2⟩)
                simp [stepP, upd_other _ _ _ _ hij, hpi, this, hci, upd_comm _ _ _ _ _ hij, upd2_comm _ _ _ _ _ _ _ hne] <;> first | assumption | exact hpres_i _ ‹_› | exact hpres_j _ ‹_›
          | recv kj usej =>
            cases hcj : s.chan kj j with
            | nil => simp [hcj] at hj
            | cons mj msj =>
              simp only [hcj, Option.some.injEq] at hj; subst hj
              have hne : ¬ (ki = kj ∧ i = j) := fun h => hij h.2
              refine ⟨{ prog := upd (upd s.prog i ri) j rj,
                        store := upd (upd s.store i (usei (s.store i) mi)) j (usej (s.store j) mj),
                        chan := upd2 (upd2 s.chan ki i msi) kj j msj }, ?_, ?_⟩
              · have : upd2 s.chan ki i msi kj j = s.chan kj j :=
                  upd2_other _ _ _ _ _ _ (fun h => hji h.2)
                simp [stepP, upd_other _ _ _ _ hji, hpj, this, hcj] <;> first | assumption | exact hpres_i _ ‹_› | exact hpres_j _ ‹_›
              · have : upd2 s.chan kj j msj ki i = s.chan ki i :=
                  upd2_other _ _ _ _ _ _ (fun h => hij h.2)
                simp [stepP, upd_other _ _ _ _ hij, hpi, this, hci, upd_comm _ _ _ _ _ hij, upd2_comm _ _ _ _ _ _ _ hne] <;> first | assumption | exact hpres_i _ ‹_› | exact hpres_j _ ‹_›

/-! ### random descent: one complete execution ⇒ every execution can be completed to the same state -/

/-- a state in which every program is empty -/
def Finished (t : Sys σ Msg) : Prop := ∀ i, t.prog i = []

theorem finished_no_step (t : Sys σ Msg) (h : Finished t) (i : Nat) : stepP cap t i = none := by
  simp [stepP, h i]

private theorem descent_step (t : Sys σ Msg) (ht : Finished t) :
    ∀ (L : Nat) (s : Sys σ Msg) (sched : List Nat), sched.length = L → runSched cap s sched = some t →
      ∀ (i : Nat) (s' : Sys σ Msg), stepP cap s i = some s' →
        ∃ sched', sched'.length + 1 = L ∧ runSched cap s' sched' = some t := by
  intro L
  induction L with
  | zero =>
    intro s sched hl hr i s' hs
    have : sched = [] := List.length_eq_zero_iff.mp hl
    subst this
    simp only [runSched, Option.some.injEq] at hr
    subst hr
    rw [finished_no_step cap s ht i] at hs
    exact absurd hs (by simp)
  | succ L ih =>
    intro s sched hl hr i s' hs
    cases sched with
    | nil => simp at hl
    | cons j rest =>
      simp only [List.length_cons, Nat.add_right_cancel_iff] at hl
      simp only [runSched] at hr
      cases hsj : stepP cap s j with
      | none => simp [hsj] at hr
      | some s1 =>
        simp only [hsj] at hr
        by_cases hij : i = j
        · subst hij
          rw [hs] at hsj
          simp only [Option.some.injEq] at hsj
          subst hsj
          exact ⟨rest, by omega, hr⟩
        · obtain ⟨c, hc1, hc2⟩ := diamond cap s s' s1 i j hij hs hsj
          obtain ⟨sched'', hl'', hr''⟩ := ih s1 rest hl hr i c hc2
          refine ⟨j :: sched'', by simp; omega, ?_⟩
          simp only [runSched, hc1]
          exact hr''

/-- if one execution from `s` completes in `t`, every execution from `s` can be continued to `t`,
    and the total number of steps is always the same -/
theorem random_descent (t : Sys σ Msg) (ht : Finished t) (s : Sys σ Msg) (sched : List Nat) (hr : runSched cap s sched = some t)
    (sched' : List Nat) (u : Sys σ Msg) (hu : runSched cap s sched' = some u) :
    ∃ sched'', runSched cap u sched'' = some t ∧ sched'.length + sched''.length = sched.length := by
  induction sched' generalizing s sched with
  | nil =>
    simp only [runSched, Option.some.injEq] at hu
    subst hu
    exact ⟨sched, hr, by simp⟩
  | cons i rest ih =>
    simp only [runSched] at hu
    cases hsi : stepP cap s i with
    | none => simp [hsi] at hu
    | some s' =>
      simp only [hsi] at hu
      obtain ⟨sc, hl, hrc⟩ := descent_step cap t ht sched.length s sched rfl hr i s' hsi
      obtain ⟨sched'', h1, h2⟩ := ih s' sc hrc hu
      exact ⟨sched'', h1, by simp only [List.length_cons]; omega⟩

/-- **termination**: no execution is longer than the complete one -/
theorem terminates (t : Sys σ Msg) (ht : Finished t) (s : Sys σ Msg) (sched : List Nat) (hr : runSched cap s sched = some t)
    (sched' : List Nat) (u : Sys σ Msg) (hu : runSched cap s sched' = some u) : sched'.length ≤ sched.length := by
  obtain ⟨_, _, h⟩ := random_descent cap t ht s sched hr sched' u hu
  omega

/-- **no deadlock**: every reachable state is either the finished one or has an enabled process -/
theorem no_deadlock (t : Sys σ Msg) (ht : Finished t) (s : Sys σ Msg) (sched : List Nat) (hr : runSched cap s sched = some t)
    (sched' : List Nat) (u : Sys σ Msg) (hu : runSched cap s sched' = some u) :
    u = t ∨ ∃ i u', stepP cap u i = some u' := by
  obtain ⟨sched'', h1, _⟩ := random_descent cap t ht s sched hr sched' u hu
  cases sched'' with
  | nil => left; simpa [runSched] using h1
  | cons i rest =>
    right
    simp only [runSched] at h1
    cases hs : stepP cap u i with
    | none => simp [hs] at h1
    | some u' => exact ⟨i, u', hs⟩

/-- **schedule independence**: every maximal execution — under every interleaving — ends in `t` -/
theorem schedule_independent (t : Sys σ Msg) (ht : Finished t) (s : Sys σ Msg) (sched : List Nat) (hr : runSched cap s sched = some t)
    (sched' : List Nat) (u : Sys σ Msg) (hu : runSched cap s sched' = some u) (hmax : ∀ i, stepP cap u i = none) : u = t := by
  rcases no_deadlock cap t ht s sched hr sched' u hu with h | ⟨i, u', h⟩
  · exact h
  · rw [hmax i] at h; exact absurd h (by simp)

/-- the three statements for the projections of any well-formed choreography: every interleaving of
    the processes terminates, never deadlocks, and ends with the sequential result and empty channels -/
theorem choreography_all_interleavings (G : List (GEv σ Msg)) (hw : WellFormed G) (st : Nat → σ)
    (sched' : List Nat) (u : Sys σ Msg) (hu : runSched cap (initSys G st) sched' = some u) :
    sched'.length ≤ (canonicalSched G).length ∧
    (u = doneSys (seqRun G st) ∨ ∃ i u', stepP cap u i = some u') ∧
    ((∀ i, stepP cap u i = none) → u = doneSys (seqRun G st)) := by
  have hfin : Finished (doneSys (seqRun G st) : Sys σ Msg) := fun _ => rfl
  have hc := canonical_complete cap G hw st
  exact ⟨terminates cap _ hfin _ _ hc _ _ hu, no_deadlock cap _ hfin _ _ hc _ _ hu,
    schedule_independent cap _ hfin _ _ hc _ _ hu⟩

end Async
end HmcVerif
