import Mathlib.Tactic.NormNum
import Mathlib.Data.Real.Basic
/-
  The model writes its constants as scientific literals (`0.5`, `1.0`, `2.0`) so that one
  definition serves `Float` and `ℝ`. Over ℝ they are the expected rationals.
-/
namespace HmcVerif
theorem lit_zero : (0.0 : ℝ) = 0 := by norm_num
theorem lit_half : (0.5 : ℝ) = 1 / 2 := by norm_num
theorem lit_one : (1.0 : ℝ) = 1 := by norm_num
theorem lit_two : (2.0 : ℝ) = 2 := by norm_num
theorem lit_seven : (7.0 : ℝ) = 7 := by norm_num
theorem lit_eleven : (11.0 : ℝ) = 11 := by norm_num
end HmcVerif
