import HmcVerif.Real.BoxedKernel
import HmcVerif.Real.FoldVolumeO
import HmcVerif.Real.Volume
import HmcVerif.Props.C01
import Mathlib.MeasureTheory.Constructions.Pi
import Mathlib.MeasureTheory.Measure.Lebesgue.EqHaar
import Mathlib.MeasureTheory.Measure.Haar.Unique
/-
  Boxed targets in any dimension with a Unit / Diagonal metric (C04): the model's own sub-step
  `stepOp (diagVel w) grad (boxRefl l u)` preserves Lebesgue measure restricted to the open box (the boxed
  drift acts coordinate by coordinate: product of the one-coordinate maps of `FoldVolume`; a kick leaves
  positions alone), a palindromic trajectory followed by a momentum flip is an involution almost
  everywhere, hence the Metropolis-corrected trajectory leaves every density on the box invariant.
-/
set_option linter.unusedSectionVars false
set_option linter.unusedSimpArgs false
set_option linter.unusedVariables false
open MeasureTheory Set ENNReal
namespace HmcVerif
variable {ι : Type} [Fintype ι]

/-- positions strictly inside the box (each coordinate two-sided, one-sided or unbounded), any momentum -/
def openBox (lb ub : ι → Option ℝ) : Set (Vec ι × Vec ι) := {x | ∀ i, strictlyInBox1 (lb i) (ub i) (x.1 i)}

/-- the model's sub-step on `V × V`: diagonal metric `w`, gradient `g`, box corrector -/
noncomputable def stepBox (lb ub : ι → Option ℝ) (w : ι → ℝ) (g : Vec ι → Vec ι) (x : Vec ι × Vec ι) (o : Op ℝ) : Vec ι × Vec ι :=
  toProd (stepOp (C01.diagVel w) g (C01.boxRefl lb ub) (ofProd x) o)

/-- the model's trajectory on `V × V` -/
noncomputable def trajBox (lb ub : ι → Option ℝ) (w : ι → ℝ) (g : Vec ι → Vec ι) (ops : List (Op ℝ)) (x : Vec ι × Vec ι) : Vec ι × Vec ι :=
  toProd (runOps (C01.diagVel w) g (C01.boxRefl lb ub) ops (ofProd x))

theorem trajBox_cons (lb ub : ι → Option ℝ) (w : ι → ℝ) (g : Vec ι → Vec ι) (o : Op ℝ) (os : List (Op ℝ)) (x : Vec ι × Vec ι) :
    trajBox lb ub w g (o :: os) x = trajBox lb ub w g os (stepBox lb ub w g x o) := rfl

noncomputable def eN : (ι → ℝ × ℝ) ≃ᵐ Vec ι × Vec ι := MeasurableEquiv.arrowProdEquivProdArrow ℝ ℝ ι

noncomputable def driftPi (lb ub : ι → Option ℝ) (w : ι → ℝ) (c : ℝ) (a : ι → ℝ × ℝ) : ι → ℝ × ℝ :=
  fun i => cdriftMapO (lb i) (ub i) (c * w i) (a i)

theorem stepBox_drift (lb ub : ι → Option ℝ) (w : ι → ℝ) (g : Vec ι → Vec ι) (c : ℝ) :
    (fun x => stepBox lb ub w g x (Op.drift c)) = (eN : (ι → ℝ × ℝ) → Vec ι × Vec ι) ∘ driftPi lb ub w c ∘ (eN (ι := ι)).symm := by
  funext x
  simp only [stepBox, stepOp, toProd, C01.boxRefl, Function.comp, driftPi, cdriftMapO, cdrift1, eN]
  refine Prod.ext ?_ ?_ <;> funext i <;>
    simp [MeasurableEquiv.arrowProdEquivProdArrow, Equiv.arrowProdEquivProdArrow, ofProd, C01.diagVel, mul_assoc,
      driftPi, cdriftMapO, cdrift1]

theorem stepBox_kick (lb ub : ι → Option ℝ) (w : ι → ℝ) (g : Vec ι → Vec ι) (c : ℝ) :
    (fun x => stepBox lb ub w g x (Op.kick c)) = fun x : Vec ι × Vec ι => (x.1, x.2 - c • g x.1) := rfl

theorem openBox_measurable (lb ub : ι → Option ℝ) : MeasurableSet (openBox lb ub) := by
  have : openBox lb ub = ⋂ i, (fun x : Vec ι × Vec ι => (x.1 i, x.2 i)) ⁻¹' stripO (lb i) (ub i) := by
    ext x; simp [openBox, stripO]
  rw [this]
  refine MeasurableSet.iInter fun i => ?_
  have hm : Measurable (fun x : Vec ι × Vec ι => (x.1 i, x.2 i)) :=
    ((measurable_pi_apply i).comp measurable_fst).prodMk ((measurable_pi_apply i).comp measurable_snd)
  exact hm (stripO_measurable (lb i) (ub i))

theorem eN_preimage_box (lb ub : ι → Option ℝ) :
    (eN : (ι → ℝ × ℝ) → Vec ι × Vec ι) ⁻¹' openBox lb ub = univ.pi (fun i => stripO (lb i) (ub i)) := by
  ext a
  simp [openBox, stripO, eN, MeasurableEquiv.arrowProdEquivProdArrow, Equiv.arrowProdEquivProdArrow]

theorem eN_mp_box (lb ub : ι → Option ℝ) :
    MeasurePreserving (eN : (ι → ℝ × ℝ) → Vec ι × Vec ι)
      ((volume : Measure (ι → ℝ × ℝ)).restrict (univ.pi fun i => stripO (lb i) (ub i)))
      (((volume : Measure (Vec ι)).prod volume).restrict (openBox lb ub)) := by
  have := (volume_measurePreserving_arrowProdEquivProdArrow ℝ ℝ ι).restrict_preimage (openBox_measurable lb ub)
  rw [← eN_preimage_box]
  exact this

theorem driftPi_mp (lb ub : ι → Option ℝ) (w : ι → ℝ) (hwf : C01.WellFormed lb ub) (c : ℝ) :
    MeasurePreserving (driftPi lb ub w c)
      ((volume : Measure (ι → ℝ × ℝ)).restrict (univ.pi fun i => stripO (lb i) (ub i)))
      ((volume : Measure (ι → ℝ × ℝ)).restrict (univ.pi fun i => stripO (lb i) (ub i))) := by
  have h := measurePreserving_pi (fun i => (volume : Measure (ℝ × ℝ)).restrict (stripO (lb i) (ub i)))
    (fun i => (volume : Measure (ℝ × ℝ)).restrict (stripO (lb i) (ub i)))
    (fun i => cdriftO_mp_strip (lb i) (ub i) (hwf i) (c * w i))
  have e : (volume : Measure (ι → ℝ × ℝ)).restrict (univ.pi fun i => stripO (lb i) (ub i))
      = Measure.pi (fun i => (volume : Measure (ℝ × ℝ)).restrict (stripO (lb i) (ub i))) :=
    Measure.restrict_pi_pi (fun _ => (volume : Measure (ℝ × ℝ))) _
  rw [e]; exact h

theorem stepBox_mp (lb ub : ι → Option ℝ) (w : ι → ℝ) (hwf : C01.WellFormed lb ub) (g : Vec ι → Vec ι) (hg : Measurable g) (o : Op ℝ) :
    MeasurePreserving (fun x => stepBox lb ub w g x o)
      (((volume : Measure (Vec ι)).prod volume).restrict (openBox lb ub))
      (((volume : Measure (Vec ι)).prod volume).restrict (openBox lb ub)) := by
  cases o with
  | drift c =>
    rw [stepBox_drift]
    exact (eN_mp_box lb ub).comp ((driftPi_mp lb ub w hwf c).comp ((eN_mp_box lb ub).symm eN))
  | kick c =>
    rw [stepBox_kick]
    have := (kick_measurePreserving g hg c).restrict_preimage (openBox_measurable lb ub)
    exact this

theorem trajBox_mp (lb ub : ι → Option ℝ) (w : ι → ℝ) (hwf : C01.WellFormed lb ub) (g : Vec ι → Vec ι) (hg : Measurable g) (ops : List (Op ℝ)) :
    MeasurePreserving (trajBox lb ub w g ops)
      (((volume : Measure (Vec ι)).prod volume).restrict (openBox lb ub))
      (((volume : Measure (Vec ι)).prod volume).restrict (openBox lb ub)) := by
  induction ops with
  | nil => exact MeasurePreserving.id _
  | cons o os ih =>
    have : trajBox lb ub w g (o :: os) = trajBox lb ub w g os ∘ (fun x => stepBox lb ub w g x o) := by
      funext x; exact trajBox_cons lb ub w g o os x
    rw [this]
    exact ih.comp (stepBox_mp lb ub w hwf g hg o)

def flipN (x : Vec ι × Vec ι) : Vec ι × Vec ι := (x.1, -x.2)

theorem flipN_mp_box (lb ub : ι → Option ℝ) :
    MeasurePreserving (flipN : Vec ι × Vec ι → Vec ι × Vec ι)
      (((volume : Measure (Vec ι)).prod volume).restrict (openBox lb ub))
      (((volume : Measure (Vec ι)).prod volume).restrict (openBox lb ub)) := by
  have h : MeasurePreserving (flipN : Vec ι × Vec ι → Vec ι × Vec ι)
      ((volume : Measure (Vec ι)).prod volume) ((volume : Measure (Vec ι)).prod volume) :=
    (MeasurePreserving.id (volume : Measure (Vec ι))).prod (Measure.measurePreserving_neg (volume : Measure (Vec ι)))
  exact h.restrict_preimage (openBox_measurable lb ub)

/-- almost every start is strictly inside the box at the beginning of every sub-step -/
theorem pathGoodN_ae (lb ub : ι → Option ℝ) (w : ι → ℝ) (hwf : C01.WellFormed lb ub) (g : Vec ι → Vec ι) (hg : Measurable g) (ops : List (Op ℝ)) :
    ∀ᵐ x ∂(((volume : Measure (Vec ι)).prod volume).restrict (openBox lb ub)),
      Split.PathGood (stepOp (C01.diagVel w) g (C01.boxRefl lb ub))
        (fun s _ => toProd s ∈ openBox lb ub) ops (ofProd x) := by
  induction ops with
  | nil => exact ae_of_all _ fun _ => trivial
  | cons o os ih =>
    have h1 : ∀ᵐ x ∂(((volume : Measure (Vec ι)).prod volume).restrict (openBox lb ub)), x ∈ openBox lb ub :=
      ae_restrict_mem (openBox_measurable lb ub)
    have h2 := (stepBox_mp lb ub w hwf g hg o).quasiMeasurePreserving.ae ih
    filter_upwards [h1, h2] with x a b
    exact ⟨a, b⟩

/-- `Ψ = flip ∘ trajectory` is an involution almost everywhere on the box (palindromic op lists) -/
theorem psiN_involution_ae (lb ub : ι → Option ℝ) (w : ι → ℝ) (hwf : C01.WellFormed lb ub) (g : Vec ι → Vec ι) (hg : Measurable g)
    (ops : List (Op ℝ)) (hp : ops.reverse = ops) :
    ∀ᵐ x ∂(((volume : Measure (Vec ι)).prod volume).restrict (openBox lb ub)),
      flipN (trajBox lb ub w g ops (flipN (trajBox lb ub w g ops x))) = x := by
  filter_upwards [pathGoodN_ae lb ub w hwf g hg ops] with x hx
  have := Split.palindrome_reversible_on
    (stepOp (C01.diagVel w) g (C01.boxRefl lb ub)) C01.flip
    (fun s _ => toProd s ∈ openBox lb ub)
    (fun o s hs => C01.boxed_step_reversible _ _ hwf w g o s (by
      cases o with
      | drift c => exact hs
      | kick c => trivial))
    ops hp (ofProd x) hx
  have e : ∀ y : Vec ι × Vec ι, ofProd (flipN y) = C01.flip (ofProd y) := fun y => rfl
  simp only [trajBox, runOps, e] at this ⊢
  have h2 : ∀ s : PS (Vec ι), ofProd (toProd s) = s := fun s => rfl
  rw [h2, this]
  simp [flipN, toProd, ofProd, C01.flip]

/-- **C01, volume preservation with reflections, any dimension, Unit / Diagonal metric, any box**:
    the proposal map of every integrator (every `n`, `h`, coefficient set, measurable gradient) carries
    Lebesgue measure on the open box to itself -/
theorem C01.propose_volume_preserving_boxed_diag (lb ub : ι → Option ℝ) (w : ι → ℝ) (hwf : C01.WellFormed lb ub) (g : Vec ι → Vec ι)
    (hg : Measurable g) (c : Coeffs ℝ) (i : Integrator) (h : ℝ) (n : Nat) :
    MeasurePreserving
      (fun x : Vec ι × Vec ι => toProd (runOps (C01.diagVel w) g
        (C01.boxRefl lb ub) (schedule c i h n) (ofProd x)))
      (((volume : Measure (Vec ι)).prod volume).restrict (openBox lb ub))
      (((volume : Measure (Vec ι)).prod volume).restrict (openBox lb ub)) :=
  trajBox_mp lb ub w hwf g hg (schedule c i h n)

/-- **C01, reversibility with reflections for almost every start**: the set of starts excluded by the
    hypothesis of `propose_reversible_boxed_diag_partial` (some sub-step begins exactly on a wall) is a null
    set of the box - every integrator, `n`, `h`, any dimension, Unit / Diagonal metric, any box -/
theorem C01.propose_reversible_boxed_diag_ae (lb ub : ι → Option ℝ) (w : ι → ℝ) (hwf : C01.WellFormed lb ub)
    (g : Vec ι → Vec ι) (hg : Measurable g) (c : Coeffs ℝ) (i : Integrator) (h : ℝ) (n : Nat) :
    ∀ᵐ x ∂(((volume : Measure (Vec ι)).prod volume).restrict (openBox lb ub)),
      runOps (C01.diagVel w) g (C01.boxRefl lb ub) (schedule c i h n)
        (C01.flip (runOps (C01.diagVel w) g (C01.boxRefl lb ub) (schedule c i h n) (ofProd x))) = C01.flip (ofProd x) := by
  filter_upwards [pathGoodN_ae lb ub w hwf g hg (schedule c i h n)] with x hx
  exact Split.palindrome_reversible_on _ C01.flip (fun s _ => toProd s ∈ openBox lb ub)
    (fun o s hs => C01.boxed_step_reversible _ _ hwf w g o s (by
      cases o with
      | drift c => exact hs
      | kick c => trivial)) _ (C01.schedule_palindrome c i h n) (ofProd x) hx

end HmcVerif
