import HmcVerif.Real.BoxedKernel
import HmcVerif.Real.Volume
import HmcVerif.Props.C01
import Mathlib.MeasureTheory.Constructions.Pi
import Mathlib.MeasureTheory.Measure.Lebesgue.EqHaar
import Mathlib.MeasureTheory.Measure.Haar.Unique
/-
  Boxed targets in any dimension with a Unit / Diagonal metric (C04): the model's own sub-step
  `stepOp (diagVel w) grad (boxRefl l u)` preserves Lebesgue measure restricted to the open box (the boxed
  drift acts coordinate by coordinate: product of the one-coordinate maps of `FoldVolume`; a kick leaves
  positions alone), a palindromic trajectory followed by a momentum flip is an involution almost
  everywhere, hence the Metropolis-corrected trajectory leaves every density on the box invariant.
-/
set_option linter.unusedSectionVars false
set_option linter.unusedSimpArgs false
set_option linter.unusedVariables false
open MeasureTheory Set ENNReal
namespace HmcVerif
variable {ι : Type} [Fintype ι]

/-- positions strictly inside the box `∏ (l i, u i)`, any momentum -/
def openBox (l u : ι → ℝ) : Set (Vec ι × Vec ι) := {x | ∀ i, l i < x.1 i ∧ x.1 i < u i}

/-- the model's sub-step on `V × V`: diagonal metric `w`, gradient `g`, box corrector -/
noncomputable def stepBox (l u w : ι → ℝ) (g : Vec ι → Vec ι) (x : Vec ι × Vec ι) (o : Op ℝ) : Vec ι × Vec ι :=
  toProd (stepOp (C01.diagVel w) g (C01.boxRefl (fun i => some (l i)) (fun i => some (u i))) (ofProd x) o)

/-- the model's trajectory on `V × V` -/
noncomputable def trajBox (l u w : ι → ℝ) (g : Vec ι → Vec ι) (ops : List (Op ℝ)) (x : Vec ι × Vec ι) : Vec ι × Vec ι :=
  toProd (runOps (C01.diagVel w) g (C01.boxRefl (fun i => some (l i)) (fun i => some (u i))) ops (ofProd x))

theorem trajBox_cons (l u w : ι → ℝ) (g : Vec ι → Vec ι) (o : Op ℝ) (os : List (Op ℝ)) (x : Vec ι × Vec ι) :
    trajBox l u w g (o :: os) x = trajBox l u w g os (stepBox l u w g x o) := rfl

noncomputable def eN : (ι → ℝ × ℝ) ≃ᵐ Vec ι × Vec ι := MeasurableEquiv.arrowProdEquivProdArrow ℝ ℝ ι

noncomputable def driftPi (l u w : ι → ℝ) (c : ℝ) (a : ι → ℝ × ℝ) : ι → ℝ × ℝ :=
  fun i => cdriftMap (l i) (u i) (c * w i) (a i)

theorem stepBox_drift (l u w : ι → ℝ) (g : Vec ι → Vec ι) (c : ℝ) :
    (fun x => stepBox l u w g x (Op.drift c)) = (eN : (ι → ℝ × ℝ) → Vec ι × Vec ι) ∘ driftPi l u w c ∘ (eN (ι := ι)).symm := by
  funext x
  simp only [stepBox, stepOp, toProd, C01.boxRefl, Function.comp, driftPi, cdriftMap, cdrift1, eN]
  refine Prod.ext ?_ ?_ <;> funext i <;>
    simp [MeasurableEquiv.arrowProdEquivProdArrow, Equiv.arrowProdEquivProdArrow, ofProd, C01.diagVel, mul_assoc,
      driftPi, cdriftMap, cdrift1]

theorem stepBox_kick (l u w : ι → ℝ) (g : Vec ι → Vec ι) (c : ℝ) :
    (fun x => stepBox l u w g x (Op.kick c)) = fun x : Vec ι × Vec ι => (x.1, x.2 - c • g x.1) := rfl

theorem openBox_measurable (l u : ι → ℝ) : MeasurableSet (openBox l u) := by
  have : openBox l u = ⋂ i, {x : Vec ι × Vec ι | l i < x.1 i ∧ x.1 i < u i} := by
    ext x; simp [openBox]
  rw [this]
  refine MeasurableSet.iInter fun i => ?_
  have hm : Measurable (fun x : Vec ι × Vec ι => x.1 i) := (measurable_pi_apply i).comp measurable_fst
  exact (measurableSet_lt measurable_const hm).inter (measurableSet_lt hm measurable_const)

theorem eN_preimage_box (l u : ι → ℝ) :
    (eN : (ι → ℝ × ℝ) → Vec ι × Vec ι) ⁻¹' openBox l u = univ.pi (fun i => openStrip (l i) (u i)) := by
  ext a
  simp [openBox, openStrip, eN, MeasurableEquiv.arrowProdEquivProdArrow, Equiv.arrowProdEquivProdArrow]

theorem eN_mp_box (l u : ι → ℝ) :
    MeasurePreserving (eN : (ι → ℝ × ℝ) → Vec ι × Vec ι)
      ((volume : Measure (ι → ℝ × ℝ)).restrict (univ.pi fun i => openStrip (l i) (u i)))
      (((volume : Measure (Vec ι)).prod volume).restrict (openBox l u)) := by
  have := (volume_measurePreserving_arrowProdEquivProdArrow ℝ ℝ ι).restrict_preimage (openBox_measurable l u)
  rw [← eN_preimage_box]
  exact this

theorem driftPi_mp (l u w : ι → ℝ) (hlu : ∀ i, l i < u i) (c : ℝ) :
    MeasurePreserving (driftPi l u w c)
      ((volume : Measure (ι → ℝ × ℝ)).restrict (univ.pi fun i => openStrip (l i) (u i)))
      ((volume : Measure (ι → ℝ × ℝ)).restrict (univ.pi fun i => openStrip (l i) (u i))) := by
  have h := measurePreserving_pi (fun i => (volume : Measure (ℝ × ℝ)).restrict (openStrip (l i) (u i)))
    (fun i => (volume : Measure (ℝ × ℝ)).restrict (openStrip (l i) (u i)))
    (fun i => cdrift_mp_strip (l i) (u i) (c * w i) (hlu i))
  have e : (volume : Measure (ι → ℝ × ℝ)).restrict (univ.pi fun i => openStrip (l i) (u i))
      = Measure.pi (fun i => (volume : Measure (ℝ × ℝ)).restrict (openStrip (l i) (u i))) :=
    Measure.restrict_pi_pi (fun _ => (volume : Measure (ℝ × ℝ))) _
  rw [e]; exact h

theorem stepBox_mp (l u w : ι → ℝ) (hlu : ∀ i, l i < u i) (g : Vec ι → Vec ι) (hg : Measurable g) (o : Op ℝ) :
    MeasurePreserving (fun x => stepBox l u w g x o)
      (((volume : Measure (Vec ι)).prod volume).restrict (openBox l u))
      (((volume : Measure (Vec ι)).prod volume).restrict (openBox l u)) := by
  cases o with
  | drift c =>
    rw [stepBox_drift]
    exact (eN_mp_box l u).comp ((driftPi_mp l u w hlu c).comp ((eN_mp_box l u).symm eN))
  | kick c =>
    rw [stepBox_kick]
    have := (kick_measurePreserving g hg c).restrict_preimage (openBox_measurable l u)
    exact this

theorem trajBox_mp (l u w : ι → ℝ) (hlu : ∀ i, l i < u i) (g : Vec ι → Vec ι) (hg : Measurable g) (ops : List (Op ℝ)) :
    MeasurePreserving (trajBox l u w g ops)
      (((volume : Measure (Vec ι)).prod volume).restrict (openBox l u))
      (((volume : Measure (Vec ι)).prod volume).restrict (openBox l u)) := by
  induction ops with
  | nil => exact MeasurePreserving.id _
  | cons o os ih =>
    have : trajBox l u w g (o :: os) = trajBox l u w g os ∘ (fun x => stepBox l u w g x o) := by
      funext x; exact trajBox_cons l u w g o os x
    rw [this]
    exact ih.comp (stepBox_mp l u w hlu g hg o)

def flipN (x : Vec ι × Vec ι) : Vec ι × Vec ι := (x.1, -x.2)

theorem flipN_mp_box (l u : ι → ℝ) :
    MeasurePreserving (flipN : Vec ι × Vec ι → Vec ι × Vec ι)
      (((volume : Measure (Vec ι)).prod volume).restrict (openBox l u))
      (((volume : Measure (Vec ι)).prod volume).restrict (openBox l u)) := by
  have h : MeasurePreserving (flipN : Vec ι × Vec ι → Vec ι × Vec ι)
      ((volume : Measure (Vec ι)).prod volume) ((volume : Measure (Vec ι)).prod volume) :=
    (MeasurePreserving.id (volume : Measure (Vec ι))).prod (Measure.measurePreserving_neg (volume : Measure (Vec ι)))
  exact h.restrict_preimage (openBox_measurable l u)

/-- almost every start is strictly inside the box at the beginning of every sub-step -/
theorem pathGoodN_ae (l u w : ι → ℝ) (hlu : ∀ i, l i < u i) (g : Vec ι → Vec ι) (hg : Measurable g) (ops : List (Op ℝ)) :
    ∀ᵐ x ∂(((volume : Measure (Vec ι)).prod volume).restrict (openBox l u)),
      Split.PathGood (stepOp (C01.diagVel w) g (C01.boxRefl (fun i => some (l i)) (fun i => some (u i))))
        (fun s _ => toProd s ∈ openBox l u) ops (ofProd x) := by
  induction ops with
  | nil => exact ae_of_all _ fun _ => trivial
  | cons o os ih =>
    have h1 : ∀ᵐ x ∂(((volume : Measure (Vec ι)).prod volume).restrict (openBox l u)), x ∈ openBox l u :=
      ae_restrict_mem (openBox_measurable l u)
    have h2 := (stepBox_mp l u w hlu g hg o).quasiMeasurePreserving.ae ih
    filter_upwards [h1, h2] with x a b
    exact ⟨a, b⟩

/-- `Ψ = flip ∘ trajectory` is an involution almost everywhere on the box (palindromic op lists) -/
theorem psiN_involution_ae (l u w : ι → ℝ) (hlu : ∀ i, l i < u i) (g : Vec ι → Vec ι) (hg : Measurable g)
    (ops : List (Op ℝ)) (hp : ops.reverse = ops) :
    ∀ᵐ x ∂(((volume : Measure (Vec ι)).prod volume).restrict (openBox l u)),
      flipN (trajBox l u w g ops (flipN (trajBox l u w g ops x))) = x := by
  filter_upwards [pathGoodN_ae l u w hlu g hg ops] with x hx
  have hwf : C01.WellFormed (fun i => some (l i)) (fun i => some (u i)) := by
    intro i a b ha hb; cases ha; cases hb; exact hlu i
  have := Split.palindrome_reversible_on
    (stepOp (C01.diagVel w) g (C01.boxRefl (fun i => some (l i)) (fun i => some (u i)))) C01.flip
    (fun s _ => toProd s ∈ openBox l u)
    (fun o s hs => C01.boxed_step_reversible _ _ hwf w g o s (by
      cases o with
      | drift c =>
        intro i
        exact ⟨fun a ha => by cases ha; exact (hs i).1, fun b hb => by cases hb; exact (hs i).2⟩
      | kick c => trivial))
    ops hp (ofProd x) hx
  have e : ∀ y : Vec ι × Vec ι, ofProd (flipN y) = C01.flip (ofProd y) := fun y => rfl
  simp only [trajBox, runOps, e] at this ⊢
  have h2 : ∀ s : PS (Vec ι), ofProd (toProd s) = s := fun s => rfl
  rw [h2, this]
  simp [flipN, toProd, ofProd, C01.flip]

/-- **C01, volume preservation with reflections, any dimension, Unit / Diagonal metric, two-sided box**:
    the proposal map of every integrator (every `n`, `h`, coefficient set, measurable gradient) carries
    Lebesgue measure on the open box to itself -/
theorem C01.propose_volume_preserving_boxed_diag (l u w : ι → ℝ) (hlu : ∀ i, l i < u i) (g : Vec ι → Vec ι)
    (hg : Measurable g) (c : Coeffs ℝ) (i : Integrator) (h : ℝ) (n : Nat) :
    MeasurePreserving
      (fun x : Vec ι × Vec ι => toProd (runOps (C01.diagVel w) g
        (C01.boxRefl (fun i => some (l i)) (fun i => some (u i))) (schedule c i h n) (ofProd x)))
      (((volume : Measure (Vec ι)).prod volume).restrict (openBox l u))
      (((volume : Measure (Vec ι)).prod volume).restrict (openBox l u)) :=
  trajBox_mp l u w hlu g hg (schedule c i h n)

end HmcVerif
