import HmcVerif.Model.Store
/-
  Model of the Markov loop of hmclab/Samplers.py (_AbstractSampler._sample_loop) at the level of
  *call boundaries*: calls into the target distribution / mass matrix, entry and exit of the sample
  store's append, and the end-of-iteration time-out check — with the handler semantics of the
  try/except KeyboardInterrupt/TimeoutError/Exception/finally block and `_close_sampler`.

  Parameters: `col i` — the column the fault-free chain stores for proposal `i` (a function of
  seed and configuration only, C09); `ncalls i` — how many calls proposal `i` makes; the clocks.
-/
namespace HmcVerif

inductive Ev where
  | call (i : Nat)          -- k-th call of misfit/gradient/corrector/generate_momentum/kinetic_energy(_gradient)
  | appendEntry (i : Nat)   -- the sample store's append is entered (its action: the column is taken)
  | appendExit (i : Nat)    -- … and has returned
  | iterEnd (i : Nat)       -- end of iteration: progress bar, time-out check
deriving DecidableEq, Repr

/-- boundaries of proposal `i` in program order -/
def proposalEvents (ncalls : Nat → Nat) (t : Nat) (i : Nat) : List Ev :=
  List.replicate (ncalls i) (Ev.call i)
    ++ (if i % t = 0 then [Ev.appendEntry i, Ev.appendExit i] else [])
    ++ [Ev.iterEnd i]

/-- the whole fault-free event trace of a run of `P` proposals with thinning `t` -/
def trace (ncalls : Nat → Nat) (t P : Nat) : List Ev :=
  (List.range P).flatMap (proposalEvents ncalls t)

/-- the store operations performed by a list of events -/
def storeOps {C : Type} (col : Nat → C) : List Ev → List (StoreOp C)
  | [] => []
  | Ev.appendEntry i :: rest => StoreOp.append (col i) :: storeOps col rest
  | _ :: rest => storeOps col rest

/-- number of proposals whose iteration was completed by the events -/
def iterationsDone : List Ev → Nat
  | [] => 0
  | Ev.iterEnd _ :: rest => 1 + iterationsDone rest
  | _ :: rest => iterationsDone rest

inductive FaultKind where
  | interrupt     -- KeyboardInterrupt
  | other         -- any other exception raised by user code
deriving DecidableEq, Repr

structure Outcome (C : Type) where
  columns : List C       -- content of the samples file after the run
  writeIndex : Nat
  returns : Bool         -- sample() returns normally (true) or re-raises the original exception (false)
  closed : Bool          -- the file was closed
  completed : Nat        -- completed iterations at the stop

section
variable {C τ : Type} (clock : Nat → τ) (fast slow : τ → τ → Bool)

/-- what the `finally` block does in every case: `_close_sampler` → flush + close -/
def finish (col : Nat → C) (executed : List Ev) (returns : Bool) : Outcome C :=
  let s := Store.run clock fast slow (storeOps col executed ++ [StoreOp.close]) (Store.init : Store C τ)
  { columns := s.disk, writeIndex := s.writeIndex, returns := returns, closed := s.closed,
    completed := iterationsDone executed }

/-- the uninterrupted run -/
def runFree (col : Nat → C) (ncalls : Nat → Nat) (t P : Nat) : Outcome C :=
  finish clock fast slow col (trace ncalls t P) true

/-- an exception raised at call boundary `k` (before the `k`-th boundary's action):
    interrupt → handled, returns; anything else → clean-up, re-raise -/
def runFault (col : Nat → C) (ncalls : Nat → Nat) (t P : Nat) (k : Nat) (kind : FaultKind) : Outcome C :=
  finish clock fast slow col ((trace ncalls t P).take k) (kind == FaultKind.interrupt)

/-- index of the first iteration whose end-of-iteration check finds the deadline passed -/
def timeoutAt (over : Nat → Bool) (P : Nat) : Option Nat := (List.range P).find? over

/-- events executed by a run stopped by the time limit after iteration `i` -/
def runTimeout (col : Nat → C) (ncalls : Nat → Nat) (t P : Nat) (over : Nat → Bool) : Outcome C :=
  match timeoutAt over P with
  | none => runFree clock fast slow col ncalls t P
  | some i => finish clock fast slow col (trace ncalls t (i + 1)) true
end

/-- acceptance rate written at close: accepted / completed, 0 when nothing was completed -/
def closeAcceptanceRate {α : Type} [Div α] [OfScientific α] (toα : Nat → α) (accepted completed : Nat) : α :=
  if completed = 0 then 0.0 else toα accepted / toα completed

/-! ### the evaluation limiter (EvaluationLimiter_ClassConstructor)

  A target wrapper that counts evaluations (a gradient counts `gcount`) and raises KeyboardInterrupt
  at the first call made after the budget `limit` was exceeded — resetting the counter, so that the
  next run starts with a fresh budget. `limit = 0` switches the interrupt off. -/

inductive LimCall where
  | misfit | gradient
deriving DecidableEq, Repr

/-- one call: the new counter, and whether the call raised instead of evaluating -/
def limStep (limit gcount : Nat) (c : Nat) (k : LimCall) : Nat × Bool :=
  if limit ≠ 0 ∧ limit < c then (0, true)
  else (c + (match k with | .misfit => 1 | .gradient => gcount), false)

/-- a sequence of calls: counter after each call and which calls raised -/
def limRun (limit gcount : Nat) : Nat → List LimCall → List (Nat × Bool)
  | _, [] => []
  | c, k :: rest => let r := limStep limit gcount c k; r :: limRun limit gcount r.1 rest

/-! ### sampler objects that are used for several runs

  `sample()` builds its run state in `_init_sampler` from the call's arguments and the object's
  random generator; everything else an earlier run left on the object (`accepted_proposals`, the
  per-dimension part of an RWMH step, `max_time`, the samples handle, tuning histories, …) is
  re-initialised. -/

/-- what a sampler object carries from one `sample()` call to the next -/
structure SamplerObj (R L : Type) where
  rng : R      -- the generator (its state advances)
  left : L     -- every other attribute an earlier run left behind

/-- one `sample()` call; `run args rng` = (file, generator afterwards, attributes left behind) -/
def sampleCall {A R L F : Type} (run : A → R → F × R × L) (o : SamplerObj R L) (a : A) : F × SamplerObj R L :=
  let r := run a o.rng
  (r.1, { rng := r.2.1, left := r.2.2 })

/-- a history of calls on one object: the files written, oldest first, and the object afterwards -/
def session {A R L F : Type} (run : A → R → F × R × L) (o : SamplerObj R L) : List A → List F × SamplerObj R L
  | [] => ([], o)
  | a :: rest =>
      let r := sampleCall run o a
      let q := session run r.2 rest
      (r.1 :: q.1, q.2)

end HmcVerif
