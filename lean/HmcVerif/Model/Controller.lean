/-
  Model of the controller side of hmclab's ParallelSampleSMP.sample: `n` chain processes each put
  one result into a bounded queue and can only exit afterwards; the controller reads results and
  joins the processes.  `cap` is the capacity of the queue's pipe (in results).
-/
namespace HmcVerif
namespace Controller

structure St where
  waiting : Nat     -- chains that have finished sampling but not yet put their result (blocked while the queue is full)
  queued : Nat      -- results in the queue
  exited : Nat      -- chains that have put their result and exited
  collected : Nat   -- results read by the controller
deriving Repr, DecidableEq

/-- a chain puts its result (possible only while the queue has room) and exits -/
def childPut (cap : Nat) (s : St) : Option St :=
  if 0 < s.waiting ∧ s.queued < cap then some { s with waiting := s.waiting - 1, queued := s.queued + 1, exited := s.exited + 1 } else none

/-- the controller reads one result -/
def ctrlGet (s : St) : Option St :=
  if 0 < s.queued then some { s with queued := s.queued - 1, collected := s.collected + 1 } else none

/-- controller that reads while waiting (the repaired code): it can always read when something is queued -/
def drainFirstStuck (cap : Nat) (s : St) : Bool := (childPut cap s).isNone && (ctrlGet s).isNone

/-- controller that joins every chain before reading anything (the original code): it never reads
    while a chain is still waiting -/
def joinFirstStuck (cap : Nat) (s : St) : Bool := (childPut cap s).isNone && decide (0 < s.waiting)

def init (n : Nat) : St := { waiting := n, queued := 0, exited := 0, collected := 0 }
def finished (n : Nat) (s : St) : Prop := s.waiting = 0 ∧ s.queued = 0 ∧ s.exited = n ∧ s.collected = n

end Controller
end HmcVerif
