/-
  Message-level model of the chain processes of hmclab's ParallelSampleSMP
  (hmclab/Samplers.py: ParallelSampleSMP.sample, PipeMatrix, the "Parallel communication section"
  of _AbstractSampler._sample_loop).

  * each process runs a straight-line program of local actions, sends and blocking receives; one
    FIFO channel per ordered pair of processes (a duplex OS pipe = two channels);
  * channels have a capacity `cap` (`none` = unbounded, `some c` = at most `c` messages in flight).
    A real pipe's capacity is in *bytes* (`Connection.send` is a blocking write), so for small models
    it is effectively unbounded and for large models effectively zero: a send then completes only
    while the receiver is receiving. Both extremes and everything in between are covered by letting
    `cap` range over all values: a send is enabled when there is room **or** the channel is empty and
    the receiver is waiting at the matching receive (rendezvous);
  * `stepP s i` lets process `i` take its next action if it is enabled: the OS scheduler is the
    choice of `i` — any interleaving is a sequence of such choices;
  * a *choreography* is a global script of local steps and communications; its projection onto a
    process is that process's program, its sequential execution `seqRun` is the reference.
-/
namespace HmcVerif
namespace Async

/-- point update of a function on process indices -/
def upd {β : Type} (f : Nat → β) (i : Nat) (v : β) : Nat → β := fun j => if j = i then v else f j

/-- point update of the channel matrix -/
def upd2 {β : Type} (c : Nat → Nat → β) (i j : Nat) (v : β) : Nat → Nat → β :=
  fun a b => if a = i ∧ b = j then v else c a b

inductive Act (σ Msg : Type) where
  | loc (f : σ → σ)                         -- local computation (kernel, misfit, decision, append)
  | send (to : Nat) (mk : σ → Msg)           -- pipe.send
  | recv (frm : Nat) (use : σ → Msg → σ)     -- pipe.recv (blocks while the channel is empty)

structure Sys (σ Msg : Type) where
  prog : Nat → List (Act σ Msg)       -- remaining program of each process
  store : Nat → σ                     -- local state of each process
  chan : Nat → Nat → List Msg         -- `chan i j`: messages in flight from `i` to `j`, oldest first

/-- is the next action of this program a receive from `i`? -/
def headIsRecvFrom {σ Msg : Type} (l : List (Act σ Msg)) (i : Nat) : Bool :=
  match l with
  | Act.recv k _ :: _ => k == i
  | _ => false

/-- room for one more message in a channel that holds `n` -/
def room (cap : Option Nat) (n : Nat) : Bool :=
  match cap with
  | none => true
  | some c => decide (n < c)

/-- may `i` complete a send to `j` now? -/
def sendOk {σ Msg : Type} (cap : Option Nat) (s : Sys σ Msg) (i j : Nat) : Bool :=
  room cap (s.chan i j).length || ((s.chan i j).isEmpty && headIsRecvFrom (s.prog j) i)

/-- process `i` takes one step, if it can -/
def stepP {σ Msg : Type} (cap : Option Nat) (s : Sys σ Msg) (i : Nat) : Option (Sys σ Msg) :=
  match s.prog i with
  | [] => none
  | Act.loc f :: rest =>
      some { prog := upd s.prog i rest, store := upd s.store i (f (s.store i)), chan := s.chan }
  | Act.send j mk :: rest =>
      if sendOk cap s i j then
        some { prog := upd s.prog i rest, store := s.store,
               chan := upd2 s.chan i j (s.chan i j ++ [mk (s.store i)]) }
      else none
  | Act.recv j use :: rest =>
      match s.chan j i with
      | [] => none
      | m :: ms =>
          some { prog := upd s.prog i rest, store := upd s.store i (use (s.store i) m),
                 chan := upd2 s.chan j i ms }

/-- an execution: the scheduler's choices, each of which must be enabled -/
def runSched {σ Msg : Type} (cap : Option Nat) (s : Sys σ Msg) : List Nat → Option (Sys σ Msg)
  | [] => some s
  | i :: is => match stepP cap s i with
      | none => none
      | some s' => runSched cap s' is

/-- all processes (below `n`) have finished -/
def allDone {σ Msg : Type} (n : Nat) (s : Sys σ Msg) : Prop := ∀ i, i < n → s.prog i = []

/-- global events of a choreography -/
inductive GEv (σ Msg : Type) where
  | loc (i : Nat) (f : σ → σ)
  | comm (i j : Nat) (mk : σ → Msg) (use : σ → Msg → σ)     -- `i` sends `mk σᵢ`, `j` receives it

/-- projection of a choreography onto process `p` -/
def proj {σ Msg : Type} : List (GEv σ Msg) → Nat → List (Act σ Msg)
  | [], _ => []
  | GEv.loc i f :: rest, p => if p = i then Act.loc f :: proj rest p else proj rest p
  | GEv.comm i j mk use :: rest, p =>
      if p = i then Act.send j mk :: proj rest p
      else if p = j then Act.recv i use :: proj rest p
      else proj rest p

/-- sequential reference execution of a choreography -/
def seqRun {σ Msg : Type} : List (GEv σ Msg) → (Nat → σ) → (Nat → σ)
  | [], st => st
  | GEv.loc i f :: rest, st => seqRun rest (upd st i (f (st i)))
  | GEv.comm i j mk use :: rest, st => seqRun rest (upd st j (use (st j) (mk (st i))))

/-- the asynchronous system started on the projections, with empty channels -/
def initSys {σ Msg : Type} (G : List (GEv σ Msg)) (st : Nat → σ) : Sys σ Msg :=
  { prog := proj G, store := st, chan := fun _ _ => [] }

/-- the schedule that follows the choreography: every communication = send step, then receive step -/
def canonicalSched {σ Msg : Type} : List (GEv σ Msg) → List Nat
  | [] => []
  | GEv.loc i _ :: rest => i :: canonicalSched rest
  | GEv.comm i j _ _ :: rest => i :: j :: canonicalSched rest

end Async
end HmcVerif
