import HmcVerif.Model.Dist
/-
  Algebra of composite distributions (hmclab/Distributions/base.py: AdditiveDistribution/BayesRule,
  CompositeDistribution, Mixture; hmclab/Distributions/Transforms.py: TransformToLogSpace) and the
  normalisation constants of Normal / Laplace — scalar/list-level definitions shared by the
  executable model (Float) and the theorems (ℝ).
-/
namespace HmcVerif
namespace Dist

section
variable {α : Type} [Add α] [Sub α] [Mul α] [Div α] [Neg α] [OfScientific α]

/-- left-to-right sum with a given zero -/
def sumList (zero : α) (l : List α) : α := l.foldl (· + ·) zero

/-- Mixture: `−log Σᵢ exp(log wᵢ − mᵢ)` for component misfits `mᵢ` (normalised) and weights `wᵢ` -/
def mixtureMisfit (exp log : α → α) (zero : α) (w m : List α) : α :=
  -(log (sumList zero (List.zipWith (fun wi mi => exp (log wi - mi)) w m)))

/-- unnormalised responsibilities `pᵢ = exp(log wᵢ − mᵢ)` -/
def mixtureResp (exp log : α → α) (w m : List α) : List α :=
  List.zipWith (fun wi mi => exp (log wi - mi)) w m

/-- the same quantities as the code computes them (log-sum-exp): with `aᵢ = log wᵢ − mᵢ` and a shift `c`
    (the code takes `c = maxᵢ aᵢ` when that is finite, else 0), misfit = `−(c + log Σᵢ exp(aᵢ − c))` and
    responsibilities `exp(aᵢ − c)`. Far from every component all `exp(aᵢ)` underflow, `exp(aᵢ − c)` do not. -/
def mixtureMisfitShift (exp log : α → α) (zero c : α) (w m : List α) : α :=
  -(c + log (sumList zero (List.zipWith (fun wi mi => exp (log wi - mi - c)) w m)))

def mixtureRespShift (exp log : α → α) (c : α) (w m : List α) : List α :=
  List.zipWith (fun wi mi => exp (log wi - mi - c)) w m

/-- one coordinate of the Mixture gradient: `Σ pᵢ gᵢ / Σ pᵢ` -/
def mixtureGrad1 (zero : α) (p g : List α) : α :=
  sumList zero (List.zipWith (· * ·) p g) / sumList zero p

/-- TransformToLogSpace: coordinate of `transform_forward`: `log m / log base` -/
def logForward (log : α → α) (base m : α) : α := log m / log base
/-- diagonal entry of the Jacobian: `(1/m) / log base` -/
def logJac (log : α → α) (base m : α) : α := (1.0 / m) / log base
/-- one coordinate of the transformed gradient: `g · J − (−1/m)` -/
def logGrad1 (log : α → α) (base m g : α) : α := g * logJac log base m - (m * log base) * ((-1.0 / (m * m)) / log base)

/-- normalisation constant of a diagonal Normal: `½ (log |∏ varᵢ| + d log 2π)` -/
def normalNorm (log abs : α → α) (twoPi : α) (det : α) (d : α) : α := 0.5 * (log (abs det) + d * log twoPi)

/-- the same constant as the code computes it: `½ (Σ log |varᵢ| + d log 2π)` — the determinant of a
    covariance in hundreds of dimensions under- or overflows, the sum of logarithms does not
    (scalar covariance: `d · log |c|`, full covariance: `slogdet`, i.e. `2 Σ log Lᵢᵢ`) -/
def normalNormSum (log abs : α → α) (zero twoPi : α) (vars : List α) (d : α) : α :=
  0.5 * (sumList zero (vars.map (fun v => log (abs v))) + d * log twoPi)

/-- normalisation constant of a Laplace distribution: `Σ log (2 bᵢ)` -/
def laplaceNorm (log : α → α) (zero : α) (b : List α) : α := sumList zero (b.map (fun bi => log (2.0 * bi)))
end

/-! Life cycle of the normalisation constant of a distribution object (`normalization_constant`,
    0.0 from the constructor). `normalize()` *assigns* the constant; `Mixture.__init__` calls
    `normalize()` on each of its components (hmclab never sets the `normalized` flag, so it always
    does); evaluations leave it alone. -/
inductive NormOp where
  | normalize | mixtureInit | evaluate
deriving DecidableEq, Repr

section
variable {α : Type}
def normStep (c : α) (s : α) : NormOp → α
  | .normalize => c
  | .mixtureInit => c
  | .evaluate => s
/-- the constant an object carries after a history of operations (`c` = the textbook constant) -/
def normRun (c zero : α) (ops : List NormOp) : α := ops.foldl (normStep c) zero
end

section bounds
variable {α : Type} [LT α] [DecidableLT α]

/-- collapse of two lower bounds on one coordinate (`none` = no bound): the larger one -/
def maxLower (a b : Option α) : Option α :=
  match a, b with
  | none, b => b
  | a, none => a
  | some x, some y => some (if x < y then y else x)      -- numpy.maximum

/-- collapse of two upper bounds: the smaller one -/
def minUpper (a b : Option α) : Option α :=
  match a, b with
  | none, b => b
  | a, none => a
  | some x, some y => some (if y < x then y else x)      -- numpy.minimum
end bounds

end Dist
end HmcVerif
