/-
  Model of hmclab/Optimizers.py: gradient_descent. The target (misfit, gradient) and the optional
  preconditioner are parameters.
-/
namespace HmcVerif

section
variable {V α : Type} [Sub V] [SMul α V] [LT α] [DecidableLT α]

/-- result of the descent: returned model, returned misfit, history of (model, misfit) -/
structure GDResult (V α : Type) where
  m : V
  x : α
  hist : List (V × α)

/-- the loop from the current (already stored) entry `cur`, with `k` iterations left.
    `bad x` = `isnan(x) or isinf(x)`; `pre` = identity or the diagonal preconditioner. -/
def gdFrom (misfit : V → α) (grad : V → V) (pre : V → V) (bad : α → Bool) (strict : Bool) (eps : α)
    (cur : V × α) : Nat → GDResult V α
  | 0 => { m := cur.1, x := cur.2, hist := [cur] }
  | k + 1 =>
    let m' := cur.1 - eps • pre (grad cur.1)
    let x' := misfit m'
    if bad x' then { m := cur.1, x := cur.2, hist := [cur] }            -- reset to the last stored entry
    else if strict && decide (cur.2 < x') then { m := cur.1, x := cur.2, hist := [cur] }
    else
      let r := gdFrom misfit grad pre bad strict eps (m', x') k
      { m := r.m, x := r.x, hist := cur :: r.hist }

def gradientDescent (misfit : V → α) (grad : V → V) (pre : V → V) (bad : α → Bool) (strict : Bool) (eps : α)
    (m0 : V) (iterations : Nat) : GDResult V α :=
  gdFrom misfit grad pre bad strict eps (m0, misfit m0) iterations

/-- Ctrl-C while the target is evaluated in iteration `completed` (0-based): the step in progress is
    abandoned and what was completed is returned — the run is the run of `completed` iterations. -/
def gradientDescentInterrupted (misfit : V → α) (grad : V → V) (pre : V → V) (bad : α → Bool) (strict : Bool) (eps : α)
    (m0 : V) (iterations completed : Nat) : GDResult V α :=
  gradientDescent misfit grad pre bad strict eps m0 (min completed iterations)
end

/-- one coordinate of the preconditioned gradient: `(1 / (g² + reg)) * g` -/
def precond1 {α : Type} [Add α] [Mul α] [Div α] [OfScientific α] (reg g : α) : α := (1.0 / (g * g + reg)) * g

end HmcVerif
