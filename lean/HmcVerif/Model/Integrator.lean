/-
  Model of hmclab's HMC integrators (hmclab/Samplers.py: HMC._propagate_leapfrog,
  _propagate_3_stage_simplified, _propagate_4_stage_simplified, HMC_visual._propagate_leapfrog_visual)
  and of the trajectory corrector (hmclab/Distributions/base.py: corrector).

  Import-free and polymorphic: the scalar type `α` and the vector type `V` are parameters.
  * executed at `α = Float`, `V = FVec` (Exec/…) by the driver, compared with the Python code;
  * reasoned about at `α = ℝ`, `V` any real vector space / `ι → ℝ` (Props/C01 …).
-/
namespace HmcVerif

/-- phase-space point -/
structure PS (V : Type) where
  q : V
  p : V

/-- elementary sub-steps of a splitting integrator. A `drift` is always followed by the
    bounds corrector (`refl`), exactly as in the code. -/
inductive Op (α : Type) where
  | drift (c : α)
  | kick (c : α)
deriving Repr, BEq, DecidableEq

def Op.coeff {α : Type} : Op α → α
  | .drift c => c
  | .kick c => c

def Op.isDrift {α : Type} : Op α → Bool
  | .drift _ => true
  | .kick _ => false

section step
variable {α V : Type} [Add V] [Sub V] [SMul α V]

/-- one sub-step. `vel p` is `mass_matrix.kinetic_energy_gradient(p)`, `grad q` is
    `distribution.gradient(q)`, `refl` is `distribution.corrector` (identity if unbounded). -/
def stepOp (vel grad : V → V) (refl : PS V → PS V) (s : PS V) : Op α → PS V
  | .drift c => refl { q := s.q + c • vel s.p, p := s.p }
  | .kick c  => { q := s.q, p := s.p - c • grad s.q }

def runOps (vel grad : V → V) (refl : PS V → PS V) (ops : List (Op α)) (s : PS V) : PS V :=
  ops.foldl (stepOp vel grad refl) s
end step

section sched
variable {α : Type} [Sub α] [Mul α] [OfScientific α]

/-- once-per-trajectory step size: `rng.uniform(0.5, 1.5) * stepsize` or `stepsize`. -/
def localStep (randomize : Bool) (u h : α) : α := if randomize then u * h else h

/-- leapfrog (position Verlet), `n = amount_of_steps ≥ 1`. -/
def lfSchedule (h : α) (n : Nat) : List (Op α) :=
  [Op.drift (0.5 * h)]
    ++ (List.replicate (n - 1) [Op.kick h, Op.drift h]).flatten
    ++ [Op.kick h, Op.drift (0.5 * h)]

/-- one three-stage step with (already scaled) coefficients -/
def stage3 (a1 a2 b1 b2 : α) : List (Op α) :=
  [.drift a1, .kick b1, .drift a2, .kick b2, .drift a2, .kick b1, .drift a1]

/-- three-stage scheme; `a1 b1` are the code's constants (read off the code by the harness). -/
def s3Schedule (a1 b1 h : α) (n : Nat) : List (Op α) :=
  let a2 : α := 0.5 - a1
  let b2 : α := 1.0 - 2.0 * b1
  (List.replicate n (stage3 (a1 * h) (a2 * h) (b1 * h) (b2 * h))).flatten

def stage4 (a1 a2 a3 b1 b2 : α) : List (Op α) :=
  [.drift a1, .kick b1, .drift a2, .kick b2, .drift a3, .kick b2, .drift a2, .kick b1, .drift a1]

def s4Schedule (a1 a2 b1 h : α) (n : Nat) : List (Op α) :=
  let a3 : α := 1.0 - 2.0 * a1 - 2.0 * a2
  let b2 : α := 0.5 - b1
  (List.replicate n (stage4 (a1 * h) (a2 * h) (a3 * h) (b1 * h) (b2 * h))).flatten

inductive Integrator where
  | lf | s3 | s4
deriving Repr, DecidableEq

/-- coefficients of the multi-stage schemes as they stand in the code -/
structure Coeffs (α : Type) where
  a1_3 : α
  b1_3 : α
  a1_4 : α
  a2_4 : α
  b1_4 : α

def schedule (c : Coeffs α) : Integrator → α → Nat → List (Op α)
  | .lf, h, n => lfSchedule h n
  | .s3, h, n => s3Schedule c.a1_3 c.b1_3 h n
  | .s4, h, n => s4Schedule c.a1_4 c.a2_4 c.b1_4 h n

/-- the constants in the pinned source -/
def codeCoeffs : Coeffs α :=
  { a1_3 := 0.11888010966548, b1_3 := 0.29619504261126,
    a1_4 := 0.071353913450279725904, a2_4 := 0.268548791161230105820,
    b1_4 := 0.191667800000000000000 }
end sched

section reflect
variable {α : Type} [Add α] [Sub α] [Mul α] [Neg α] [OfScientific α] [LT α] [DecidableLT α]

/-- lower-bound half of the corrector on one coordinate (`none` = no bound) -/
def reflLow (lb : Option α) (s : α × α) : α × α :=
  match lb with
  | some l => if s.1 < l then (s.1 + 2.0 * (l - s.1), -s.2) else s
  | none => s

/-- upper-bound half of the corrector on one coordinate -/
def reflHigh (ub : Option α) (s : α × α) : α × α :=
  match ub with
  | some u => if u < s.1 then (s.1 + 2.0 * (u - s.1), -s.2) else s
  | none => s

/-- the first part of the corrector on one coordinate: one mirror reflection at the lower bound, then one at the upper bound. -/
def reflect1 (lb ub : Option α) (x p : α) : α × α := reflHigh ub (reflLow lb (x, p))
end reflect

section fold
variable {α : Type} [Add α] [Sub α] [Mul α] [Div α] [Neg α] [OfScientific α] [LT α] [DecidableLT α]

/-- A drift longer than the box is wide is not back inside after one reflection per wall. For a box
    `[l, u]` of positive finite width `w = u − l` the remaining reflections are done in one step:
    with `t = x − l` the particle has crossed `k = ⌊t / w⌋` walls; it is folded back to `l + r` (`k`
    even) or `u − r` (`k` odd), `r = t − k w`, and the momentum is negated once per wall.
    `floorA`, `isOdd` and `finite` are `numpy.floor`, `k % 2 != 0` and `numpy.isfinite`. -/
def refold (floorA : α → α) (isOdd finite : α → Bool) (l u : α) (s : α × α) : α × α :=
  if (s.1 < l ∨ u < s.1) ∧ finite s.1 = true ∧ finite (u - l) = true ∧ (0.0 : α) < u - l then
    let w := u - l
    let t := s.1 - l
    let k := floorA (t / w)
    let r := t - k * w
    if isOdd k then (u - r, -s.2) else (l + r, s.2)
  else s

/-- the corrector on one coordinate (`_AbstractDistribution.corrector`): `reflect1`, then `refold`
    where both bounds exist. -/
def corrector1 (floorA : α → α) (isOdd finite : α → Bool) (lb ub : Option α) (x p : α) : α × α :=
  match lb, ub with
  | some l, some u => refold floorA isOdd finite l u (reflect1 lb ub x p)
  | _, _ => reflect1 lb ub x p
end fold

end HmcVerif
