import HmcVerif.Model.Dist
/-
  Model of the bounds machinery of hmclab/Distributions/base.py:
  misfit_bounds (added to every misfit/gradient) and update_bounds (validate, then commit).
-/
namespace HmcVerif

section
variable {α : Type} [Add α]

/-- `misfit_bounds(x) + base(x)`: `inf` is the scalar's +∞, `zero` its 0 -/
def boundedMisfit (inf zero : α) (outside : Bool) (base : α) : α :=
  (if outside then inf else zero) + base
end

/-- classes of arguments `update_bounds` can be given for one bound -/
inductive BoundArg (V : Type) where
  | none                 -- `None`: no bound
  | ok (v : V)           -- array (or list) of shape (dimensions, 1)
  | wrongShape           -- ndarray of another shape
  | wrongType            -- neither None, list nor ndarray
deriving Repr

inductive BoundsError where
  | lowerNotUnderstood | upperNotUnderstood | incorrectSize | incompatible
deriving Repr, DecidableEq

def BoundArg.value? {V : Type} : BoundArg V → Option V
  | .ok v => some v
  | _ => Option.none

/-- `update_bounds(lower, upper)`: the new bounds are in force only if every check passes;
    otherwise the previous bounds stay in force and a ValueError is raised.
    `clash l u` = `numpy.any(u <= l)`. -/
def updateBounds {V : Type} (clash : V → V → Bool) (old : Option V × Option V) (lo up : BoundArg V) :
    (Option V × Option V) × Option BoundsError :=
  match lo, up with
  | .wrongType, _ => (old, some .lowerNotUnderstood)
  | _, .wrongType => (old, some .upperNotUnderstood)
  | .wrongShape, _ => (old, some .incorrectSize)
  | _, .wrongShape => (old, some .incorrectSize)
  | .ok l, .ok u => if clash l u then (old, some .incompatible) else ((some l, some u), Option.none)
  | lo, up => ((lo.value?, up.value?), Option.none)

/-- operations in the life of a distribution object that matter for its box -/
inductive DistOp (V : Type) where
  | setBounds (lo up : BoundArg V)    -- update_bounds (may be refused)
  | roundTrip                         -- pickle / dill / copy.copy / copy.deepcopy: the copy replaces the object

def DistOp.isRoundTrip {V : Type} : DistOp V → Bool
  | .roundTrip => true
  | _ => false

/-- the bounds in force after one operation: a copy carries the whole instance state, bounds included -/
def distStep {V : Type} (clash : V → V → Bool) (b : Option V × Option V) : DistOp V → Option V × Option V
  | .setBounds lo up => (updateBounds clash b lo up).1
  | .roundTrip => b

def distRun {V : Type} (clash : V → V → Bool) (b : Option V × Option V) (ops : List (DistOp V)) : Option V × Option V :=
  ops.foldl (distStep clash) b

end HmcVerif
