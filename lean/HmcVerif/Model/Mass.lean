/-
  Model of hmclab/MassMatrices.py: Unit, Diagonal, Full and the adaptive BFGS metric.
  Linear algebra is abstracted by a dictionary `LinAlg` (instantiated by Float arrays in Exec/ and
  by Mathlib matrices over ℝ in Real/); Cholesky / inverse are *parameters* (library calls).
-/
namespace HmcVerif

/-- the linear-algebra operations the mass matrices use -/
structure LinAlg (α V M : Type) where
  one : M
  mul : M → M → M
  add : M → M → M
  sub : M → M → M
  transpose : M → M
  smul : α → M → M
  outer : V → V → M          -- `u @ v.T`
  mulVec : M → V → V
  dot : V → V → α
  vsub : V → V → V
  hmul : V → V → V           -- element-wise product

section static
variable {α V M : Type} [Mul α] [OfScientific α] (la : LinAlg α V M)

/-- Unit -/
def unitMomentum (z : V) : V := z
def unitKinetic (p : V) : α := 0.5 * la.dot p p
def unitVelocity (p : V) : V := p

/-- Diagonal: `inv = 1/diagonal`, `sq = sqrt(diagonal)` -/
def diagMomentum (sq z : V) : V := la.hmul sq z
def diagKinetic (inv p : V) : α := 0.5 * la.dot p (la.hmul inv p)
def diagVelocity (inv p : V) : V := la.hmul inv p

/-- Full: `chol` is the lower Cholesky factor of the matrix, `solve` is `cho_solve` -/
def fullMomentum (chol : M) (z : V) : V := la.mulVec chol z
def fullKinetic (solve : V → V) (p : V) : α := 0.5 * la.dot p (solve p)
def fullVelocity (solve : V → V) (p : V) : V := solve p
end static

/-- state of the BFGS metric -/
structure BFGS (V M : Type) where
  Minv : M
  F : M          -- `LTinv`, the momentum factor
  m : V
  g : V
  bMinv : M      -- backup (rollback copy)
  bF : M
  bm : V
  bg : V

section bfgs
variable {α V M : Type} [Div α] [LT α] [DecidableLT α] [OfScientific α] (la : LinAlg α V M)

/-- the BFGS inverse-metric update `(I − ρ s yᵀ) H (I − ρ y sᵀ) + ρ s sᵀ` when `sᵀy > 0` -/
def bfgsMatrix (H : M) (s y : V) : M :=
  let sy := la.dot s y
  if (0.0 : α) < sy then
    let rho : α := 1.0 / sy
    let syT := la.smul rho (la.outer s y)
    let l := la.sub la.one syT
    let r := la.sub la.one (la.transpose syT)
    la.add (la.mul (la.mul l H) r) (la.smul rho (la.outer s s))
  else H

/-- `_update(m, g)`; `factor H` is `inv(cholesky(H).T)` or `none` on LinAlgError -/
def bfgsUpdate (factor : M → Option M) (st : BFGS V M) (m g : V) : BFGS V M :=
  let H := bfgsMatrix la st.Minv (la.vsub m st.m) (la.vsub g st.g)
  match factor H with
  | some F => { st with Minv := H, F := F, m := m, g := g }
  | none => st

/-- `accept()`: make the current state the rollback point -/
def bfgsAccept (st : BFGS V M) : BFGS V M :=
  { st with bMinv := st.Minv, bF := st.F, bm := st.m, bg := st.g }

/-- `reject()`: roll back to the last accepted state (metric *and* momentum factor) -/
def bfgsReject (st : BFGS V M) : BFGS V M :=
  { st with Minv := st.bMinv, F := st.bF, m := st.bm, g := st.bg }

inductive BfgsOp (V : Type) where
  | update (m g : V)
  | accept
  | reject

def bfgsStep (factor : M → Option M) (st : BFGS V M) : BfgsOp V → BFGS V M
  | .update m g => bfgsUpdate la factor st m g
  | .accept => bfgsAccept st
  | .reject => bfgsReject st

/-- with the queue of pending updates: `update(m, g)` only queues (unless `greedy`), `accept()` first
    applies the queued updates in order (`consolidate_updates`) and empties the queue, `reject()`
    restores the last accepted state and empties the queue -/
inductive BfgsQOp (V : Type) where
  | direct (m g : V)      -- `kinetic_energy_gradient(p, m, g)`: applied at once
  | queued (m g : V)      -- `update(m, g)`
  | accept
  | reject

def bfgsQStep (factor : M → Option M) (s : BFGS V M × List (V × V)) : BfgsQOp V → BFGS V M × List (V × V)
  | .direct m g => (bfgsUpdate la factor s.1 m g, s.2)
  | .queued m g => (s.1, s.2 ++ [(m, g)])
  | .accept => (bfgsAccept (s.2.foldl (fun st mg => bfgsUpdate la factor st mg.1 mg.2) s.1), [])
  | .reject => (bfgsReject s.1, [])

def bfgsInit (Minv F : M) (m g : V) : BFGS V M :=
  { Minv := Minv, F := F, m := m, g := g, bMinv := Minv, bF := F, bm := m, bg := g }

def bfgsMomentum (st : BFGS V M) (z : V) : V := la.mulVec st.F z
def bfgsVelocity (st : BFGS V M) (p : V) : V := la.mulVec st.Minv p
def bfgsKinetic [Mul α] (st : BFGS V M) (p : V) : α := 0.5 * la.dot p (la.mulVec st.Minv p)
end bfgs

end HmcVerif
