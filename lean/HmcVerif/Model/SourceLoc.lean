/-
  Model of hmclab/Distributions/SourceLocation.py (SourceLocation2D / SourceLocation3D):
  straight-ray travel times in a homogeneous medium, NaN-aware least squares, gradient assembly.

  `nc` spatial coordinates (2: x,z — 3: x,y,z), `ne` events, `ns` stations. Summation is a
  parameter (`sumC`, `sumS`, `sumE`: sums over coordinates / stations / events), instantiated by a
  left-to-right fold in Exec/ and by `Finset.sum` in the theorems. A missing pick is `none`.
-/
namespace HmcVerif
namespace SourceLoc

section
variable {α : Type} [Add α] [Sub α] [Mul α] [Div α] [Neg α] [OfScientific α] [LT α] [DecidableLT α]
variable {nc ne ns : Nat}

/-- straight-line distance between an event and a station -/
def dist (sqrt : α → α) (sumC : (Fin nc → α) → α) (src rcv : Fin nc → α) : α :=
  sqrt (sumC (fun c => (src c - rcv c) * (src c - rcv c)))

/-- predicted arrival time: origin time + distance / velocity -/
def arrival (sqrt : α → α) (sumC : (Fin nc → α) → α) (src rcv : Fin nc → α) (T v : α) : α :=
  T + dist sqrt sumC src rcv / v

/-- squared normalised residual of one observation; a missing pick contributes nothing -/
def residTerm (obs : Option α) (sigma tcalc : α) : α :=
  match obs with
  | none => 0.0
  | some o => ((o - tcalc) / sigma) * ((o - tcalc) / sigma)

/-- `misfit = ½ Σ_e Σ_s ((observed − predicted)/σ)²` over the observations that are not missing -/
def misfit (sqrt : α → α) (sumC : (Fin nc → α) → α) (sumS : (Fin ns → α) → α) (sumE : (Fin ne → α) → α)
    (rcv : Fin ns → Fin nc → α) (obs : Fin ne → Fin ns → Option α) (sigma : Fin ne → Fin ns → α)
    (src : Fin ne → Fin nc → α) (T : Fin ne → α) (v : α) : α :=
  0.5 * sumE (fun e => sumS (fun s => residTerm (obs e s) (sigma e s) (arrival sqrt sumC (src e) (rcv s) (T e) v)))

/-- `(predicted − observed)/σ²`, zero for a missing pick -/
def weight (obs : Option α) (sigma tcalc : α) : α :=
  match obs with
  | none => 0.0
  | some o => (tcalc - o) / (sigma * sigma)

/-- direction cosine over the velocity, `(x_c − r_c) / (v·d)`. For an event that sits exactly on a station
    (`d = 0`) the direction is undefined (`0/0`); the code sums with `nansum`, which drops that term —
    so the gradient stays finite wherever the misfit is. -/
def dirTerm (num v d : α) : α := if (0.0 : α) < d then num / (v * d) else 0.0

/-- gradient with respect to spatial coordinate `c` of event `e` -/
def gradCoord (sqrt : α → α) (sumC : (Fin nc → α) → α) (sumS : (Fin ns → α) → α)
    (rcv : Fin ns → Fin nc → α) (obs : Fin ne → Fin ns → Option α) (sigma : Fin ne → Fin ns → α)
    (src : Fin ne → Fin nc → α) (T : Fin ne → α) (v : α) (e : Fin ne) (c : Fin nc) : α :=
  sumS (fun s =>
    weight (obs e s) (sigma e s) (arrival sqrt sumC (src e) (rcv s) (T e) v)
      * dirTerm (src e c - rcv s c) v (dist sqrt sumC (src e) (rcv s)))

/-- gradient with respect to the origin time of event `e` -/
def gradTime (sqrt : α → α) (sumC : (Fin nc → α) → α) (sumS : (Fin ns → α) → α)
    (rcv : Fin ns → Fin nc → α) (obs : Fin ne → Fin ns → Option α) (sigma : Fin ne → Fin ns → α)
    (src : Fin ne → Fin nc → α) (T : Fin ne → α) (v : α) (e : Fin ne) : α :=
  sumS (fun s => weight (obs e s) (sigma e s) (arrival sqrt sumC (src e) (rcv s) (T e) v))

/-- gradient with respect to the velocity -/
def gradVel (sqrt : α → α) (sumC : (Fin nc → α) → α) (sumS : (Fin ns → α) → α) (sumE : (Fin ne → α) → α)
    (rcv : Fin ns → Fin nc → α) (obs : Fin ne → Fin ns → Option α) (sigma : Fin ne → Fin ns → α)
    (src : Fin ne → Fin nc → α) (T : Fin ne → α) (v : α) : α :=
  sumE (fun e => sumS (fun s =>
    weight (obs e s) (sigma e s) (arrival sqrt sumC (src e) (rcv s) (T e) v)
      * (-(dist sqrt sumC (src e) (rcv s)) / (v * v))))
end

/-- How the constructors read a two-dimensional array of picks (or of their uncertainties): as
    events × stations when the shape fits, otherwise transposed, otherwise refused
    ("Wrong shape …, trying to transpose", then "not sure what to do"). -/
inductive Orientation where
  | asGiven | transposed | refused
deriving DecidableEq, Repr

def orientation (ne ns rows cols : Nat) : Orientation :=
  if rows = ne ∧ cols = ns then .asGiven
  else if rows = ns ∧ cols = ne then .transposed
  else .refused

/-- the entry used for event `e`, station `s` -/
def oriented {β : Type} (ne ns rows cols : Nat) (a : Nat → Nat → β) : Option (Nat → Nat → β) :=
  match orientation ne ns rows cols with
  | .asGiven => some a
  | .transposed => some (fun e s => a s e)
  | .refused => none

/-- parameter layout: per event `nc` coordinates then the origin time; then the optional velocity.
    Index of coordinate `c` of event `e` in the flat parameter vector. -/
def coordIndex (nc : Nat) (e c : Nat) : Nat := e * (nc + 1) + c
def timeIndex (nc : Nat) (e : Nat) : Nat := e * (nc + 1) + nc
def velIndex (nc ne : Nat) : Nat := ne * (nc + 1)

end SourceLoc
end HmcVerif
