/-
  Model of hmclab/Samples.py: the buffered sample store (write mode) and the read side.
  Columns are opaque values of type `C`; the wall clock is a parameter `clock : Nat → τ`
  (the k-th reading), the byte formats (HDF5 / NPY + pickle sidecar) are parameters.
-/
namespace HmcVerif

structure Store (C τ : Type) where
  buffer : List C          -- `_buffer`
  interval : Nat           -- `_buffer_interval` (a power of two ≥ 1)
  lastAppend : Option τ    -- `_last_append_time` (`none` = NaN: no append timed yet)
  ticks : Nat              -- number of clock readings taken so far
  disk : List C            -- columns in the file
  writeIndex : Nat         -- attribute `write_index`
  closed : Bool

def Store.init {C τ : Type} : Store C τ :=
  { buffer := [], interval := 1, lastAppend := none, ticks := 0, disk := [], writeIndex := 0, closed := false }

section
variable {C τ : Type}

/-- `flush_buffer`: move the pending columns to the file, advance the write index -/
def Store.flush (s : Store C τ) : Store C τ :=
  if s.buffer.isEmpty then s
  else { s with disk := s.disk ++ s.buffer, writeIndex := s.writeIndex + s.buffer.length, buffer := [] }

/-- `append`: buffer the column; when the buffer exceeds the interval, read the clock twice,
    adapt the interval (`fast`: Δ < 1 s doubles it, `slow`: Δ > 10 s halves it, never below 1;
    an undefined Δ — first timed append — changes nothing) and flush. -/
def Store.append (clock : Nat → τ) (fast slow : τ → τ → Bool) (s : Store C τ) (c : C) : Store C τ :=
  let s1 := { s with buffer := s.buffer ++ [c] }
  if s1.interval < s1.buffer.length then
    let t1 := clock s1.ticks
    let t2 := clock (s1.ticks + 1)
    let iv := match s1.lastAppend with
      | none => s1.interval
      | some t0 => if fast t0 t1 then s1.interval * 2
                   else if slow t0 t1 then max (s1.interval / 2) 1
                   else s1.interval
    Store.flush { s1 with interval := iv, lastAppend := some t2, ticks := s1.ticks + 2 }
  else s1

/-- `close` (write mode): flush, mark closed -/
def Store.close (s : Store C τ) : Store C τ := { s.flush with closed := true }

inductive StoreOp (C : Type) where
  | append (c : C)
  | flush
  | writeAttr        -- a user attribute: does not touch the data
  | close

def Store.step (clock : Nat → τ) (fast slow : τ → τ → Bool) (s : Store C τ) : StoreOp C → Store C τ
  | .append c => if s.closed then s else s.append clock fast slow c
  | .flush => if s.closed then s else s.flush
  | .writeAttr => s
  | .close => s.close

def Store.run (clock : Nat → τ) (fast slow : τ → τ → Bool) (ops : List (StoreOp C)) (s : Store C τ) : Store C τ :=
  ops.foldl (Store.step clock fast slow) s

/-- the columns appended by an op list (while open) -/
def appendedBy : List (StoreOp C) → List C
  | [] => []
  | .append c :: rest => c :: appendedBy rest
  | .close :: _ => []
  | _ :: rest => appendedBy rest

/-! read side -/

/-- opening with burn-in `b` is refused iff the chain is not longer than `b` -/
def readRefused (writeIndex b : Nat) : Bool := decide (writeIndex ≤ b)

/-- the array view: columns with the first `b` dropped -/
def readColumns (disk : List C) (b : Nat) : List C := disk.drop b

/-- `samples[:, j]` after burn-in -/
def readColumn? (disk : List C) (b j : Nat) : Option C := (disk.drop b)[j]?

/-- `combine_samples`: concatenation of the views, without the columns flagged NaN -/
def combine (hasNaN : C → Bool) (views : List (List C)) : List C :=
  (views.flatten).filter (fun c => !hasNaN c)
end

end HmcVerif
