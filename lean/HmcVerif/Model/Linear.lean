/-
  Model of hmclab/Distributions/LinearMatrix.py: the computational forms used by the four back
  ends (premultiplied normal equations, residual form with a simple / Cholesky-factored /
  factorised covariance). The forward operator, its transpose and the inverse covariance are
  function parameters (`G`, `Gt`, `Winv`), instantiated by Float matrices in Exec/ and by
  Mathlib matrices over ℝ in the theorems.
-/
namespace HmcVerif
namespace Linear

section
variable {α V W : Type} [Mul α] [Add α] [OfScientific α] [Sub V] [Sub W] [SMul α V]

/-- the specification the property names: `½ (Gm − d)ᵀ C⁻¹ (Gm − d)` -/
def specMisfit (G : V → W) (Winv : W → W) (dotW : W → W → α) (d : W) (m : V) : α :=
  0.5 * dotW (G m - d) (Winv (G m - d))

/-- `Gᵀ C⁻¹ (Gm − d)` -/
def specGradient (G : V → W) (Gt : W → V) (Winv : W → W) (d : W) (m : V) : V :=
  Gt (Winv (G m - d))

/-- premultiplied form: `½ (mᵀ(GtG m − 2 Gtd0) + dtd)` with `GtG = GᵀC⁻¹G`, `Gtd0 = GᵀC⁻¹d`, `dtd = dᵀC⁻¹d` -/
def premulMisfit (GtG : V → V) (Gtd0 : V) (dtd : α) (dotV : V → V → α) (m : V) : α :=
  0.5 * (dotV m (GtG m - (2.0 : α) • Gtd0) + dtd)

def premulGradient (GtG : V → V) (Gtd0 : V) (m : V) : V := GtG m - Gtd0

/-- residual form with a factor `U` of the inverse covariance (`UᵀU = C⁻¹`): `½ ‖U (Gm − d)‖²` -/
def factorMisfit (G : V → W) (U : W → W) (dotW : W → W → α) (d : W) (m : V) : α :=
  0.5 * dotW (U (G m - d)) (U (G m - d))
end

end Linear
end HmcVerif
