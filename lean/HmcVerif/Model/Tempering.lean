import HmcVerif.Model.Async
/-
  The choreography of hmclab's parallel-tempering chains (hmclab/Samplers.py, "Parallel
  communication section" of _sample_loop, and the schedule built by ParallelSampleSMP.sample):
  per proposal every chain runs its own transition kernel; on exchange proposals the scheduled pairs
  run the eight-message master/slave protocol; then every chain appends (state, misfit).

  Kernels, target misfits, the uniform draws of the masters and `exp` are parameters.
-/
namespace HmcVerif
namespace Tempering
open Async

/-- local state of a chain process -/
structure ChainSt (V α : Type) where
  model : V            -- current_model
  x : α                -- current_x
  tmpModel : V         -- exchange_model
  exX : α              -- exchange_x
  myImp : α            -- misfit_improvement
  otherImp : α         -- counterpart_improvement
  outgoing : V         -- what the master sends back
  cols : List (V × α)  -- columns appended to this chain's samples file

inductive TMsg (V α : Type) where
  | model (v : V)
  | delta (a : α)

section
variable {V α : Type} [Sub α] [Add α] [LT α] [DecidableLT α] [DecidableEq V]

def msgModel (d : V) : TMsg V α → V
  | .model v => v
  | .delta _ => d
def msgDelta (d : α) : TMsg V α → α
  | .model _ => d
  | .delta a => a

/-- the exchange between slave `s` and master `m` (eight pipe operations, three local computations).
    `misfit i` is chain `i`'s own target, `u` the master's fresh uniform draw. -/
def exchangeBlock (exp : α → α) (misfit : Nat → V → α) (s m : Nat) (u : α) : List (GEv (ChainSt V α) (TMsg V α)) :=
  [ GEv.comm s m (fun st => .model st.model) (fun st msg => { st with tmpModel := msgModel st.tmpModel msg }),
    GEv.comm m s (fun st => .model st.model) (fun st msg => { st with tmpModel := msgModel st.tmpModel msg }),
    GEv.loc m (fun st => { st with exX := misfit m st.tmpModel, myImp := st.x - misfit m st.tmpModel }),
    GEv.loc s (fun st => { st with exX := misfit s st.tmpModel, myImp := st.x - misfit s st.tmpModel }),
    GEv.comm s m (fun st => .delta st.myImp) (fun st msg => { st with otherImp := msgDelta st.otherImp msg }),
    GEv.loc m (fun st =>
      if u < exp (st.myImp + st.otherImp)
      then { st with outgoing := st.model, model := st.tmpModel, x := st.exX }     -- swap: keep the received state with its own misfit
      else { st with outgoing := st.tmpModel }),                                  -- no swap: send the counterpart's state back
    GEv.comm m s (fun st => .model st.outgoing)
      (fun st msg =>
        let v := msgModel st.model msg
        if v = st.tmpModel then { st with model := v, x := st.exX } else { st with model := v }) ]

/-- consecutive pairs of a schedule row: (slave, master) = (row[2t], row[2t+1]) -/
def pairs : List Nat → List (Nat × Nat)
  | s :: m :: rest => (s, m) :: pairs rest
  | _ => []

/-- number of schedule rows needed for `P` proposals with exchange every `I`: ⌈P / I⌉ -/
def rowsNeeded (P I : Nat) : Nat := (P + I - 1) / I

/-- everything that happens for proposal `k` -/
def proposalScript (exp : α → α) (misfit : Nat → V → α) (kern : Nat → Nat → V × α → V × α) (udraw : Nat → Nat → α)
    (n I : Nat) (sched : Nat → List Nat) (k : Nat) : List (GEv (ChainSt V α) (TMsg V α)) :=
  (List.range n).map (fun i => GEv.loc i (fun st => let r := kern i k (st.model, st.x); { st with model := r.1, x := r.2 }))
    ++ (if I ≠ 0 ∧ k % I = 0 then ((pairs (sched (k / I))).map (fun sm => exchangeBlock exp misfit sm.1 sm.2 (udraw sm.2 k))).flatten else [])
    ++ (List.range n).map (fun i => GEv.loc i (fun st => { st with cols := st.cols ++ [(st.model, st.x)] }))

/-- the whole run of `P` proposals (`I = 0`: exchange switched off) -/
def script (exp : α → α) (misfit : Nat → V → α) (kern : Nat → Nat → V × α → V × α) (udraw : Nat → Nat → α)
    (n P I : Nat) (sched : Nat → List Nat) : List (GEv (ChainSt V α) (TMsg V α)) :=
  ((List.range P).map (proposalScript exp misfit kern udraw n I sched)).flatten
end

/-- pipe events of a program, as observable by a logging pipe: `(isSend, partner)` -/
def pipeEvents {σ Msg : Type} : List (Act σ Msg) → List (Bool × Nat)
  | [] => []
  | Act.loc _ :: rest => pipeEvents rest
  | Act.send j _ :: rest => (true, j) :: pipeEvents rest
  | Act.recv j _ :: rest => (false, j) :: pipeEvents rest

end Tempering
end HmcVerif

namespace HmcVerif
namespace Tempering

/-- an argument given to ParallelSampleSMP.sample either once for all chains or as one per chain -/
inductive PerChain (β : Type) where
  | shared (b : β)
  | each (l : List β)

/-- what chain `i` receives -/
def PerChain.pick {β : Type} (d : β) : PerChain β → Nat → β
  | .shared b, _ => b
  | .each l, i => l.getD i d

/-- per-chain argument assembly: `{initial_model} ∪ chain_kwargs ∪ fixed_kwargs` (later wins) -/
def chainArgs {I K : Type} (dI : I) (dK : K) (merge : K → K → K) (initial : PerChain I) (kwargs : PerChain K) (fixed : K) (i : Nat) : I × K :=
  (initial.pick dI i, merge (kwargs.pick dK i) fixed)

/-! keyword dictionaries as association lists; `{**a, **b}`: where both have a key, `b`'s value wins -/
abbrev Kw (β : Type) := List (String × β)

def kwLookup {β : Type} (d : Kw β) (k : String) : Option β := (d.find? (fun e => e.1 == k)).map (·.2)

def kwMerge {β : Type} (a b : Kw β) : Kw β := b ++ a

/-- the keyword arguments chain `i` is started with:
    `{**{"initial_model": initial_model[i]}, **kwargs[i], **fixed_kwargs}` -/
def totalKwargs {β : Type} (init : β) (kwargs fixed : Kw β) : Kw β :=
  kwMerge (kwMerge [("initial_model", init)] kwargs) fixed

section
variable {V α : Type}
/-- what one chain does for proposal `k` when it runs on its own: its kernel, then the append -/
def soloStep (kern : Nat → V × α → V × α) (st : ChainSt V α) (k : Nat) : ChainSt V α :=
  let r := kern k (st.model, st.x)
  let st1 := { st with model := r.1, x := r.2 }
  { st1 with cols := st1.cols ++ [(st1.model, st1.x)] }

/-- a stand-alone run of `P` proposals -/
def soloRun (kern : Nat → V × α → V × α) (P : Nat) (st : ChainSt V α) : ChainSt V α :=
  (List.range P).foldl (soloStep kern) st
end

end Tempering
end HmcVerif
