/-
  Model of the accept/reject logic of hmclab's samplers
  (hmclab/Samplers.py: RWMH._propose, RWMH._evaluate_acceptance, HMC._evaluate_acceptance,
   HMC.autotune / RWMH.autotune).
  External calls (target misfit, kinetic energy, the PRNG) are parameters: a transition takes the
  values they returned.
-/
namespace HmcVerif

/-- chain state carried between transitions -/
structure Chain (V α : Type) where
  model : V
  x : α            -- `current_x`, the misfit carried with the state
  accepted : Nat   -- `accepted_proposals`

section accept
variable {α : Type} [Sub α] [LT α] [DecidableLT α]

/-- `exp(E_current - E_proposed) > u`, written as the property states it -/
def accept (exp : α → α) (u eCur eProp : α) : Bool := decide (u < exp (eCur - eProp))

/-- the value handed to autotune: `exp(E_current - E_proposed)` -/
def acceptRate (exp : α → α) (eCur eProp : α) : α := exp (eCur - eProp)
end accept

section trans
variable {V α : Type} [Sub α] [LT α] [DecidableLT α]

/-- Metropolis update of the chain state given the energies and the uniform draw -/
def metropolis (exp : α → α) (s : Chain V α) (prop : V) (propX : α) (u eCur eProp : α) : Chain V α :=
  if accept exp u eCur eProp then { model := prop, x := propX, accepted := s.accepted + 1 } else s

/-- RWMH: proposal = current + scale ⊙ z ; energies are the misfits -/
def rwmhPropose [Add V] (scale : V → V) (cur z : V) : V := cur + scale z

def rwmhStep [Add V] (exp : α → α) (misfit : V → α) (scale : V → V) (s : Chain V α) (z : V) (u : α) :
    Chain V α :=
  let prop := rwmhPropose scale s.model z
  let px := misfit prop
  metropolis exp s prop px u s.x px

/-- HMC: the current misfit is re-evaluated, energies are misfit + kinetic energy of the
    respective momentum -/
def hmcStep [Add α] (exp : α → α) (misfit : V → α) (kin : V → α) (s : Chain V α)
    (p0 : V) (q1 p1 : V) (u : α) : Chain V α :=
  let cx := misfit s.model
  let px := misfit q1
  metropolis exp { s with x := cx } q1 px u (cx + kin p0) (px + kin p1)

/-- a whole RWMH history: one `(z, u)` pair of draws per transition -/
def rwmhRun [Add V] (exp : α → α) (misfit : V → α) (scale : V → V) (s : Chain V α) (draws : List (V × α)) :
    Chain V α :=
  draws.foldl (fun s d => rwmhStep exp misfit scale s d.1 d.2) s

/-- did the transition from `s` with draws `(z,u)` accept? -/
def rwmhAccepts [Add V] (exp : α → α) (misfit : V → α) (scale : V → V) (s : Chain V α) (z : V) (u : α) : Bool :=
  accept exp u s.x (misfit (rwmhPropose scale s.model z))

/-- number of accepting transitions along a history -/
def rwmhAcceptCount [Add V] (exp : α → α) (misfit : V → α) (scale : V → V) : Chain V α → List (V × α) → Nat
  | _, [] => 0
  | s, d :: ds =>
    (if rwmhAccepts exp misfit scale s d.1 d.2 then 1 else 0)
      + rwmhAcceptCount exp misfit scale (rwmhStep exp misfit scale s d.1 d.2) ds

/-- HMC transition with the trajectory map as a parameter -/
def hmcTransition [Add α] (exp : α → α) (misfit : V → α) (kin : V → α) (propose : V × V → V × V)
    (s : Chain V α) (p0 : V) (u : α) : Chain V α :=
  let r := propose (s.model, p0)
  hmcStep exp misfit kin s p0 r.1 r.2 u

def hmcRun [Add α] (exp : α → α) (misfit : V → α) (kin : V → α) (propose : V × V → V × V)
    (s : Chain V α) (draws : List (V × α)) : Chain V α :=
  draws.foldl (fun s d => hmcTransition exp misfit kin propose s d.1 d.2) s

def hmcAccepts [Add α] (exp : α → α) (misfit : V → α) (kin : V → α) (propose : V × V → V × V)
    (s : Chain V α) (p0 : V) (u : α) : Bool :=
  let r := propose (s.model, p0)
  accept exp u (misfit s.model + kin p0) (misfit r.1 + kin r.2)

def hmcAcceptCount [Add α] (exp : α → α) (misfit : V → α) (kin : V → α) (propose : V × V → V × V) :
    Chain V α → List (V × α) → Nat
  | _, [] => 0
  | s, d :: ds =>
    (if hmcAccepts exp misfit kin propose s d.1 d.2 then 1 else 0)
      + hmcAcceptCount exp misfit kin propose (hmcTransition exp misfit kin propose s d.1 d.2) ds
end trans

section autotune
variable {α : Type} [Sub α] [Mul α] [LT α] [DecidableLT α] [LE α] [DecidableLE α] [OfScientific α]

/-- `min(acceptance_rate, 1)` with a NaN rate counting as 0 -/
def clampRate (isNaN : α → Bool) (acc : α) : α :=
  let a : α := if isNaN acc then 0.0 else acc
  if (1.0 : α) < a then 1.0 else a

/-- the update given the clamped rate `m = min(rate, 1)`; `w = (i+1)^(-learning_rate)`:
    `stepsize -= w * (target - m)`, then clamp to the minimal step if it went non-positive -/
def autotuneCore (w target minStep m step : α) : α :=
  let s := step - w * (target - m)
  if s ≤ 0.0 then (if s < minStep then minStep else s) else s

/-- one autotune update as the code does it -/
def autotuneStep (isNaN : α → Bool) (w target minStep acc step : α) : α :=
  autotuneCore w target minStep (clampRate isNaN acc) step

/-- tuning state: current step and the recorded histories -/
structure Tune (α : Type) where
  step : α
  steps : List α      -- `stepsizes[0..]`
  rates : List α      -- `acceptance_rates[0..]`

/-- proposal `i` completed with acceptance probability `acc`: record, then update -/
def tuneStep (isNaN : α → Bool) (weight : Nat → α) (target minStep : α) (t : Tune α) (i : Nat) (acc : α) : Tune α :=
  { step := autotuneStep isNaN (weight i) target minStep acc t.step,
    steps := t.steps ++ [t.step],
    rates := t.rates ++ [acc] }

/-- a whole autotuned run from proposal index `i0` on -/
def tuneRun (isNaN : α → Bool) (weight : Nat → α) (target minStep : α) : Tune α → Nat → List α → Tune α
  | t, _, [] => t
  | t, i, acc :: rest => tuneRun isNaN weight target minStep (tuneStep isNaN weight target minStep t i acc) (i + 1) rest

/-- learning rates outside (0.5, 1] are refused -/
def learningRateOk (lr : α) : Bool := decide ((0.5 : α) < lr) && decide (lr ≤ (1.0 : α))
end autotune

end HmcVerif
