/-
  Bounds of nested distributions (hmclab/Distributions/base.py: `_effective_bounds`,
  `AdditiveDistribution.collapse_bounds`, the blocks of a `CompositeDistribution`), one coordinate
  at a time: `none` = no bound on that side. Import-free; instantiated at `Float` by the driver's
  cross-check and at `ℝ` by Props/C13 (`ebox_support`: the bounds in force are the intersection of
  all bounds at every depth).
-/
namespace HmcVerif
namespace BoxTree

/-- bounds of one coordinate: optional lower and upper bound -/
abbrev B1 (α : Type) := Option α × Option α

section
variable {α : Type} [LT α] [DecidableLT α]

def optMax : Option α → Option α → Option α
  | none, b => b
  | a, none => a
  | some x, some y => some (if x < y then y else x)
def optMin : Option α → Option α → Option α
  | none, b => b
  | a, none => a
  | some x, some y => some (if y < x then y else x)

/-- `collapse_bounds` on one coordinate: the tighter of both -/
def meet (a b : B1 α) : B1 α := (optMax a.1 b.1, optMin a.2 b.2)
end

/-- an expression of distributions as far as bounds are concerned -/
inductive E (α : Type) where
  | leaf (d : Nat) (box : Nat → B1 α)                               -- any distribution that keeps its bounds itself
  | additive (d : Nat) (own : Nat → B1 α) (parts : List (E α))     -- BayesRule / AdditiveDistribution
  | composite (own : Nat → B1 α) (parts : List (E α))              -- CompositeDistribution: blocks of coordinates

instance {α : Type} : Inhabited (E α) := ⟨.leaf 0 (fun _ => (none, none))⟩

section
variable {α : Type} [LT α] [DecidableLT α]

mutual
def dim : E α → Nat
  | .leaf d _ => d
  | .additive d _ _ => d
  | .composite _ parts => dims parts
def dims : List (E α) → Nat
  | [] => 0
  | p :: ps => dim p + dims ps
end

mutual
/-- the bounds in force for coordinate `i` (`_effective_bounds`) -/
def ebox : E α → Nat → B1 α
  | .leaf _ b, i => b i
  | .additive _ own parts, i => eboxAll parts i (own i)
  | .composite own parts, i => meet (own i) (eboxBlock parts i)
/-- additive: fold of `meet` over the parts -/
def eboxAll : List (E α) → Nat → B1 α → B1 α
  | [], _, acc => acc
  | p :: ps, i, acc => eboxAll ps i (meet acc (ebox p i))
/-- composite: the block that holds coordinate `i` -/
def eboxBlock : List (E α) → Nat → B1 α
  | [], _ => (none, none)
  | p :: ps, i => if i < dim p then ebox p i else eboxBlock ps (i - dim p)
end
end

end BoxTree
end HmcVerif
