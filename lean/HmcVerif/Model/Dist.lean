/-
  Scalar-level model of hmclab's built-in distributions (hmclab/Distributions/base.py).
  Every definition is written once over an abstract scalar type; the vector-level wrappers
  (sum over coordinates) live in Exec/ (Float arrays) and Real/ (Finset sums over ℝ).
-/
namespace HmcVerif
namespace Dist

section
variable {α : Type} [Add α] [Sub α] [Mul α] [Div α] [Neg α] [OfScientific α]

/-- `misfit_bounds` on one coordinate: is the coordinate outside `[lb, ub]`?
    Written as "not inside", so that a NaN coordinate counts as outside. -/
def outside1 [LE α] [DecidableLE α] (lb ub : Option α) (x : α) : Bool :=
  (match lb with | some l => !decide (l ≤ x) | none => false) ||
  (match ub with | some u => !decide (x ≤ u) | none => false)

/-- StandardNormal1D.misfit without the bounds term: `0.5 * m^2 / T` -/
def stdNormalMisfit (T x : α) : α := (0.5 * (x * x)) / T
/-- StandardNormal1D.gradient: `m / T` -/
def stdNormalGrad (T x : α) : α := x / T

/-- one term of the diagonal Normal misfit: `(μ - x) * (c⁻¹ * (μ - x))` (to be summed, times 0.5) -/
def normalDiagTerm (mu invc x : α) : α := (mu - x) * (invc * (mu - x))
/-- one coordinate of the diagonal Normal gradient: `-c⁻¹ * (μ - x)` -/
def normalDiagGrad (mu invc x : α) : α := (-invc) * (mu - x)

/-- one term of the Laplace misfit: `|x - μ| * b⁻¹` -/
def laplaceTerm (abs : α → α) (mu invb x : α) : α := abs (x - mu) * invb
/-- one coordinate of the Laplace gradient: `sign(x - μ) * b⁻¹` -/
def laplaceGrad (sign : α → α) (mu invb x : α) : α := sign (x - mu) * invb

/-- Himmelblau's function `((x² + y − 11)² + (x + y² − 7)²) / T` -/
def himmelblauMisfit (T x y : α) : α :=
  let a := x * x + y - 11.0
  let b := x + y * y - 7.0
  (a * a + b * b) / T
def himmelblauGradX (T x y : α) : α :=
  (2.0 * (2.0 * x * (x * x + y - 11.0) + x + y * y - 7.0)) / T
def himmelblauGradY (T x y : α) : α :=
  (2.0 * (x * x + 2.0 * y * (x + y * y - 7.0) + y - 11.0)) / T
end

end Dist
end HmcVerif
