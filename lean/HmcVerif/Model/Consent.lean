/-
  Model of which operations of hmclab may touch an existing samples file
  (hmclab/Samples.py: Samples.__init__ (mode w), __copy__, __deepcopy__, close;
   hmclab/Samplers.py: sample() = validation, then opening the file, then more validation).

  File contents are abstract identifiers: every write produces a fresh one.
-/
namespace HmcVerif
namespace Consent

/-- the samples file and (NPY back end) its attribute sidecar; `none` = does not exist -/
structure World where
  file : Option Nat
  sidecar : Option Nat
  handles : Nat        -- handles on the path left open
  fresh : Nat          -- next unused content identifier
deriving Repr, DecidableEq

/-- where an invalid `sample()` call fails -/
inductive Stage where
  | valid            -- all arguments valid: the run happens
  | beforeOpen       -- rejected before the samples file is touched (file name, distribution, proposals, thinning…)
  | afterOpen        -- rejected after the file was opened (initial model, max_time, step size, mass matrix, integrator…)
deriving Repr, DecidableEq

inductive Op where
  | sample (stage : Stage) (overwrite : Bool)
  | openWrite (overwrite : Bool)      -- `Samples(path, mode="w", overwrite=…)` then close
  | copyObj                           -- copy.copy of a sampler / Samples object
  | deepcopyObj                       -- copy.deepcopy
  | pickleObj                         -- pickle.dumps (may raise; must not touch the file)
  | loadResults                       -- reading back through Samples / load_results
  | parallelStart (overwrite : Bool)  -- `ParallelSampleSMP.sample(..., overwrite_existing_files=…)` with this path among its file names
deriving Repr, DecidableEq

inductive Result where
  | ok
  | fileExists         -- FileExistsError
  | rejected           -- AssertionError / ValueError / TypeError from validation
deriving Repr, DecidableEq

/-- does the op carry the user's consent to overwrite? -/
def Op.consents : Op → Bool
  | .sample _ ow => ow
  | .openWrite ow => ow
  | .parallelStart ow => ow
  | _ => false

def exists_ (w : World) (npy : Bool) : Bool := w.file.isSome || (npy && w.sidecar.isSome)

/-- open the path for writing: HDF5 creates the file at once; the NPY back end removes an existing
    file, writes the attribute sidecar at once and creates the data file at the first append -/
def rewrite (w : World) (npy hasData : Bool) : World :=
  { file := if npy && !hasData then none else some w.fresh,
    sidecar := if npy then some (w.fresh + 1) else w.sidecar,
    handles := 0, fresh := w.fresh + 2 }

def step (npy : Bool) (w : World) : Op → World × Result
  | .sample .beforeOpen _ => (w, .rejected)
  | .sample st ow =>
      if exists_ w npy && !ow then (w, .fileExists)
      else (rewrite w npy (st == .valid), if st == .valid then .ok else .rejected)
  | .openWrite ow =>
      if exists_ w npy && !ow then (w, .fileExists) else (rewrite w npy false, .ok)
  | .copyObj => (w, .ok)
  | .deepcopyObj => (w, .ok)
  | .pickleObj => (w, .ok)
  | .loadResults => (w, .ok)
  | .parallelStart ow =>
      -- the controller refuses to start at all without consent (its chains always overwrite); the name is resolved as Samples resolves it
      if !ow then (w, .rejected) else (rewrite w npy true, .ok)

def run (npy : Bool) (w : World) (ops : List Op) : World := ops.foldl (fun w o => (step npy w o).1) w

/-! ### several paths

  A sampler object is not tied to one path: every `sample()` call names its own file, while the
  object still holds the (closed) `Samples` handle of its previous run. An operation aimed at path
  `p` acts on path `p` only. -/

/-- the directory: one `World` per path -/
abbrev Disk := Nat → World

def setPath (d : Disk) (p : Nat) (w : World) : Disk := fun q => if q = p then w else d q

/-- an operation aimed at path `p` -/
def stepAt (npy : Bool) (d : Disk) (po : Nat × Op) : Disk × Result :=
  let r := step npy (d po.1) po.2
  (setPath d po.1 r.1, r.2)

def runAt (npy : Bool) (d : Disk) (ops : List (Nat × Op)) : Disk := ops.foldl (fun d o => (stepAt npy d o).1) d

/-! ### a writer and its copies

  `Samples(path, mode="w")` buffers appended columns in memory and writes them out in blocks; `close()`
  writes what is pending. `copy.copy` / `copy.deepcopy` of a writer give a view that does not own the
  file: it starts with nothing pending and closing or dropping it writes nothing. Columns are
  identified by numbers. -/

structure Writer where
  file : List Nat      -- columns on disk
  buf : List Nat       -- pending columns of the owner
  closed : Bool
  copies : Nat         -- live copies
  deriving Repr, DecidableEq

inductive WOp where
  | append (c : Nat)   -- on the owner
  | flush              -- the owner's buffer is written out (the code does this on its own schedule)
  | close              -- the owner is closed
  | copy               -- copy / deepcopy of the owner
  | closeCopy          -- a copy is closed or dropped
  deriving Repr, DecidableEq

def wstep (w : Writer) : WOp → Writer
  | .append c => if w.closed then w else { w with buf := w.buf ++ [c] }
  | .flush => if w.closed then w else { w with file := w.file ++ w.buf, buf := [] }
  | .close => if w.closed then w else { w with file := w.file ++ w.buf, buf := [], closed := true }
  | .copy => { w with copies := w.copies + 1 }
  | .closeCopy => { w with copies := w.copies - 1 }

def wrun (w : Writer) (ops : List WOp) : Writer := ops.foldl wstep w

/-- everything the owner was given so far: on disk or pending -/
def Writer.content (w : Writer) : List Nat := w.file ++ w.buf

/-- the columns of the appends that reach an open owner -/
def accepted : Bool → List WOp → List Nat
  | _, [] => []
  | closed, .append c :: rest => if closed then accepted closed rest else c :: accepted closed rest
  | _, .close :: rest => accepted true rest
  | closed, _ :: rest => accepted closed rest

end Consent
end HmcVerif
