/-
  Model of hmclab/Distributions/LayeredRayTracing2D.py: `_tracerays` for a down-going ray shot from
  the origin (keep_upgoing = False), segment by segment through horizontal layers:
  Snell's law with ray parameter `p = sin θ₀ / v₀`, clipping at the receiver line `x = xr`,
  travel-time / length / per-layer-length accounting.

  Layer `k` lies between `top k` and `bot k` (`top 0 = 0`, `bot k = top (k+1)`) and has velocity
  `vel k`. Trigonometry (`sin`, `cos`, `asin`, `sqrt`) is a parameter.
-/
namespace HmcVerif
namespace RayTrace

structure Seg (α : Type) where
  layer : Nat
  x0 : α
  z0 : α
  x1 : α
  z1 : α
  theta : α        -- angle from the vertical in this layer
  len : α
  vel : α

inductive Status where
  | reached      -- arrived at the receiver line
  | exited       -- left the model through the bottom before reaching the receiver line
  | turned       -- critical angle: `v_k p ≥ 1`
deriving Repr, DecidableEq

structure Ray (α : Type) where
  segs : List (Seg α)
  status : Status
  x : α
  z : α
  tt : α
  dist : α

section
variable {α : Type} [Add α] [Sub α] [Mul α] [Div α] [LT α] [DecidableLT α] [LE α] [DecidableLE α] [OfScientific α]

/-- trace layers `k, k+1, …` (`fuel` of them) from the point `(x, z)` on top of layer `k` -/
def traceFrom (sin cos asin sqrt : α → α) (bot vel : Nat → α) (xr p : α) :
    Nat → Nat → α → α → List (Seg α) → α → α → Ray α
  | 0, _, x, z, acc, tt, dist => { segs := acc.reverse, status := .exited, x := x, z := z, tt := tt, dist := dist }
  | fuel + 1, k, x, z, acc, tt, dist =>
    let a := vel k * p
    if (1.0 : α) ≤ a then { segs := acc.reverse, status := .turned, x := x, z := z, tt := tt, dist := dist }
    else
      let th := asin a
      let m := cos th / sin th
      let xn := (bot k + m * x - z) / m
      if xr < xn then
        -- clip at the receiver line
        let zc := m * xr - m * x + z
        let len := sqrt ((xr - x) * (xr - x) + (zc - z) * (zc - z))
        let s : Seg α := { layer := k, x0 := x, z0 := z, x1 := xr, z1 := zc, theta := th, len := len, vel := vel k }
        { segs := (s :: acc).reverse, status := .reached, x := xr, z := zc, tt := tt + len / vel k, dist := dist + len }
      else
        let len := sqrt ((xn - x) * (xn - x) + (bot k - z) * (bot k - z))
        let s : Seg α := { layer := k, x0 := x, z0 := z, x1 := xn, z1 := bot k, theta := th, len := len, vel := vel k }
        traceFrom sin cos asin sqrt bot vel xr p fuel (k + 1) xn (bot k) (s :: acc) (tt + len / vel k) (dist + len)

/-- the ray shot from the origin at take-off angle `theta0` (radians) through `n` layers -/
def trace (sin cos asin sqrt : α → α) (n : Nat) (bot vel : Nat → α) (xr theta0 : α) : Ray α :=
  traceFrom sin cos asin sqrt bot vel xr (sin theta0 / vel 0) n 0 (0.0 : α) (0.0 : α) [] (0.0 : α) (0.0 : α)

/-- the code reports travel time and length for every ray that reaches the receiver line, in
    whichever layer it ends (the deepest layer included; `topLast`, the top of that layer, is kept
    in the interface for the driver) -/
def reported (r : Ray α) (_topLast : α) : Bool := r.status == .reached
end

/-- path length spent in layer `j` -/
def perLayer {α : Type} [Add α] (zero : α) (segs : List (Seg α)) (j : Nat) : α :=
  (segs.filter (fun s => s.layer == j)).foldl (fun acc s => acc + s.len) zero

end RayTrace
end HmcVerif
