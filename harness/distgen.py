"""Random expression trees over hmclab.Distributions.base / Transforms, built simultaneously as
hmclab objects and as protocol strings for the Lean model (Exec/Dists.lean)."""
import math

import numpy as np

from .common import fhex, vhex, mhex, opt


def _hm():
    from hmclab import Distributions as D

    return D


class Node:
    def __init__(self, obj, proto, desc, d, kind, children=(), has_kinks=False, positive_only=False, normalizable=False, generable=True,
                 lb=None, ub=None):
        self.obj, self.proto, self.desc, self.d, self.kind = obj, proto, desc, d, kind
        self.children = list(children)
        self.has_kinks = has_kinks
        self.positive_only = positive_only
        self.normalizable = normalizable
        self.generable = generable
        self.lb, self.ub = lb, ub  # own bounds as passed to the constructor

    def depth(self):
        return 1 + max([c.depth() for c in self.children], default=0)

    def kinds(self):
        out = {self.kind}
        for c in self.children:
            out |= c.kinds()
        return out


def box_str(lb, ub):
    return f"{opt(None if lb is None else vhex(lb))} {opt(None if ub is None else vhex(ub))}"


def rand_bounds(rnd, d, p=0.35, wide=True):
    if rnd.random() > p:
        return None, None
    lo = np.array([[rnd.choice([-3.0, -2.0, -5.0, -math.inf] if wide else [-1.0, -0.5])] for _ in range(d)])
    hi = np.array([[rnd.choice([3.0, 2.5, 6.0, math.inf] if wide else [1.0, 0.7])] for _ in range(d)])
    r = rnd.random()
    if r < 0.15:
        return None, hi
    if r < 0.3:
        return lo, None
    return lo, hi


def spd(rnd, d):
    a = np.array([[rnd.gauss(0, 1) for _ in range(d)] for _ in range(d)])
    m = a @ a.T / d + np.eye(d) * rnd.choice([0.5, 1.0, 2.0])
    return 0.5 * (m + m.T)


def _enc(rnd, arr, whole=False):
    """the same numbers in another container / dtype: integer arrays and nested lists when all values are whole numbers"""
    if arr is None or not whole or not np.all(np.isfinite(arr)) or not np.all(arr == np.round(arr)):
        return None if arr is None else arr.copy()
    k = rnd.choice(["f64", "int64", "int32", "list"])
    if k == "f64":
        return arr.copy()
    if k == "list":
        return np.array([[int(v)] for v in arr.ravel()]) if arr.ndim == 2 and arr.shape[1] == 1 else np.array(arr.astype(int).tolist())
    return arr.astype(np.int64 if k == "int64" else np.int32)


def _benc(rnd, b):
    """bounds handed to a constructor: the (dimensions, 1) column, or - as every elementary distribution accepts it - the plain list of numbers"""
    if b is None:
        return None
    if _ENC_STREAM.random() < 0.3:
        return [float(v) for v in b.ravel()]
    return b.copy()


# a stream of its own, so that the expressions drawn for a seed stay what they were before this choice existed
_ENC_STREAM = __import__("random").Random(20260930)


def _same_object_twice(parts):
    """one object in two roles: now and then a later part of a composed distribution is the very object of an earlier part of the same dimension
    (`CompositeDistribution([prior] * n)`, the same prior for two parameter blocks); the expression is the same as with two equal objects"""
    if _ENC_STREAM.random() >= 0.35:
        return
    for j in range(len(parts) - 1, 0, -1):
        for i in range(j):
            if parts[i].d == parts[j].d:
                parts[j] = parts[i]
                return


def _normalize_history(rnd, obj):
    """'after normalize()' holds after any history with at least one call: call it 1-3 times"""
    for _ in range(rnd.choice([1, 1, 2, 3])):
        obj.normalize()


def _leaf(rnd, d, normalized=False, allow=("normaldiag", "normalscalar", "normaldiagmatrix", "normalfull", "laplace", "uniform", "stdnormal", "himmelblau"),
         bounds_p=0.35):
    D = _hm()
    cands = [k for k in allow if not (k == "stdnormal" and d != 1) and not (k == "himmelblau" and d != 2)]
    k = rnd.choice(cands)
    lb, ub = rand_bounds(rnd, d, bounds_p)
    if k == "uniform":
        lb = np.array([[rnd.choice([-3.0, -2.0, -1.5])] for _ in range(d)])
        ub = np.array([[rnd.choice([3.0, 2.5, 1.5])] for _ in range(d)])
        obj = D.Uniform(lb.copy(), ub.copy())
        return Node(obj, f"uniform {box_str(lb, ub)}", {"kind": k, "lb": lb.ravel().tolist(), "ub": ub.ravel().tolist()}, d, k, lb=lb, ub=ub)
    if k == "stdnormal":
        T = rnd.choice([1.0, 2.0, 0.5, 7.5])
        obj = D.StandardNormal1D(temperature=T)
        obj.update_bounds(None if lb is None else lb.copy(), None if ub is None else ub.copy())
        return Node(obj, f"stdnormal {fhex(T)} {box_str(lb, ub)}", {"kind": k, "T": T}, 1, k, lb=lb, ub=ub, generable=True)
    if k == "himmelblau":
        T = rnd.choice([1.0, 10.0, 100.0])
        obj = D.Himmelblau(temperature=T)
        obj.update_bounds(None if lb is None else lb.copy(), None if ub is None else ub.copy())
        return Node(obj, f"himmelblau {fhex(T)} {box_str(lb, ub)}", {"kind": k, "T": T}, 2, k, lb=lb, ub=ub, generable=False)
    mu = np.array([[rnd.uniform(-1, 1)] for _ in range(d)])
    whole = rnd.random() < 0.2     # a model written down with whole numbers (integer arrays, lists) is the same model
    if whole:
        mu = np.array([[float(rnd.choice([-2, -1, 0, 1, 2]))] for _ in range(d)])
        if lb is not None:
            lb = np.where(np.isfinite(lb), np.round(lb), lb)
        if ub is not None:
            ub = np.where(np.isfinite(ub), np.round(ub), ub)
    if k == "laplace":
        b = np.array([[rnd.choice([0.5, 1.0, 2.0, rnd.uniform(0.3, 3)])] for _ in range(d)])
        if whole:
            b = np.array([[float(rnd.choice([1, 2, 3]))] for _ in range(d)])
        obj = D.Laplace(_enc(rnd, mu, whole), _enc(rnd, b, whole), lower_bounds=_enc(rnd, lb, whole), upper_bounds=_enc(rnd, ub, whole))
        if normalized:
            _normalize_history(rnd, obj)
        return Node(obj, f"laplace {vhex(mu)} {vhex(b)} {int(normalized)} {box_str(lb, ub)}", {"kind": k, "mu": mu.ravel().tolist(), "b": b.ravel().tolist()},
                    d, k, has_kinks=True, normalizable=True, lb=lb, ub=ub)
    if k in ("normaldiag", "normalscalar"):
        if k == "normalscalar":
            c = rnd.choice([0.5, 1.0, 2.0, rnd.uniform(0.2, 4)])
            var = np.ones((d, 1)) * c
            cov_arg = float(c)
        else:
            var = np.array([[rnd.choice([0.5, 1.0, 2.0, rnd.uniform(0.2, 4)])] for _ in range(d)])
            if whole:
                var = np.array([[float(rnd.choice([1, 2, 3, 4]))] for _ in range(d)])
            cov_arg = _enc(rnd, var, whole)
        obj = D.Normal(_enc(rnd, mu, whole), cov_arg, lower_bounds=_enc(rnd, lb, whole), upper_bounds=_enc(rnd, ub, whole))
        if normalized:
            _normalize_history(rnd, obj)
        return Node(obj, f"normaldiag {vhex(mu)} {vhex(var)} {int(normalized)} {box_str(lb, ub)}",
                    {"kind": k, "mu": mu.ravel().tolist(), "var": var.ravel().tolist()}, d, k, normalizable=True, lb=lb, ub=ub)
    # full covariance, or a diagonal matrix given in matrix encoding
    if k == "normaldiagmatrix":
        cov = np.diag([rnd.choice([0.5, 1.0, 2.0, rnd.uniform(0.2, 4)]) for _ in range(d)])
    else:
        cov = spd(rnd, d)
    if d == 1:
        cov = cov.reshape(1, 1)
    inv = np.linalg.inv(cov)
    extra = {}
    if _ENC_STREAM.random() < 0.3:
        # the optional argument for callers who have the inverse at hand (the same matrix inverse the constructor would compute)
        extra["inverse_covariance"] = inv.copy()
    obj = D.Normal(mu.copy(), cov.copy(), lower_bounds=None if lb is None else lb.copy(), upper_bounds=None if ub is None else ub.copy(), **extra)
    if normalized:
        _normalize_history(rnd, obj)
    L = np.linalg.cholesky(cov)
    return Node(obj, f"normalfull {vhex(mu)} {mhex(inv)} {mhex(L)} {int(normalized)} {box_str(lb, ub)}",
                {"kind": k, "mu": mu.ravel().tolist(), "cov": cov.tolist()}, d, k, normalizable=True, lb=lb, ub=ub)


def _tree(rnd, d, depth, normalized=False, for_generate=False):
    """random expression of dimension d"""
    D = _hm()
    if depth <= 0 or rnd.random() < 0.35:
        allow = ("normaldiag", "normalscalar", "normaldiagmatrix", "normalfull", "laplace") if (normalized or for_generate) else \
            ("normaldiag", "normalscalar", "normaldiagmatrix", "normalfull", "laplace", "uniform", "stdnormal", "himmelblau")
        if for_generate and not normalized:
            allow = allow + ("uniform", "stdnormal")
        return leaf(rnd, d, normalized=normalized, allow=allow, bounds_p=0.0 if (normalized or for_generate) else 0.35)
    choices = ["mixture", "composite", "logt"] if for_generate else ["additive", "composite", "mixture", "logt"]
    if normalized:
        return leaf(rnd, d, normalized=True, allow=("normaldiag", "normalscalar", "normaldiagmatrix", "normalfull", "laplace"), bounds_p=0.0)
    w = rnd.choice(choices)
    if w == "additive":
        k = rnd.randint(1, 3)
        parts = [tree(rnd, d, depth - 1) for _ in range(k)]
        _same_object_twice(parts)
        lb, ub = rand_bounds(rnd, d, 0.3)
        cls = rnd.choice([D.AdditiveDistribution, D.BayesRule])
        # the list of terms may be assembled by the constructor alone or grow afterwards through add_distribution(), with evaluations in between
        j = rnd.choice([k, k, rnd.randint(1, k)])
        obj = cls([p.obj for p in parts[:j]], lower_bounds=_benc(rnd, lb), upper_bounds=_benc(rnd, ub))
        for p in parts[j:]:
            if rnd.random() < 0.5:
                try:
                    with np.errstate(all="ignore"):
                        obj.gradient(np.array([[rnd.uniform(0.2, 1.2)] for _ in range(d)]))
                except Exception:
                    pass
            obj.add_distribution(p.obj)
        return Node(obj, f"additive {k} " + " ".join(p.proto for p in parts) + " " + box_str(lb, ub), {"kind": w, "parts": [p.desc for p in parts], "via_constructor": j}, d, w,
                    parts, has_kinks=any(p.has_kinks for p in parts), positive_only=any(p.positive_only for p in parts), generable=False, lb=lb, ub=ub)
    if w == "composite" and d >= 2:
        k = rnd.randint(2, min(3, d))
        cuts = sorted(rnd.sample(range(1, d), k - 1))
        dims = [b - a for a, b in zip([0] + cuts, cuts + [d])]
        parts = [tree(rnd, di, depth - 1, for_generate=for_generate) for di in dims]
        _same_object_twice(parts)
        lb, ub = (None, None) if for_generate else rand_bounds(rnd, d, 0.25)
        obj = D.CompositeDistribution([p.obj for p in parts], lower_bounds=_benc(rnd, lb), upper_bounds=_benc(rnd, ub))
        return Node(obj, f"composite {k} " + " ".join(p.proto for p in parts) + " " + box_str(lb, ub), {"kind": w, "dims": dims, "parts": [p.desc for p in parts]},
                    d, w, parts, has_kinks=any(p.has_kinks for p in parts), positive_only=any(p.positive_only for p in parts), generable=all(p.generable for p in parts), lb=lb, ub=ub)
    if w == "mixture":
        k = rnd.randint(2, 3)
        parts = [tree(rnd, d, 0, normalized=True) for _ in range(k)]
        ws = np.array([rnd.uniform(0.2, 1.0) for _ in range(k)])
        ws = ws / ws.sum()
        obj = D.Mixture([p.obj for p in parts], ws.tolist())
        return Node(obj, f"mixture {k} " + " ".join(p.proto for p in parts) + f" {vhex(ws)} - -", {"kind": w, "weights": ws.tolist(), "parts": [p.desc for p in parts]},
                    d, w, parts, has_kinks=any(p.has_kinks for p in parts), generable=True)
    if w == "logt":
        inner = tree(rnd, d, depth - 1, for_generate=for_generate)
        if inner.positive_only:
            return inner
        base = rnd.choice([10, 2.0, math.e, 3.5])
        obj = D.TransformToLogSpace(inner.obj, base=base)
        return Node(obj, f"logt {fhex(base)} {inner.proto} - -", {"kind": w, "base": base, "inner": inner.desc}, d, w, [inner],
                    has_kinks=inner.has_kinks, positive_only=True, generable=inner.generable)
    return leaf(rnd, d)


def _same(a, b):
    if a is None or b is None:
        return a is None and b is None
    return np.shape(a) == np.shape(b) and np.array_equal(np.asarray(a, dtype=float), np.asarray(b, dtype=float))


def intact_problems(node, path="root"):
    """Composing distributions must not change the parts: every leaf (and every composite block wrapper) still has the bounds it was
    constructed with. Reference = the values recorded at construction, not what the object says now."""
    out = []
    if not node.children or node.kind == "composite":
        lo = getattr(node.obj, "lower_bounds", None)
        hi = getattr(node.obj, "upper_bounds", None)
        if not _same(lo, node.lb):
            out.append(f"{path} ({node.kind}): lower bounds are now {None if lo is None else np.ravel(lo).tolist()}, constructed with {None if node.lb is None else np.ravel(node.lb).tolist()}")
        if not _same(hi, node.ub):
            out.append(f"{path} ({node.kind}): upper bounds are now {None if hi is None else np.ravel(hi).tolist()}, constructed with {None if node.ub is None else np.ravel(node.ub).tolist()}")
    for i, c in enumerate(node.children):
        out += intact_problems(c, f"{path}.{i}")
    return out


def effective_bounds(node):
    """The bounds in force for every coordinate of the expression, from the values recorded at construction (never from the objects): a leaf has its own box;
    an additive node the intersection of its own box with what is in force in every part; a composite keeps bounds in its blocks, at any depth - stacked,
    infinite where a block has none, intersected with its own box. A side without any finite entry is None."""
    def col(v, fill):
        return np.full((node.d, 1), fill) if v is None else np.asarray(v, dtype=float).reshape(-1, 1)

    if node.kind == "additive":
        lo, hi = col(node.lb, -np.inf), col(node.ub, np.inf)
        for c in node.children:
            cl, ch = effective_bounds(c)
            if cl is not None:
                lo = np.maximum(lo, cl)
            if ch is not None:
                hi = np.minimum(hi, ch)
    elif node.kind == "composite":
        ls, hs = [], []
        for c in node.children:
            cl, ch = effective_bounds(c)
            ls.append(np.full((c.d, 1), -np.inf) if cl is None else cl)
            hs.append(np.full((c.d, 1), np.inf) if ch is None else ch)
        lo, hi = np.maximum(np.vstack(ls), col(node.lb, -np.inf)), np.minimum(np.vstack(hs), col(node.ub, np.inf))
    else:
        lo, hi = col(node.lb, -np.inf), col(node.ub, np.inf)
    return (lo if np.any(lo > -np.inf) else None), (hi if np.any(hi < np.inf) else None)


def reflect_box(lo, hi, q, p):
    """Mirror reflection at the walls of the box until the particle is inside, the momentum component negated with every reflection (in place).
    Written as the billiard it describes (one wall at a time), not as the library computes it; compare with a tolerance of a few ulp of the box."""
    d = q.shape[0]
    for i in range(d):
        l = -np.inf if lo is None else float(np.broadcast_to(lo, q.shape)[i, 0])
        u = np.inf if hi is None else float(np.broadcast_to(hi, q.shape)[i, 0])
        x, m = float(q[i, 0]), float(p[i, 0])
        if not np.isfinite(x) or not (l < u):
            # the library's two single reflections (nothing to fold in a degenerate box or from infinity)
            if x < l:
                x, m = 2 * l - x, -m
            if x > u:
                x, m = 2 * u - x, -m
        else:
            for _ in range(100000):
                if x < l:
                    x, m = 2 * l - x, -m
                elif x > u:
                    x, m = 2 * u - x, -m
                else:
                    break
        q[i, 0], p[i, 0] = x, m


def reflect_close(a, b, lo, hi):
    """equality of reflected coordinates up to rounding (a few ulp of the largest number involved)"""
    sc = max([1.0] + [float(np.max(np.abs(v[np.isfinite(v)]))) for v in (a, b, lo, hi) if v is not None and np.any(np.isfinite(v))])
    return a.shape == b.shape and bool(np.all((a == b) | (np.abs(a - b) <= 1e-12 * sc)))


def expected_reflect(node, q, p):
    """What corrector() is documented to do, from the construction values alone: an additive distribution mirrors at the bounds in force (its own,
    intersected with those of its parts); a composite mirrors at its own bounds if it has any, else every block corrects its own coordinates; a leaf
    mirrors at its own bounds. In place on the (d, 1) arrays q and p."""
    def col(v):
        return None if v is None else np.asarray(v, dtype=float).reshape(-1, 1)

    if node.kind == "additive":
        reflect_box(*effective_bounds(node), q, p)
    elif node.kind == "composite":
        if node.lb is not None or node.ub is not None:
            reflect_box(col(node.lb), col(node.ub), q, p)
        else:
            k = 0
            for c in node.children:
                expected_reflect(c, q[k:k + c.d], p[k:k + c.d])
                k += c.d
    else:
        reflect_box(col(node.lb), col(node.ub), q, p)


HISTORY_P = 0.3


def with_history(rnd, node):
    """Before it is used, the object may already have a past that must be invisible: evaluations at other points,
    pickle / deep-copy round trips (the copy replaces the object). Recorded in node.desc['history']."""
    import copy
    import pickle

    if rnd.random() >= HISTORY_P:
        return node
    ops = [rnd.choice(["misfit", "gradient", "deepcopy", "pickle", "misfit"]) for _ in range(rnd.choice([1, 2, 3]))]
    done = []
    for op in ops:
        try:
            with np.errstate(all="ignore"):
                if op == "misfit":
                    node.obj.misfit(point(rnd, node, interior=rnd.random() < 0.7))
                elif op == "gradient":
                    node.obj.gradient(point(rnd, node))
                elif op == "deepcopy":
                    node.obj = copy.deepcopy(node.obj)
                else:
                    node.obj = pickle.loads(pickle.dumps(node.obj))
            done.append(op)
        except Exception as e:  # an evaluation that raises at this point raises without a history too; copies of unpicklable objects are skipped
            done.append(f"{op}:raised {type(e).__name__}")
    node.desc = dict(node.desc, history=done)
    return node


def leaf(rnd, d, *a, **k):
    return with_history(rnd, _leaf(rnd, d, *a, **k))


def tree(rnd, d, depth, *a, **k):
    return with_history(rnd, _tree(rnd, d, depth, *a, **k))


def point(rnd, node, interior=True, far=False):
    """evaluation point; positive for log-transforms; `far`: tens of standard deviations away from everything"""
    d = node.d
    if node.positive_only:
        return np.array([[node_base(node) ** rnd.uniform(-1.0, 1.0)] for _ in range(d)])
    if far:
        return np.array([[rnd.choice([-1, 1]) * rnd.uniform(25, 70)] for _ in range(d)])
    return np.array([[rnd.uniform(-1.4, 1.4) if interior else rnd.uniform(-4, 4)] for _ in range(d)])


def node_base(node):
    if "base" in node.desc:
        return node.desc["base"]
    for c in node.children:
        if c.positive_only:
            return node_base(c)
    return 10.0
