"""./check <Cxx> [--tier quick|thorough] [--replay <file>]   (DESIGN.md §2.4)"""
import argparse
import importlib
import json
import os
import re
import subprocess
import sys
import time
import traceback

from . import common
from .common import VERIF, LEAN_DIR, Finding, jsonable

ALLOWED_AXIOMS = {"propext", "Classical.choice", "Quot.sound"}
FORBIDDEN = re.compile(r"\b(sorry|admit|native_decide|bv_decide|implemented_by)\b|^\s*axiom\s|^\s*unsafe\s|maxHeartbeats\s+0\b")

TRUSTED_BASE = [
    "Lean 4.33 kernel; axioms propext, Classical.choice, Quot.sound only (no native_decide/bv_decide, no own axioms, no sorry)",
    "hand-written Lean model (lean/HmcVerif/Model); its faithfulness to /repo is established only by this run's differential correspondence on generated inputs",
    "Exec instance dictionaries (Float/FVec wrappers, line protocol) and the real-number instantiation used in the theorems",
    "IEEE rounding, BLAS summation order, LAPACK, h5py/npy formats, NumPy PRNG laws, OS pipes and scheduling are parameters of the model, not verified",
    "the Python harness: probes (scripted RNG/clock, tracers), tolerances, generators",
]


def sh(cmd, cwd=None, timeout=3600):
    return subprocess.run(cmd, cwd=cwd, capture_output=True, text=True, timeout=timeout)


# ----------------------------------------------------------------------------- Lean side
def strip_comments(src):
    src = re.sub(r"/-.*?-/", "", src, flags=re.S)
    return "\n".join(l.split("--")[0] for l in src.splitlines())


def lean_obligations(pid, tier):
    """Build the property's theorems, audit axioms. Returns (obligations, failures[list of str], cmd)."""
    mods = [f"HmcVerif.Props.{pid}", f"HmcVerif.Audit.{pid}", "hmcdrv"]
    cmd = "cd lean && lake build " + " ".join(mods) + f" && lake env lean HmcVerif/Audit/{pid}.lean"
    failures = []
    r = sh(["lake", "build"] + mods, cwd=LEAN_DIR)
    if r.returncode != 0:
        failures.append("lake build failed: " + (r.stdout + r.stderr)[-1500:])
        return [], failures, cmd
    # forbidden constructs anywhere in the library
    for root, _, files in os.walk(os.path.join(LEAN_DIR, "HmcVerif")):
        for f in files:
            if f.endswith(".lean"):
                src = strip_comments(open(os.path.join(root, f)).read())
                for ln in src.splitlines():
                    if FORBIDDEN.search(ln):
                        failures.append(f"forbidden construct in {f}: {ln.strip()[:100]}")
    a = sh(["lake", "env", "lean", f"HmcVerif/Audit/{pid}.lean"], cwd=LEAN_DIR)
    if a.returncode != 0:
        failures.append("audit file failed: " + (a.stdout + a.stderr)[-1500:])
        return [], failures, cmd
    obligations = []
    txt = a.stdout
    # "'name' depends on axioms: [a, b]"  or "'name' does not depend on any axioms"
    for m in re.finditer(r"'([^']+)' depends on axioms: \[([^\]]*)\]", txt):
        axs = {x.strip() for x in m.group(2).replace("\n", " ").split(",") if x.strip()}
        obligations.append({"theorem": m.group(1), "axioms": sorted(axs)})
        bad = axs - ALLOWED_AXIOMS
        if bad:
            failures.append(f"theorem {m.group(1)} depends on non-standard axioms {sorted(bad)}")
    for m in re.finditer(r"'([^']+)' does not depend on any axioms", txt):
        obligations.append({"theorem": m.group(1), "axioms": []})
    if not obligations:
        failures.append("audit printed no theorems")
    if tier == "thorough":
        # every module of this project that the audited theorems depend on (Props, Real, Model), re-checked by the independent checker
        mods = _project_closure(f"HmcVerif.Audit.{pid}")
        c = sh(["lake", "env", "leanchecker"] + mods, cwd=LEAN_DIR, timeout=3600)
        cmd += " && lake env leanchecker " + " ".join(mods)
        if c.returncode != 0:
            failures.append("leanchecker rejected a module: " + (c.stdout + c.stderr)[-800:])
        else:
            obligations.append({"theorem": "leanchecker " + " ".join(mods), "axioms": []})
    return obligations, failures, cmd


def _project_closure(root):
    """the modules of the lake project in the import closure of `root` (the root itself last), read off the source files"""
    seen, order = set(), []

    def visit(m):
        if m in seen or not m.startswith("HmcVerif"):
            return
        seen.add(m)
        path = os.path.join(LEAN_DIR, *m.split(".")) + ".lean"
        if os.path.exists(path):
            for line in open(path):
                mm = re.match(r"\s*import\s+(\S+)", line)
                if mm:
                    visit(mm.group(1))
        order.append(m)

    visit(root)
    return order


# ----------------------------------------------------------------------------- findings
def load_known():
    p = os.path.join(VERIF, "known_findings.json")
    if not os.path.exists(p):
        return []
    return json.load(open(p)).get("entries", [])


def _round(args):
    """one further round of a property's suites on another seed (run in a worker process)"""
    import importlib

    pid, tier, sd = args
    mod = importlib.import_module(f"harness.suites.{pid.lower()}")
    suites, findings = mod.run(tier, sd)
    for f in findings:
        f.origin = {"tier": tier, "seed": sd, "via": "run"}
    return suites, findings


def _raised_in_implementation(tb_text):
    """did the exception escape from the library under test (a library frame below the last harness frame)?"""
    frames = [os.path.abspath(f) for f in re.findall(r'File "([^"]+)", line \d+', tb_text)]
    lib = os.path.join(os.path.abspath(common.REPO), "hmclab")
    har = os.path.join(VERIF, "harness")
    # the frames below the last harness frame: the exception escaped from the library if one of them lies in it (the innermost one may be
    # NumPy / SciPy / h5py called by the library)
    last_h = max([i for i, f in enumerate(frames) if f.startswith(har)], default=-1)
    return any(f.startswith(lib) for f in frames[last_h + 1:])


def match_known(finding, known):
    for e in known:
        if e.get("kind") != "finding" or e.get("property") != finding.prop:
            continue
        sig = e.get("signature", {})
        if all(finding.signature.get(k) == v for k, v in sig.items()):
            return e
    return None


def write_replay(pid, kind, body):
    os.makedirs(os.path.join(VERIF, "replays"), exist_ok=True)
    name = f"{pid}-{kind}-{common.chash(body)}.json"
    path = os.path.join("replays", name)
    with open(os.path.join(VERIF, path), "w") as f:
        json.dump(jsonable({"property": pid, "kind": kind, **body}), f, indent=1)
    return path


# ----------------------------------------------------------------------------- main flow
def run_check(pid, tier, seed):
    t0 = time.time()
    mod = importlib.import_module(f"harness.suites.{pid.lower()}")
    known = load_known()
    out_lines = []
    violations = []

    obligations, proof_failures, checker_cmd = lean_obligations(pid, tier)

    suites = []
    findings = []
    infra_error = None
    try:
        suites, findings = mod.run(tier, seed)
        for f in findings:
            f.origin = {"tier": tier, "seed": seed, "via": "run"}
    except common.DriverError as e:
        proof_failures.append(f"model driver failed: {e}")
    except Exception:
        infra_error = traceback.format_exc()

    # thorough tier: further rounds of every suite on other seeds, in parallel processes
    rounds = 1
    if tier == "thorough" and infra_error is None and not proof_failures:
        rounds = int(os.environ.get("VERIF_THOROUGH_ROUNDS", getattr(mod, "THOROUGH_ROUNDS", 16)))
        if rounds > 1:
            import concurrent.futures
            import multiprocessing

            extra_seeds = [seed + 7919 * k for k in range(1, rounds)]
            try:
                with concurrent.futures.ProcessPoolExecutor(max_workers=min(len(extra_seeds), max(1, (os.cpu_count() or 4) - 2)),
                                                            mp_context=multiprocessing.get_context("fork")) as ex:
                    results = list(ex.map(_round, [(pid, tier, sd) for sd in extra_seeds]))
                for su2, fi2 in results:
                    by = {s.name: s for s in suites}
                    for s2 in su2:
                        if s2.name in by:
                            by[s2.name].merge(s2)
                        else:
                            suites.append(s2)
                    findings = list(findings) + list(fi2)
            except Exception:
                infra_error = traceback.format_exc()

    if infra_error is not None:
        print(infra_error, file=sys.stderr)
        if _raised_in_implementation(infra_error):
            # the library itself raised while the property was being exercised in a way the harness does not tolerate anywhere on the
            # unchanged tree: the property is no longer shown to hold, and the traceback is the replay
            path = write_replay(pid, "implementation-raised", {"traceback": infra_error, "origin": {"tier": tier, "seed": seed, "via": "run"},
                                                               "note": "an exception escaped from the implementation during the check"})
            print(f"[{pid}] the implementation raised during the check (traceback in {path})")
            print(f"VIOLATION property={pid} replay={path} no-failing-input-found")
            return 1
        print(f"INFRASTRUCTURE-ERROR property={pid} (harness exception, see stderr)")
        return 2

    broken = [s for s in suites if not s.ok]
    # correspondence or proof broken -> failing-input search on the implementation
    if (broken or proof_failures) and hasattr(mod, "search"):
        try:
            found = list(mod.search(tier, seed, broken))
            for f in found:
                f.origin = {"tier": tier, "seed": seed, "via": "search"}
            findings = list(findings) + found
        except Exception:
            print(traceback.format_exc(), file=sys.stderr)

    # generic widening of the search: the property's direct oracles on further seeds
    if (broken or proof_failures) and not [f for f in findings if match_known(f, known) is None]:
        for extra in (1, 2, 3):
            try:
                _, more = mod.run("quick", seed + 1000 * extra)
                for f in more:
                    f.origin = {"tier": "quick", "seed": seed + 1000 * extra, "via": "run"}
            except Exception:
                print(traceback.format_exc(), file=sys.stderr)
                break
            findings = list(findings) + list(more)
            if [f for f in more if match_known(f, known) is None]:
                break

    # de-duplicate findings by signature
    seen = set()
    uniq = []
    for f in findings:
        k = common.chash(f.signature)
        if k not in seen:
            seen.add(k)
            uniq.append(f)
    findings = uniq

    unlisted = []
    known_hits = []
    for f in findings:
        e = match_known(f, known)
        if e is not None:
            known_hits.append((f, e))
        else:
            unlisted.append(f)
    for f, e in known_hits:
        out_lines.append(f"KNOWN-FINDING: property={pid} {e.get('what', f.what)}")
    for f in unlisted:
        path = write_replay(pid, "counterexample", {"what": f.what, "signature": f.signature, "replay": f.replay,
                                                    "origin": getattr(f, "origin", {"tier": tier, "seed": seed, "via": "run"}), "replay_hash": common.chash(jsonable(f.replay))})
        violations.append(f"VIOLATION property={pid} replay={path}")
    if (broken or proof_failures) and not unlisted:
        # the property is no longer shown to hold, and no (unlisted) failing input was found
        body = {
            "unchecked": [s.name for s in broken] + proof_failures,
            "disagreements": [d for s in broken for d in s.disagreements[:5] if d],
            "note": "correspondence/proof obligation no longer checks; the failing-input search on the implementation found no counterexample",
            "origin": {"tier": tier, "seed": seed, "via": "run"},
        }
        kind = "proof-broken" if proof_failures and not broken else "correspondence-broken"
        path = write_replay(pid, kind, body)
        violations.append(f"VIOLATION property={pid} replay={path} no-failing-input-found")

    n_obl = len(obligations) + len(suites) + len(proof_failures)
    n_dis = len([o for o in obligations]) + len([s for s in suites if s.ok])
    if proof_failures:
        n_dis = min(n_dis, n_obl - len(proof_failures))
    ev = {
        "property_id": pid,
        "tier": tier,
        "seed": seed,
        "level": "proof",
        "coverage": {
            "obligations": n_obl,
            "discharged": n_dis,
            "checker_cmd": checker_cmd,
            "trusted_base": TRUSTED_BASE + list(getattr(mod, "TRUSTED_EXTRA", [])),
            "theorems": obligations,
            "proof_failures": proof_failures,
            "evaluations": sum(s.evaluations for s in suites),
            "distinct_nontrivial": sum(len(s.nontrivial) for s in suites),
            "rule": " | ".join(f"{s.name}: {s.rule}" for s in suites),
            "samples": [x for s in suites for x in s.samples][:8] or [o for o in obligations[:3]],
            "suites": [s.summary() for s in suites],
            "indeterminate": sum(s.indeterminate for s in suites),
            "known_findings_reproduced": [e.get("what") for _, e in known_hits],
            "exhaustive": False,
        },
        "assumptions": list(getattr(mod, "ASSUMPTIONS", [])),
        "wall_s": round(time.time() - t0, 3),
        "violations": len(violations),
    }
    # VERIF_EVIDENCE_DIR: where the evidence goes when the run is not one of record (the maintenance scripts that run the checks against a scratch
    # checkout with a seeded change set it, so that evidence/ keeps the files of the last run against /repo itself)
    evdir = os.environ.get("VERIF_EVIDENCE_DIR") or os.path.join(VERIF, "evidence")
    os.makedirs(evdir, exist_ok=True)
    with open(os.path.join(evdir, f"{pid}.json"), "w") as f:
        json.dump(jsonable(ev), f, indent=1)

    for l in out_lines:
        print(l)
    for s in suites:
        sm = s.summary()
        print(f"[{pid}] suite {s.name}: {sm['evaluations']} cases, {sm['distinct_nontrivial']} distinct non-trivial, "
              f"{sm['disagreements']} disagreements, {sm['indeterminate']} indeterminate")
    print(f"[{pid}] theorems audited: {len(obligations)}; proof failures: {len(proof_failures)}; wall {ev['wall_s']}s")
    for pf in proof_failures:
        print(f"[{pid}] PROOF-OBLIGATION-FAILED: {pf[:300]}")
    for v in violations:
        print(v)
    return 1 if violations else 0


def run_replay(pid, path):
    """Re-decide a recorded violation on the current tree. A suite's own replay function is used when it gives a definite
    answer; otherwise the run the finding came from is regenerated (all stimuli derive from tier and seed) and the finding
    must recur — same signature, and the same stimulus when one was recorded — to count as failing."""
    mod = importlib.import_module(f"harness.suites.{pid.lower()}")
    body = json.load(open(path if os.path.isabs(path) else os.path.join(VERIF, path)))
    answer = None
    if hasattr(mod, "replay") and body.get("kind") == "counterexample":
        try:
            answer = mod.replay(body)
        except Exception:
            answer = None
        if answer is not None and str(answer[1]).startswith("re-run"):
            answer = None
    if answer is None:
        origin = body.get("origin") or {"tier": "quick", "seed": 0, "via": "run"}
        obligations, proof_failures, _ = lean_obligations(pid, "quick")
        try:
            suites, findings = mod.run(origin["tier"], origin["seed"])
            broken = [s for s in suites if not s.ok]
            if origin.get("via") == "search" or ((broken or proof_failures) and hasattr(mod, "search")):
                findings = list(findings) + list(mod.search(origin["tier"], origin["seed"], broken))
        except Exception:
            print(traceback.format_exc(), file=sys.stderr)
            print(f"INFRASTRUCTURE-ERROR property={pid} (harness exception during replay, see stderr)")
            return 2
        if body.get("kind") == "counterexample":
            want_sig = common.chash(body.get("signature"))
            want_rep = body.get("replay_hash")
            same = [f for f in findings if common.chash(f.signature) == want_sig]
            exact = [f for f in same if want_rep is None or common.chash(jsonable(f.replay)) == want_rep]
            hit = exact or same
            answer = (not hit, (hit[0].what if hit else "the recorded failing input no longer fails (regenerated from tier and seed)"))
        else:
            still = [s.name for s in broken] + proof_failures
            answer = (not still, ("still unchecked: " + ", ".join(still)) if still else "proof obligations and correspondence check again")
    ok, msg = answer
    print(f"[{pid}] replay {path}: {'property holds on this input' if ok else 'FAILS'} — {msg}")
    if not ok:
        print(f"VIOLATION property={pid} replay={path}")
    return 0 if ok else 1


def main(argv=None):
    ap = argparse.ArgumentParser()
    ap.add_argument("pid")
    ap.add_argument("--tier", default=os.environ.get("VERIF_TIER", "quick"), choices=["quick", "thorough"])
    ap.add_argument("--replay")
    a = ap.parse_args(argv)
    seed = int(os.environ.get("VERIF_SEED", "0") or 0)
    pid = a.pid.upper()
    if a.replay:
        return run_replay(pid, a.replay)
    return run_check(pid, a.tier, seed)


if __name__ == "__main__":
    sys.exit(main())
