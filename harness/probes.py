"""Probe objects placed around the real hmclab classes (DESIGN.md §2.2)."""
import contextlib
import io
import os
import shutil
import sys
import tempfile

import numpy as np

from . import common  # noqa: F401  (sets sys.path / env before hmclab is imported)


# ----------------------------------------------------------------------------- scratch dirs
@contextlib.contextmanager
def scratch():
    d = tempfile.mkdtemp(prefix="hmcverif_")
    try:
        yield d
    finally:
        shutil.rmtree(d, ignore_errors=True)


@contextlib.contextmanager
def quiet():
    """hmclab prints to stdout (progress, 'Encountered infinite…'); keep the check's stdout clean."""
    old_out, old_err = sys.stdout, sys.stderr
    sys.stdout = io.StringIO()
    sys.stderr = io.StringIO()
    old = np.geterr()
    oldcall = np.geterrcall()
    try:
        yield
    finally:
        sys.stdout, sys.stderr = old_out, old_err
        np.seterr(**old)
        try:
            np.seterrcall(oldcall)
        except Exception:
            pass


# ----------------------------------------------------------------------------- scripted RNG
class ScriptExhausted(Exception):
    pass


class ScriptedRNG:
    """Duck-types the numpy Generator calls hmclab makes. Values come from the case's script
    (`normals`: flat list consumed by normal(); `uniforms`: consumed by uniform()), every
    request is recorded in `.log` = the draw script."""

    def __init__(self, normals=(), uniforms=(), fallback_seed=None):
        self.normals = list(normals)
        self.uniforms = list(uniforms)
        self.log = []
        self.draws = []  # (kind, [values]) parallel to log
        self.fallback = np.random.default_rng(fallback_seed) if fallback_seed is not None else None

    def _take(self, q, n, kind):
        if len(q) < n:
            if self.fallback is None:
                raise ScriptExhausted(kind)
            if kind == "normal":
                extra = list(self.fallback.normal(size=n - len(q)))
            else:
                extra = list(self.fallback.uniform(size=n - len(q)))
            q.extend(extra)
        out = q[:n]
        del q[:n]
        self.draws.append((kind, list(out)))
        return out

    def normal(self, loc=0.0, scale=1.0, size=None):
        n = int(np.prod(size)) if size is not None else 1
        vals = self._take(self.normals, n, "normal")
        self.log.append(("normal", _tup(size), _par(loc), _par(scale)))
        z = np.array(vals, dtype=float)
        if size is None:
            return float(loc + scale * z[0])
        z = z.reshape(size)
        if _is0(loc) and _is1(scale):
            return z
        return loc + scale * z

    def uniform(self, low=0.0, high=1.0, size=None):
        n = int(np.prod(size)) if size is not None else 1
        vals = self._take(self.uniforms, n, "uniform")
        self.log.append(("uniform", _tup(size), _par(low), _par(high)))
        u = np.array(vals, dtype=float)
        # scripted values are *already* in [low, high): the script gives the value returned
        if size is None:
            return float(u[0])
        return u.reshape(size)

    def laplace(self, loc=0.0, scale=1.0, size=None):
        n = int(np.prod(size)) if size is not None else 1
        vals = self._take(self.normals, n, "normal")
        self.log.append(("laplace", _tup(size), _par(loc), _par(scale)))
        z = np.array(vals, dtype=float).reshape(size)
        return loc + scale * z

    def choice(self, a, size=None, replace=True, p=None):
        self.log.append(("choice", _tup(size), _par(a), _par(p)))
        n = int(np.prod(size)) if size is not None else 1
        vals = self._take(self.uniforms, n, "uniform")
        k = len(a) if hasattr(a, "__len__") else int(a)
        if p is None:
            idx = [min(int(v * k), k - 1) for v in vals]
        else:
            cp = np.cumsum(p)
            idx = [int(min(np.searchsorted(cp, v, side="right"), k - 1)) for v in vals]
        arr = np.arange(k) if not hasattr(a, "__len__") else np.asarray(a)
        return arr[idx] if size is not None else arr[idx[0]]


def _tup(size):
    if size is None:
        return None
    if isinstance(size, (int, np.integer)):
        return (int(size),)
    return tuple(int(s) for s in size)


def _par(x):
    if x is None:
        return None
    a = np.asarray(x, dtype=float).reshape(-1)
    if a.size == 1:
        return float(a[0])
    return tuple(float(t) for t in a)


def _is0(x):
    return np.isscalar(x) and x == 0.0


def _is1(x):
    return np.isscalar(x) and x == 1.0


# ----------------------------------------------------------------------------- scripted clock
class ScriptedClock:
    """Replaces hmclab.Samplers._time / hmclab.Samples._time. `script(k)` gives the k-th reading."""

    def __init__(self, fn):
        self.fn = fn
        self.k = 0

    def __call__(self):
        v = self.fn(self.k)
        self.k += 1
        return v


@contextlib.contextmanager
def patched_clock(clock, samplers=True, samples=True):
    import importlib

    S = importlib.import_module("hmclab.Samplers")
    import hmclab.Samples  # noqa: F401  (the package attribute of that name is the class)

    Sm = sys.modules["hmclab.Samples"]

    old_s, old_m = S._time, Sm._time
    if samplers:
        S._time = clock
    if samples:
        Sm._time = clock
    try:
        yield
    finally:
        S._time, Sm._time = old_s, old_m


# ----------------------------------------------------------------------------- linear tracer
class Lin:
    """Immutable formal linear combination sum_i c_i * sym_i with float coefficients."""

    __slots__ = ("t",)

    def __init__(self, t):
        self.t = t  # dict sym -> float

    @staticmethod
    def sym(name):
        return Lin({name: 1.0})

    def __add__(self, o):
        if isinstance(o, Lin):
            t = dict(self.t)
            for k, v in o.t.items():
                t[k] = t[k] + v if k in t else v
            return Lin(t)
        if isinstance(o, (int, float, np.floating)) and o == 0:
            return self
        return NotImplemented

    __radd__ = __add__

    def __neg__(self):
        return Lin({k: -v for k, v in self.t.items()})

    def __sub__(self, o):
        if isinstance(o, Lin):
            return self + (-o)
        if isinstance(o, (int, float, np.floating)) and o == 0:
            return self
        return NotImplemented

    def __rsub__(self, o):
        return (-self) + o

    def __mul__(self, c):
        if isinstance(c, (int, float, np.floating)):
            c = float(c)
            return Lin({k: c * v for k, v in self.t.items()})
        return NotImplemented

    __rmul__ = __mul__

    def __truediv__(self, c):
        if isinstance(c, (int, float, np.floating)):
            return Lin({k: v / float(c) for k, v in self.t.items()})
        return NotImplemented

    def __float__(self):
        return 0.0

    def __lt__(self, o):
        return False

    def __gt__(self, o):
        return False

    def __le__(self, o):
        return True

    def __ge__(self, o):
        return True

    def __eq__(self, o):
        return isinstance(o, Lin) and self.t == o.t

    def __hash__(self):
        return hash(tuple(sorted(self.t.items())))

    def __repr__(self):
        return " + ".join(f"{v!r}*{k}" for k, v in self.t.items()) or "0"


def lin_vec(prefix, d):
    a = np.empty((d, 1), dtype=object)
    for i in range(d):
        a[i, 0] = Lin.sym(f"{prefix}[{i}]")
    return a


def lin_terms(a):
    """list (per coordinate) of dict sym->coeff"""
    return [dict(x.t) if isinstance(x, Lin) else {"const": float(x)} for x in a.reshape(-1)]


# ----------------------------------------------------------------------------- instrumented runs
class CallLog:
    """wraps bound methods of a real object (instance-level), logging arguments and results"""

    def __init__(self):
        self.calls = []  # (name, args(tuple of array copies), result)

    def wrap(self, obj, name):
        orig = getattr(obj, name)
        log = self

        def wrapper(*a, **k):
            args = tuple(np.array(x, dtype=float).copy() if isinstance(x, np.ndarray) else x for x in a)
            r = orig(*a, **k)
            log.calls.append((name, args, np.array(r, dtype=float).copy() if isinstance(r, np.ndarray) else r))
            return r

        setattr(obj, name, wrapper)
        return orig


def _scalar(x):
    """the value of a misfit however the target spelled it: float, numpy scalar, 0-d / (1,) / (1, 1) array"""
    a = np.asarray(x, dtype=float)
    return float(a.reshape(-1)[0]) if a.size == 1 else float(a)


def snapshot_sampler_class(base):
    """Subclass of HMC / RWMH (or visual variants) that records the documented attributes before
    and after every acceptance evaluation."""

    class Snap(base):
        def _propose(self):
            self._v_rng_mark = len(self.rng.draws) if hasattr(self.rng, "draws") else None
            self._v_call_mark = len(self._v_calls.calls) if getattr(self, "_v_calls", None) else None
            return super()._propose()

        def _evaluate_acceptance(self):
            if not hasattr(self, "_v_transitions"):
                self._v_transitions = []
            pre = {
                "model": np.array(self.current_model, dtype=float).copy(),
                "x": _scalar(self.current_x),
                "accepted": int(self.accepted_proposals),
                "proposed_model": np.array(self.proposed_model, dtype=float).copy(),
                "stepsize": _copy_step(self.stepsize),
                "index": int(self.current_proposal),
            }
            if hasattr(self, "current_momentum") and self.current_momentum is not None:
                pre["p0"] = np.array(self.current_momentum, dtype=float).copy()
                pre["p1"] = np.array(self.proposed_momentum, dtype=float).copy()
                kin = getattr(self, "_v_kinetic", None)
                if kin is not None:
                    # the kinetic energies under the mass matrix as it is at the acceptance test (an adaptive metric changes during the trajectory)
                    with np.errstate(all="ignore"):
                        try:
                            pre["k0_at_test"] = float(kin(pre["p0"].copy()))
                            pre["k1_at_test"] = float(kin(pre["p1"].copy()))
                        except Exception:
                            pass
            r = super()._evaluate_acceptance()
            post = {
                "model": np.array(self.current_model, dtype=float).copy(),
                "x": _scalar(self.current_x),
                "accepted": int(self.accepted_proposals),
                "proposed_x": _scalar(self.proposed_x),
            }
            rec = {"pre": pre, "post": post}
            if self._v_rng_mark is not None:
                rec["draws"] = list(self.rng.draws[self._v_rng_mark:])
                rec["drawlog"] = list(self.rng.log[self._v_rng_mark:])
            if self._v_call_mark is not None:
                rec["calls"] = list(self._v_calls.calls[self._v_call_mark:])
            self._v_transitions.append(rec)
            return r

    Snap.__name__ = "Snap" + base.__name__
    return Snap


def _copy_step(s):
    if isinstance(s, np.ndarray):
        return s.copy()
    return s
