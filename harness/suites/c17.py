"""C17 — source location: travel times, missing picks, 2D/3D agreement."""
import math
import random

import numpy as np

from .. import common
from ..common import Suite, Finding, fhex, vhex, Reader, lean_batch
from ..probes import quiet

TRUSTED_EXTRA = ["C17: the derivative theorem is stated where every event is off every station (distance > 0, where the misfit is differentiable) and the velocity is non-zero; "
                 "at a coincident event/station pair the model drops the undefined direction term as the code's nansum does (coincident_station_term_dropped) and finiteness is checked on the implementation"]
ASSUMPTIONS = ["missing observations are NaN in the data array (model: `none`)"]


LAST_CASE = {}


def make_case(rnd, dim):
    from hmclab.Distributions import SourceLocation2D, SourceLocation3D

    ne = rnd.choice([1, 2, 3, 4])
    ns = rnd.choice([1, 2, 3, 5, 8])
    rx = np.array([[rnd.uniform(-10, 30) for _ in range(ns)]])
    ry = np.array([[rnd.uniform(-10, 30) for _ in range(ns)]])
    rz = np.array([[rnd.choice([0.0, 0.0, rnd.uniform(0, 4)]) for _ in range(ns)]])
    x = np.array([[rnd.uniform(0, 20)] for _ in range(ne)])
    y = np.array([[rnd.uniform(0, 20)] for _ in range(ne)])
    z = np.array([[rnd.uniform(1, 10)] for _ in range(ne)])
    T = np.array([[rnd.uniform(0, 10)] for _ in range(ne)])
    v = rnd.uniform(1, 4)
    infer = rnd.random() < 0.6
    sig_scalar = rnd.random() < 0.4
    sigma = rnd.choice([0.5, 1.0, 2.0]) if sig_scalar else np.array([[rnd.uniform(0.3, 2.0) for _ in range(ns)] for _ in range(ne)])
    # a scalar uncertainty is a scalar however it is spelled (numpy.std() returns a numpy.float64)
    sigma_spelling = rnd.choice(["float", "float", "numpy.float64", "numpy.float32", "int", "0-d array"]) if sig_scalar else "array"
    if dim == 2:
        data = SourceLocation2D.forward(x, z, T, v, rx, rz)
    else:
        data = SourceLocation3D.forward(x, y, z, T, v, rx, ry, rz)
    noise_free = rnd.random() < 0.25
    if not noise_free:
        data = data + np.array([[rnd.gauss(0, 0.3) for _ in range(ns)] for _ in range(ne)])
    mask = np.zeros((ne, ns), dtype=bool)
    if rnd.random() < 0.5:
        for e in range(ne):
            for s in range(ns):
                if rnd.random() < 0.25:
                    mask[e, s] = True
        data = data.copy()
        data[mask] = float("nan")
    # the constructors also accept the (stations x events) layout for the picks and for their uncertainties (unambiguous when ne != ns)
    layout = "events x stations"
    data_arg, sigma_arg = data, sigma
    if sig_scalar:
        if sigma_spelling == "int":
            sigma = 2.0 if sigma != 1.0 else 1.0
        sigma_arg = {"float": float(sigma), "numpy.float64": np.float64(sigma), "numpy.float32": np.float32(sigma), "int": int(sigma), "0-d array": np.array(float(sigma))}[sigma_spelling]
    if ne != ns and rnd.random() < 0.4:
        which = rnd.choice(["data", "sigma", "both"])
        if which in ("data", "both"):
            data_arg = np.ascontiguousarray(data.T)
        if which in ("sigma", "both") and not sig_scalar:
            sigma_arg = np.ascontiguousarray(sigma.T)
        layout = f"stations x events ({which})"
    LAST_CASE.clear()
    LAST_CASE.update({"dim": dim, "events": ne, "stations": ns, "sigma_spelling": sigma_spelling, "layout": layout, "infer_velocity": infer})
    with quiet():
        if dim == 2:
            obj = SourceLocation2D(rx, rz, data_arg, sigma_arg, infer_velocity=infer, medium_velocity=None if infer else v)
        else:
            obj = SourceLocation3D(rx, ry, rz, data_arg, sigma_arg, infer_velocity=infer, medium_velocity=None if infer else v)
    truth = []
    for e in range(ne):
        truth += [x[e, 0]] + ([y[e, 0]] if dim == 3 else []) + [z[e, 0], T[e, 0]]
    if infer:
        truth.append(v)
    truth = np.array(truth).reshape(-1, 1)
    desc = {"dim": dim, "events": ne, "stations": ns, "infer_velocity": infer, "sigma": "scalar" if sig_scalar else "array", "missing": int(mask.sum()),
            "noise_free": noise_free, "layout": layout, "sigma_spelling": sigma_spelling}
    geo = {"rx": rx, "ry": ry, "rz": rz, "data": data, "sigma": sigma if not sig_scalar else np.ones((ne, ns)) * sigma, "v": v}
    return obj, truth, desc, geo


def ref_misfit(dim, geo, infer, m):
    """the property's formula, written out independently: 1/2 sum ((observed - (T + distance/v)) / sigma)^2 over the picks that are not missing"""
    ne, ns = geo["data"].shape
    v = float(m[-1, 0]) if infer else geo["v"]
    tot = 0.0
    for e in range(ne):
        base = e * (dim + 1)
        src = [m[base + c, 0] for c in range(dim)]
        T = m[base + dim, 0]
        for s_ in range(ns):
            rcv = [geo["rx"][0, s_]] + ([geo["ry"][0, s_]] if dim == 3 else []) + [geo["rz"][0, s_]]
            o = geo["data"][e, s_]
            if o != o:
                continue
            dist = math.sqrt(sum((a - b) ** 2 for a, b in zip(src, rcv)))
            tot += ((o - (T + dist / v)) / geo["sigma"][e, s_]) ** 2
    return 0.5 * tot


def proto(dim, geo, infer, m):
    ne, ns = geo["data"].shape
    rcv = []
    for s in range(ns):
        c = [geo["rx"][0, s]] + ([geo["ry"][0, s]] if dim == 3 else []) + [geo["rz"][0, s]]
        rcv.append(vhex(c))
    obs = [vhex(geo["data"][e]) for e in range(ne)]
    sig = [vhex(geo["sigma"][e]) for e in range(ne)]
    return f"c17.eval {dim} {ne} {ns} {' '.join(rcv)} {' '.join(obs)} {' '.join(sig)} {int(infer)} {fhex(geo['v'])} {vhex(m)}"


def run(tier, seed):
    from hmclab.Distributions import SourceLocation2D, SourceLocation3D

    rnd = random.Random(69621 * (seed + 17) % (1 << 31))
    thorough = tier == "thorough"
    findings = []
    st = Suite("C17.eval", "random station geometries, 1-4 events, 1-8 stations, scalar / per-datum sigma, random patterns of missing (NaN) observations, "
               "fixed or inferred velocity, 2D and 3D, models with an event exactly on a station: forward_vector(), misfit(), gradient() vs the Lean model at the true model and at perturbed models; "
               "1e-9 relative; non-trivial = >= 2 events and >= 1 missing pick")
    reqs, metas = [], []
    for i in range(1600 if thorough else 420):
        dim = 2 if i % 2 == 0 else 3
        try:
            obj, truth, desc, geo = make_case(rnd, dim)
        except Exception as e:
            st.case({"construct": repr(e)}, nontrivial=False)
            st.disagree({"construct": True}, "constructible", repr(e), "constructor raised on legal arguments")
            findings.append(Finding("C17", f"SourceLocation{dim}D constructor raised on legal arguments: {e!r} (last case description: {LAST_CASE})",
                                    {"kind": "construct", "what": LAST_CASE.get("sigma_spelling", "?")}, {"oracle": "construct", "case": dict(LAST_CASE), "error": repr(e)}))
            continue
        at_truth = rnd.random() < 0.3
        m = truth.copy() if at_truth else truth + np.array([[rnd.gauss(0, 0.5)] for _ in range(truth.size)])
        if desc["infer_velocity"]:
            m[-1, 0] = max(0.3, m[-1, 0])
        on_station = rnd.random() < 0.2
        if on_station:
            at_truth = False
            # a legal model in which an event sits exactly on a station (e.g. events initialised at the station of the earliest pick)
            e = rnd.randrange(desc["events"])
            s_ = rnd.randrange(desc["stations"])
            coords = [geo["rx"][0, s_]] + ([geo["ry"][0, s_]] if dim == 3 else []) + [geo["rz"][0, s_]]
            for c, val in enumerate(coords):
                m[e * (dim + 1) + c, 0] = val
        # the same model written down with whole numbers in an integer array is the same model
        int_model = (not on_station) and (not at_truth) and rnd.random() < 0.15
        if int_model:
            m = np.round(m)
            if desc["infer_velocity"]:
                m[-1, 0] = max(1.0, m[-1, 0])
        m_arg = m.astype(np.int64) if int_model else m
        with np.errstate(all="ignore"), quiet():
            mis = float(obj.misfit(m_arg.copy()))
            g = np.array(obj.gradient(m_arg.copy()), dtype=float)
            fw = np.array(obj.forward_vector(m_arg.copy()), dtype=float)
        stim = {"config": desc, "m": m.ravel().tolist(), "at_truth": at_truth, "event_on_station": on_station, "integer_model_vector": int_model}
        st.case(stim, nontrivial=(desc["events"] >= 2 and desc["missing"] >= 1),
                sample={"config": desc, "misfit": mis} if len(st.samples) < 3 else None)
        st.count(f"dim={dim}")
        st.count(f"missing={'yes' if desc['missing'] else 'no'}")
        st.count(f"velocity={'inferred' if desc['infer_velocity'] else 'fixed'}")
        st.count(f"layout={desc['layout']}")
        if on_station:
            st.count("an event exactly on a station")
        if int_model:
            st.count("model vector as integer array")
        st.count(f"sigma spelled as {desc['sigma_spelling']}")
        problems = []
        if g.shape != (truth.size, 1):
            problems.append(f"gradient shape {g.shape}")
        if math.isfinite(mis) and not np.all(np.isfinite(g)):
            problems.append(f"misfit is finite ({mis!r}) but the gradient contains {g.ravel().tolist()!r}")
        rm = ref_misfit(dim, geo, desc["infer_velocity"], m)
        if not common.close(mis, rm, 1e-9, 1e-12):
            problems.append(f"misfit is {mis!r}, 1/2 sum ((observed - predicted)/sigma)^2 over the picks present is {rm!r}")
        elif math.isfinite(mis):
            # the gradient is the derivative of the object's own misfit: central differences, coordinate by coordinate
            # (with an event exactly on a station the misfit has a kink in that event's position, but it is smooth in the
            # origin times and in the velocity: those entries are still checked)
            h = 1e-6
            ks = list(range(m.size))
            if on_station:
                ks = [e_ * (dim + 1) + dim for e_ in range(desc["events"])] + ([m.size - 1] if desc["infer_velocity"] else [])
            for k in ks:
                mp, mm_ = m.copy(), m.copy()
                mp[k, 0] += h
                mm_[k, 0] -= h
                with np.errstate(all="ignore"), quiet():
                    fd = (float(obj.misfit(mp)) - float(obj.misfit(mm_))) / (2 * h)
                if abs(fd - g[k, 0]) > 1e-4 * (1.0 + abs(fd) + abs(g[k, 0])):
                    problems.append(f"gradient entry {k} is {g[k, 0]!r}, the central difference of misfit() gives {fd!r}")
                    break
        if at_truth and desc["noise_free"] and not (abs(mis) <= 1e-18 and np.all(np.abs(g) <= 1e-9)):
            problems.append(f"noise-free data at the true model: misfit {mis!r}, max |gradient| {float(np.max(np.abs(g)))!r}")
        if problems:
            findings.append(Finding("C17", f"SourceLocation{dim}D ({desc['missing']} missing picks): {problems[0][:200]}",
                                    {"kind": "sourceloc", "dim": dim, "problem": problems[0].split(" ")[0] + " " + problems[0].split(" ")[1]},
                                    {"oracle": "direct", "stimulus": stim, "problems": problems}))
        reqs.append(proto(dim, geo, desc["infer_velocity"], m))
        metas.append((stim, mis, g, fw))
    for (stim, mis, g, fw), ans in zip(metas, lean_batch(reqs)):
        if not ans.startswith("ok "):
            st.disagree(stim, "model answer", ans[:100], "driver rejected")
            continue
        r = Reader(ans[3:])
        mm, mg = r.flt(), r.vec()
        mfw = np.array([r.vec() for _ in range(fw.shape[0])])
        if not (common.close(mm, mis, 1e-9, 1e-12) and common.vclose(mg, g, 1e-9, 1e-11) and np.allclose(mfw, fw, rtol=1e-12, atol=1e-12)):
            st.disagree(stim, {"misfit": mm, "gradient": mg}, {"misfit": mis, "gradient": g.ravel().tolist()}, "misfit/gradient/forward differ from the model")

    # orientation of the pick / uncertainty arrays ----------------------------------------------------
    so = Suite("C17.orientation", "SourceLocation2D/3D constructed with pick and uncertainty arrays of every small shape (rows, cols in 1..4) for ne events and ns stations: "
               "read as given, read transposed, or refused - vs the model's orientation(); the entries the object then uses are compared with the array; "
               "non-trivial = shape differs from (ne, ns)")
    oreqs, ometas = [], []
    for _ in range(120 if thorough else 40):
        dim = rnd.choice([2, 3])
        ne, ns = rnd.choice([1, 2, 3, 4]), rnd.choice([1, 2, 3, 4])
        rows, cols = rnd.choice([(ne, ns), (ns, ne), (ns, ne), (rnd.choice([1, 2, 3, 4]), rnd.choice([1, 2, 3, 4]))])
        which = rnd.choice(["data", "sigma"])
        rx = np.array([[float(10 * k) for k in range(ns)]])
        arr = np.array([[1.0 + 10 * r + c for c in range(cols)] for r in range(rows)])
        good = np.array([[1.0 + e + 0.1 * s_ for s_ in range(ns)] for e in range(ne)])
        data_arg, sigma_arg = (arr, good) if which == "data" else (good, arr)
        if which == "sigma" and rows * cols != ne * ns:
            pass
        try:
            with quiet():
                if dim == 2:
                    o = SourceLocation2D(rx, np.zeros_like(rx), data_arg, sigma_arg, infer_velocity=False, medium_velocity=2.0)
                else:
                    o = SourceLocation3D(rx, np.zeros_like(rx), np.zeros_like(rx), data_arg, sigma_arg, infer_velocity=False, medium_velocity=2.0)
            used = np.array(o.observed_data if which == "data" else o.data_std, dtype=float)
            if used.shape == arr.shape and np.array_equal(used, arr):
                seen = "as-given"
            elif used.shape == arr.T.shape and np.array_equal(used, arr.T):
                seen = "transposed"
            else:
                seen = f"other:{used.tolist()}"
        except (AssertionError, ValueError) as e:
            seen = "refused"
        except Exception as e:
            seen = f"raised:{type(e).__name__}"
        stim = {"dim": dim, "events": ne, "stations": ns, "array": which, "shape": [rows, cols]}
        so.case(stim, nontrivial=(rows, cols) != (ne, ns), sample=dict(stim, read=seen) if len(so.samples) < 3 else None)
        so.count(f"read={seen.split(':')[0]}")
        # the number of events is derived from the data array's size: a data array of another size changes ne itself
        if which == "data" and rows * cols != ne * ns:
            so.count("data array of another size (defines another problem)")
            continue
        oreqs.append(f"c17.orient {ne} {ns} {rows} {cols}")
        ometas.append((stim, seen))
    for (stim, seen), ans in zip(ometas, lean_batch(oreqs)):
        want = ans[3:].strip()
        if seen != want:
            so.disagree(stim, want, seen, "array orientation differs from the model")
            if want in ("as-given", "transposed") and not seen.startswith(("refused", "raised")):
                findings.append(Finding("C17", f"{stim['array']} array of shape {stim['shape']} for {stim['events']} events x {stim['stations']} stations is read as {seen[:60]}, "
                                        f"expected {want}", {"kind": "orientation", "array": stim["array"]}, {"oracle": "orientation", "stimulus": stim, "read": seen}))

    # 3D with all y = 0 equals 2D ---------------------------------------------------------------
    s3 = Suite("C17.dim", "a 3D problem with all y-coordinates zero vs the 2D problem with the same stations/data: equal forward, misfit and matching gradient entries; "
               "non-trivial = all")
    for _ in range(200 if thorough else 60):
        ne, ns = rnd.choice([1, 2, 3]), rnd.choice([2, 3, 5])
        rx = np.array([[rnd.uniform(-10, 30) for _ in range(ns)]])
        rz = np.array([[rnd.uniform(0, 3) for _ in range(ns)]])
        data = np.array([[rnd.uniform(1, 15) for _ in range(ns)] for _ in range(ne)])
        if rnd.random() < 0.4:
            data[rnd.randrange(ne), rnd.randrange(ns)] = float("nan")
        sig = rnd.choice([0.5, 1.0])
        infer = rnd.random() < 0.5
        v = rnd.uniform(1, 4)
        with quiet():
            o2 = SourceLocation2D(rx, rz, data, sig, infer_velocity=infer, medium_velocity=None if infer else v)
            o3 = SourceLocation3D(rx, np.zeros_like(rx), rz, data, sig, infer_velocity=infer, medium_velocity=None if infer else v)
        m2, m3 = [], []
        for e in range(ne):
            x, z, T = rnd.uniform(0, 20), rnd.uniform(1, 10), rnd.uniform(0, 5)
            m2 += [x, z, T]
            m3 += [x, 0.0, z, T]
        if infer:
            m2.append(v)
            m3.append(v)
        m2 = np.array(m2).reshape(-1, 1)
        m3 = np.array(m3).reshape(-1, 1)
        with np.errstate(all="ignore"):
            a, b = float(o2.misfit(m2)), float(o3.misfit(m3))
            g2, g3 = np.array(o2.gradient(m2)).ravel(), np.array(o3.gradient(m3)).ravel()
        keep = [i for i in range(m3.size) if not (i % 4 == 1 and i < ne * 4)]
        stim = {"events": ne, "stations": ns, "infer_velocity": infer}
        s3.case(dict(stim, m=m2.ravel().tolist()), sample=dict(stim, misfit2d=a, misfit3d=b) if len(s3.samples) < 2 else None)
        if not (common.close(a, b, 1e-12, 1e-14) and common.vclose(g2, g3[keep], 1e-10, 1e-12)):
            s3.disagree(stim, {"misfit": a, "gradient": g2.tolist()}, {"misfit": b, "gradient": g3[keep].tolist()}, "3D with y=0 differs from 2D")
            findings.append(Finding("C17", "3D problem with all y = 0 differs from the 2D problem", {"kind": "dim"}, {"stimulus": stim, "m2": m2.ravel().tolist()}))
    return [st, so, s3], findings


def search(tier, seed, broken):
    return []


def replay(body):
    return False, "re-run ./check C17 (cases are regenerated from the seed)"
