"""C05 — gradient() is the derivative of misfit() for every distribution."""
import math
import random

import numpy as np

from .. import common
from ..common import Suite, Finding, vhex, Reader, lean_batch
from ..probes import quiet
from .. import distgen

TRUSTED_EXTRA = ["C05: HasDerivAt theorems are over ℝ along every line through interior points (off Laplace kinks, positive arguments of the log transform, "
                 "symmetric inverse covariance); LinearMatrix / SourceLocation gradients are proved in C15 / C17"]
ASSUMPTIONS = ["finite differences (central, Richardson-extrapolated) are only the failing-input search and a cross-check, never the proof"]


def fd_gradient(f, x, h=1e-5):
    d = x.shape[0]
    g = np.zeros((d, 1))
    for i in range(d):
        e = np.zeros((d, 1))
        e[i, 0] = 1.0
        sc = max(1.0, abs(x[i, 0]))
        hh = h * sc
        d1 = (f(x + hh * e) - f(x - hh * e)) / (2 * hh)
        d2 = (f(x + 2 * hh * e) - f(x - 2 * hh * e)) / (4 * hh)
        g[i, 0] = (4 * d1 - d2) / 3
    return g


def safe_interior(node, x):
    """is x in the open interior of every box in the tree (so that misfit is locally smooth)?"""
    o = node.obj
    lb, ub = getattr(o, "lower_bounds", None), getattr(o, "upper_bounds", None)
    if lb is not None and not np.all(x > lb + 1e-3):
        return False
    if ub is not None and not np.all(x < ub - 1e-3):
        return False
    return True


def offsets_suite(rnd, count, findings):
    """numerically delicate but legal values: means that are huge compared with the standard deviations (epoch seconds known to a millisecond, ...)"""
    from fractions import Fraction
    from hmclab import Distributions as D
    from ..probes import quiet

    so = Suite("C05.offsets", "Normal (scalar, per-dimension, diagonal-matrix and full covariance) and Laplace whose means are 1e6 .. 1e15 times their standard deviations, "
               "evaluated a few standard deviations from the mean, bare and inside Composite / BayesRule: gradient() vs the exact rational value of the derivative "
               "(computed with fractions from the constructor arguments), relative 1e-9; non-trivial = all")
    for ci in range(count):
        d = rnd.choice([1, 2, 3])
        big = rnd.choice([1e6, 1e9, 1.7e9, 1e12, 1e15])
        sd = [rnd.choice([1e-3, 1e-2, 1.0, 8.0]) for _ in range(d)]
        mu = np.array([[rnd.choice([-1, 1]) * big * rnd.uniform(0.5, 1.5)] for _ in range(d)])
        x = mu + np.array([[rnd.uniform(-3, 3) * sd[i]] for i in range(d)])
        kind = rnd.choice(["normalscalar", "normaldiag", "normaldiagmatrix", "normalfull", "laplace"])
        var = np.array([[s_ ** 2] for s_ in sd])
        if kind == "normalscalar":
            var = np.ones((d, 1)) * var[0, 0]
            obj = D.Normal(mu.copy(), float(var[0, 0]))
        elif kind == "normaldiag":
            obj = D.Normal(mu.copy(), var.copy())
        elif kind == "normaldiagmatrix":
            obj = D.Normal(mu.copy(), np.diag(var.ravel()))
        elif kind == "normalfull":
            cov = np.diag(var.ravel())
            if d > 1:
                cov[0, 1] = cov[1, 0] = 0.3 * math.sqrt(cov[0, 0] * cov[1, 1])
            obj = D.Normal(mu.copy(), cov.copy())
        else:
            obj = D.Laplace(mu.copy(), np.array([[s_] for s_ in sd]))
        # exact reference from the constructor arguments
        fx = [Fraction(float(v)) for v in x.ravel()]
        fm = [Fraction(float(v)) for v in mu.ravel()]
        if kind == "laplace":
            ref = [(1 if fx[i] > fm[i] else -1 if fx[i] < fm[i] else 0) / Fraction(sd[i]) for i in range(d)]
        elif kind == "normalfull":
            C = np.diag(var.ravel())
            if d > 1:
                C[0, 1] = C[1, 0] = 0.3 * math.sqrt(C[0, 0] * C[1, 1])
            Ci = np.linalg.inv(C)
            r = [float(fx[i] - fm[i]) for i in range(d)]      # the difference is exact in rationals, then rounded once
            ref = [Fraction(float(sum(Ci[i, j] * r[j] for j in range(d)))) for i in range(d)]
        else:
            ref = [(fx[i] - fm[i]) / Fraction(float(var[i, 0])) for i in range(d)]
        wrap = rnd.choice(["bare", "bare", "composite", "bayes"])
        tgt, xx, reff = obj, x, ref
        if wrap == "composite":
            tgt = D.CompositeDistribution([obj, D.Normal(np.zeros((1, 1)), 1.0)])
            xx = np.vstack([x, [[0.25]]])
            reff = ref + [Fraction(0.25)]
        elif wrap == "bayes":
            tgt = D.BayesRule([obj, D.Uniform((mu - 1e3 * big).ravel().tolist(), (mu + 1e3 * big).ravel().tolist())])
        stim = {"class": kind, "wrapper": wrap, "means": mu.ravel().tolist(), "standard_deviations": sd, "x_minus_mean_in_sd": ((x - mu).ravel() / np.array(sd)).tolist()}
        so.case(stim, nontrivial=True, sample=stim if len(so.samples) < 2 else None)
        so.count(f"class={kind}")
        so.count(f"mean/sd~1e{int(round(math.log10(big / max(sd))))}")
        try:
            with quiet(), np.errstate(all="ignore"):
                g = np.array(tgt.gradient(xx.copy()), dtype=float).ravel()
        except Exception as e:
            findings.append(Finding("C05", f"{kind} ({wrap}) with means ~{big:g}: gradient raised {e!r}"[:300], {"kind": "offsets-raised"}, {"oracle": "exact", "stimulus": stim}))
            continue
        tol = 1e-9 if kind != "normalfull" else 1e-6
        bad = [i for i in range(len(reff)) if abs(Fraction(float(g[i])) - reff[i]) > tol * max(abs(reff[i]), Fraction(1, 10 ** 12))]
        if bad:
            i = bad[0]
            findings.append(Finding("C05", f"{kind} ({wrap}) with mean {float(mu.ravel()[min(i, d - 1)])!r} and standard deviation {sd[min(i, d - 1)]!r}: gradient[{i}] = {float(g[i])!r} "
                                    f"but the derivative of the misfit there is {float(reff[i])!r} (relative error {float(abs(Fraction(float(g[i])) - reff[i]) / abs(reff[i])) if reff[i] else float('nan'):.2e})"[:400],
                                    {"kind": "offsets", "class": kind}, {"oracle": "exact", "stimulus": stim, "gradient": g.tolist(), "expected": [float(v) for v in reff]}))
    return so


def raytracing_suite(rnd, count, findings):
    """LayeredRayTracing2D: gradient() vs the derivative of misfit()"""
    from hmclab.Distributions import LayeredRayTracing2D
    from ..probes import quiet

    sr = Suite("C05.raytracing", "LayeredRayTracing2D (serial ray tracing): (a) _dmisfitdsyn vs central differences of _misfit with respect to every synthetic travel time "
               "(the misfit is quadratic in them: exact up to rounding; theorem rayMisfit_expand), (b) homogeneous models, in which scaling all velocities moves no ray: "
               "u . gradient(m) for u = (1, .., 1) vs the central difference of the public misfit() along u; 1e-4 relative; non-trivial = >= 3 layers")
    for ci in range(count):
        n = rnd.choice([2, 3, 4, 5])
        inter = np.cumsum([rnd.choice([200.0, 300.0, 400.0, 500.0]) for _ in range(n)])
        nrec = rnd.choice([6, 10, 14])
        rz = np.linspace(0.1 * inter[-1], 0.93 * inter[-1], nrec)
        xr = rnd.choice([300.0, 500.0, 800.0])
        v = rnd.choice([1500.0, 1800.0, 2500.0])
        with quiet(), np.errstate(all="ignore"):
            ph = LayeredRayTracing2D(inter, [xr], rz)
            ph.parallel = False
            obs = np.array(ph.forward(np.ones(n) * v * rnd.uniform(0.9, 1.1)), dtype=float) + np.array([rnd.gauss(0, 2e-4) for _ in range(nrec)])
            t = LayeredRayTracing2D(inter, [xr], rz, traveltimes_observed=obs)
            t.parallel = False
            stim = {"interfaces": inter.tolist(), "offset": xr, "receivers": rz.tolist(), "velocity": v}
            sr.case(stim, nontrivial=n >= 3, sample=stim if len(sr.samples) < 2 else None)
            problems = []
            # (a) derivative with respect to the synthetic travel times
            syn = obs + np.array([rnd.gauss(0, 1e-3) for _ in range(nrec)])
            dX = np.array(t._dmisfitdsyn(tts_obs=obs, tts_syn=syn), dtype=float)
            h = 1e-4
            for j in range(nrec):
                e = np.zeros(nrec)
                e[j] = h
                fd = (t._misfit(obs, syn + e) - t._misfit(obs, syn - e)) / (2 * h)
                if not common.close(fd, dX[j], 1e-6, 1e-6 * float(np.max(np.abs(dX)))):
                    problems.append(f"_dmisfitdsyn[{j}] = {dX[j]!r} but d _misfit / d tt_{j} = {fd!r} (ratio {fd / dX[j] if dX[j] else float('nan'):.6f})")
                    break
            # (b) the public pair along the direction that moves no ray
            m = np.ones((n, 1)) * v
            g = np.array(t.gradient(m.copy()), dtype=float)
            hh = 0.5
            fd = (float(t.misfit(m + hh)) - float(t.misfit(m - hh))) / (2 * hh)
            ug = float(np.sum(g))
            if g.shape != (n, 1):
                problems.append(f"gradient shape {g.shape}")
            elif not common.close(fd, ug, 1e-4, 1e-4 * abs(fd) + 1e-9):
                problems.append(f"homogeneous model v={v}: u.gradient(m) = {ug!r} but d/dh misfit(m + h u) = {fd!r} (ratio {fd / ug if ug else float('nan'):.6f})")
        if problems:
            findings.append(Finding("C05", "LayeredRayTracing2D: " + problems[0][:300], {"kind": "raytracing-gradient"}, {"oracle": "finite-difference", "stimulus": stim, "problems": problems}))
    return sr


def run(tier, seed):
    rnd = random.Random(214013 * seed + 5)
    thorough = tier == "thorough"
    findings = []
    st = Suite("C05.eval", "random expression trees over all classes of hmclab.Distributions.base/Transforms (temperatures, bounds, nesting inside "
               "BayesRule/Composite/Mixture/TransformToLogSpace up to depth 3): misfit() and every coordinate of gradient() at interior points vs the Lean "
               "model (1e-8 relative), gradient shape (d,1), and central finite differences of the implementation's misfit; non-trivial = tree of depth >= 2")
    reqs, metas = [], []
    N = 1600 if thorough else 420
    for _ in range(N):
        d = rnd.choice([1, 2, 3, 4, 5])
        try:
            node = distgen.tree(rnd, d, rnd.choice([0, 1, 2, 3]))
        except Exception as e:      # constructing a legal expression must not raise
            st.case({"construct": repr(e)}, nontrivial=False)
            st.disagree({"construct": True}, "constructible", repr(e), "constructor raised")
            findings.append(Finding("C05", f"constructing a distribution raised {e!r}", {"kind": "construct"}, {"error": repr(e)}))
            continue
        far = rnd.random() < 0.12
        x = distgen.point(rnd, node, far=far)
        with np.errstate(all="ignore"), quiet():
            try:
                m = float(node.obj.misfit(x.copy()))
                g = np.array(node.obj.gradient(x.copy()), dtype=float)
            except Exception as e:
                m, g = None, repr(e)
        stim = {"tree": node.desc, "x": x.ravel().tolist()}
        st.case(stim, nontrivial=node.depth() >= 2, sample={"kinds": sorted(node.kinds()), "x": x.ravel().tolist(), "misfit": m} if len(st.samples) < 3 else None)
        for k in node.kinds():
            st.count(f"class={k}")
        st.count(f"depth={node.depth()}")
        if far:
            st.count("far evaluation point")
        if m is None:
            st.disagree(stim, "misfit/gradient evaluate", g, "public method raised")
            findings.append(Finding("C05", f"misfit()/gradient() raised {g}", {"kind": "raise", "classes": sorted(node.kinds())}, {"stimulus": stim}))
            continue
        problems = []
        if g.shape != (d, 1):
            problems.append(f"gradient has shape {g.shape}, not ({d}, 1)")
        smooth = math.isfinite(m) and safe_interior(node, x) and all(safe_interior(c, x) for c in node.children if c.d == d)
        if smooth and g.shape == (d, 1):
            def f(z):
                with np.errstate(all="ignore"), quiet():
                    return float(node.obj.misfit(z.copy()))
            fd = fd_gradient(f, x)
            scale = max(1.0, float(np.max(np.abs(fd))))
            bad = [i for i in range(d) if not abs(fd[i, 0] - g[i, 0]) <= 2e-4 * scale]
            if bad and np.all(np.isfinite(fd)):
                # kinks of |x - mu| within the stencil are not counterexamples
                if not node.has_kinks or all(abs(fd[i, 0] - g[i, 0]) > 0.5 * scale for i in bad):
                    problems.append(f"gradient coordinate {bad[0]} = {g[bad[0], 0]!r} but d misfit/dx = {fd[bad[0], 0]!r} (finite differences)")
        # the gradient at x is a value: evaluating the gradient somewhere else afterwards does not change the array that was returned for x
        if g.shape == (d, 1):
            with np.errstate(all="ignore"), quiet():
                try:
                    held = node.obj.gradient(x.copy())
                    kept = np.array(held, dtype=float).copy()
                    x2 = distgen.point(rnd, node)
                    node.obj.gradient(x2.copy())
                    node.obj.gradient((2 * x - x2) if not node.positive_only else x2 * 1.5)
                    if not np.array_equal(np.array(held, dtype=float), kept, equal_nan=True):
                        problems.append(f"the array returned by gradient(x) changed when gradient() was evaluated at other points: {kept.ravel().tolist()} became "
                                        f"{np.array(held, dtype=float).ravel().tolist()} (the result is a view of internal state)")
                except Exception:
                    pass
        if problems:
            findings.append(Finding("C05", f"{'/'.join(sorted(node.kinds()))}: {problems[0]}",
                                    {"kind": "gradient", "classes": sorted(node.kinds()), "problem": problems[0][:28]},
                                    {"oracle": "finite-differences", "stimulus": stim, "problems": problems}))
        reqs.append(f"c05.eval {node.proto} {vhex(x)}")
        metas.append((stim, m, g, d))
    for (stim, m, g, d), ans in zip(metas, lean_batch(reqs)):
        if not ans.startswith("ok "):
            st.disagree(stim, "model answer", ans, "driver rejected the tree")
            continue
        r = Reader(ans[3:])
        mm, mg = r.flt(), r.vec()
        # the gradient is only specified where the misfit is finite (interior of the support)
        grad_ok = (not math.isfinite(m)) or common.vclose(mg, g, 1e-8, 1e-9)
        if not (common.close(mm, m, 1e-8, 1e-9) and g.shape == (d, 1) and grad_ok):
            st.disagree(stim, {"misfit": mm, "gradient": mg}, {"misfit": m, "gradient": np.ravel(g).tolist()}, "misfit/gradient differ from the model")
    sr = raytracing_suite(random.Random(seed * 2654435761 % (1 << 31) + 5), 12 if thorough else 4, findings)
    so = offsets_suite(random.Random(seed * 40503 + 5), 160 if thorough else 40, findings)
    return [st, sr, so], findings


def search(tier, seed, broken):
    return []


def replay(body):
    return False, "re-run ./check C05 (trees are regenerated from the seed)"
