"""C18 — layered ray tracer obeys Snell's law and travel-time accounting."""
import math
import random
import sys

import numpy as np

from .. import common
from ..common import Suite, Finding, fhex, vhex, Reader, lean_batch
from ..probes import quiet

TRUSTED_EXTRA = ["C18: the randomised take-off angle *search* is not modelled; the homogeneous-medium bound is a theorem conditional on the code's own `converged` flag, "
                 "which the correspondence checks", "C18: sin/cos/arcsin are libm on both sides (1e-9 relative comparison)"]
ASSUMPTIONS = ["rays are shot from the origin with keep_upgoing=False, as forward() does"]


def _M():
    import hmclab  # noqa: F401

    return sys.modules["hmclab.Distributions.LayeredRayTracing2D"]


def dedup(points):
    out = []
    for p in points:
        if not out or not (out[-1][0] == p[0] and out[-1][1] == p[1]):
            out.append((float(p[0]), float(p[1])))
    return out


def run(tier, seed):
    rnd = random.Random(25214903917 * (seed + 18) % (1 << 31))
    thorough = tier == "thorough"
    findings = []
    M = _M()
    st = Suite("C18.trace", "_tracerays (ray coordinates, travel time, length, per-layer lengths) on random layerings (1-8 layers, random thicknesses and "
               "velocities incl. strong contrasts) and take-off angles in (0°, 90°) vs the Lean segment-by-segment model; plus the property's own checks on "
               "the returned ray (Snell invariant across interfaces, monotone depth, tt = Σ len/v, length = Σ len = Σ per-layer); 1e-9; "
               "non-trivial = ray crossing >= 2 interfaces before the receiver line")
    reqs, metas = [], []
    for _ in range(2400 if thorough else 900):
        n = rnd.choice([1, 2, 3, 4, 5, 8, 12])
        # interface depths: round numbers, arbitrary doubles, and one-decimal values (whose differences are not exactly representable)
        style = rnd.choice(["mixed", "mixed", "decimal", "hazard"])
        if style == "hazard":
            # consecutive depths a < b for which a + (b - a) does not round back to b: code that recomputes an interface depth from a
            # thickness lands next to the interface instead of on it
            depths = [round(rnd.uniform(5, 60), 1)]
            while len(depths) < n:
                a = depths[-1]
                for _try in range(3000):
                    b = round(a + rnd.uniform(10, 200), 1)
                    if a + (b - a) != b:
                        break
                depths.append(b)
            inter = np.array(depths)
            style = "hazard-done"
        if style == "mixed":
            thick = [rnd.choice([50.0, 100.0, 200.0, rnd.uniform(20, 300)]) for _ in range(n)]
            inter = np.cumsum(thick)
        elif style == "decimal":
            inter = np.array(sorted({round(rnd.uniform(5, 400 * n / 3 + 50), 1) for _ in range(n)}))
            n = len(inter)
        vel = np.array([rnd.choice([1500.0, 2000.0, 3000.0, rnd.uniform(800, 5000)]) for _ in range(n)])
        if rnd.random() < 0.3:
            vel = np.ones(n) * vel[0]
        xr = rnd.choice([50.0, 150.0, 400.0, rnd.uniform(10, 800)])
        ang = rnd.choice([rnd.uniform(0.5, 89.5), rnd.uniform(20, 70), rnd.uniform(1, 15)])
        # the same model written down with whole numbers in integer arrays, float32 arrays or plain lists is the same model
        encoding = "float64" if style == "hazard-done" else rnd.choice(["float64", "float64", "float64", "int", "float32", "list"])
        if encoding != "float64":
            inter = np.unique(np.round(inter))
            n = len(inter)
            vel = np.round(vel[:n])
        rz = np.array([inter[-1] * 0.5])
        inter_arg, vel_arg = {"float64": (inter, vel), "int": (inter.astype(np.int64), vel.astype(np.int64)), "float32": (inter.astype(np.float32), vel.astype(np.float32)),
                              "list": (np.array(inter.tolist()), np.array([int(v) for v in vel]))}[encoding]
        with quiet(), np.errstate(all="ignore"):
            try:
                ray, tt, dist, per = M._tracerays(inter_arg, vel_arg, np.array([0, 0]), xr, rz, ang, maxnumiterations=n * 3, keep_upgoing=False, trace_layers=True)
            except Exception as e:
                ray, tt, dist, per = None, repr(e), None, None
        stim = {"interfaces": inter.tolist(), "velocities": vel.tolist(), "xr": xr, "angle_deg": ang, "array_encoding": encoding}
        if ray is None:
            st.case(stim, nontrivial=False)
            st.disagree(stim, "a ray", tt, "_tracerays raised")
            continue
        pts = dedup(ray)
        crossed = len([p for p in pts[1:] if p[0] < xr])
        st.case(stim, nontrivial=crossed >= 2, sample={"stimulus": stim, "points": pts[:4], "tt": tt} if len(st.samples) < 3 else None)
        st.count(f"layers={n}")
        st.count(f"arrays={encoding}")
        st.count("reported" if tt is not None else "not-reported")
        # the property's own oracles on the returned ray --------------------------------------
        problems = []
        if tt is not None and rnd.random() < 0.4:
            # the same ray through the bookkeeping used by distance_per_layer() / gradient(): per-layer lengths and travel time must be the ray's
            try:
                with quiet(), np.errstate(all="ignore"):
                    TTS, DTS = M._derivative_to_layer_speeds(vel_arg, inter_arg, xr, rz, np.array([ang]), parallel=False)
                st.count("also through _derivative_to_layer_speeds")
                row = np.asarray(DTS, dtype=float)[0]
                if not (common.close(float(np.asarray(TTS, dtype=float)[0]), tt, 1e-9, 1e-15) and common.vclose(row.tolist(), np.asarray(per, dtype=float), 1e-9, 1e-9)):
                    problems.append(f"_derivative_to_layer_speeds returns travel time {float(np.asarray(TTS, dtype=float)[0])!r} / per-layer lengths {row.tolist()} for a ray with "
                                    f"travel time {tt!r} / per-layer lengths {np.asarray(per, dtype=float).tolist()}")
                elif not (common.close(float(np.sum(row / vel)), tt, 1e-9, 1e-15) and common.close(float(np.sum(row)), dist, 1e-9, 1e-12)):
                    problems.append("per-layer lengths from _derivative_to_layer_speeds do not add up to the ray's travel time and length")
            except Exception as e:
                problems.append(f"_derivative_to_layer_speeds raised {e!r}")
        if tt is not None:
            segs = list(zip(pts[:-1], pts[1:]))
            lens, ps = [], []
            bounds = [0.0] + inter.tolist()
            for (a, b) in segs:
                L = math.hypot(b[0] - a[0], b[1] - a[1])
                k = max(i for i in range(n) if bounds[i] <= a[1] + 1e-9)
                lens.append((L, k))
                if not b[1] > a[1]:
                    problems.append("ray does not proceed monotonically downward")
                if L > 0:
                    ps.append(((b[0] - a[0]) / L) / vel[k])
            if ps and max(ps) - min(ps) > 1e-9 * max(ps):
                problems.append(f"sin(angle)/velocity is not constant across interfaces: {ps}")
            if not common.close(sum(L / vel[k] for L, k in lens), tt, 1e-9, 1e-15):
                problems.append("travel time is not the sum of path-length / layer-velocity")
            if not (common.close(sum(L for L, k in lens), dist, 1e-9, 1e-12) and common.close(float(np.sum(per)), dist, 1e-9, 1e-12)):
                problems.append("length is not the sum of the (per-layer) path lengths")
            for j in range(n):
                if not common.close(sum(L for L, k in lens if k == j), per[j], 1e-9, 1e-9):
                    problems.append(f"per-layer length of layer {j} differs from the path in that layer")
                    break
        if problems:
            findings.append(Finding("C18", problems[0][:200], {"kind": "ray", "problem": problems[0][:30]}, {"oracle": "ray", "stimulus": stim, "problems": problems}))
        reqs.append(f"c18.trace {vhex(inter)} {vhex(vel)} {fhex(xr)} {fhex(math.radians(ang))}")
        metas.append((stim, pts, tt, dist, per, n))
    for (stim, pts, tt, dist, per, n), ans in zip(metas, lean_batch(reqs)):
        if not ans.startswith("ok "):
            st.disagree(stim, "model answer", ans[:80], "driver rejected")
            continue
        r = Reader(ans[3:])
        status = r.tok()
        reported = r.tok() == "1"
        mx, mz, mtt, mdist = r.flt(), r.flt(), r.flt(), r.flt()
        mper = r.vec()
        k = r.nat()
        mpts = [(0.0, 0.0)]
        for _ in range(k):
            x1, z1, th = r.flt(), r.flt(), r.flt()
            mpts.append((x1, z1))
        # the code returns None for rays that leave through the bottom, and the partial accumulation for a ray stopped at a critical angle
        expect_none = (status == "exited") or (status == "reached" and not reported)
        ok = expect_none == (tt is None)
        if ok and not expect_none:
            ok = (common.close(mtt, tt, 1e-9, 1e-15) and common.close(mdist, dist, 1e-9, 1e-12) and common.vclose(mper, per, 1e-9, 1e-9)
                  and len(mpts) == len(pts) and all(common.close(a[0], b[0], 1e-9, 1e-9) and common.close(a[1], b[1], 1e-9, 1e-9) for a, b in zip(mpts, pts)))
        if not ok:
            st.disagree(stim, {"status": status, "reported": reported, "tt": mtt, "points": mpts[:6]}, {"tt": tt, "points": pts[:6]}, "ray differs from the model")

    # forward() on homogeneous media -------------------------------------------------------------
    sf = Suite("C18.forward", "LayeredRayTracing2D.forward() on homogeneous media (all layer velocities equal), parallel=False: runs on the installed NumPy, and every "
               "receiver reported as converged (non-NaN solved angle) has the straight-line travel time within tolerance/velocity; non-trivial = >= 3 layers")
    from hmclab.Distributions import LayeredRayTracing2D

    from ..parallel import supervised
    from ..probes import scratch

    def forward_job(inter, xr, rz, vel, gseed, tolerance=None, max_attempts=None):
        np.random.seed(gseed)
        obj = LayeredRayTracing2D(inter, np.array([xr]), rz, tolerance=tolerance)
        obj.parallel = False
        if max_attempts is None:
            tts = np.array(obj.forward(np.array(vel, dtype=float)), dtype=float)
            angles = np.array(obj.solved_angles, dtype=float)
        else:
            # the public search with a bounded number of refinements, as one uses it for models in which some receivers lie in a shadow zone
            angles, tts, _ = obj.search_angles(np.array(vel, dtype=float), angles=100, max_attempts=max_attempts)
            angles, tts = np.array(angles, dtype=float), np.array(tts, dtype=float)
        # every receiver reported as converged is served by a ray: trace the ray of the reported take-off angle again
        rays = []
        for i, a in enumerate(angles):
            if np.isnan(a):
                rays.append(None)
                continue
            ray, tt, dist = M._tracerays(inter, np.array(vel, dtype=float), np.array([0, 0]), xr, rz, a, maxnumiterations=len(inter) * 3, keep_upgoing=False)
            rays.append((float(ray[-1][0]), float(ray[-1][1]), None if tt is None else float(tt)))
        return tts, angles, float(obj.tolerance), rays

    with scratch() as tmp:
        for ci in range(36 if thorough else 10):
            n = rnd.choice([1, 2, 3, 4, 6])
            thick = [rnd.choice([100.0, 150.0, 250.0]) for _ in range(n)]
            inter = np.cumsum(thick)
            v = rnd.choice([1500.0, 2000.0, 3300.0])
            # homogeneous (the clause about straight lines), or - every third case - layered with velocities increasing with depth (rays that turn at an interface exist)
            layered = n >= 2 and ci % 3 == 2
            vel = (np.cumsum([v] + [rnd.choice([0.0, 300.0, 900.0]) for _ in range(n - 1)]) if layered else np.ones(n) * v)
            xr = rnd.choice([100.0, 200.0, 350.0, 350.0, 1500.0, 3000.0])
            nrec = rnd.choice([1, 3, 5, 8])
            # receivers anywhere above the last interface (the constructor's own condition), the deepest layer included; in any order
            rz = np.linspace(0.15 * inter[-1], 0.95 * inter[-1], nrec) if nrec > 1 else np.array([rnd.uniform(0.3, 0.9) * inter[-1]])
            special = "none"
            if nrec >= 3 and rnd.random() < 0.4:
                # receivers at delicate depths: just below the surface (nearer to it than the tolerance), or exactly on an interface
                special = rnd.choice(["near-surface", "on-interface"] if n >= 2 else ["near-surface"])
                if special == "near-surface":
                    rz[0] = rnd.choice([1.0, 2.0, 0.02 * (rz[1] - rz[0])])
                else:
                    rz[rnd.randrange(nrec)] = float(inter[rnd.randrange(n - 1)])
                    rz = np.unique(rz)
                    nrec = len(rz)
            order = rnd.choice(["shallowest first", "shallowest first", "deepest first", "shuffled"]) if nrec > 1 else "single"
            if order == "deepest first":
                rz = rz[::-1].copy()
            elif order == "shuffled":
                rz = np.array(rnd.sample(rz.tolist(), nrec))
            job_extra = ()
            if ci == 3:
                # corpus: velocity increasing with depth through 20 layers (rays that turn, a shadow zone), serial refinement with few attempts
                inter = np.linspace(50.0, 1000.0, 20)
                vel, xr, layered, special = 1200.0 + 1.5 * inter, 800.0, True, "none"
                rz, order = np.linspace(30.0, 900.0, 30), "shallowest first"
                n, nrec, v = 20, 30, float(vel[0])
                job_extra = (2.0, 6)
            if ci == 2:
                # corpus: receivers listed in an order whose sorting permutation has a cycle of length >= 3 (a sort that is undone by indexing
                # with the sorting permutation again goes unnoticed for ascending, descending and pairwise-swapped listings)
                n, v, layered, special = 4, 2000.0, False, "none"
                inter, vel, xr = np.array([250.0, 500.0, 750.0, 1000.0]), np.ones(4) * 2000.0, 350.0
                rz, order, nrec = np.array([450.0, 150.0, 750.0, 300.0, 600.0]), "shuffled", 5
            if ci < 2:
                # corpus (runs first): the two geometries on which a look-up table that also admits rays which stop short of the receiver line showed
                # (a receiver on the interface at which trial rays turn; a receiver 2 m below the surface at 3000 m offset)
                if ci == 0:
                    inter, vel, xr = np.array([100.0, 250.0, 400.0, 700.0]), np.array([1000.0, 1500.0, 2500.0, 3000.0]), 500.0
                    rz, layered, special = np.array([50.0, 150.0, 250.0, 350.0, 450.0, 550.0, 650.0]), True, "on-interface"
                else:
                    inter, vel, xr = np.array([300.0, 600.0, 1000.0]), np.ones(3) * 2000.0, 3000.0
                    rz, layered, special = np.array([2.0, 100.0, 200.0, 300.0, 400.0, 500.0, 600.0, 700.0, 800.0, 900.0]), False, "near-surface"
                n, nrec, v, order = len(inter), len(rz), float(vel[0]), "shallowest first"
            stim = {"interfaces": inter.tolist(), "velocities": np.asarray(vel).tolist(), "xr": xr, "receivers": rz.tolist(), "order": order, "special_receiver": special}
            sf.case(stim, nontrivial=n >= 3, sample=stim if len(sf.samples) < 2 else None)
            sf.count(f"receivers {order}")
            sf.count("layered" if layered else "homogeneous")
            sf.count(f"special receiver: {special}")
            sf.count("receivers in the deepest layer" if (n == 1 or np.any(rz > inter[-2])) else "receivers above the deepest layer")
            status, res = supervised(forward_job, (inter, xr, rz, np.asarray(vel).tolist(), rnd.randrange(1 << 30)) + job_extra, timeout=120, tmpdir=tmp)
            if status != "ok":
                if status == "timeout" and (special != "none" or xr > 350.0):
                    # the angle search is not claimed to terminate for every geometry (DESIGN 9.6); delicate depths and long offsets are here for what is *returned*
                    sf.indeterminate += 1
                    sf.count("did not return within 120 s (delicate geometry: not claimed)")
                    continue
                what = "did not return within 120 s" if status == "timeout" else f"raised {str(res)[:200]}"
                sf.disagree(stim, "forward() runs", what, "forward() on the installed NumPy")
                findings.append(Finding("C18", f"LayeredRayTracing2D.forward {what} ({'layered' if layered else 'homogeneous'} medium, {n} layers, receivers {order})",
                                        {"kind": "forward-raise", "exception": status if status == "timeout" else str(res).split("(")[0][:30]},
                                        {"oracle": "forward", "stimulus": stim, "exception": str(res)[:600]}))
                continue
            tts, angles, tol, rays = res
            conv = ~np.isnan(angles)
            sf.count(f"converged={int(conv.sum())}/{nrec}")
            problems = []
            if not (tol > 0):
                problems.append(f"the tolerance the object derived for itself is {tol!r}")
            for i in range(nrec):
                if not conv[i]:
                    continue
                ex, ez, ett = rays[i]
                if ex != xr or not abs(ez - rz[i]) < abs(tol) * (1 + 1e-9):
                    problems.append(f"receiver {i} (depth {float(rz[i])!r}) is reported as converged with take-off angle {float(angles[i])!r}, but that ray ends at "
                                    f"(x={ex!r}, z={ez!r}): not on the receiver line x={xr!r} within the tolerance {tol!r} of the receiver")
                    break
                if ett is None or not common.close(ett, float(tts[i]), 1e-9, 1e-15):
                    problems.append(f"receiver {i}: reported travel time {float(tts[i])!r} is not the travel time {ett!r} of the ray with the reported take-off angle")
                    break
                if not layered:
                    straight = math.sqrt(xr ** 2 + rz[i] ** 2) / v
                    if not abs(tts[i] - straight) <= abs(tol) / v * (1 + 1e-9):
                        problems.append(f"homogeneous medium: converged receiver {i} (depth {float(rz[i])!r}) has travel time {float(tts[i])!r}, straight line {straight!r}, tolerance/v {tol / v!r}")
                        break
            if problems:
                sf.disagree(stim, "converged receivers served by their rays", problems[0], "forward()")
                findings.append(Finding("C18", problems[0][:400], {"kind": "forward-bound"}, {"oracle": "forward", "stimulus": stim, "problems": problems}))
    return [st, sf], findings


def search(tier, seed, broken):
    return []


def replay(body):
    return False, "re-run ./check C18 (cases are regenerated from the seed)"
