"""C16 — step-size autotuning stays positive, diminishing and correctly directed."""
import math
import os
import random

import numpy as np

from .. import common
from ..common import Suite, Finding, fhex, vhex, Reader, lean_batch
from ..probes import ScriptedRNG, CallLog, snapshot_sampler_class, quiet, scratch
from .c01 import make_target, make_mass, inside_start, _hm
from .c02 import Nasty, first_value, last_value, py_rule

TRUSTED_EXTRA = ["C16: (i+1)**(-learning_rate) is libm pow on both sides; acceptance probabilities are inputs of the model (the observed exp(E_cur-E_prop))"]
ASSUMPTIONS = ["the acceptance probability handed to the tuner is exp(E_current - E_proposed) (checked against the snapshots)"]


class InjectedError(RuntimeError):
    """an exception raised by user code (the target) inside a proposal"""


class Interrupter:
    @staticmethod
    def install(dist, at_call, exc=KeyboardInterrupt):
        orig = dist.misfit
        st = {"k": 0}

        def misfit(m):
            st["k"] += 1
            if st["k"] == at_call:
                raise exc
            return orig(m)

        dist.misfit = misfit


def run_tuned(rnd, sampler_kind, interrupt=False, on_the_boundary=False):
    _, S, MM, D = _hm()
    kind = rnd.choice(["normaldiag", "himmelblau", "stdnormal", "laplace"])
    d = {"himmelblau": 2, "stdnormal": 1}.get(kind, rnd.choice([1, 2, 3]))
    dist, tstr, bstr, tdesc, lb, ub = make_target(rnd, kind, d, rnd.random() < 0.3)
    nasty = rnd.random() < 0.4
    if on_the_boundary:
        # a target so narrow that the first proposals have acceptance probability exactly 0, and an initial step size equal to the target acceptance rate:
        # the first update lands exactly on 0.0 ("clamped to the minimal positive step size": zero is not positive)
        d = rnd.choice([1, 2])
        dist, lb, ub, nasty = D.Normal(np.zeros((d, 1)), 1e-14), None, None, False
        tdesc = {"kind": "normalscalar", "d": d, "variance": 1e-14}
    if nasty:
        Nasty.install(dist, rnd, 0.35)
    P = rnd.choice([1, 2, 3, 7, 15, 30])
    cut = None
    stop_kind = None
    if interrupt and P >= 3:
        per = 1 if sampler_kind == "RWMH" else 2
        cut = 1 + per * rnd.randint(1, P - 1) + rnd.randint(1, per)  # inside proposal >= 1
        stop_kind = rnd.choice(["KeyboardInterrupt", "KeyboardInterrupt", "InjectedError", "TimeoutError"])
        Interrupter.install(dist, cut, exc={"KeyboardInterrupt": KeyboardInterrupt, "InjectedError": InjectedError("injected"), "TimeoutError": TimeoutError("injected")}[stop_kind])
    calls = CallLog()
    calls.wrap(dist, "misfit")
    q0 = inside_start(rnd, d, lb, ub)
    if on_the_boundary:
        q0 = np.zeros((d, 1))      # at the mode: every proposal is astronomically worse, its acceptance probability underflows to exactly 0
    lr = rnd.choice([0.75, 1.0, 0.51, rnd.uniform(0.5001, 1.0)])
    target = rnd.choice([0.65, 0.3, 0.9])
    step0 = rnd.choice([0.1, 1.0, 1e-3, 5.0, rnd.uniform(0.01, 3)])
    # a scalar step is a scalar however it is spelled: int, numpy.float64 (what a previous tuned run leaves in sampler.stepsize), numpy.float32
    step_spelling = rnd.choice(["float", "float", "float", "int", "numpy.float64", "numpy.float32", "continue"])
    if on_the_boundary:
        step0, step_spelling = target, "float"
    if step_spelling == "int":
        step0 = float(rnd.choice([1, 2, 3]))
    seed = rnd.randrange(1 << 30)
    desc = {"sampler": sampler_kind, "target": tdesc, "nasty": nasty, "proposals": P, "lr": lr, "target_acceptance_rate": target,
            "stepsize": step0, "stepsize_spelling": step_spelling, "rng_seed": seed, "interrupt_at_misfit_call": cut, "stopped_by": stop_kind}
    step_arg = {"float": step0, "int": int(step0), "numpy.float64": np.float64(step0), "numpy.float32": np.float32(step0), "continue": step0}[step_spelling]
    if step_spelling == "numpy.float32":
        step0 = float(np.float32(step0))
        desc["stepsize"] = step0
    kw = dict(autotuning=True, learning_rate=lr, target_acceptance_rate=target, stepsize=step_arg)
    if sampler_kind == "RWMH":
        Snap = snapshot_sampler_class(S.RWMH)
    else:
        Snap = snapshot_sampler_class(S.HMC)
        mass, mstr, mdesc = make_mass(rnd, rnd.choice(["unit", "diag", "full"]), d)
        calls.wrap(mass, "kinetic_energy")
        kw.update(mass_matrix=mass, amount_of_steps=rnd.choice([1, 4]), integrator=rnd.choice(["lf", "3s", "4s"]),
                  randomize_stepsize=rnd.random() < 0.5)
        desc.update(mass=mdesc)
    s = Snap(seed=1)
    s.rng = ScriptedRNG(fallback_seed=seed)
    s._v_calls = calls
    attrs = {}
    earlier = rnd.choice([0, 0, 0, 1, 2])
    desc["earlier_autotuned_runs_on_the_object"] = earlier
    with scratch() as tmp, quiet(), np.errstate(all="ignore"):
        fn = os.path.join(tmp, "c.h5")
        # history: the same sampler object has been tuned before, with other settings and another length
        for hrun in range(earlier):
            try:
                plain, _, _, _, _, _ = make_target(random.Random(seed + hrun), "normaldiag", d, False)
                kw0 = dict(kw, learning_rate=[0.6, 0.9][hrun % 2], target_acceptance_rate=[0.4, 0.8][hrun % 2], stepsize=[2.0, 0.05][hrun % 2])
                s.sample(os.path.join(tmp, f"pre{hrun}.h5"), plain, proposals=[9, 5][hrun % 2], overwrite_existing_file=True, disable_progressbar=True, **kw0)
            except Exception as e:
                desc["raised"] = "earlier run: " + repr(e)
        s._v_transitions = []
        calls.calls.clear()
        if step_spelling == "continue" and earlier and "raised" not in desc:
            kw["stepsize"] = s.stepsize             # carry on from where the previous tuned run on this object ended
            desc["stepsize"] = float(s.stepsize)
        try:
            s.sample(fn, dist, initial_model=q0.copy(), proposals=P, overwrite_existing_file=True, disable_progressbar=True, **kw)
        except (InjectedError, TimeoutError) as e:   # user code raised inside a proposal: re-raised (C08); the histories must still cover the completed proposals
            desc["reraised"] = repr(e)
        except Exception as e:  # an aborting sampler is an observation (C06/C08), not a harness failure
            desc["raised"] = repr(e)
            try:
                s.samples.close()
            except Exception:
                pass
        import h5py

        with h5py.File(fn, "r") as f:
            a = f["samples"].attrs
            for k in ("stepsizes", "acceptance_rates"):
                attrs[k] = np.array(a[k]).copy() if k in a else None
            attrs["columns"] = f["samples"].shape[1]
    return desc, s, getattr(s, "_v_transitions", []), attrs


def rates_from(trans, sampler_kind):
    rates = []
    for t in trans:
        pre = t["pre"]
        calls = t.get("calls", [])
        if sampler_kind == "RWMH":
            px = last_value(calls, "misfit", pre["proposed_model"])
            ecur, eprop = pre["x"], px
        else:
            cx = first_value(calls, "misfit", pre["model"])
            px = last_value(calls, "misfit", pre["proposed_model"])
            ck = first_value(calls, "kinetic_energy", pre["p0"])
            pk = last_value(calls, "kinetic_energy", pre["p1"])
            if None in (cx, px, ck, pk):
                rates.append(float("nan"))
                continue
            ecur, eprop = float(cx) + float(ck), float(px) + float(pk)
        rates.append(py_rule(0.0, ecur, eprop)[0])
    return rates


def run(tier, seed):
    rnd = random.Random(104729 * seed + 16)
    thorough = tier == "thorough"
    findings = []
    st = Suite("C16.histories", "autotuned RWMH/HMC runs (incl. NaN/inf/0 acceptance probabilities via targets returning NaN/±inf, and runs "
               "interrupted inside a later proposal, and runs on sampler objects that were tuned before with other settings) vs model tuneRun on the observed acceptance probabilities: recorded step sizes, final step, "
               "lengths; bit-exact; non-trivial = run with >= 2 completed proposals; distinct by chain description")
    reqs, metas = [], []
    N = 240 if thorough else 70
    for i in range(N):
        kind = "RWMH" if i % 2 == 0 else "HMC"
        desc, s, trans, attrs = run_tuned(rnd, kind, interrupt=(i % 5 == 4), on_the_boundary=(i in (6, 7, 16, 17)))
        if i in (6, 7, 16, 17):
            st.count("first update lands exactly on zero")
        if "raised" in desc:
            st.case(desc, nontrivial=False)
            if "AssertionError" in desc["raised"] and "scalar stepsizes" in desc["raised"]:
                # the only refusal the property allows is a learning rate outside (0.5, 1]
                st.disagree(desc, "accepted", desc["raised"][:200], "legal scalar initial step refused")
                findings.append(Finding("C16", f"{desc['sampler']} autotuning refused a legal scalar initial step size spelled as {desc['stepsize_spelling']}: {desc['raised'][:120]}",
                                        {"kind": "refused-step", "sampler": desc["sampler"]}, {"oracle": "refusal", "chain": desc}))
            else:
                st.count("sampler raised (see C06/C08)")
            continue
        rates = rates_from(trans, kind)
        completed = attrs["columns"]  # thinning 1: one column per completed proposal
        if desc["interrupt_at_misfit_call"] is not None:
            rates = rates[:completed]
        metas.append((desc, s, trans, attrs, rates, completed))
        reqs.append(f"c16.tunerun {fhex(desc['lr'])} {fhex(desc['target_acceptance_rate'])} {fhex(s.minimal_stepsize)} {fhex(desc['stepsize'])} {vhex(rates)}")
    answers = lean_batch(reqs)
    for (desc, s, trans, attrs, rates, completed), ans in zip(metas, answers):
        st.case(desc, nontrivial=completed >= 2)
        st.count(f"sampler={desc['sampler']}")
        if any(r != r for r in rates):
            st.count("history contains NaN rate")
        if any(r == math.inf for r in rates):
            st.count("history contains inf rate")
        if desc["interrupt_at_misfit_call"] is not None:
            st.count("interrupted")
        if desc["earlier_autotuned_runs_on_the_object"]:
            st.count("sampler object tuned before")
        st.count(f"initial step spelled as {desc['stepsize_spelling']}")
        r = Reader(ans[3:])
        msteps = r.vec()
        mfinal = r.flt()
        osteps = np.array(s.stepsizes, dtype=float).ravel().tolist()
        orates = np.array(s.acceptance_rates, dtype=float).ravel().tolist()
        if len(st.samples) < 3:
            st.samples.append({"chain": desc, "rates": rates[:6], "model_steps": msteps[:6], "recorded_steps": osteps[:6]})
        # direct oracles (the property's own wording) -------------------------------------------
        problems = []
        if len(osteps) != completed or len(orates) != completed:
            problems.append(f"recorded histories have {len(osteps)}/{len(orates)} entries for {completed} completed proposals")
        fa = attrs.get("stepsizes")
        if fa is None or len(np.ravel(fa)) != completed:
            problems.append(f"file attribute stepsizes has {None if fa is None else len(np.ravel(fa))} entries for {completed} completed proposals")
        if not (s.stepsize > 0 and math.isfinite(s.stepsize)) or any(not (v > 0 and math.isfinite(v)) for v in osteps):
            problems.append("step size not finite and positive")
        for k, t in enumerate(trans[:len(osteps)]):
            if not common.bits_equal(float(t["pre"]["stepsize"]), osteps[k]):
                problems.append(f"step recorded for proposal {k} is not the one that generated it")
                break
        # the update rule in the property's own words, recomputed from the observed acceptance probabilities
        for k in range(min(len(osteps), len(rates)) - 1):
            a = rates[k]
            a = 0.0 if a != a else min(a, 1.0)
            want = osteps[k] - (k + 1) ** (-desc["lr"]) * (desc["target_acceptance_rate"] - a)
            if want <= 0:
                want = max(want, float(s.minimal_stepsize))
            if not common.close(osteps[k + 1], want, 1e-12, 1e-300):
                problems.append(f"update rule: after proposal {k} (acceptance probability {rates[k]!r}, step {osteps[k]!r}) the step became {osteps[k + 1]!r}; "
                                f"(i+1)^-lr (min(a,1) - target) with NaN counting as 0, clamped, gives {want!r}")
                break
        if problems:
            findings.append(Finding("C16", f"{desc['sampler']} autotuned run of {desc['proposals']} proposals: {problems[0]}",
                                    {"kind": "history", "problem": problems[0].split(" ")[0] + " " + problems[0].split(" ")[1]},
                                    {"oracle": "history", "chain": desc, "problems": problems, "recorded_steps": osteps, "completed": completed}))
        # correspondence with the model ------------------------------------------------------
        n = min(len(msteps), len(osteps))
        if not (common.vbits(msteps[:n], osteps[:n]) and len(msteps) == completed):
            st.disagree(desc, msteps, osteps, "recorded step sizes differ from the model")
        elif desc["interrupt_at_misfit_call"] is None and not common.bits_equal(mfinal, float(s.stepsize)):
            st.disagree(desc, mfinal, float(s.stepsize), "final step size differs from the model")
        elif not all(common.bits_equal(a, b) for a, b in zip(orates[:n], rates[:n])):
            st.disagree(desc, rates[:n], orates[:n], "recorded acceptance probabilities are not exp(E_cur - E_prop)")

    # learning-rate validation ---------------------------------------------------------------
    sl = Suite("C16.learning_rate", "sample(autotuning=True, learning_rate=x) is refused exactly when the model's learningRateOk is false; "
               "x over boundaries, NaN, inf, negatives; non-trivial = all; distinct by value")
    _, S, MM, D = _hm()
    vals = [0.5, 0.5000000001, 0.75, 1.0, 1.0000000001, 0.0, -1.0, 2.0, float("nan"), float("inf"), 0.4999999, 0.6, 0.99]
    vals += [rnd.uniform(0, 1.5) for _ in range(20 if thorough else 6)]
    reqs = [f"c16.lrok {fhex(v)}" for v in vals for _ in (0, 1)]
    ans = lean_batch(reqs)
    k = 0
    for v in vals:
        for kind in ("RWMH", "HMC"):
            ok_model = ans[k].split()[1] == "1"
            k += 1
            smp = getattr(S, kind)(seed=1)
            refused = False
            with scratch() as tmp, quiet():
                try:
                    smp.sample(os.path.join(tmp, "l.h5"), D.Normal(np.zeros((2, 1)), 1.0), proposals=2, autotuning=True, learning_rate=v,
                               overwrite_existing_file=True, disable_progressbar=True)
                except AssertionError:
                    refused = True
            stim = {"sampler": kind, "learning_rate": v}
            sl.case(stim, sample=stim if len(sl.samples) < 2 else None)
            if refused == ok_model:
                sl.disagree(stim, f"refused={not ok_model}", f"refused={refused}", "learning-rate validation")
                findings.append(Finding("C16", f"{kind}: learning_rate={v!r} {'refused' if refused else 'accepted'}", {"kind": "lr", "value": repr(v)},
                                        {"oracle": "lr", "stimulus": stim}))
    return [st, sl], findings


def search(tier, seed, broken):
    return []


def replay(body):
    return False, "re-run ./check C16 (chains are regenerated from the seed)"
