"""C10 — the Samples container round-trips data exactly under any buffering."""
import itertools
import math
import os
import random

import numpy as np

from .. import common
from ..common import Suite, Finding, fhex, vhex, Reader, lean_batch
from ..probes import ScriptedClock, patched_clock, quiet, scratch
from .c01 import _hm

TRUSTED_EXTRA = ["C10: HDF5 and NPY byte formats (h5py, numpy.lib.format, pickle sidecar) are parameters of the model; exercised by this correspondence on real files"]
ASSUMPTIONS = ["the module-level clock hmclab.Samples._time is the only time source of the write buffer (replaced by a scripted clock)"]

CLOCKS = {
    "fast": lambda k: 0.001 * k,
    "slow": lambda k: 100.0 * k,
    "alternating": lambda k: [0.0, 0.5, 20.0, 20.2, 60.0, 60.1][k % 6] + 100.0 * (k // 6),
    "non-monotone": lambda k: [5.0, 3.0, 40.0, 2.0, 2.5, 90.0, 1.0][k % 7],
    "boundary": lambda k: [0.0, 1.0, 2.0, 12.0, 22.0, 22.0, 23.0][k % 7] + 50.0 * (k // 7),
}


def random_clock(rnd, n):
    """a clock as an explicit list of readings: phases of fast / normal / slow / boundary / backwards increments"""
    times, t = [], 0.0
    while len(times) < n:
        kind = rnd.choice(["fast", "fast", "normal", "slow", "slow", "boundary", "back"])
        for _ in range(rnd.choice([1, 2, 3, 5, 8, 13])):
            dt = {"fast": 0.001, "normal": 5.0, "slow": 100.0, "boundary": rnd.choice([1.0, 10.0]), "back": -3.0}[kind]
            t += dt
            times.append(t)
    return times[:n]


def clock_fn(clockname):
    if isinstance(clockname, str):
        return CLOCKS[clockname]
    times = clockname
    return lambda k: times[min(k, len(times) - 1)]


def gen_ops(rnd, L, height):
    ops = []
    for _ in range(L):
        k = rnd.choice("PPPPPFW")
        if k == "P":
            col = np.array([[rnd.choice([rnd.gauss(0, 3), float(rnd.randint(-5, 5)), 1e300, -0.0])] for _ in range(height)])
            if rnd.random() < 0.12:
                # a column of whole numbers handed over as an integer array (or of float32 values) is the same column
                col = np.array([[float(rnd.randint(-5, 5))] for _ in range(height)])
                col = col.astype(rnd.choice([np.int64, np.int32, np.float32]))
            ops.append(("P", col))
        else:
            ops.append((k,))
    return ops


def run_store(ops, clockname, ext, tmp, tag):
    """drive the real Samples object; returns write_index after every op, final arrays"""
    from hmclab.Samples import Samples

    fn = os.path.join(tmp, f"s{tag}.{ext}")
    clock = ScriptedClock(clock_fn(clockname))
    idx = []
    RUN_ERROR.clear()
    with patched_clock(clock, samplers=False), quiet():
        s = Samples(fn, mode="w", overwrite=True)
        k = 0
        # the caller may hand over a fresh array per column, or refill one work array in place between appends
        work = None
        reuse = (tag.__hash__() if isinstance(tag, str) else int(tag)) % 2 == 1
        for op in ops:
            if op[0] == "P":
                if reuse:
                    if work is None:
                        work = np.empty(op[1].shape)
                    work[:] = op[1]
                    s.append(work)
                else:
                    s.append(op[1].copy())
            elif op[0] == "F":
                s.flush_buffer()
            else:
                s.write_attribute(f"user_attr_{k}", k)
                k += 1
            idx.append(int(s.read_attribute("write_index")))
        s.close()
    return fn, idx, clock.k


RUN_ERROR = {}


def run_store_safe(ops, clockname, ext, tmp, tag):
    """run_store, with an exception raised by the store recorded as an observation"""
    try:
        return run_store(ops, clockname, ext, tmp, tag)
    except Exception as e:
        RUN_ERROR["error"] = repr(e)
        return os.path.join(tmp, f"s{tag}.{ext}"), [], -1


def read_back(fn, b):
    from hmclab.Samples import Samples

    out = {}
    try:
        with quiet():
            s = Samples(fn, burn_in=b)
    except ValueError:
        return None
    try:
        arr = np.array(s.numpy, dtype=float)
        out["numpy"] = arr
        out["getitem_all"] = np.array(s[:, :], dtype=float)
        out["samples"] = np.array(s.samples, dtype=float)
        out["misfits_shape"] = tuple(np.shape(s.misfits))
        out["misfits"] = np.array(s.misfits, dtype=float).ravel()
        out["write_index"] = int(s.read_attribute("write_index"))
        n = arr.shape[1]
        out["cols"] = [np.array(s[:, j], dtype=float).ravel() for j in range(n)]
        out["elem00"] = float(s[0, 0])
        # the [ ] operator with the other kinds of keys NumPy arrays take: what it returns is what the same key returns on the array of samples
        keys = {"[:, -1]": (slice(None), -1), "[:, -n]": (slice(None), -n), "[-1, :]": (-1, slice(None)), "[0, -1]": (0, -1), "[:, -2:]": (slice(None), slice(-2, None)),
                "[:, ::2]": (slice(None), slice(None, None, 2)), "[:, [n-1, 0]]": (slice(None), [n - 1, 0]), "[-1]": -1, "[:-1, 1:]": (slice(None, -1), slice(1, None))}
        got = {}
        for name, key in keys.items():
            try:
                got[name] = (np.array(s[key], dtype=float), np.array(arr[key], dtype=float))
            except Exception as e:
                got[name] = (repr(e), None)
        out["keys"] = got
    except Exception as e:  # an exception while reading a readable file is an observation
        out["error"] = repr(e)
    finally:
        s.close()
    return out


def run(tier, seed):
    rnd = random.Random(2654435761 * (seed + 1) % (1 << 31))
    thorough = tier == "thorough"
    findings = []
    st = Suite("C10.ops", "random op sequences over {append(column), flush, write_attribute} then close (columns handed over as fresh arrays or through one work array refilled in place), on real HDF5 and NPY files under scripted clock "
               "behaviours: write_index after every op and the file read back (array, [:, :], [:, j], [0,0], samples, misfits) for every burn-in vs the "
               "model store; exact; non-trivial = >= 3 appends and >= 1 automatic flush")
    with scratch() as tmp:
        cases = []
        N = 500 if thorough else 110
        for i in range(N):
            L = rnd.choice([0, 1, 2, 3, 5, 8, 13, 21, 40])
            h = rnd.choice([2, 3, 5, 9])
            ops = gen_ops(rnd, L, h)
            clockname = rnd.choice(list(CLOCKS)) if rnd.random() < 0.4 else random_clock(rnd, 2 * len(ops) + 6)
            cases.append((ops, clockname, rnd.choice(["h5", "npy"]), h))
        if thorough:  # all op sequences of length <= 5 over a 3-letter alphabet, both back ends
            for L in range(0, 6):
                for word in itertools.product("PFW", repeat=L):
                    for ext in ("h5", "npy"):
                        ops = [("P", np.array([[float(i)], [float(-i)]])) if w == "P" else (w,) for i, w in enumerate(word)]
                        cases.append((ops, "fast" if L % 2 else "slow", ext, 2))
        reqs, metas = [], []
        for ci, (ops, clockname, ext, h) in enumerate(cases):
            fn, idx, ticks = run_store_safe(ops, clockname, ext, tmp, ci)
            if RUN_ERROR:
                stim0 = {"ops": [o[0] if o[0] != "P" else ["P", str(o[1].dtype)] + o[1].ravel().tolist() for o in ops], "clock": clockname, "backend": ext}
                st.case(stim0, nontrivial=False)
                st.disagree(stim0, "every operation succeeds", RUN_ERROR["error"], "the store raised")
                findings.append(Finding("C10", f"{ext} store raised {RUN_ERROR['error'][:160]} during a legal sequence of appends / flushes / attribute writes",
                                        {"kind": "store-raised", "backend": ext}, {"oracle": "store", "stimulus": stim0, "error": RUN_ERROR["error"]}))
                continue
            clk = [clock_fn(clockname)(k) for k in range(2 * len(ops) + 4)]
            line = f"c10.store {vhex(clk)} {len(ops) + 1} " + " ".join(("P " + vhex(np.asarray(o[1], dtype=float))) if o[0] == "P" else o[0] for o in ops) + " C"
            reqs.append(line)
            metas.append((ops, clockname, ext, fn, idx, ticks))
        answers = lean_batch(reqs)
        for (ops, clockname, ext, fn, idx, ticks), ans in zip(metas, answers):
            stim = {"ops": [o[0] if o[0] != "P" else ["P"] + o[1].ravel().tolist() for o in ops], "clock": clockname, "backend": ext,
                    "column_dtypes": sorted({str(o[1].dtype) for o in ops if o[0] == "P"})}
            appended = [np.asarray(o[1], dtype=float).ravel() for o in ops if o[0] == "P"]
            parts = ans[3:].split(" | ")
            midx = [int(t) for t in parts[0].split()] if parts[0].strip() else []
            r = Reader(parts[1])
            mcols = [r.vec() for _ in range(r.nat())]
            mticks = int(parts[2])
            auto = any(i > 0 for i, o in zip(idx, ops) if o[0] == "P")
            st.case(stim, nontrivial=(len(appended) >= 3 and auto))
            st.count(f"backend={ext}")
            st.count(f"clock={clockname}")
            if len(st.samples) < 2 and len(appended) >= 3:
                st.samples.append({"ops": "".join(o[0] for o in ops), "clock": clockname, "write_index_after_each_op": idx})
            if midx[:-1] != idx:
                st.disagree(stim, midx[:-1], idx, "write_index after each op (buffering policy) differs from the model")
                continue
            if mticks != ticks:
                st.disagree(stim, mticks, ticks, "number of clock readings differs from the model")
                continue
            n = len(appended)
            bad = None
            for b in list(range(0, n + 2)):
                rb = read_back(fn, b) if os.path.exists(fn) else None
                refused_model = n <= b
                if n == 0 and not os.path.exists(fn):
                    continue
                if (rb is None) != refused_model:
                    bad = (b, f"refused={refused_model}", f"refused={rb is None}")
                    break
                if rb is None:
                    continue
                if "error" in rb:
                    bad = (b, "readable through every accessor", rb["error"])
                    break
                expect = np.array(mcols[b:], dtype=float).T if mcols[b:] else np.zeros((0, 0))
                checks = {
                    "numpy": rb["numpy"], "getitem_all": rb["getitem_all"],
                }
                for name, arr in checks.items():
                    if arr.shape != expect.shape or not np.array_equal(arr, expect, equal_nan=True):
                        bad = (b, f"{name} = appended[{b}:]", f"{name} shape {arr.shape} differs")
                        break
                if bad:
                    break
                if not np.array_equal(rb["samples"], expect[:-1, :], equal_nan=True) or not np.array_equal(rb["misfits"], expect[-1, :], equal_nan=True):
                    bad = (b, "samples/misfits = rows of appended[b:]", "differs")
                    break
                for j, col in enumerate(rb["cols"]):
                    if not np.array_equal(col, expect[:, j], equal_nan=True):
                        bad = (b, f"[:, {j}] = appended column {b + j}", col.tolist())
                        break
                if bad:
                    break
                if not common.bits_equal(rb["elem00"], expect[0, 0]) and not (rb["elem00"] == expect[0, 0]):
                    bad = (b, f"[0,0] = {expect[0, 0]!r}", rb["elem00"])
                    break
                if rb["write_index"] != n:
                    bad = (b, f"write_index = {n}", rb["write_index"])
                    break
                for kname, (gk, ek) in rb.get("keys", {}).items():
                    want = None
                    try:
                        want = eval("expect" + kname.replace("n-1", str(expect.shape[1] - 1)).replace("-n", str(-expect.shape[1])))
                    except Exception:
                        continue
                    if isinstance(gk, str) or np.shape(gk) != np.shape(want) or not np.array_equal(gk, np.asarray(want, dtype=float), equal_nan=True):
                        bad = (b, f"samples{kname} = appended[{b}:]{kname} = {np.asarray(want).tolist()}", gk if isinstance(gk, str) else np.asarray(gk).tolist())
                        break
                if bad:
                    break
                if rb["misfits_shape"] != (n - b, 1):
                    # the documented layout of the HDF5 back end; "for both the HDF5 and the NPY back end" the accessors must agree
                    bad = (b, f"misfits of shape {(n - b, 1)} (one column, as the HDF5 back end returns)", f"shape {rb['misfits_shape']}")
                    break
            if bad:
                st.disagree(stim, bad[1], bad[2], f"read back with burn_in={bad[0]}")
                findings.append(Finding("C10", f"{ext} file read back with burn_in={bad[0]}: expected {bad[1]}, observed {bad[2]}",
                                        {"kind": "readback", "backend": ext, "what": str(bad[1]).split(" ")[0][:12]},
                                        {"oracle": "readback", "stimulus": stim, "burn_in": bad[0], "expected": bad[1], "observed": bad[2]}))

        # two writers at once -----------------------------------------------------------------------
        sw2 = Suite("C10.two_writers", "two Samples writers alive at the same time (HDF5 and/or NPY, other row counts allowed), columns appended alternately in random order, "
                    "flushes in between, closed in either order: each file holds exactly the columns appended to its own writer, in order; non-trivial = all")
        from hmclab.Samples import Samples as _S2
        for ci in range(60 if thorough else 16):
            exts = [rnd.choice(["h5", "npy"]), rnd.choice(["h5", "npy"])]
            hs = [rnd.choice([2, 3]), rnd.choice([2, 3, 4])]
            fns = [os.path.join(tmp, f"tw{ci}_{j}.{exts[j]}") for j in range(2)]
            mine = [[], []]
            order = [rnd.randrange(2) for _ in range(rnd.choice([3, 8, 20, 45]))]
            stim = {"backends": exts, "rows": hs, "order": "".join(map(str, order))}
            sw2.case(stim, nontrivial=True, sample=stim if len(sw2.samples) < 2 else None)
            err = None
            try:
                with quiet():
                    ws = [_S2(fns[j], mode="w", overwrite=True) for j in range(2)]
                    for k, j in enumerate(order):
                        col = np.array([[float(100 * j + k) + 0.25 * r] for r in range(hs[j])])
                        ws[j].append(col)
                        mine[j].append(col.ravel())
                        if rnd.random() < 0.15:
                            ws[rnd.randrange(2)].flush_buffer()
                    for j in (rnd.sample([0, 1], 2)):
                        ws[j].close()
                got = []
                for j in range(2):
                    if not mine[j]:
                        got.append(None)
                        continue
                    with quiet():
                        r_ = _S2(fns[j])
                        got.append(np.array(r_.numpy, dtype=float))
                        r_.close()
            except Exception as e:
                err = repr(e)
            problems = []
            if err:
                problems.append(f"raised {err[:160]}")
            else:
                for j in range(2):
                    if mine[j]:
                        want = np.array(mine[j]).T
                        if got[j].shape != want.shape or not np.array_equal(got[j], want):
                            problems.append(f"writer {j} ({exts[j]}): the file holds {got[j].shape[1]} columns {got[j][0, :6].tolist()}..., appended to it were {want.shape[1]} columns {want[0, :6].tolist()}...")
                            break
            if problems:
                sw2.disagree(stim, "each file = its own columns", problems[0], "two writers")
                findings.append(Finding("C10", "two writers alive at once: " + problems[0][:300], {"kind": "two-writers"}, {"oracle": "two-writers", "stimulus": stim}))
        # combine_samples ----------------------------------------------------------------------
        sc = Suite("C10.combine", "combine_samples on 1-4 files (both back ends, with burn-ins, with NaN-containing columns) vs model concatenation; "
                   "non-trivial = >= 2 inputs and >= 1 NaN column")
        from hmclab.Samples import Samples, combine_samples

        reqs, metas = [], []
        for ci in range(120 if thorough else 30):
            k = rnd.randint(1, 4)
            h = rnd.choice([2, 3, 4])
            files, views = [], []
            anynan = False
            for j in range(k):
                n = rnd.randint(1, 6)
                cols = []
                for _ in range(n):
                    c = np.array([[rnd.gauss(0, 1)] for _ in range(h)])
                    if rnd.random() < 0.25:
                        c[rnd.randrange(h), 0] = float("nan")
                        anynan = True
                    elif h >= 2 and rnd.random() < 0.2:
                        # infinite entries of both signs are not NaN: such a column stays
                        i1, i2 = rnd.sample(range(h), 2)
                        c[i1, 0], c[i2, 0] = float("inf"), float("-inf")
                    cols.append(c)
                ext = rnd.choice(["h5", "npy"])
                fn = os.path.join(tmp, f"comb{ci}_{j}.{ext}")
                with quiet():
                    s = Samples(fn, mode="w", overwrite=True)
                    for c in cols:
                        s.append(c)
                    s.close()
                files.append(fn)
                views.append([c.ravel() for c in cols])
            with quiet():
                out = combine_samples(list(files))
            reqs.append(f"c10.combine {k} " + " ".join(f"{len(v)} " + " ".join(vhex(c) for c in v) for v in views))
            metas.append(({"files": k, "columns": [len(v) for v in views], "has_nan": anynan}, out, k, anynan))
        for (stim, out, k, anynan), ans in zip(metas, lean_batch(reqs)):
            r = Reader(ans[3:])
            mcols = [r.vec() for _ in range(r.nat())]
            expect = np.array(mcols, dtype=float).T if mcols else np.zeros((np.shape(out)[0], 0))
            sc.case(stim, nontrivial=(k >= 2 and anynan), sample=stim if len(sc.samples) < 2 else None)
            if np.shape(out) != expect.shape or not np.array_equal(np.array(out, dtype=float), expect):
                sc.disagree(stim, expect.shape, np.shape(out), "combine_samples differs from model")
                findings.append(Finding("C10", "combine_samples is not the concatenation of its inputs without NaN-containing columns",
                                        {"kind": "combine"}, {"oracle": "combine", "stimulus": stim}))
    return [st, sw2, sc], findings


def search(tier, seed, broken):
    """after a broken proof/correspondence: many more clock schedules and longer op sequences, direct read-back oracle only"""
    rnd = random.Random(seed + 1010)
    findings = []
    from hmclab.Samples import Samples

    with scratch() as tmp:
        for ci in range(400):
            n = rnd.choice([5, 9, 14, 22, 35, 60])
            h = rnd.choice([2, 3])
            ops = [("P", np.array([[float(ci)], [float(j)]] + [[0.5]] * (h - 2))) for j in range(n)]
            clockname = random_clock(rnd, 2 * n + 6)
            ext = rnd.choice(["h5", "npy"])
            try:
                fn, idx, ticks = run_store(ops, clockname, ext, tmp, f"x{ci % 8}")
                rb = read_back(fn, 0)
            except Exception as e:
                rb = {"error": repr(e)}
            expect = np.hstack([o[1] for o in ops])
            ok = rb is not None and "error" not in rb and rb["numpy"].shape == expect.shape and np.array_equal(rb["numpy"], expect) and rb["write_index"] == n
            if not ok:
                stim = {"ops": [["P"] + o[1].ravel().tolist() for o in ops], "clock": clockname, "backend": ext}
                what = "unreadable" if rb is None else rb.get("error") or f"shape {rb['numpy'].shape}, write_index {rb['write_index']}"
                findings.append(Finding("C10", f"{ext} file after {n} appends under a phased clock: expected {n} columns as appended, observed {what}",
                                        {"kind": "readback", "backend": ext, "what": "numpy"}, {"oracle": "readback", "stimulus": stim, "observed": str(what)}))
                if len(findings) >= 2:
                    break
    return findings


def replay(body):
    return False, "re-run ./check C10 (cases are regenerated from the seed)"
