"""C12 — parallel tempering exchanges conserve states, obey the swap rule, terminate."""
import math
import os
import pickle
import random

import numpy as np

from .. import common
from ..common import Suite, Finding, fhex, vhex, Reader, lean_batch
from ..probes import quiet, scratch
from ..parallel import supervised, read_samples
from .. import partools

THOROUGH_ROUNDS = 3
TRUSTED_EXTRA = ["C12: the theorem covers every interleaving of the *model* (processes with FIFO channels of every capacity, from rendezvous to unbounded); OS pipes are "
                 "assumed reliable FIFO; real scheduling is only perturbed by scripted delays in the pipe endpoints and by runs with models larger than the pipe buffer",
                 "C12: kernels, targets and the masters' uniform draws are parameters of the choreography"]
ASSUMPTIONS = ["chains are started with fork; logging pipe endpoints and tapped sampler subclasses do not change the protocol (checked: runs with and without delays give identical files)"]


def _hm():
    from hmclab import Samplers as S, Distributions as D

    return S, D


def make_config(rnd, n):
    P = rnd.choice([4, 6, 8, 10, 12])
    I = rnd.choice([1, 2, 3, 4, 5])
    kinds = [rnd.choice(["RWMH", "HMC"]) for _ in range(n)]
    d = rnd.choice([2, 3])
    return {"n": n, "P": P, "I": I, "kinds": kinds, "d": d, "seeds": [rnd.randrange(1 << 30) for _ in range(n)],
            "temps": [1.0 * (1 + i) for i in range(n)], "mu": [rnd.uniform(-1, 1) for _ in range(d)],
            "controller_seed": rnd.randrange(1 << 30), "step": rnd.choice([0.5, 1.0, 2.0]),
            # keys the controller fixes itself may also appear in the user's kwargs: the controller's values win
            "kw_overrides": rnd.random() < 0.4}


def vary_config(cfg, rnd2):
    """second stream of choices (kept apart so that the configurations of earlier seeds stay what they were): very short runs - the proposal count is
    quantified over, 1 included - and one sampler object passed for all chains (`[sampler] * n`: the controller works on copies, one per chain)"""
    if rnd2.random() < 0.3:
        cfg["P"] = rnd2.choice([1, 1, 2, 3])
        cfg["I"] = rnd2.choice([1, 1, 2])
    cfg["shared_sampler"] = cfg["n"] > 1 and rnd2.random() < 0.25
    return cfg


def job(cfg, tmp, sleep_seed, sleep_scale):
    S, D = _hm()
    import hmclab.Samplers as SM
    import sys

    SMod = sys.modules["hmclab.Samplers"]
    SMod.PipeMatrix = partools.make_logging_pipematrix(SMod.PipeMatrix)
    n = cfg["n"]
    samplers = []
    for i in range(n):
        s = partools.tapped(cfg["kinds"][i])(seed=cfg["seeds"][i])
        s._v_logdir = tmp
        s._v_sleep_seed = sleep_seed
        s._v_sleep_scale = sleep_scale
        samplers.append(s)
    if cfg.get("shared_sampler"):
        samplers = [samplers[0]] * n
    posts = [D.Normal(np.array(cfg["mu"]).reshape(-1, 1), float(T)) for T in cfg["temps"]]
    files = [os.path.join(tmp, f"t_{i}.h5") for i in range(n)]
    ctrl = S.ParallelSampleSMP(seed=cfg["controller_seed"])
    ctrl.sample(samplers, files, posts, overwrite_existing_files=True, proposals=cfg["P"], exchange=True, exchange_interval=cfg["I"],
                initial_model=np.zeros((cfg["d"], 1)),
                kwargs=dict({"disable_progressbar": True, "stepsize": cfg["step"]}, **({"proposals": cfg["P"] + cfg["I"], "overwrite_existing_file": False} if cfg.get("kw_overrides") else {})))
    sched = None if ctrl.exchange_schedule is None else np.array(ctrl.exchange_schedule).tolist()
    rep_ = ctrl.sampler_widget_data
    out = {"schedule": sched, "files": [], "taps": [], "reported": sorted(rep_.keys()) if isinstance(rep_, dict) else repr(rep_)[:100]}
    for i in range(n):
        try:
            out["files"].append(read_samples(files[i]))
        except Exception as e:
            out["files"].append(repr(e))
        p = os.path.join(tmp, f"tap_{i}.pkl")
        out["taps"].append(pickle.load(open(p, "rb")) if os.path.exists(p) else None)
    return out


def big_job(n, d, P, I, seeds, tmp):
    """plain (untapped) tempering run whose models do not fit into the pipe buffer"""
    S, D = _hm()
    samplers = [S.RWMH(seed=sd) for sd in seeds]
    posts = [D.Normal(np.zeros((d, 1)), float(1 + i)) for i in range(n)]
    files = [os.path.join(tmp, f"big_{i}.h5") for i in range(n)]
    ctrl = S.ParallelSampleSMP(seed=seeds[0] + 1)
    ctrl.sample(samplers, files, posts, overwrite_existing_files=True, proposals=P, exchange=True, exchange_interval=I,
                initial_model=np.zeros((d, 1)), kwargs={"disable_progressbar": True, "stepsize": 0.01})
    shapes = []
    for f in files:
        a = read_samples(f)
        shapes.append(list(a.shape))
    return {"shapes": shapes}


def pipe_buffer_bytes():
    try:
        return int(open("/proc/sys/net/core/wmem_default").read())
    except Exception:
        return 212992


def capacity_suite(rnd, count, findings):
    sc = Suite("C12.capacity", "real tempering runs whose models are larger than the operating system's pipe buffer (a send then completes only while the "
               "partner receives: the capacity-0 end of the theorem's quantifier), 2-3 chains, exchange at every proposal: completion within the time limit and "
               "`proposals` columns per chain; non-trivial = all")
    buf = pipe_buffer_bytes()
    with scratch() as tmp:
        for ci in range(count):
            n = rnd.choice([2, 2, 3])
            d = int(max(40000, 3 * buf // 8) * rnd.choice([1.0, 1.5]))
            P, I = rnd.choice([(2, 1), (3, 1), (4, 2)])
            seeds = [rnd.randrange(1 << 30) for _ in range(n)]
            sub = os.path.join(tmp, f"b{ci}")
            os.makedirs(sub)
            stim = {"n": n, "dimensions": d, "P": P, "I": I, "message_bytes": 8 * d, "pipe_buffer_bytes": buf}
            status, res = supervised(big_job, (n, d, P, I, seeds, sub), timeout=75, tmpdir=tmp)
            sc.case(dict(stim, seeds=seeds), nontrivial=True, sample=stim if len(sc.samples) < 2 else None)
            sc.count(f"n={n}")
            if status == "timeout":
                sc.disagree(stim, "completes", res, "did not finish (deadlock?)")
                findings.append(Finding("C12", f"parallel tempering with models of {8 * d} bytes (pipe buffer {buf}) and n={n}, P={P}, I={I} did not finish: "
                                        f"{res.get('alive_processes')} processes alive in {[p.get('wchan') for p in res.get('processes', [])[:4]]}",
                                        {"kind": "hang", "large_model": True}, {"oracle": "timeout", "config": dict(stim, seeds=seeds), "diagnostic": res}))
            elif status == "raised":
                sc.disagree(stim, "completes", res[:300], "raised")
                findings.append(Finding("C12", f"parallel tempering with large models raised: {res[:200]}", {"kind": "raise", "large_model": True},
                                        {"oracle": "raise", "config": dict(stim, seeds=seeds), "error": res}))
            elif any(sh != [d + 1, P] for sh in res["shapes"]):
                sc.disagree(stim, [d + 1, P], res["shapes"], "columns per chain")
                findings.append(Finding("C12", f"large-model run wrote shapes {res['shapes']}, expected {[d + 1, P]} per chain", {"kind": "columns", "large_model": True},
                                        {"oracle": "shape", "config": dict(stim, seeds=seeds)}))
    return sc


def limited_job(tmp):
    """two tempered RWMH chains with exchange, each with its own max_time"""
    S, D = _hm()
    posts = [D.Normal(np.zeros((2, 1)), 1.0), D.Normal(np.zeros((2, 1)), 3.0)]
    files = [os.path.join(tmp, f"lim_{i}.h5") for i in range(2)]
    ctrl = S.ParallelSampleSMP(seed=1)
    ctrl.sample([S.RWMH(seed=10), S.RWMH(seed=11)], files, posts, overwrite_existing_files=True, proposals=500000, exchange=True, exchange_interval=10,
                initial_model=np.zeros((2, 1)), kwargs=[{"disable_progressbar": True, "max_time": 0.3}, {"disable_progressbar": True, "max_time": 0.6}])
    return [list(read_samples(f).shape) for f in files]


def time_limit_suite(findings):
    sl = Suite("C12.time_limits", "pinned: two tempered RWMH chains with exchange every 10 proposals, 500000 proposals, max_time 0.3 s for one chain and 0.6 s for the other "
               "(documented sampler arguments, passed through kwargs): the call must return; watchdog 25 s; non-trivial = all")
    with scratch() as tmp:
        status, res = supervised(limited_job, (tmp,), timeout=25, tmpdir=tmp)
    stim = {"chains": 2, "proposals": 500000, "exchange_interval": 10, "max_time": [0.3, 0.6]}
    sl.case(stim, nontrivial=True, sample=stim)
    sl.count(f"outcome={status}")
    if status != "ok":
        what = (f"did not return within 25 s: {res.get('alive_processes')} processes alive in {[p.get('wchan') for p in res.get('processes', [])[:4]]}" if status == "timeout"
                else f"raised {str(res)[:200]}")
        findings.append(Finding("C12", f"parallel tempering with per-chain time limits (max_time 0.3 s / 0.6 s, exchange every 10 proposals) {what}",
                                {"kind": "hang" if status == "timeout" else "raise", "max_time": True}, {"oracle": "timeout", "config": stim, "diagnostic": res}))
    return sl


def misfit_of(cfg, i, m):
    """chain i's own target misfit (Normal(mu, T_i I)), as hmclab computes it"""
    S, D = _hm()
    return float(D.Normal(np.array(cfg["mu"]).reshape(-1, 1), float(cfg["temps"][i])).misfit(np.asarray(m, dtype=float).reshape(-1, 1)))


def run(tier, seed):
    rnd = random.Random(3935559000370003845 * (seed + 12) % (1 << 31))
    thorough = tier == "thorough"
    rnd2 = random.Random(seed * 7919 + 12)
    findings = []
    st = Suite("C12.runs", "real ParallelSampleSMP runs with exchange (fork), n in 1..6 chains, P in 4..12, exchange interval 1..5 (dividing P or not), mixed HMC/RWMH, "
               "tempered targets, tapped samplers and logging pipe endpoints with scripted delays: completion within the time limit, `proposals` columns per chain, "
               "per-chain pipe event order vs the model's projection, every exchange vs the model (keep-or-swap, swap rule, own misfit, next energy), and equality "
               "of the files of a second run with other delays; non-trivial = run with >= 1 swap and >= 1 refused swap")
    sx = Suite("C12.exchanges", "every scheduled exchange of those runs vs model exchangeBlock: states after, stored misfits; exact; non-trivial = swap happened")
    ns = [1, 2, 2, 3, 4, 5, 6, 3] if not thorough else [1, 2, 2, 2, 3, 3, 3, 4, 4, 5, 5, 6, 6, 2, 3, 4, 5, 6, 8, 2, 3]
    ereqs, emetas = [], []
    xreqs, xmetas = [], []
    with scratch() as tmp:
        for ci, n in enumerate(ns):
            cfg = vary_config(make_config(rnd, n), rnd2)
            stim = {k: cfg[k] for k in ("n", "P", "I", "kinds", "kw_overrides", "shared_sampler")}
            runs = []
            for rep, (ss, sc) in enumerate([(ci * 2 + 1, 0.004), (ci * 2 + 2, 0.0)]):
                sub = os.path.join(tmp, f"c{ci}_{rep}")
                os.makedirs(sub)
                status, res = supervised(job, (cfg, sub, ss, sc), timeout=90, tmpdir=tmp)
                runs.append((status, res))
                if status != "ok":
                    break
            status, res = runs[0]
            st.case(dict(stim, seeds=cfg["seeds"]), nontrivial=False)
            st.count(f"n={n}")
            st.count(f"I {'divides' if cfg['P'] % cfg['I'] == 0 else 'does not divide'} P")
            if status == "timeout":
                st.disagree(stim, "completes", res, "did not finish (deadlock?)")
                findings.append(Finding("C12", f"parallel tempering with n={n}, P={cfg['P']}, I={cfg['I']} did not finish: {res}", {"kind": "hang"},
                                        {"oracle": "timeout", "config": cfg, "diagnostic": res}))
                continue
            if status == "raised":
                st.disagree(stim, "completes", res[:300], "raised")
                findings.append(Finding("C12", f"parallel tempering raised: {res[:200]}", {"kind": "raise"}, {"oracle": "raise", "config": cfg, "error": res}))
                continue
            problems = []
            P, I = cfg["P"], cfg["I"]
            for i in range(n):
                f = res["files"][i]
                if isinstance(f, str) or f.shape[1] != P:
                    problems.append(f"chain {i} wrote {f if isinstance(f, str) else f.shape[1]} columns for {P} proposals "
                                    f"(exchange_interval {I} {'divides' if P % I == 0 else 'does not divide'} proposals)")
                    break
            want = sorted(str(i) for i in range(n))
            if not problems and res.get("reported") != want:
                # "completes without ... error": every chain process hands its end-of-run report to the controller; a chain that raised does not
                problems.append(f"chains {sorted(set(want) - set(res['reported'] if isinstance(res['reported'], list) else []))} ended without handing their result "
                                f"to the controller (their process raised): controller has {res['reported']} for {n} chains, proposals={P}"
                                + (", one sampler object for all chains" if cfg.get("shared_sampler") else ""))
            if P <= 3:
                st.count(f"P={P}")
            if cfg.get("shared_sampler"):
                st.count("one sampler object for all chains")
            if len(runs) > 1 and runs[1][0] == "ok" and not problems:
                for i in range(n):
                    a, b = res["files"][i], runs[1][1]["files"][i]
                    if isinstance(b, str) or a.shape != b.shape or a.tobytes() != b.tobytes():
                        problems.append(f"chain {i}: files of two runs with the same seeds but different pipe delays differ")
                        break
            elif len(runs) > 1 and runs[1][0] != "ok":
                problems.append(f"the second run (no delays) ended with {runs[1][0]}")
            # exchanges ---------------------------------------------------------------------
            sched = res["schedule"]
            n_swaps = n_kept = 0
            taps = res["taps"]
            if not problems and sched is not None and all(t is not None for t in taps):
                for k in range(0, P, I):
                    row = sched[k // I] if k // I < len(sched) else []
                    for t in range(0, len(row) - 1, 2):
                        s_, m_ = int(row[t]), int(row[t + 1])
                        pre_s = taps[s_]["trans"][k]
                        pre_m = taps[m_]["trans"][k]
                        col_s = taps[s_]["cols"][k].ravel()
                        col_m = taps[m_]["cols"][k].ravel()
                        Ms, xs, Mm, xm = pre_s[1], pre_s[2], pre_m[1], pre_m[2]
                        us = [v for (kk, v) in taps[m_]["uniforms"] if kk == k]
                        if len(us) != 1:
                            problems.append(f"proposal {k}: master {m_} drew {len(us)} uniforms during the exchange")
                            continue
                        u = us[0]
                        UmMs, UsMm = misfit_of(cfg, m_, Ms), misfit_of(cfg, s_, Mm)
                        with np.errstate(all="ignore"):
                            rate = float(np.exp((xm - UmMs) + (xs - UsMm)))
                        should = u < rate
                        swapped = np.array_equal(col_s[:-1], Mm.ravel()) and np.array_equal(col_m[:-1], Ms.ravel()) and not np.array_equal(Ms, Mm)
                        kept = np.array_equal(col_s[:-1], Ms.ravel()) and np.array_equal(col_m[:-1], Mm.ravel())
                        n_swaps += int(swapped)
                        n_kept += int(kept and not swapped)
                        ex = {"proposal": k, "slave": s_, "master": m_, "u": u, "rate": rate}
                        if not (swapped or kept):
                            problems.append(f"exchange at proposal {k} between {s_} and {m_}: states neither kept nor exactly swapped")
                        elif abs(u - rate) > 1e-9 * max(rate, 1e-300) and swapped != should and not np.array_equal(Ms, Mm):
                            problems.append(f"exchange at proposal {k}: swapped={swapped} but u={u!r}, exp(sum of improvements)={rate!r}")
                        else:
                            for who, col, tgt in ((s_, col_s, s_), (m_, col_m, m_)):
                                own = misfit_of(cfg, tgt, col[:-1])
                                if not common.close(col[-1], own, 1e-12, 1e-12):
                                    problems.append(f"exchange at proposal {k}: chain {who} stored misfit {col[-1]!r} but its own target gives {own!r} for the state it now holds")
                                    break
                            # the next transition of an RWMH chain starts from the carried misfit
                        xreqs.append(f"c12.exchange {vhex(Ms)} {fhex(xs)} {vhex(Mm)} {fhex(xm)} {fhex(UmMs)} {fhex(UsMm)} {fhex(u)}")
                        xmetas.append((dict(stim, exchange=ex), col_s, col_m, abs(u - rate) <= 1e-9 * max(rate, 1e-300)))
            if n_swaps and n_kept:
                st.nontrivial.add(common.chash(stim))
            if len(st.samples) < 3:
                st.samples.append({"config": stim, "swaps": n_swaps, "refused": n_kept, "schedule_rows": None if sched is None else len(sched)})
            if problems:
                st.disagree(stim, "property holds", problems[:3], problems[0])
                cat = ("stored-misfit" if "stored misfit" in problems[0] else "columns" if "columns for" in problems[0] else "keep-or-swap" if "neither kept" in problems[0]
                       else "swap-rule" if "swapped=" in problems[0] else "delays" if "pipe delays" in problems[0] else "no-report" if "without handing" in problems[0] else "other")
                findings.append(Finding("C12", problems[0], {"kind": "run", "problem": cat},
                                        {"oracle": "run", "config": cfg, "problems": problems}))
            # pipe event order vs the model's projection ---------------------------------------
            if sched is not None and all(t is not None for t in taps):
                rows = " ".join(f"{len(r)} " + " ".join(str(int(x)) for x in r) for r in sched)
                ereqs.append(f"c12.events {n} {P} {I} {len(sched)} {rows}")
                emetas.append((stim, [t["events"] for t in taps], len(sched)))
    for (stim, evs, nrows), ans in zip(emetas, lean_batch(ereqs)):
        parts = ans[3:].split(" | ")
        need = int(parts[0].split()[0])
        model_ev = [p.strip() for p in parts[1:]]
        obs_ev = [",".join(f"{a}{b}" for a, b in e) for e in evs]
        if nrows < need:
            st.disagree(stim, f"{need} schedule rows", nrows, "exchange schedule shorter than the number of exchange proposals")
        elif [m for m in model_ev] != obs_ev + [""] * (len(model_ev) - len(obs_ev)):
            st.disagree(stim, model_ev, obs_ev, "pipe events differ from the model's projection")
    for (stim, col_s, col_m, near), ans in zip(xmetas, lean_batch(xreqs)):
        r = Reader(ans[3:])
        swapped = r.tok() == "1"
        ms, xs, mm, xm = r.vec(), r.flt(), r.vec(), r.flt()
        sx.case(stim, nontrivial=swapped, sample=stim if len(sx.samples) < 2 else None)
        if near:
            sx.indeterminate += 1
            continue
        if not (common.vbits(ms, col_s[:-1]) and common.vbits(mm, col_m[:-1]) and common.close(xs, col_s[-1], 1e-12, 1e-12) and common.close(xm, col_m[-1], 1e-12, 1e-12)):
            sx.disagree(stim, {"slave": ms + [xs], "master": mm + [xm]}, {"slave": col_s.tolist(), "master": col_m.tolist()}, "states after the exchange differ from the model")
    sc = capacity_suite(rnd, 6 if thorough else 2, findings)
    sl = time_limit_suite(findings)
    return [st, sx, sc, sl], findings


def search(tier, seed, broken):
    """after a broken proof/correspondence: look for a run that does not finish, at both ends of the capacity range"""
    findings = []
    capacity_suite(random.Random(seed + 4242), 3, findings)
    return findings


def replay(body):
    return False, "re-run ./check C12 (runs are regenerated from the seed)"
