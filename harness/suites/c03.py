"""C03 — each mass matrix defines one consistent Gaussian momentum law."""
import math
import random

import numpy as np

from .. import common
from ..common import Suite, Finding, fhex, vhex, mhex, Reader, lean_batch
from ..probes import ScriptedRNG, quiet
from .c01 import make_target, make_mass, inside_start, PinnedHMC, _hm

TRUSTED_EXTRA = [
    "C03: Cholesky / inverse / cho_solve are library calls (parameters with the spec F Fᵀ = M); compared with the model's own factorisation to 1e-8 relative on matrices with condition number <= 1e4",
]
ASSUMPTIONS = ["BFGS histories are driven through the public methods kinetic_energy_gradient(p, position, gradient), accept(), reject()"]


def spd(rnd, d, cond=100.0):
    a = np.array([[rnd.gauss(0, 1) for _ in range(d)] for _ in range(d)])
    q, _ = np.linalg.qr(a)
    ev = np.array([math.exp(rnd.uniform(0, math.log(cond))) for _ in range(d)]) * rnd.choice([0.1, 1.0, 3.0])
    m = q @ np.diag(ev) @ q.T
    return 0.5 * (m + m.T)


def read_mat(r):
    n = r.nat()
    return np.array([r.vec() for _ in range(n)])


def columns(fn, d):
    return np.hstack([np.asarray(fn(np.eye(d)[:, [i]]), dtype=float).reshape(d, 1) for i in range(d)])


def run(tier, seed):
    rnd = random.Random(65537 * seed + 3)
    thorough = tier == "thorough"
    _, S, MM, D = _hm()
    findings = []

    # ---- static masses ----------------------------------------------------------------------
    st = Suite("C03.static", "Unit/Diagonal/Full: generate_momentum under a scripted generator, kinetic_energy, kinetic_energy_gradient, matrix "
               "vs model and vs the property's identities (A Aᵀ = M, K = ½pᵀM⁻¹p, ∇K = M⁻¹p, K(Az) = ½zᵀz); tolerance 1e-8; "
               "non-trivial = dimension >= 2 and non-unit mass")
    reqs, metas = [], []
    for _ in range(600 if thorough else 150):
        d = rnd.choice([1, 2, 3, 5, 8])
        mk = rnd.choice(["unit", "diag", "full"])
        if mk == "full":
            m = spd(rnd, d)
            if rnd.random() < 0.25:
                m = np.round(m * 4) + np.eye(d) * 8 * d    # whole numbers, still positive definite (diagonally dominant)
                mass = MM.Full(m.astype(np.int64))
            else:
                mass = MM.Full(m.copy())
            mstr = f"full {mhex(np.linalg.cholesky(m))}"
            mdesc = {"mass": "full", "matrix": m.tolist()}
        elif mk == "diag" and rnd.random() < 0.35:
            # the same mass written down with whole numbers: integer arrays, nested lists of ints
            diag = np.array([[float(rnd.choice([1, 2, 3, 4, 9]))] for _ in range(d)])
            enc = rnd.choice(["int64", "int32", "list"])
            arg = {"int64": diag.astype(np.int64), "int32": diag.astype(np.int32), "float32": diag.astype(np.float32), "list": np.array([[int(v)] for v in diag.ravel()])}[enc]
            mass = MM.Diagonal(arg)
            mstr = f"diag {vhex(1.0 / diag)} {vhex(np.sqrt(diag))}"
            mdesc = {"mass": "diag", "diag": diag.ravel().tolist(), "array_encoding": enc}
        else:
            mass, mstr, mdesc = make_mass(rnd, mk, d)
        z = np.array([[rnd.gauss(0, 1)] for _ in range(d)])
        p = np.array([[rnd.gauss(0, 2)] for _ in range(d)])
        rng = ScriptedRNG(normals=list(z.ravel()))
        mass.rng = rng
        with np.errstate(all="ignore"):
            mom = mass.generate_momentum()
            kin = mass.kinetic_energy(p.copy())
            vel = mass.kinetic_energy_gradient(p.copy())
            M = np.array(mass.matrix, dtype=float)
            # factor column by column through the public API
            cols = []
            for i in range(d):
                mass.rng = ScriptedRNG(normals=list(np.eye(d)[:, i]))
                cols.append(np.asarray(mass.generate_momentum(), dtype=float).reshape(d, 1))
            A = np.hstack(cols)
        stim = {"mass": mdesc, "z": z.ravel().tolist(), "p": p.ravel().tolist()}
        st.case(stim, nontrivial=(d >= 2 and mk != "unit"))
        st.count(f"mass={mk}")
        problems = []
        Minv = np.linalg.inv(M)
        sc = float(np.max(np.abs(M)))
        if rng.log != [("normal", (d, 1), 0.0, 1.0)]:
            problems.append(f"generate_momentum requested {rng.log} from its generator")
        if np.shape(mom) != (d, 1) or np.shape(vel) != (d, 1):
            problems.append("shape of momentum / gradient is not (d, 1)")
        if not np.allclose(A @ A.T, M, rtol=1e-8, atol=1e-10 * sc):
            problems.append("A Aᵀ differs from the reported matrix")
        if not np.allclose(A @ z, mom, rtol=1e-8, atol=1e-10):
            problems.append("generate_momentum is not A z")
        if not common.close(kin, 0.5 * (p.T @ Minv @ p).item(), 1e-8, 1e-12):
            problems.append("kinetic_energy is not ½ pᵀ M⁻¹ p")
        if not np.allclose(vel, Minv @ p, rtol=1e-8, atol=1e-10):
            problems.append("kinetic_energy_gradient is not M⁻¹ p")
        if not common.close(mass.kinetic_energy(np.asarray(mom, dtype=float).reshape(d, 1)), 0.5 * (z.T @ z).item(), 1e-8, 1e-12):
            problems.append("K(A z) is not ½ zᵀz")
        # the object owns its state: neither the array the caller passed in nor the array `.matrix` returned is the live state
        if mk in ("diag", "full") and not problems:
            try:
                arg = np.array([1.0, 4.0, 9.0][:d] + [2.0] * max(0, d - 3)) if mk == "diag" else spd(rnd, d)
                shape_before = arg.shape
                mm2 = MM.Diagonal(arg) if mk == "diag" else MM.Full(arg)
                if arg.shape != shape_before:
                    problems.append(f"the constructor changed the shape of the caller's array from {shape_before} to {arg.shape}")
                rep = np.array(mm2.matrix, dtype=float).copy()
                arg *= 7.0                                   # the caller goes on using its array
                got = mm2.matrix
                got_is_array = isinstance(got, np.ndarray)
                if got_is_array:
                    got[...] = got * 3.0                     # ... and the array that .matrix returned
                cols2 = []
                for i in range(d):
                    mm2.rng = ScriptedRNG(normals=list(np.eye(d)[:, i]))
                    cols2.append(np.asarray(mm2.generate_momentum(), dtype=float).reshape(d, 1))
                A2 = np.hstack(cols2)
                M2 = np.array(mm2.matrix, dtype=float)
                p2 = np.array([[rnd.gauss(0, 1)] for _ in range(d)])
                k2 = float(mm2.kinetic_energy(p2.copy()))
                if not (np.allclose(M2, rep, rtol=1e-12, atol=0) and np.allclose(A2 @ A2.T, M2, rtol=1e-8, atol=1e-10)
                        and common.close(k2, 0.5 * (p2.T @ np.linalg.inv(rep) @ p2).item(), 1e-8, 1e-12)):
                    problems.append("after the caller modified the array it had passed in / the array .matrix had returned, the reported matrix, the momentum factor and the kinetic energy no longer belong to one matrix")
            except Exception as e:
                problems.append(f"mass matrix raised {e!r} after the caller's arrays were modified")
        if problems:
            findings.append(Finding("C03", f"{mk} mass: {problems[0]}", {"kind": "static", "mass": mk, "problem": problems[0][:30]},
                                    {"oracle": "static", "stimulus": stim, "problems": problems}))
        reqs.append(f"c03.mass {mstr} {vhex(z)} {vhex(p)}")
        metas.append((stim, mom, kin, vel, mk))
    # the same momentum law in other units: masses (and matrices) 1e-30 .. 1e+30 times the usual ones; reference from the construction values, relative tolerances
    for _ in range(120 if thorough else 30):
        d = rnd.choice([1, 2, 3])
        scale = rnd.choice([1e-30, 1e-20, 1e-16, 1e-12, 1e12, 1e20, 1e30])
        mk = rnd.choice(["diag", "diag", "full"])
        base = np.array([rnd.uniform(0.3, 3.0) for _ in range(d)])
        if mk == "diag":
            Mtrue = np.diag(base * scale)
            mass = MM.Diagonal((base * scale).reshape(-1, 1).copy())
        else:
            Mtrue = spd(rnd, d) * scale
            Mtrue = 0.5 * (Mtrue + Mtrue.T)
            mass = MM.Full(Mtrue.copy())
        z = np.array([[rnd.gauss(0, 1)] for _ in range(d)])
        p = np.array([[rnd.gauss(0, 1)] for _ in range(d)]) * math.sqrt(scale)
        stim = {"mass": {"mass": mk, "matrix": Mtrue.tolist(), "scale": scale}, "z": z.ravel().tolist(), "p": p.ravel().tolist()}
        st.case(stim, nontrivial=d >= 2)
        st.count(f"mass scale={scale:g}")
        problems = []
        try:
            with np.errstate(all="ignore"):
                mass.rng = ScriptedRNG(normals=list(z.ravel()))
                mom = np.asarray(mass.generate_momentum(), dtype=float).reshape(d, 1)
                kin = float(mass.kinetic_energy(p.copy()))
                vel = np.asarray(mass.kinetic_energy_gradient(p.copy()), dtype=float).reshape(d, 1)
                M = np.array(mass.matrix, dtype=float)
                kz = float(mass.kinetic_energy(mom.copy()))
            Mi = np.linalg.inv(Mtrue / scale) / scale
            if not np.allclose(M, Mtrue, rtol=1e-12, atol=0):
                problems.append("the reported matrix is not the matrix the object was built from")
            if not common.close(kin, 0.5 * (p.T @ Mi @ p).item(), 1e-9, 0.0):
                problems.append(f"kinetic_energy = {kin!r} but ½ pᵀM⁻¹p = {0.5 * (p.T @ Mi @ p).item()!r}")
            if not np.allclose(vel, Mi @ p, rtol=1e-9, atol=0):
                problems.append(f"kinetic_energy_gradient = {vel.ravel().tolist()} but M⁻¹p = {(Mi @ p).ravel().tolist()}")
            if not common.close(kz, 0.5 * (z.T @ z).item(), 1e-9, 0.0):
                problems.append(f"K(momentum drawn from z) = {kz!r} but ½ zᵀz = {0.5 * (z.T @ z).item()!r}: momentum law and kinetic energy belong to different matrices")
        except Exception as e:
            problems.append(f"raised {e!r}")
        if problems:
            findings.append(Finding("C03", f"{mk} mass, entries of order {scale:g}: {problems[0]}"[:300], {"kind": "static-scale", "mass": mk, "problem": problems[0][:25]},
                                    {"oracle": "static", "stimulus": stim, "problems": problems}))
    for (stim, mom, kin, vel, mk), ans in zip(metas, lean_batch(reqs)):
        r = Reader(ans[3:])
        mmom, mkin, mvel = r.vec(), r.flt(), r.vec()
        if len(st.samples) < 2:
            st.samples.append({"stimulus": stim, "impl_kinetic": float(kin), "model_kinetic": mkin})
        tol = 1e-8 if mk == "full" else 1e-12
        if not (common.vclose(mmom, mom, tol, 1e-12) and common.close(mkin, kin, max(tol, 1e-12), 1e-14) and common.vclose(mvel, vel, tol, 1e-12)):
            st.disagree(stim, {"momentum": mmom, "kinetic": mkin, "velocity": mvel},
                        {"momentum": np.ravel(mom).tolist(), "kinetic": float(kin), "velocity": np.ravel(vel).tolist()}, "mass matrix methods differ from model")

    # ---- BFGS histories -----------------------------------------------------------------------
    sb = Suite("C03.bfgs", "random histories over {in-trajectory update(position, gradient), queued update(m, g), accept, reject, observe} on hmclab's BFGS (with other BFGS objects used in between) through its public "
               "methods vs the model state machine; after every op: Minv, factor, momentum, kinetic energy, velocity (1e-7 relative); "
               "non-trivial = history with a successful update followed by a reject; distinct by stimulus hash")
    reqs, metas = [], []
    for _ in range(500 if thorough else 120):
        d = rnd.choice([1, 2, 3, 4])
        H = spd(rnd, d, cond=20.0)  # true Hessian of a quadratic: gradients g = H m + b
        b = np.array([[rnd.gauss(0, 1)] for _ in range(d)])
        Minv0 = spd(rnd, d, cond=10.0) if rnd.random() < 0.6 else np.eye(d)
        m0 = np.array([[rnd.gauss(0, 1)] for _ in range(d)])
        g0 = H @ m0 + b
        with quiet():
            bf = MM.BFGS(d, m0.copy(), g0.copy(), Minv=Minv0.copy())
        nops = rnd.randint(1, 12)
        ops, obs, snap_ok = [], [], True
        pieces = []
        last_accept = None
        had_update_then_reject = False
        had_refused = False
        pending_update = False
        problems = []
        cut = False

        def public_state():
            Mi = columns(lambda e: bf.kinetic_energy_gradient(e), d)
            cols = []
            for i in range(d):
                bf.rng = ScriptedRNG(normals=list(np.eye(d)[:, i]))
                cols.append(np.asarray(bf.generate_momentum(), dtype=float).reshape(d, 1))
            return Mi, np.hstack(cols)

        last_accept = public_state()
        for k in range(nops):
            kind = rnd.choice(["U", "U", "A", "R", "O", "Q"])
            if kind == "Q":
                # update(m, g): queued (the object is not greedy) until the next accept(); another BFGS object is created and used in between:
                # objects do not share their queues
                m = np.array([[rnd.gauss(0, 1)] for _ in range(d)])
                g = H @ m + b + 0.3 * np.array([[rnd.gauss(0, 1)] for _ in range(d)])
                with quiet(), np.errstate(all="ignore"):
                    bf.update(m.copy(), g.copy())
                    other = MM.BFGS(d + 1, np.zeros((d + 1, 1)), np.ones((d + 1, 1)))
                    other.update(np.ones((d + 1, 1)), 2 * np.ones((d + 1, 1)))
                pieces.append(f"Q {vhex(m)} {vhex(g)}")
                ops.append(("update-queued", m.ravel().tolist(), g.ravel().tolist()))
                Mi, F = public_state()
                obs.append((k, Mi, F))
                continue
            if kind == "U" and d >= 2 and rnd.random() < 0.3:
                # an update the library's Cholesky is likely to refuse: curvature s.y tiny but positive with huge |s|, |y|
                # (the exact BFGS formula keeps the metric positive definite; in floating point the result is rounding noise)
                sv = np.array([[rnd.gauss(0, 1)] for _ in range(d)]) * 1e3
                yv = np.array([[rnd.gauss(0, 1)] for _ in range(d)]) * 1e3
                yv = yv - (((sv.T @ yv).item() - 1e-4) / (sv.T @ sv).item()) * sv
                m = np.asarray(bf.m, dtype=float) + sv
                g = np.asarray(bf.g, dtype=float) + yv
                p = np.array([[rnd.gauss(0, 1)] for _ in range(d)])
                before_ok = bf.succesful_updates_current
                before_state = public_state()
                with quiet(), np.errstate(all="ignore"):
                    bf.kinetic_energy_gradient(p.copy(), m.copy(), g.copy())
                if bf.succesful_updates_current != before_ok:
                    # the factorisation went through on rounding noise: nothing meaningful can be compared after this point
                    sb.count("extreme update factorised (history cut)")
                    cut = True
                    break
                pieces.append(f"X {vhex(m)} {vhex(g)}")
                ops.append(("update-refused", m.ravel().tolist(), g.ravel().tolist()))
                had_refused = True
                Mi, F = public_state()
                obs.append((k, Mi, F))
                if not (np.array_equal(Mi, before_state[0]) and np.array_equal(F, before_state[1])):
                    problems.append((k, "an update refused by the factorisation changed the metric or the momentum factor"))
                if not np.allclose(F @ F.T @ Mi, np.eye(d), rtol=0, atol=1e-6):
                    problems.append((k, "momentum factor inconsistent with the metric: F Fᵀ M⁻¹ != I"))
                continue
            if kind == "U":
                m = np.array([[rnd.gauss(0, 1)] for _ in range(d)])
                noise = rnd.choice([0.0, 0.0, 0.3, 3.0])
                g = H @ m + b + noise * np.array([[rnd.gauss(0, 1)] for _ in range(d)])
                if rnd.random() < 0.15:
                    g = -g  # non-positive curvature: the metric must stay unchanged
                p = np.array([[rnd.gauss(0, 1)] for _ in range(d)])
                with quiet(), np.errstate(all="ignore"):
                    bf.kinetic_energy_gradient(p.copy(), m.copy(), g.copy())
                if np.linalg.cond(public_state()[0]) > 1e8:
                    # a curvature s.y that happens to be tiny makes the exact BFGS metric nearly singular: identities such as F Fᵀ M⁻¹ = I and the
                    # comparison with the model then hold only up to cond x eps, which says nothing about the code
                    sb.count("update left an ill-conditioned metric, cond > 1e8 (history cut)")
                    cut = True
                    break
                pieces.append(f"U {vhex(m)} {vhex(g)}")
                ops.append(("update", m.ravel().tolist(), g.ravel().tolist()))
                pending_update = True
            elif kind == "A":
                try:
                    with quiet():
                        bf.accept()
                except Exception as e:
                    ops.append(("accept",))
                    problems.append((k, f"accept() raised {e!r}"))
                    break
                pieces.append("A")
                ops.append(("accept",))
                pending_update = False
            elif kind == "R":
                with quiet():
                    bf.reject()
                pieces.append("R")
                ops.append(("reject",))
                if pending_update:
                    had_update_then_reject = True
                pending_update = False
            else:
                z = np.array([[rnd.gauss(0, 1)] for _ in range(d)])
                p = np.array([[rnd.gauss(0, 1)] for _ in range(d)])
                bf.rng = ScriptedRNG(normals=list(z.ravel()))
                mom = np.asarray(bf.generate_momentum(), dtype=float)
                kin = float(bf.kinetic_energy(p.copy()))
                vel = np.asarray(bf.kinetic_energy_gradient(p.copy()), dtype=float)
                pieces.append(f"O {vhex(z)} {vhex(p)}")
                ops.append(("observe", z.ravel().tolist(), p.ravel().tolist()))
                obs.append((k, mom, kin, vel))
                continue
            Mi, F = public_state()
            obs.append((k, Mi, F))
            # the property's own oracles on the implementation, after every op
            sc = float(np.max(np.abs(Mi)))
            if not np.allclose(Mi, Mi.T, rtol=1e-9, atol=1e-12 * sc) or np.min(np.linalg.eigvalsh(0.5 * (Mi + Mi.T))) <= 0:
                problems.append((k, "inverse metric not symmetric positive definite"))
            if not np.allclose(F @ F.T @ Mi, np.eye(d), rtol=0, atol=1e-6):
                problems.append((k, "momentum factor inconsistent with the metric: F Fᵀ M⁻¹ != I"))
            try:
                reported = np.asarray(bf.matrix, dtype=float)
            except Exception as e:  # e.g. LinAlgError: the inverse metric has become singular
                problems.append((k, f"the reported matrix cannot be computed: {e!r}"))
                reported = None
            if reported is not None and not np.allclose(reported @ Mi, np.eye(d), rtol=0, atol=1e-6):
                problems.append((k, "reported matrix is not the inverse of the inverse metric"))
            if kind == "A":
                last_accept = (Mi, F)
            if kind == "R":
                if not (np.allclose(Mi, last_accept[0], rtol=1e-12, atol=0) and np.allclose(F, last_accept[1], rtol=1e-12, atol=0)):
                    problems.append((k, "reject did not restore the state of the last acceptance"))
        # "a rejection restores exactly the state of the last acceptance": a rejected trajectory leaves no trace. The same history with every rejected
        # trajectory (the operations between the previous accept/reject and a reject, and the reject itself) left out must end in the same object.
        if not cut and not problems and any(o[0] == "reject" for o in ops):
            pruned, pend = [], []
            for o in ops:
                if o[0] == "reject":
                    pend = []
                elif o[0] == "accept":
                    pruned += pend + [o]
                    pend = []
                elif o[0] != "observe":
                    pend.append(o)
            pruned += pend
            try:
                with quiet(), np.errstate(all="ignore"):
                    ref = MM.BFGS(d, m0.copy(), g0.copy(), Minv=Minv0.copy())
                    for o in pruned:
                        if o[0] in ("update", "update-refused"):
                            ref.kinetic_energy_gradient(np.zeros((d, 1)), np.array(o[1]).reshape(-1, 1), np.array(o[2]).reshape(-1, 1))
                        elif o[0] == "update-queued":
                            ref.update(np.array(o[1]).reshape(-1, 1), np.array(o[2]).reshape(-1, 1))
                        elif o[0] == "accept":
                            ref.accept()
                    # one more acceptance on both: whatever is still pending (queued) must be the same, too
                    bf.accept()
                    ref.accept()
                    Mi_a = columns(lambda e: bf.kinetic_energy_gradient(e), d)
                    Mi_b = columns(lambda e: ref.kinetic_energy_gradient(e), d)
                sb.count("replayed without the rejected trajectories")
                if not np.allclose(Mi_a, Mi_b, rtol=1e-9, atol=1e-12 * float(np.max(np.abs(Mi_b)))):
                    problems.append((len(ops) - 1, "a rejected trajectory left a trace: the same history without the rejected trajectories ends in another metric "
                                     f"(max difference {float(np.max(np.abs(Mi_a - Mi_b))):.3g})"))
            except Exception as e:
                problems.append((len(ops) - 1, f"replaying the history without its rejected trajectories raised {e!r}"))
        stim = {"d": d, "Minv0": Minv0.tolist(), "m0": m0.ravel().tolist(), "g0": g0.ravel().tolist(), "ops": ops}
        sb.case(stim, nontrivial=had_update_then_reject)
        sb.count(f"history_len<={4 * ((nops + 3) // 4)}")
        if had_update_then_reject:
            sb.count("update then reject")
        if had_refused:
            sb.count("refused update in the history")
        if problems:
            k0, what = problems[0]
            findings.append(Finding("C03", f"BFGS after op {k0} ({ops[k0][0]}): {what}", {"kind": "bfgs", "problem": what[:40]},
                                    {"oracle": "bfgs", "stimulus": stim, "problems": problems}))
        reqs.append(" ".join([f"c03.bfgs {mhex(Minv0)} {vhex(m0)} {vhex(g0)} {len(pieces)}"] + pieces))
        metas.append((stim, obs, d))
    answers = lean_batch(reqs)
    for (stim, obs, d), ans in zip(metas, answers):
        if not ans.startswith("ok "):
            sb.disagree(stim, "model answer", ans, "driver rejected the history")
            continue
        parts = ans[3:].split(" | ")
        bad = None
        for (rec, part) in zip(obs, parts):
            r = Reader(part)
            if len(rec) == 3:
                k, Mi, F = rec
                mMi, mF = read_mat(r), read_mat(r)
                sc = float(np.max(np.abs(Mi)))
                # factors are unique up to an orthogonal factor only; compare F Fᵀ
                if not (np.allclose(mMi, Mi, rtol=1e-7, atol=1e-9 * sc) and np.allclose(mF @ mF.T, F @ F.T, rtol=1e-6, atol=1e-8 * float(np.max(np.abs(F @ F.T))))):
                    bad = (k, {"Minv": mMi.tolist(), "FFt": (mF @ mF.T).tolist()}, {"Minv": Mi.tolist(), "FFt": (F @ F.T).tolist()})
                    break
            else:
                k, mom, kin, vel = rec
                mmom, mkin, mvel = r.vec(), r.flt(), r.vec()
                if not (common.vclose(mmom, mom, 1e-6, 1e-9) and common.close(mkin, kin, 1e-7, 1e-10) and common.vclose(mvel, vel, 1e-7, 1e-10)):
                    bad = (k, {"momentum": mmom, "kinetic": mkin, "velocity": mvel},
                           {"momentum": np.ravel(mom).tolist(), "kinetic": kin, "velocity": np.ravel(vel).tolist()})
                    break
        if len(sb.samples) < 2:
            sb.samples.append({"d": d, "ops": [o[0] for o in stim["ops"]]})
        if bad:
            sb.disagree(stim, bad[1], bad[2], f"state after op {bad[0]} differs from the model")

    # ---- step size / mass equivalence -----------------------------------------------------------
    se = Suite("C03.equivalence", "metamorphic on the implementation: (f·ε, M) and (ε, M/f²) from the same random numbers give the same proposal and the "
               "same energy error, all integrators, Unit/Diagonal/Full; 1e-8 relative; non-trivial = f != 1 and >= 2 steps")
    for _ in range(200 if thorough else 50):
        integ = rnd.choice(["lf", "3s", "4s"])
        n = rnd.choice([1, 2, 5])
        kind = rnd.choice(["normaldiag", "himmelblau"])
        d = 2 if kind == "himmelblau" else rnd.choice([2, 3])
        dist, tstr, bstr, tdesc, lb, ub = make_target(rnd, kind, d, False)
        f = rnd.choice([0.5, 2.0, 3.0, rnd.uniform(0.2, 4.0)])
        eps = rnd.choice([0.02, 0.05, 0.1])
        mk = rnd.choice(["unit", "diag", "full"])
        if mk == "unit":
            M = np.eye(d)
        elif mk == "diag":
            M = np.diag([rnd.uniform(0.3, 3.0) for _ in range(d)])
        else:
            M = spd(rnd, d, cond=10.0)
        z = np.array([[rnd.gauss(0, 1)] for _ in range(d)])
        q0 = inside_start(rnd, d, lb, ub)
        mA, mB = MM.Full(M.copy()), MM.Full((M / f ** 2).copy())
        qa, pa, pa0, _ = PinnedHMC.run(dist, mA, integ, n, f * eps, False, 1.0, z, q0)
        qb, pb, pb0, _ = PinnedHMC.run(dist, mB, integ, n, eps, False, 1.0, z, q0)
        dHa = (dist.misfit(qa) + mA.kinetic_energy(pa)) - (dist.misfit(q0) + mA.kinetic_energy(pa0))
        dHb = (dist.misfit(qb) + mB.kinetic_energy(pb)) - (dist.misfit(q0) + mB.kinetic_energy(pb0))
        stim = {"integrator": integ, "n": n, "target": tdesc, "f": f, "eps": eps, "M": M.tolist(), "z": z.ravel().tolist(), "q0": q0.ravel().tolist()}
        fin_a = bool(np.all(np.isfinite(qa)) and np.isfinite(dHa))
        fin_b = bool(np.all(np.isfinite(qb)) and np.isfinite(dHb))
        if not (fin_a and fin_b):
            # an unstable step on the quartic target overflows in both runs alike (inf, then nan): nothing to compare, and nan != nan is no difference;
            # at the overflow boundary only one of the two may still be finite: indeterminate
            se.count("trajectory diverged to inf/nan (skipped)")
            se.indeterminate += 1
            continue
        se.case(stim, nontrivial=(f != 1.0 and n >= 2), sample={"f": f, "dH_A": float(dHa), "dH_B": float(dHb)})
        if not (np.allclose(qa, qb, rtol=1e-8, atol=1e-10) and common.close(dHa, dHb, 1e-6, 1e-9)):
            se.disagree(stim, {"q": qa.ravel().tolist(), "dH": float(dHa)}, {"q": qb.ravel().tolist(), "dH": float(dHb)}, "equivalent settings give different proposals")
            findings.append(Finding("C03", "(f·ε, M) and (ε, M/f²) give different proposals / energy errors", {"kind": "equivalence"},
                                    {"oracle": "equivalence", "stimulus": stim}))
    return [st, sb, se], findings


def search(tier, seed, broken):
    return []


def replay(body):
    return False, "re-run ./check C03 (cases are regenerated from the seed)"
