"""C08 — interruptions, time-outs and user exceptions leave an intact prefix."""
import copy
import io
import os
import random
import sys

import numpy as np

from .. import common
from ..common import Suite, Finding, Reader, lean_batch
from ..probes import patched_clock, quiet, scratch
from .c01 import make_mass, _hm

THOROUGH_ROUNDS = 1  # the thorough tier of this property is one long run (soak / exhaustive enumeration)
TRUSTED_EXTRA = ["C08: faults are injected at call boundaries (entry of misfit/gradient/corrector/generate_momentum/kinetic_energy/"
                 "kinetic_energy_gradient, entry and exit of the store's append); asynchronous signals between byte codes and faults inside h5py are outside the model"]
ASSUMPTIONS = ["the fault-free chain is a function of seed and configuration only (C09), so the reference run supplies the columns `col i`"]


class CustomError(Exception):
    pass


class Abort(BaseException):
    """what a framework around the forward model may use to unwind (compare asyncio.CancelledError, pytest's Exit, SystemExit): a user exception
    that is not an `Exception`"""


EXC = {"KeyboardInterrupt": KeyboardInterrupt, "RuntimeError": RuntimeError, "ValueError": ValueError, "CustomError": CustomError,
       # exception classes the loop also uses for its own purposes: raised by *user code* they are user exceptions like any other
       "TimeoutError": TimeoutError, "FileExistsError": FileExistsError, "AssertionError": AssertionError, "StopIteration": StopIteration,
       # user exceptions that do not derive from Exception
       "Abort": Abort, "SystemExit": SystemExit, "GeneratorExit": GeneratorExit}


class Rig:
    """one sampler configuration; builds fresh objects for every run"""

    def __init__(self, rnd, sampler_kind, integ="lf", n=2, mkind="unit", P=4, t=1, ext="h5", d=2, diagnostic=False, progressbar=False):
        self.progressbar = progressbar      # the default of sample(): the progress bar is updated and closed around every stop
        self.diagnostic = diagnostic        # diagnostic_mode=True: every call of user code goes through the sampler's timing wrappers
        self.kind, self.integ, self.n, self.mkind, self.P, self.t, self.ext, self.d = sampler_kind, integ, n, mkind, P, t, ext, d
        self.seed = rnd.randrange(1 << 30)
        self.mu = [rnd.uniform(-1, 1) for _ in range(d)]
        self.var = [rnd.choice([0.5, 1.0, 2.0]) for _ in range(d)]
        self.q0 = [rnd.uniform(-1, 1) for _ in range(d)]
        self.step = rnd.choice([0.3, 0.7, 1.2])
        self.mass_rnd_seed = rnd.randrange(1 << 30)
        self.autotune = rnd.random() < 0.3

    def desc(self):
        return {"sampler": self.kind, "integrator": self.integ, "steps": self.n, "mass": self.mkind, "proposals": self.P, "thinning": self.t,
                "backend": self.ext, "d": self.d, "seed": self.seed, "autotuning": self.autotune, "diagnostic_mode": self.diagnostic, "progressbar": self.progressbar}

    def build(self):
        _, S, MM, D = _hm()
        dist = D.Normal(np.array(self.mu).reshape(-1, 1), np.array(self.var).reshape(-1, 1))
        rig = self
        base = S.RWMH if self.kind == "RWMH" else S.HMC

        class Snap(base):
            def _propose(self):
                if not rig.started:
                    rig.started = True
                    rig.wrap_append(self)
                return super()._propose()

        s = Snap(seed=self.seed)
        kw = dict(stepsize=self.step, autotuning=self.autotune)
        if self.diagnostic:
            kw["diagnostic_mode"] = True
        mass = None
        if self.kind == "HMC":
            mass, _, _ = make_mass(random.Random(self.mass_rnd_seed), self.mkind, self.d)
            kw.update(mass_matrix=mass, integrator=self.integ, amount_of_steps=self.n, randomize_stepsize=True)
        return s, dist, mass, kw

    # boundary machinery ----------------------------------------------------------------------
    def reset(self, fault_at=None, exc=None):
        self.started = False
        self.count = 0
        self.log = []
        self.appends_done = 0
        self.fault_at = fault_at
        self.exc = exc
        self.sampler = None

    def boundary(self, kind):
        if not self.started:
            return
        k = self.count
        self.count += 1
        self.log.append((kind, int(self.sampler.current_proposal), self.appends_done))
        if self.fault_at is not None and k == self.fault_at:
            raise self.exc

    def wrap(self, obj, name):
        orig = getattr(obj, name)
        rig = self

        def w(*a, **k):
            rig.boundary(name)
            return orig(*a, **k)

        setattr(obj, name, w)

    def wrap_append(self, sampler):
        orig = sampler.samples.append
        rig = self

        def w(arr):
            rig.boundary("append-entry")
            r = orig(arr)
            rig.appends_done += 1
            rig.boundary("append-exit")
            return r

        sampler.samples.append = w

    def run(self, fn, fault_at=None, exc=None, max_time=None, clock=None, sampler=None, proposals=None):
        """returns (sampler, raised exception or None)"""
        self.reset(fault_at, exc)
        s, dist, mass, kw = self.build()
        if sampler is not None:
            s = sampler
        self.sampler = s
        for name in ("misfit", "gradient", "corrector"):
            self.wrap(dist, name)
        if mass is not None:
            for name in ("generate_momentum", "kinetic_energy", "kinetic_energy_gradient"):
                self.wrap(mass, name)
        raised = None
        ctx = patched_clock(clock, samplers=True, samples=False) if clock is not None else _null()
        with quiet(), np.errstate(all="ignore"), ctx:
            try:
                s.sample(fn, dist, initial_model=np.array(self.q0).reshape(-1, 1), proposals=proposals or self.P, online_thinning=self.t,
                         overwrite_existing_file=True, disable_progressbar=not self.progressbar, max_time=max_time, **kw)
            except BaseException as e:  # noqa: B902 — the raised object is the observation
                raised = e
        return s, raised


class _null:
    def __enter__(self):
        return self

    def __exit__(self, *a):
        return False


def read_file(fn, ext):
    """(columns array or None, problems list). Uses h5py / numpy directly for empty files."""
    from hmclab.Samples import Samples

    problems = []
    if ext == "h5":
        import h5py

        try:
            with h5py.File(fn, "r") as f:
                arr = np.array(f["samples"][:, :], dtype=float)
                attrs = dict(f["samples"].attrs)
        except Exception as e:
            return None, [f"file not closed/readable: {e!r}"]
    else:
        if not os.path.exists(fn):
            return np.zeros((0, 0)), []
        try:
            arr = np.load(fn).T
        except Exception as e:
            return None, [f"file not readable: {e!r}"]
    if arr.shape[1] > 0:
        try:
            with quiet():
                s = Samples(fn)
                a2 = np.array(s.numpy, dtype=float)
                out = io.StringIO()
                old = sys.stdout
                sys.stdout = out
                try:
                    s.print_details()
                finally:
                    sys.stdout = old
                s.close()
            if not np.array_equal(a2, arr):
                problems.append("Samples() view differs from the raw dataset")
        except Exception as e:
            problems.append(f"Samples/print_details failed on the file: {e!r}")
    return arr, problems


def rigs(rnd, tier):
    out = [Rig(rnd, "RWMH", P=4, t=1, ext="h5"), Rig(rnd, "HMC", "lf", 2, "unit", P=3, t=1, ext="h5"), Rig(rnd, "RWMH", P=4, t=2, ext="npy"),
           Rig(rnd, rnd.choice(["RWMH", "HMC"]), "lf", 1, "diag", P=3, t=rnd.choice([1, 3]), ext="h5", diagnostic=True),
           Rig(rnd, rnd.choice(["RWMH", "HMC"]), "lf", 1, "unit", P=3, t=1, ext=rnd.choice(["h5", "npy"]), progressbar=True)]
    if tier == "thorough":
        out.append(Rig(rnd, "HMC", "3s", 2, "full", P=4, t=2, ext="npy", diagnostic=True))
        out.append(Rig(rnd, "RWMH", P=6, t=3, ext="npy", diagnostic=True))
        for integ in ("lf", "3s", "4s"):
            for ext in ("h5", "npy"):
                for t in (1, 2, 3):
                    out.append(Rig(rnd, "HMC", integ, rnd.choice([1, 2]), rnd.choice(["unit", "diag", "full"]), P=6 if t != 1 else 4, t=t, ext=ext))
        for ext in ("h5", "npy"):
            for t in (1, 2, 3):
                out.append(Rig(rnd, "RWMH", P=6, t=t, ext=ext))
    return out


def limiter_suite(rnd, N, findings):
    """hmclab's own interrupter: EvaluationLimiter-wrapped targets, the counter vs the model and two consecutive runs on one object"""
    _, S, MM, D = _hm()
    from hmclab.Distributions import EvaluationLimiter_ClassConstructor
    from hmclab.Samples import Samples

    sl = Suite("C08.limiter", "targets wrapped by EvaluationLimiter_ClassConstructor (random limit, gradient_count): (a) raw call sequences of misfit/gradient: which call raises and the "
               "counter afterwards vs the model limRun; (b) HMC/RWMH runs that the limiter interrupts, twice in a row on the same sampler and target objects: both return "
               "normally with closed readable files whose columns are the leading columns of the unlimited run with the same seed; non-trivial = run interrupted in a gradient call")
    reqs, metas = [], []
    for ci in range(N):
        limit = rnd.choice([0, 1, 3, 7, 12, 25, 60])
        gcount = rnd.choice([1, 1, 2, 5])
        Lim = EvaluationLimiter_ClassConstructor(D.Normal, limit, gradient_count=gcount)
        with quiet():
            obj = Lim(np.zeros((2, 1)), 1.0)
        calls = [rnd.choice([0, 0, 1]) for _ in range(rnd.choice([5, 20, 40, 90]))]
        seen = []
        x = np.array([[0.3], [-0.2]])
        for c in calls:
            try:
                (obj.misfit if c == 0 else obj.gradient)(x.copy())
                seen.append((int(obj.evaluations), False))
            except KeyboardInterrupt:
                seen.append((int(obj.evaluations), True))
        stim = {"limit": limit, "gradient_count": gcount, "calls": "".join("mg"[c] for c in calls)}
        sl.case(stim, nontrivial=any(r for _, r in seen), sample=dict(stim, raised_at=[i for i, (_, r) in enumerate(seen) if r][:5]) if len(sl.samples) < 2 else None)
        sl.count("raw call sequence")
        reqs.append(f"c08.limiter {limit} {gcount} {len(calls)} {' '.join(map(str, calls))}".rstrip())
        metas.append((stim, seen))
    for (stim, seen), ans in zip(metas, lean_batch(reqs)):
        want = [(int(t.split(":")[0]), t.split(":")[1] == "1") for t in ans[3:].split()]
        if want != seen:
            k = next((i for i, (a, b) in enumerate(zip(want, seen)) if a != b), min(len(want), len(seen)))
            sl.disagree(stim, want[k:k + 3], seen[k:k + 3], f"limiter differs from the model at call {k}")
    # (b) two interrupted runs in a row
    with scratch() as tmp:
        for ci in range(max(6, N // 3)):
            kind = rnd.choice(["HMC", "HMC", "RWMH"])
            limit = rnd.choice([4, 9, 17, 30, 55])
            gcount = rnd.choice([1, 1, 3])
            d = rnd.choice([1, 2, 3])
            seed = rnd.randrange(1 << 30)
            P = 40
            kw = dict(stepsize=0.3, disable_progressbar=True, overwrite_existing_file=True)
            if kind == "HMC":
                kw.update(amount_of_steps=rnd.choice([1, 2, 4]), integrator=rnd.choice(["lf", "3s", "4s"]))
            mu = np.zeros((d, 1))
            q0 = np.ones((d, 1)) * 0.1
            stim = {"sampler": kind, "limit": limit, "gradient_count": gcount, "d": d, "seed": seed, "kwargs": {k: v for k, v in kw.items() if k in ("amount_of_steps", "integrator")}}
            try:
                with quiet(), np.errstate(all="ignore"):
                    ref_fn = os.path.join(tmp, f"l{ci}_ref.h5")
                    getattr(S, kind)(seed=seed).sample(ref_fn, D.Normal(mu.copy(), 1.0), initial_model=q0.copy(), proposals=P, **kw)
                    with Samples(ref_fn) as f:
                        ref = np.array(f.numpy, dtype=float)
                    Lim = EvaluationLimiter_ClassConstructor(D.Normal, limit, gradient_count=gcount)
                    target = Lim(mu.copy(), 1.0)
                    cols = []
                    outcome = []
                    for r in range(2):
                        s = getattr(S, kind)(seed=seed)
                        fn = os.path.join(tmp, f"l{ci}_{r}.h5")
                        try:
                            s.sample(fn, target, initial_model=q0.copy(), proposals=P, **kw)
                            outcome.append("returned")
                        except KeyboardInterrupt:
                            outcome.append("KeyboardInterrupt escaped from sample()")
                            try:
                                s.samples.close()
                            except Exception:
                                pass
                        try:
                            with Samples(fn) as f:
                                cols.append(np.array(f.numpy, dtype=float))
                        except ValueError:
                            cols.append(np.zeros((d + 1, 0)))
            except Exception as e:
                sl.case(stim, nontrivial=False)
                findings.append(Finding("C08", f"run with an EvaluationLimiter target failed: {e!r}", {"kind": "limiter", "problem": "raised"}, {"oracle": "limiter", "stimulus": stim, "error": repr(e)}))
                continue
            sl.case(stim, nontrivial=(kind == "HMC"))
            sl.count(f"two runs in a row, sampler={kind}")
            problems = []
            for r in range(2):
                if outcome[r] != "returned":
                    problems.append(f"run {r + 1} on the same target object: {outcome[r]}")
                elif cols[r].shape[1] >= P:
                    sl.count("budget not exhausted")
                elif not np.array_equal(cols[r], ref[:, : cols[r].shape[1]], equal_nan=True):
                    problems.append(f"run {r + 1}: stored columns are not the leading columns of the unlimited run with the same seed")
            # (a run that ends within its budget leaves the counter running: only an interrupt hands the next run a fresh budget)
            if not problems and cols[0].shape[1] < P and cols[0].shape != cols[1].shape:
                problems.append(f"the second run on the same target stored {cols[1].shape[1]} columns, the first {cols[0].shape[1]} (same seed, same budget)")
            if problems:
                sl.disagree(stim, "two equal interrupted runs", problems, problems[0])
                findings.append(Finding("C08", "EvaluationLimiter target: " + problems[0], {"kind": "limiter", "problem": problems[0].split(":")[0][:30]},
                                        {"oracle": "limiter", "stimulus": stim, "problems": problems}))
    return sl


def run(tier, seed):
    rnd = random.Random(48271 * seed + 8)
    thorough = tier == "thorough"
    findings = []
    st = Suite("C08.faults", "EXHAUSTIVE over every call boundary k of small runs (P <= 6): exception raised at boundary k "
               "(KeyboardInterrupt and user exceptions) vs model runFault: return/re-raise of the same object, closed readable file, columns = leading "
               "columns of the reference run, metadata usable by Samples/print_details, sampler re-usable (follow-up run equals a fresh sampler "
               "with the continued generator); non-trivial = fault after at least one completed append")
    sto = Suite("C08.timeouts", "every time-out instant under a scripted clock (time as a function of the proposal index; monotone, jumping, "
                "non-monotone) vs model runTimeout; then the sampler is re-used without a limit; non-trivial = stop strictly inside the run")
    kinds = ["KeyboardInterrupt", "RuntimeError", "TimeoutError", "Abort"] + (["ValueError", "CustomError", "FileExistsError", "AssertionError", "StopIteration", "SystemExit", "GeneratorExit"] if thorough else [])
    reqs, metas = [], []
    with scratch() as tmp:
        for ri, rig in enumerate(rigs(rnd, tier)):
            ext = rig.ext
            ref_fn = os.path.join(tmp, f"ref{ri}.{ext}")
            s_ref, raised = rig.run(ref_fn)
            if raised is not None:
                st.disagree(rig.desc(), "reference run completes", repr(raised), "reference run raised")
                continue
            ref, probs = read_file(ref_fn, ext)
            log = list(rig.log)
            K = len(log)
            ncalls = [0] * rig.P
            for kind, i, _ in log:
                if not kind.startswith("append"):
                    ncalls[i] += 1
            for k in range(K):
                for en in kinds:
                    exc = EXC[en]("injected")
                    fn = os.path.join(tmp, f"f{ri}.{ext}")
                    for p in (fn, fn + ".pkl"):
                        if os.path.exists(p):
                            os.remove(p)
                    s, raised = rig.run(fn, fault_at=k, exc=exc)
                    stim = {"rig": rig.desc(), "boundary": k, "boundary_kind": log[k][0], "in_proposal": log[k][1], "exception": en}
                    m_expected = log[k][2]
                    st.case(stim, nontrivial=m_expected >= 1)
                    st.count(f"boundary={log[k][0]}")
                    st.count(f"exception={en}")
                    problems = []
                    if en == "KeyboardInterrupt":
                        if raised is not None:
                            problems.append(f"sample() raised {raised!r} instead of returning")
                    else:
                        if raised is not exc:
                            problems.append(f"sample() {'returned' if raised is None else 'raised ' + repr(raised)} instead of re-raising the original exception object")
                    arr, p2 = read_file(fn, ext)
                    problems += p2
                    if arr is not None:
                        m = arr.shape[1]
                        if m != m_expected or (m > 0 and not np.array_equal(arr, ref[:, :m])):
                            problems.append(f"file holds {m} columns, expected the {m_expected} leading columns of the uninterrupted run")
                    # re-use: the same object runs again and equals a fresh sampler with the continued generator
                    if hasattr(s.rng, "bit_generator"):
                        state = copy.deepcopy(s.rng.bit_generator.state)
                        fn2 = os.path.join(tmp, f"again{ri}.{ext}")
                        fn3 = os.path.join(tmp, f"fresh{ri}.{ext}")
                        s2, r2 = rig.run(fn2, sampler=s)
                        if r2 is not None:
                            problems.append(f"re-used sampler raised {r2!r}")
                        else:
                            fresh, _, _, _ = rig.build()
                            fresh.rng.bit_generator.state = state
                            s3, r3 = rig.run(fn3, sampler=fresh)
                            a2, _ = read_file(fn2, ext)
                            a3, _ = read_file(fn3, ext)
                            if a2 is None or a3 is None or a2.shape != a3.shape or not np.array_equal(a2, a3):
                                problems.append("re-used sampler does not behave like a fresh sampler with the continued generator")
                    if problems:
                        findings.append(Finding("C08", f"{rig.kind} {en} at boundary {k} ({log[k][0]}, proposal {log[k][1]}): {problems[0]}",
                                                {"kind": "fault", "exception_class": "interrupt" if en == "KeyboardInterrupt" else "other",
                                                 "problem": problems[0][:40], "first_proposal": log[k][1] == 0 and m_expected == 0},
                                                {"oracle": "fault", "stimulus": stim, "problems": problems}))
                    # the model's trace has one extra `iterEnd` event per completed iteration
                    k_model = k + log[k][1]
                    reqs.append(f"c08.fault {rig.P} {rig.t} {' '.join(map(str, ncalls))} + {k_model} {'I' if en == 'KeyboardInterrupt' else 'O'}")
                    metas.append((st, stim, None if arr is None else arr.shape[1], raised is None, problems))
            # time-outs ------------------------------------------------------------------------
            patterns = {
                "monotone": lambda i: 1.0 + i,
                "jump": lambda i: 0.5 if i < rig.P // 2 else 100.0,
                "non-monotone": lambda i: [5.0, 1.0, 7.0, 2.0, 9.0, 0.0][i % 6],
            }
            for pname, T in patterns.items():
                for M in ([0.6, 2.5, 5.5, 50.0, 1e9] if thorough else [2.5, 5.5, 1e9]):
                    fn = os.path.join(tmp, f"t{ri}.{ext}")

                    def clock():
                        return T(int(rig.sampler.current_proposal)) if rig.started else 0.0

                    s, raised = rig.run(fn, max_time=M, clock=clock)
                    over = [M < T(i) for i in range(rig.P)]
                    stim = {"rig": rig.desc(), "clock": pname, "max_time": M, "over": over}
                    stop = next((i for i, o in enumerate(over) if o), None)
                    sto.case(stim, nontrivial=stop is not None and stop < rig.P - 1)
                    problems = []
                    if raised is not None:
                        problems.append(f"sample() raised {raised!r} on time-out")
                    arr, p2 = read_file(fn, ext)
                    problems += p2
                    done = rig.P if stop is None else stop + 1
                    m_expected = len([i for i in range(done) if i % rig.t == 0])
                    if arr is not None and (arr.shape[1] != m_expected or not np.array_equal(arr, ref[:, :m_expected])):
                        problems.append(f"file holds {arr.shape[1]} columns, expected {m_expected} leading columns")
                    # re-use without a time limit must run to completion
                    fn2 = os.path.join(tmp, f"t2{ri}.{ext}")
                    s2, r2 = rig.run(fn2, sampler=s, max_time=None, clock=clock)
                    a2, _ = read_file(fn2, ext)
                    full = len([i for i in range(rig.P) if i % rig.t == 0])
                    if r2 is not None or a2 is None or a2.shape[1] != full:
                        problems.append(f"sampler re-used with max_time=None stored {None if a2 is None else a2.shape[1]} of {full} columns (limit of the previous run still active?)")
                    if problems:
                        findings.append(Finding("C08", f"{rig.kind} time-out ({pname}, max_time={M}): {problems[0]}",
                                                {"kind": "timeout", "problem": problems[0][:40]},
                                                {"oracle": "timeout", "stimulus": stim, "problems": problems}))
                    reqs.append(f"c08.timeout {rig.P} {rig.t} {' '.join(map(str, ncalls))} {' '.join('1' if o else '0' for o in over)}")
                    metas.append((sto, stim, None if arr is None else arr.shape[1], raised is None, problems))
    for (suite, stim, ncols, returned, problems), ans in zip(metas, lean_batch(reqs)):
        parts = ans[3:].split(" | ")
        mcols = int(parts[0].split()[0])
        wi, ret, closed, completed = parts[1].split()
        if len(suite.samples) < 2:
            suite.samples.append({"stimulus": stim, "model_columns": mcols, "impl_columns": ncols})
        if ncols != mcols or returned != (ret == "1"):
            suite.disagree(stim, {"columns": mcols, "returns": ret == "1"}, {"columns": ncols, "returns": returned, "problems": problems[:2]},
                           "outcome differs from the model")
    st.exhaustive = True
    sl = limiter_suite(rnd, 60 if thorough else 18, findings)
    return [st, sto, sl], findings


def search(tier, seed, broken):
    return []


def replay(body):
    return False, "re-run ./check C08 (fault points are enumerated exhaustively)"
