"""C11 — existing sample files are never modified without overwrite consent."""
import copy
import hashlib
import itertools
import os
import pickle
import random

import numpy as np

from .. import common
from ..common import Suite, Finding, lean_batch
from ..probes import quiet, scratch

TRUSTED_EXTRA = ["C11: the theorem is structural (the model states which operations touch the file); the correspondence hashes real files (and the NPY sidecar) "
                 "before and after every real operation in a scratch directory"]
ASSUMPTIONS = ["file identity is the SHA-256 of its bytes; a file that is absent has identity None"]


def sha(path):
    if not os.path.exists(path):
        return None
    with open(path, "rb") as f:
        return hashlib.sha256(f.read()).hexdigest()


def _S():
    from hmclab import Samplers as S, Distributions as D, MassMatrices as MM
    from hmclab.Samples import Samples

    return S, D, MM, Samples


INVALID_BEFORE = [
    ("filename-not-str", dict(samples_filename=12)),
    ("distribution-wrong-type", dict(distribution="not a distribution")),
    ("proposals-zero", dict(proposals=0)),
    ("proposals-float", dict(proposals=10.0)),
    ("thinning-zero", dict(online_thinning=0)),
    ("thinning-not-dividing", dict(proposals=10, online_thinning=3)),
    ("unknown-kwarg", None),
]
INVALID_AFTER_COMMON = [
    ("initial-model-shape", dict(initial_model=np.zeros((7, 1)))),
    ("initial-model-nan-misfit", dict(initial_model=np.array([[np.nan], [0.0]]))),
    ("max-time-negative", dict(max_time=-1.0)),
    ("learning-rate", dict(autotuning=True, learning_rate=0.2)),
    ("stepsize-negative", dict(stepsize=-0.5)),
    # noticed only when the loop is set up, after the file has been opened
    ("progressbar-flag-array", dict(disable_progressbar=np.array([True, True]))),
    # Ctrl-C while the first misfit is evaluated: a start that fails with a BaseException
    ("interrupt-in-first-misfit", "interrupt"),
]
INVALID_AFTER_HMC = [
    ("amount-of-steps-float", dict(amount_of_steps=2.5)),
    ("amount-of-steps-zero", dict(amount_of_steps=0)),
    ("mass-matrix-dimension", "mass"),
    ("integrator-unknown", dict(integrator="rk4")),
]


class Actor:
    """a sampler object bound to one path; performs the real operations"""

    def __init__(self, rnd, kind, path, npy):
        S, D, MM, Samples = _S()
        self.kind, self.path, self.npy = kind, path, npy
        self.s = getattr(S, kind)(seed=rnd.randrange(1 << 30))
        self.dist = D.Normal(np.zeros((2, 1)), 1.0)
        self.rnd = rnd

        class Interrupting(D.Normal):
            armed = False

            def misfit(self, m):
                if self.armed:
                    self.armed = False
                    raise KeyboardInterrupt
                return super().misfit(m)

        self.dist_int = Interrupting(np.zeros((2, 1)), 1.0)

    def sample(self, stage, overwrite, path=None):
        S, D, MM, Samples = _S()
        kw = dict(samples_filename=path or self.path, distribution=self.dist, proposals=4, overwrite_existing_file=overwrite, disable_progressbar=True)
        why = "valid"
        if stage == "b":
            why, bad = self.rnd.choice(INVALID_BEFORE)
            if bad is not None:
                kw.update(bad)
        elif stage == "a":
            pool = INVALID_AFTER_COMMON + (INVALID_AFTER_HMC if self.kind == "HMC" else [])
            why, bad = self.rnd.choice(pool)
            if getattr(self, "forced", None):
                why, bad = [x for x in pool if x[0] == self.forced][0]
            if bad == "mass":
                kw["mass_matrix"] = MM.Unit(5)
            elif bad == "interrupt":
                kw["distribution"] = self.dist_int
                self.dist_int.armed = True
            elif bad is not None:
                kw.update(bad)
        fn = kw.pop("samples_filename")
        dist = kw.pop("distribution")
        try:
            with quiet(), np.errstate(all="ignore"):
                if why == "unknown-kwarg":
                    # an argument the public signature does not have: rejected by Python itself (TypeError) before anything happens
                    self.s.sample(fn, dist, bogus_argument=1, **kw)
                else:
                    self.s.sample(fn, dist, **kw)
            return "ok", why
        except FileExistsError:
            return "exists", why
        except (AssertionError, ValueError, TypeError):
            return "rejected", why
        except KeyboardInterrupt:
            return ("rejected" if why == "interrupt-in-first-misfit" else "other:KeyboardInterrupt"), why
        except Exception as e:
            return f"other:{type(e).__name__}", why
        finally:
            self.dist_int.armed = False

    def open_write(self, overwrite, path=None):
        S, D, MM, Samples = _S()
        try:
            with quiet():
                h = Samples(path or self.path, mode="w", overwrite=overwrite)
                h.close()
            return "ok"
        except FileExistsError:
            return "exists"

    def parallel(self, overwrite, path=None):
        """the parallel controller with this path as the file of its single chain (exchange off)"""
        S, D, MM, Samples = _S()
        try:
            with quiet(), np.errstate(all="ignore"):
                S.ParallelSampleSMP(seed=1).sample([getattr(S, self.kind)(seed=self.rnd.randrange(1 << 30))], [path or self.path], [self.dist], proposals=4, exchange=False,
                                                   kwargs={"disable_progressbar": True}, **({"overwrite_existing_files": True} if overwrite else {}))
            return "ok"
        except AssertionError:
            return "rejected"
        except FileExistsError:
            return "exists"
        except Exception as e:
            return f"other:{type(e).__name__}"

    def other(self, op):
        S, D, MM, Samples = _S()
        try:
            with quiet():
                if op == "C":
                    c = copy.copy(self.s)
                    if self.s.samples is not None:
                        copy.copy(self.s.samples)
                    del c
                elif op == "D":
                    c = copy.deepcopy(self.s)
                    del c
                elif op == "P":
                    import dill
                    import gc

                    for lib in (pickle, dill):       # multiprocess, which hmclab uses for its chains, pickles with dill
                        for obj in (self.s, self.s.samples):
                            if obj is None:
                                continue
                            try:
                                clone = lib.loads(lib.dumps(obj))
                                del clone
                            except Exception:
                                pass  # refusing to pickle is fine; touching the file is not
                    gc.collect()
                elif op == "L":
                    if sha(self.path) is not None:
                        try:
                            self.s.samples_filename = self.path
                            self.s.load_results()
                            h = Samples(self.path)
                            h.numpy
                            h.close()
                        except (ValueError, FileNotFoundError, KeyError):
                            pass
            return "ok"
        except Exception as e:
            return f"other:{type(e).__name__}"


OPS = ["Sv0", "Sv1", "Sb0", "Sb1", "Sa0", "Sa1", "W0", "W1", "C", "D", "P", "L", "M0", "M1"]   # M = the multi-chain controller with this path among its file names
NO_CONSENT = ["Sv0", "Sb0", "Sa0", "W0", "C", "D", "P", "L", "M0"]


def run_sequence(rnd, ops, kind, npy, tmp, tag, forced=None):
    """executes ops on a sampler that already produced the file; returns per-op observations"""
    path = os.path.join(tmp, f"f{tag}.{'npy' if npy else 'h5'}")
    side = path + ".pkl"
    for p in (path, side):
        if os.path.exists(p):
            os.remove(p)
    actor = Actor(rnd, kind, path, npy)
    first = actor.sample("v", False)  # the sampler has already produced the file
    actor.forced = forced
    obs = []
    for op in ops:
        before = (sha(path), sha(side))
        if op[0] == "S":
            res, why = actor.sample(op[1], op[2] == "1")
        elif op[0] == "W":
            res, why = actor.open_write(op[1] == "1"), ""
        elif op[0] == "M":
            res, why = actor.parallel(op[1] == "1"), ""
        else:
            res, why = actor.other(op), ""
        after = (sha(path), sha(side))
        obs.append({"op": op, "why": why, "result": res, "file_changed": before[0] != after[0], "sidecar_changed": before[1] != after[1],
                    "file_exists": after[0] is not None, "sidecar_exists": after[1] is not None,
                    "file_existed": before[0] is not None, "sidecar_existed": before[1] is not None})
    # a following valid run with consent must succeed (no handle left open)
    final = actor.sample("v", True)[0]
    return first[0], obs, final


def run_paths_sequence(rnd, ops, kind, npy, tmp, tag):
    """ops = [(path index, op)]: path 0 holds the file the sampler object produced first, path 1 does not exist yet"""
    ext = "npy" if npy else "h5"
    paths = [os.path.join(tmp, f"p{tag}_0.{ext}"), os.path.join(tmp, f"p{tag}_1.{ext}")]
    for p in paths:
        for q in (p, p + ".pkl"):
            if os.path.exists(q):
                os.remove(q)
    actor = Actor(rnd, kind, paths[0], npy)
    first = actor.sample("v", False)
    obs = []

    def snap():
        return [(sha(p), sha(p + ".pkl")) for p in paths]

    for pi, op in ops:
        before = snap()
        if op[0] == "S":
            res, why = actor.sample(op[1], op[2] == "1", path=paths[pi])
        elif op[0] == "W":
            res, why = actor.open_write(op[1] == "1", path=paths[pi]), ""
        elif op[0] == "M":
            res, why = actor.parallel(op[1] == "1", path=paths[pi]), ""
        else:
            res, why = actor.other(op), ""
        after = snap()
        obs.append({"path": pi, "op": op, "why": why, "result": res, "before": before, "after": after})
    return first[0], obs


def paths_suite(rnd, N, findings):
    sp = Suite("C11.paths", "one sampler object that has produced a file at path 0, then sequences of operations aimed at path 0 or at another path 1 (valid, "
               "invalid-before-open, invalid-after-open sample() calls with and without consent, Samples(mode='w'), copy, deepcopy, pickle, load_results), HDF5 and "
               "NPY(+sidecar): SHA-256 of both paths before/after every operation; a path at which no consenting operation was aimed must keep its bytes, whatever "
               "was aimed at the other path; vs the model's per-path worlds; non-trivial = >= 1 operation aimed at path 1 while path 0 never received consent")
    reqs, metas = [], []
    with scratch() as tmp:
        for i in range(N):
            L = rnd.choice([1, 2, 3, 4, 5])
            ops = []
            for _ in range(L):
                pi = rnd.choice([0, 1, 1])
                pool = NO_CONSENT if (pi == 0 and rnd.random() < 0.8) else OPS
                ops.append((pi, rnd.choice(pool)))
            kind = "HMC" if i % 2 else "RWMH"
            npy = (i // 2) % 2 == 1
            first, obs = run_paths_sequence(rnd, ops, kind, npy, tmp, i % 4)
            stim = {"sampler": kind, "backend": "npy" if npy else "h5", "ops": [f"{o}@{p}" for p, o in ops], "why": [o["why"] for o in obs]}
            consent0 = any(p == 0 and o in ("Sv1", "Sa1", "W1", "M1") for p, o in ops)
            sp.case(stim, nontrivial=(not consent0 and any(p == 1 for p, _ in ops)), sample={"ops": stim["ops"], "results": [o["result"] for o in obs]} if len(sp.samples) < 3 else None)
            sp.count(f"backend={'npy' if npy else 'h5'}")
            for p, o in ops:
                sp.count(f"op={o}@{p}")
            problems = []
            if first != "ok":
                problems.append(f"the initial run failed: {first}")
            consented = [False, False]
            for k, o in enumerate(obs):
                if o["op"] in ("Sv1", "Sa1", "W1", "M1"):
                    consented[o["path"]] = True
                for q in (0, 1):
                    if o["before"][q] != o["after"][q]:
                        if q != o["path"]:
                            problems.append(f"operation {k} ({o['op']}{' ' + o['why'] if o['why'] else ''}) aimed at path {o['path']} changed or deleted the "
                                            f"{'file' if o['before'][q][0] != o['after'][q][0] else 'sidecar'} at path {q}")
                        elif not consented[q] and o["before"][q] != (None, None):
                            problems.append(f"operation {k} ({o['op']}{' ' + o['why'] if o['why'] else ''}) changed the existing file at path {q} without overwrite consent")
                if o["result"].startswith("other"):
                    problems.append(f"operation {k} ({o['op']}@{o['path']}) raised {o['result']}")
                if problems:
                    break
            if problems:
                findings.append(Finding("C11", problems[0], {"kind": "consent-paths", "op": problems[0].split("(")[1].split(")")[0].split(" ")[0] if "(" in problems[0] else "first"},
                                        {"oracle": "hash", "stimulus": stim, "problems": problems, "observations": obs}))
            reqs.append(f"c11.runat {int(npy)} {len(ops)} " + " ".join(f"{p} {o}" for p, o in ops))
            metas.append((stim, obs, npy))
    for (stim, obs, npy), ans in zip(metas, lean_batch(reqs)):
        if not ans.startswith("ok "):
            sp.disagree(stim, "model answer", ans, "driver rejected")
            continue
        prev = [("0", "1" if npy else "-"), ("-", "-")]
        for k, (o, part) in enumerate(zip(obs, ans[3:].split(" | "))):
            toks = part.split()
            res, cur = toks[0], [(toks[1], toks[2]), (toks[3], toks[4])]
            consent = o["op"] in ("Sv1", "Sa1", "W1", "M1")
            ok = o["result"] == res
            for q in (0, 1):
                exists_real = o["after"][q][0] is not None
                ok = ok and exists_real == (cur[q][0] != "-")
                if not (consent and q == o["path"]):
                    ok = ok and ((o["before"][q][0] != o["after"][q][0]) == (prev[q][0] != cur[q][0]))
                    if npy:
                        ok = ok and ((o["before"][q][1] != o["after"][q][1]) == (prev[q][1] != cur[q][1]))
            prev = cur
            if not ok:
                sp.disagree(stim, {"op": f"{o['op']}@{o['path']}", "model": part}, {"result": o["result"], "before": o["before"], "after": o["after"]}, f"operation {k} differs from the model")
                break
    return sp


def writers_suite(rnd, N, findings):
    """a Samples writer used directly, and copies of it"""
    import gc

    S, D, MM, Samples = _S()
    sw = Suite("C11.writers", "a Samples(path, mode='w') writer (HDF5 and NPY): appended columns, flushes, copy / deepcopy of the writer before, between and after the "
               "appends, closing or dropping the copies, closing the owner: the columns on disk are always a prefix of what was appended, after the owner's close "
               "they are exactly what was appended, and nothing done with a copy afterwards changes file or sidecar; vs model wrun; non-trivial = a copy closed or "
               "dropped after the owner's close")
    reqs, metas = [], []
    with scratch() as tmp:
        for ci in range(N):
            npy = ci % 2 == 1
            path = os.path.join(tmp, f"w{ci % 3}.{'npy' if npy else 'h5'}")
            for q in (path, path + ".pkl"):
                if os.path.exists(q):
                    os.remove(q)
            L = rnd.choice([3, 5, 8, 12])
            ops, toks = [], []
            closed, ncopies, nextcol = False, 0, 1
            for _ in range(L):
                c = rnd.choice("aaaafcck" if not closed else "kkc")
                if c == "k" and ncopies == 0:
                    c = "c"
                if c == "a":
                    k = rnd.choice([1, 1, 2, 30])
                    for _ in range(k):
                        ops.append(("a", nextcol)); toks.append(f"a {nextcol}"); nextcol += 1
                    continue
                if c == "c":
                    ncopies += 1
                if c == "k":
                    ncopies -= 1
                ops.append((c, rnd.choice(["copy", "deepcopy"]) if c == "c" else rnd.choice(["close", "drop"]) if c == "k" else None)); toks.append(c)
                if rnd.random() < 0.25 and not closed:
                    ops.append(("x", None)); toks.append("x"); closed = True
            if not closed:
                ops.append(("x", None)); toks.append("x"); closed = True
            while ncopies > 0:
                ops.append(("k", rnd.choice(["close", "drop"]))); toks.append("k"); ncopies -= 1
            xk0 = [k for k, (c, _) in enumerate(ops) if c == "x"][0]
            if not any(c == "a" for c, _ in ops[:xk0]):
                # a writer that is closed without a single column leaves no readable file (C10: zero columns are not a samples file): at least one column
                ops.insert(0, ("a", nextcol)); toks.insert(0, f"a {nextcol}")
            # real run ----------------------------------------------------------------------------
            obs, problems = [], []
            try:
                with quiet():
                    w = Samples(path, mode="w", overwrite=False)
                    copies = []
                    final = None
                    for k, (c, arg) in enumerate(ops):
                        if c == "a":
                            w.append(np.array([[float(arg)], [float(arg) + 0.5], [-float(arg)]]))
                        elif c == "f":
                            w.flush_buffer()
                        elif c == "x":
                            w.close()
                        elif c == "c":
                            copies.append(copy.copy(w) if arg == "copy" else copy.deepcopy(w))
                        elif c == "k":
                            v = copies.pop(rnd.randrange(len(copies)))
                            if arg == "close":
                                v.close()
                            del v
                            gc.collect()
                        ondisk = None
                        if getattr(w, "_closed", False):
                            try:
                                r = Samples(path)
                                ondisk = np.array(r.numpy)[0, :].astype(int).tolist() if r.numpy.size else []
                                r.close()
                                del r
                            except Exception as e:
                                ondisk = f"unreadable: {type(e).__name__}: {e}"[:120]
                            now = (sha(path), sha(path + ".pkl"))
                            if final is not None and now != final:
                                problems.append(f"op {k} ({c}{' ' + arg if arg else ''}) on a copy changed the {'file' if now[0] != final[0] else 'sidecar'} of the finished, closed writer")
                            final = final or now
                        obs.append(ondisk)
            except Exception as e:
                problems.append(f"raised {type(e).__name__}: {e}"[:200])
            stim = {"backend": "npy" if npy else "h5", "ops": toks}
            xk = [k for k, (c, _) in enumerate(ops) if c == "x"][0]
            sw.case(stim, nontrivial=any(c == "k" for c, _ in ops[xk + 1:]), sample=stim if len(sw.samples) < 2 else None)
            sw.count(f"backend={'npy' if npy else 'h5'}")
            for c, _ in ops:
                if c != "a":
                    sw.count(f"op={c}")
            want = [a for (c, a) in ops[:xk] if c == "a"]
            for k, od in enumerate(obs):
                if od is not None and od != want and not problems:
                    problems.append(f"after op {k} the closed file holds columns {od if isinstance(od, str) else (len(od), od[:4])} but {len(want)} columns were appended before the close")
            if problems:
                findings.append(Finding("C11", "writer and copies: " + problems[0], {"kind": "writer-copies"}, {"oracle": "writer", "stimulus": stim, "problems": problems}))
            reqs.append(f"c11.writer {len(toks)} {' '.join(toks)}")
            metas.append((stim, ops, obs))
    for (stim, ops, obs), ans in zip(metas, lean_batch(reqs)):
        if not ans.startswith("ok "):
            sw.disagree(stim, "model answer", ans, "driver rejected the history")
            continue
        for k, (od, part) in enumerate(zip(obs, ans[3:].split(" | "))):
            closed, nfile, content = part.split(" ")[:3] if len(part.split(" ")) >= 3 else (part.split(" ") + [""])[:3]
            if od is None:
                continue
            mfile = [int(x) for x in content.split(",") if x][: int(nfile)]
            if closed != "1" or od != mfile:
                sw.disagree(stim, {"closed": closed, "file": mfile[:6], "columns": len(mfile)}, {"file": od if isinstance(od, str) else od[:6], "columns": None if isinstance(od, str) else len(od)},
                            f"file after op {k} differs from the model")
                break
    return sw


def parallel_job(names, consent, P):
    S, D, MM, Samples = _S()
    posts = [D.Normal(np.zeros((2, 1)), 1.0 + i) for i in range(len(names))]
    kw = {} if consent is None else {"overwrite_existing_files": consent}
    try:
        with quiet():
            S.ParallelSampleSMP(seed=3).sample([S.RWMH(seed=5 + i) for i in range(len(names))], names, posts, proposals=P, exchange=False,
                                               kwargs={"disable_progressbar": True}, **kw)
        return "ok"
    except AssertionError:
        return "refused"
    except FileExistsError:
        return "refused"


def parallel_suite(rnd, count, findings):
    """the parallel controller is a way to start runs, too"""
    from ..parallel import supervised

    sp = Suite("C11.parallel", "ParallelSampleSMP on paths that hold finished runs (written by a first parallel run with consent): a second call without "
               "overwrite_existing_files (default / False) must be refused and leave every file and sidecar as it is, whatever the spelling of the names "
               "(with .h5 / .npy, or without extension: hmclab appends .h5); with consent it succeeds; SHA-256 before/after; non-trivial = all")
    with scratch() as tmp:
        for ci in range(count):
            n = rnd.choice([1, 2, 3])
            spelling = "bare" if ci == 0 else rnd.choice(["h5", "npy", "bare"])
            names = [os.path.join(tmp, f"par{ci}_{i}" + {"h5": ".h5", "npy": ".npy", "bare": ""}[spelling]) for i in range(n)]
            real = [nm + (".h5" if spelling == "bare" else "") for nm in names]
            stim = {"chains": n, "names": spelling}
            sp.case(stim, nontrivial=True, sample=stim if len(sp.samples) < 2 else None)
            sp.count(f"names={spelling}")
            st0, r0 = supervised(parallel_job, (names, True, 6), timeout=60, tmpdir=tmp)
            before = [(sha(f), sha(f + ".pkl")) for f in real]
            problems = []
            if (st0, r0) != ("ok", "ok") or any(b[0] is None for b in before):
                problems.append(f"the first parallel run (with consent) did not produce its files: {st0} {str(r0)[:150]}")
            else:
                consent = rnd.choice([None, False])
                st1, r1 = supervised(parallel_job, (names, consent, 4), timeout=60, tmpdir=tmp)
                after = [(sha(f), sha(f + ".pkl")) for f in real]
                if after != before:
                    problems.append(f"a parallel run without overwrite consent ({'default' if consent is None else 'overwrite_existing_files=False'}) changed existing "
                                    f"{'files' if any(a[0] != b[0] for a, b in zip(after, before)) else 'sidecars'} ({spelling} names); it returned {st1} {str(r1)[:80]}")
                elif (st1, r1) != ("ok", "refused"):
                    problems.append(f"a parallel run on existing files without consent was not refused: {st1} {str(r1)[:150]}")
                st2, r2 = supervised(parallel_job, (names, True, 4), timeout=60, tmpdir=tmp)
                if (st2, r2) != ("ok", "ok"):
                    problems.append(f"a following parallel run with consent failed: {st2} {str(r2)[:150]}")
            if problems:
                findings.append(Finding("C11", "ParallelSampleSMP: " + problems[0][:300], {"kind": "parallel-consent"}, {"oracle": "hash", "stimulus": stim, "problems": problems}))
    return sp


def run(tier, seed):
    rnd = random.Random(279470273 * (seed + 11) % (1 << 31))
    thorough = tier == "thorough"
    findings = []
    st = Suite("C11.sequences", "sequences of real operations (sample with valid / invalid-before-open / invalid-after-open arguments, Samples(mode='w'), copy, deepcopy, "
               "pickle, load_results) on samplers that already produced a file, HDF5 and NPY(+sidecar), SHA-256 before/after every operation, exception classes, "
               "and a final valid run with consent: vs the model; non-trivial = sequence containing no consent and >= 1 write attempt or object copy")
    seqs = []
    N = 260 if thorough else 70
    for _ in range(N):
        L = rnd.choice([1, 2, 3, 4, 6])
        if rnd.random() < 0.6:
            seqs.append([rnd.choice(NO_CONSENT) for _ in range(L)])
        else:
            seqs.append([rnd.choice(OPS) for _ in range(L)])
    if thorough:
        for L in (1, 2, 3):
            for word in itertools.product(NO_CONSENT, repeat=L):
                seqs.append(list(word))
    # every way in which a start can fail after the file has been opened, once per sampler and back end per round: with consent, then operations without
    forced = {}
    allwhy = [w for w, _ in INVALID_AFTER_COMMON + INVALID_AFTER_HMC]
    sweep = allwhy if thorough else [allwhy[(seed + j) % len(allwhy)] for j in range(4)] + ["progressbar-flag-array", "interrupt-in-first-misfit"]
    for j, w in enumerate(sweep):
        for i0 in range(4):
            if w in [x for x, _ in INVALID_AFTER_HMC] and i0 % 2 == 0:
                continue
            forced[len(seqs)] = (w, i0)
            seqs.append(["Sa1", rnd.choice(["P", "D", "L", "Sv0"]), rnd.choice(["Sv1", "W0", "P"])])
    reqs, metas = [], []
    with scratch() as tmp:
        for i, ops in enumerate(seqs):
            kind = "HMC" if i % 2 else "RWMH"
            npy = (i // 2) % 2 == 1
            if i in forced:
                kind, npy = ("HMC" if forced[i][1] % 2 else "RWMH"), (forced[i][1] // 2) % 2 == 1
                st.count(f"forced failure after open: {forced[i][0]}")
            first, obs, final = run_sequence(rnd, ops, kind, npy, tmp, i % 4, forced=forced.get(i, (None,))[0])
            stim = {"sampler": kind, "backend": "npy" if npy else "h5", "ops": ops, "why": [o["why"] for o in obs]}
            noconsent = all(o in NO_CONSENT for o in ops)
            st.case(stim, nontrivial=noconsent and any(o in ("Sv0", "Sa0", "W0", "C", "D", "P") for o in ops),
                    sample={"ops": ops, "results": [o["result"] for o in obs]} if len(st.samples) < 3 else None)
            st.count(f"backend={'npy' if npy else 'h5'}")
            for o in ops:
                st.count(f"op={o}")
            # direct oracle: no consent => no change -----------------------------------------
            problems = []
            if first != "ok":
                problems.append(f"the initial run failed: {first}")
            consent_seen = False
            for k, o in enumerate(obs):
                consent_seen = consent_seen or o["op"] in ("Sv1", "Sa1", "W1", "M1")
                if o["op"] not in ("Sv1", "Sa1", "W1", "M1") and ((o["file_changed"] and o["file_existed"]) or (o["sidecar_changed"] and o["sidecar_existed"])):
                    problems.append(f"operation {k} ({o['op']}{' ' + o['why'] if o['why'] else ''}) changed the existing "
                                    f"{'file' if o['file_changed'] else 'sidecar'} without overwrite consent")
                    break
                if not consent_seen and o["op"] in ("Sv0", "W0") and o["result"] != "exists":
                    problems.append(f"operation {k} ({o['op']}) on an existing file returned {o['result']} instead of raising FileExistsError")
                    break
                if o["result"].startswith("other"):
                    problems.append(f"operation {k} ({o['op']}) raised {o['result']}")
                    break
            if final != "ok":
                problems.append(f"a following valid run with overwrite consent failed: {final}")
            if problems:
                findings.append(Finding("C11", problems[0], {"kind": "consent", "op": problems[0].split("(")[1].split(")")[0].split(" ")[0] if "(" in problems[0] else "final"},
                                        {"oracle": "hash", "stimulus": stim, "problems": problems, "observations": obs}))
            reqs.append(f"c11.run {int(npy)} 1 {int(npy)} {len(ops)} {' '.join(ops)}")
            metas.append((stim, obs, npy))
    for (stim, obs, npy), ans in zip(metas, lean_batch(reqs)):
        parts = ans[3:].split(" | ")
        prev = ("0", "1" if npy else "-")
        for k, (o, part) in enumerate(zip(obs, parts)):
            res, fid, sid, handles = part.split()
            m_file_changed = fid != prev[0]
            m_side_changed = sid != prev[1]
            prev = (fid, sid)
            consent = o["op"] in ("Sv1", "Sa1", "W1", "M1")
            # with consent the new bytes may coincide with the old ones: compare outcome and existence only
            ok = o["result"] == res and o["file_exists"] == (fid != "-") and (
                consent or (o["file_changed"] == m_file_changed and (o["sidecar_changed"] == m_side_changed or not npy)))
            if not ok:
                st.disagree(stim, {"op": o["op"], "result": res, "file_changed": m_file_changed, "sidecar_changed": m_side_changed, "file_exists": fid != "-"},
                            o, f"operation {k} differs from the model")
                break
    sp = paths_suite(rnd, 200 if thorough else 60, findings)
    sw = writers_suite(random.Random(seed * 104729 + 11), 120 if thorough else 40, findings)
    spar = parallel_suite(random.Random(seed * 15485863 + 11), 8 if thorough else 3, findings)
    return [st, sp, sw, spar], findings


def search(tier, seed, broken):
    return []


def replay(body):
    return False, "re-run ./check C11 (sequences are regenerated from the seed)"
