"""C04 — a transition started on the target stays on the target (stationarity)."""
import math
import os
import random

import numpy as np

from .. import common
from ..common import Suite, Finding, fhex, vhex, Reader, lean_batch
from ..probes import ScriptedRNG, quiet, scratch
from .c01 import make_target, make_mass, inside_start, read_coeffs, _hm

THOROUGH_ROUNDS = 1  # the thorough tier of this property is one long run (soak / exhaustive enumeration)
TRUSTED_EXTRA = [
    "C04: 'within Monte-Carlo error' is a consequence (law of large numbers) of the invariance theorem, not formalised; NumPy's PRNG laws are trusted",
    "C04: invariance is proved for unbounded targets (all integrators, all odd measurable velocity maps, RWMH scalar/vector); for box-truncated targets "
    "the chain of lemmas is C01's boxed reversibility (partial, single-bounce regime) — the moment soak covers them empirically",
    "C04: the randomised step size enters through mixture_invariant, whose joint-measurability hypothesis for the concrete trajectory family is assumed",
]
ASSUMPTIONS = ["whole-transition correspondence compares model and code on the same scripted draws (z, u_step, u); decisions within 1e-7 of the threshold end the comparison of that chain"]


def chain_case(rnd, kind, coeffs):
    _, S, MM, D = _hm()
    tk = rnd.choice(["normaldiag", "normaldiag", "himmelblau", "laplace", "stdnormal"])
    d = {"himmelblau": 2, "stdnormal": 1}.get(tk, rnd.choice([1, 2, 3, 5]))
    boxed = rnd.random() < 0.3
    dist, tstr, bstr, tdesc, lb, ub = make_target(rnd, tk, d, boxed)
    q0 = inside_start(rnd, d, lb, ub)
    T = rnd.choice([1, 2, 5, 10, 20])
    zs = [np.array([[rnd.gauss(0, 1)] for _ in range(d)]) for _ in range(T)]
    us = [rnd.random() for _ in range(T)]
    if kind == "HMC":
        integ = rnd.choice(["lf", "3s", "4s"])
        n = rnd.choice([1, 2, 5, 9])
        h = rnd.choice([0.05, 0.2, 0.5, rnd.uniform(0.01, 0.8)])
        randomize = rnd.random() < 0.5
        mkind = rnd.choice(["unit", "diag", "full"])
        mass, mstr, mdesc = make_mass(rnd, mkind, d)
        usteps = [rnd.uniform(0.5, 1.5) for _ in range(T)]
        normals = [v for z in zs for v in z.ravel()]
        uniforms = []
        for k in range(T):
            if randomize:
                uniforms.append(usteps[k])
            uniforms.append(us[k])
        s = S.HMC(seed=1)
        s.rng = ScriptedRNG(normals=normals, uniforms=uniforms)
        kw = dict(stepsize=h, amount_of_steps=n, mass_matrix=mass, integrator=integ, randomize_stepsize=randomize)
        cstr = " ".join(fhex(c) for c in coeffs)
        req = (f"c04.hmc {integ} {cstr} {int(randomize)} {fhex(h)} {n} {mstr} {tstr} {bstr} {vhex(q0)} {T} "
               + " ".join(f"{vhex(zs[k])} {fhex(usteps[k])} {fhex(us[k])}" for k in range(T)))
        stim = {"sampler": "HMC", "integrator": integ, "n": n, "h": h, "randomize": randomize, "mass": mdesc, "target": tdesc, "T": T,
                "q0": q0.ravel().tolist()}
        exact = mkind != "full" and tk in ("normaldiag", "laplace", "stdnormal") and d == 1
    else:
        if rnd.random() < 0.5:
            step = rnd.choice([0.1, 0.5, 1.0, 2.5])
            scale = np.ones((d, 1)) * step
        else:
            step = np.array([[rnd.choice([0.1, 0.5, 1.0, 2.5])] for _ in range(d)])
            scale = step
        s = S.RWMH(seed=1)
        normals = [v for z in zs for v in z.ravel()]
        s.rng = ScriptedRNG(normals=normals, uniforms=list(us))
        kw = dict(stepsize=step if not isinstance(step, np.ndarray) else step.copy())
        req = f"c04.rwmh {vhex(scale)} {tstr} {bstr} {vhex(q0)} {T} " + " ".join(f"{vhex(zs[k])} {fhex(us[k])}" for k in range(T))
        stim = {"sampler": "RWMH", "stepsize": np.ravel(step).tolist(), "target": tdesc, "T": T, "q0": q0.ravel().tolist()}
        exact = False
    with scratch() as tmp, quiet(), np.errstate(all="ignore"):
        fn = os.path.join(tmp, "c.h5")
        raised = None
        try:
            s.sample(fn, dist, initial_model=q0.copy(), proposals=T, overwrite_existing_file=True, disable_progressbar=True, **kw)
        except Exception as e:
            raised = repr(e)
        from hmclab.Samples import Samples

        arr = None
        if raised is None:
            sm = Samples(fn)
            arr = np.array(sm.numpy, dtype=float)
            sm.close()
    return stim, req, arr, raised, int(s.accepted_proposals)


# ----------------------------------------------------------------------------- moment soak
def soak_worker(args):
    """many independent short runs from exact draws of the target; returns last states"""
    import numpy as np
    import os
    import tempfile
    import shutil
    from . import c04 as me  # noqa: F401
    from ..probes import quiet

    cfg, nruns, seed = args
    _, S, MM, D = _hm()
    rng = np.random.default_rng(seed)
    dist, exact_draw = build_target(cfg, D)
    d = dist.dimensions
    tmp = tempfile.mkdtemp(prefix="hmcverif_soak_")
    out = np.empty((nruns, d))
    out_long = np.empty((nruns, 2 * d))
    try:
        fn = os.path.join(tmp, "s.npy")
        for r in range(nruns):
            x0 = exact_draw(rng)
            if cfg["sampler"] == "HMC":
                s = S.HMC(seed=int(rng.integers(1 << 31)))
                M = mass_of(cfg, MM, d)
                kw = dict(stepsize=cfg["h"], amount_of_steps=cfg["n"], integrator=cfg["integrator"], mass_matrix=M,
                          randomize_stepsize=cfg["randomize"])
            else:
                s = S.RWMH(seed=int(rng.integers(1 << 31)))
                kw = dict(stepsize=cfg["h"] if not cfg.get("vector") else np.array(cfg["vector"]).reshape(-1, 1))
            with quiet(), np.errstate(all="ignore"):
                if cfg.get("chunks"):
                    # the K transitions as several runs of one (seeded) sampler object, each continuing from the state the previous one ended in
                    x = x0.reshape(-1, 1)
                    for _c in range(cfg["chunks"]):
                        s.sample(fn, dist, initial_model=x.copy(), proposals=cfg["K"] // cfg["chunks"], overwrite_existing_file=True, disable_progressbar=True, **kw)
                        x = np.array(s.current_model, dtype=float).reshape(-1, 1)
                else:
                    s.sample(fn, dist, initial_model=x0.reshape(-1, 1), proposals=cfg["K"], overwrite_existing_file=True,
                             disable_progressbar=True, **kw)
            if cfg.get("long"):
                # started from an exact draw, every state of the run has the target's law if the kernel leaves it invariant:
                # the run's averages of x and x^2 are unbiased, and runs are independent
                arr = np.load(fn)[:, :d] if fn.endswith(".npy") else None
                states = np.asarray(arr, dtype=float)
                out_long[r, :d] = states.mean(0)
                out_long[r, d:] = (states ** 2).mean(0)
            out[r] = np.array(s.current_model, dtype=float).ravel()
    finally:
        shutil.rmtree(tmp, ignore_errors=True)
    return out_long if cfg.get("long") else out


def mass_of(cfg, MM, d):
    if cfg["mass"] == "unit":
        return MM.Unit(d)
    if cfg["mass"] == "diag":
        return MM.Diagonal(np.array(cfg["massdiag"], dtype=float))
    return MM.Full(np.array(cfg["massfull"], dtype=float))


def build_target(cfg, D):
    """returns (distribution, exact_draw(rng) -> vector)"""
    t = cfg["target"]
    if t == "gaussian":
        mu = np.array(cfg["mu"]).reshape(-1, 1)
        cov = np.array(cfg["cov"])
        dist = D.Normal(mu.copy(), cov.copy() if cov.ndim == 2 else cov.reshape(-1, 1).copy())
        L = np.linalg.cholesky(cov) if cov.ndim == 2 else np.diag(np.sqrt(cov))
        return dist, lambda rng: (mu + L @ rng.normal(size=(len(mu), 1))).ravel()
    if t == "laplace":
        mu = np.array(cfg["mu"]).reshape(-1, 1)
        b = np.array(cfg["b"]).reshape(-1, 1)
        return D.Laplace(mu.copy(), b.copy()), lambda rng: rng.laplace(mu, b).ravel()
    if t == "mixture":
        mus = [np.array(m).reshape(-1, 1) for m in cfg["mus"]]
        sig = cfg["sigmas"]
        w = cfg["w"]
        comps = [D.Normal(m.copy(), float(s) ** 2) for m, s in zip(mus, sig)]
        dist = D.Mixture(comps, list(w))

        def draw(rng):
            k = rng.choice(len(w), p=w)
            return (mus[k] + sig[k] * rng.normal(size=mus[k].shape)).ravel()

        return dist, draw
    if t == "truncated":
        mu = np.array(cfg["mu"]).reshape(-1, 1)
        var = np.array(cfg["var"]).reshape(-1, 1)
        lo = np.array(cfg["lo"], dtype=float).reshape(-1, 1) if cfg["lo"] is not None else np.full(mu.shape, -np.inf)
        hi = np.array(cfg["hi"], dtype=float).reshape(-1, 1) if cfg["hi"] is not None else np.full(mu.shape, np.inf)
        dist = D.Normal(mu.copy(), var.copy(), lower_bounds=None if cfg["lo"] is None else lo.copy(), upper_bounds=None if cfg["hi"] is None else hi.copy())

        def draw(rng):
            while True:
                x = mu + np.sqrt(var) * rng.normal(size=mu.shape)
                if np.all(x >= lo) and np.all(x <= hi):
                    return x.ravel()

        return dist, draw
    raise ValueError(t)


def analytic_moments(cfg):
    """(mean vector, second-moment vector E[x_i^2], per-coordinate std of x_i and of x_i^2)"""
    t = cfg["target"]
    if t == "gaussian":
        mu = np.array(cfg["mu"], dtype=float)
        cov = np.array(cfg["cov"], dtype=float)
        var = np.diag(cov) if cov.ndim == 2 else cov
        m2 = var + mu ** 2
        v2 = 2 * var ** 2 + 4 * mu ** 2 * var  # Var[x^2] for a Gaussian
        return mu, m2, np.sqrt(var), np.sqrt(v2)
    if t == "laplace":
        mu = np.array(cfg["mu"], dtype=float)
        b = np.array(cfg["b"], dtype=float)
        var = 2 * b ** 2
        m2 = var + mu ** 2
        # E[(x)^4] for Laplace(mu,b): central 4th moment 24 b^4
        m4 = 24 * b ** 4 + 6 * mu ** 2 * var + mu ** 4
        return mu, m2, np.sqrt(var), np.sqrt(np.maximum(m4 - m2 ** 2, 1e-300))
    if t == "mixture":
        w = np.array(cfg["w"])
        mus = np.array(cfg["mus"], dtype=float)
        sig = np.array(cfg["sigmas"], dtype=float)
        mean = (w[:, None] * mus).sum(0)
        m2 = (w[:, None] * (sig[:, None] ** 2 + mus ** 2)).sum(0)
        m4 = (w[:, None] * (mus ** 4 + 6 * mus ** 2 * sig[:, None] ** 2 + 3 * sig[:, None] ** 4)).sum(0)
        return mean, m2, np.sqrt(m2 - mean ** 2), np.sqrt(np.maximum(m4 - m2 ** 2, 1e-300))
    if t == "truncated":
        from scipy import stats

        mu = np.array(cfg["mu"], dtype=float)
        sd = np.sqrt(np.array(cfg["var"], dtype=float))
        lo = np.array(cfg["lo"], dtype=float) if cfg["lo"] is not None else np.full(mu.shape, -np.inf)
        hi = np.array(cfg["hi"], dtype=float) if cfg["hi"] is not None else np.full(mu.shape, np.inf)
        a, b = (lo - mu) / sd, (hi - mu) / sd
        tn = stats.truncnorm(a, b, loc=mu, scale=sd)
        mean = tn.mean()
        m2 = tn.moment(2)
        m4 = tn.moment(4)
        return mean, m2, np.sqrt(np.maximum(m2 - mean ** 2, 1e-300)), np.sqrt(np.maximum(m4 - m2 ** 2, 1e-300))
    raise ValueError(t)


def soak_configs(rnd, thorough):
    cfgs = []
    targets = [
        {"target": "gaussian", "mu": [0.5, -1.0], "cov": [[1.0, 0.6], [0.6, 2.0]]},
        {"target": "gaussian", "mu": [0.0, 2.0, -1.0], "cov": [0.5, 1.0, 2.0]},
        {"target": "laplace", "mu": [0.3, -0.5], "b": [1.0, 0.5]},
        {"target": "mixture", "mus": [[-1.5, 0.0], [1.5, 0.5]], "sigmas": [0.8, 1.0], "w": [0.4, 0.6]},
        {"target": "truncated", "mu": [0.2, -0.3], "var": [1.0, 0.5], "lo": [-1.0, -1.0], "hi": [1.5, 0.8]},
    ]
    for tg in targets:
        d = len(tg.get("mu", tg.get("mus", [[0, 0]])[0]))
        for integ in ("lf", "3s", "4s"):
            for mass in ("unit", "diag", "full"):
                if tg["target"] == "truncated" and mass == "full":
                    continue  # known finding of C01: full mass in a box is not reversible
                for randomize in (False, True):
                    cfgs.append(dict(tg, sampler="HMC", integrator=integ, mass=mass, randomize=randomize, h=0.35, n=4, K=3,
                                     massdiag=[0.5, 2.0, 1.5][:d], massfull=(np.eye(d) * 1.5 + 0.4).tolist()))
        cfgs.append(dict(tg, sampler="RWMH", h=0.8, K=4))
        cfgs.append(dict(tg, sampler="RWMH", h=1.0, vector=[0.5, 1.2, 0.9][:d], K=4))
    rnd.shuffle(cfgs)
    # "every step size": position updates longer than the box is wide (several bounces per update) on an almost flat box-truncated target
    flat = {"target": "truncated", "mu": [0.5, 0.4], "var": [1e4, 1e4], "lo": [0.0, 0.0], "hi": [1.0, 0.8]}
    wide = [dict(flat, sampler="HMC", integrator=i, mass=m, randomize=r, h=h, n=n, K=2, runs=6400, massdiag=[0.5, 2.0], massfull=None)
            for i, m, r, h, n in (("lf", "unit", False, 2.0, 1), ("3s", "diag", True, 4.0, 1), ("lf", "unit", True, 2.0, 3))]
    # boxes with one open side (lower-only, upper-only, given as None), and runs in chunks on one seeded sampler object
    onesided = [dict({"target": "truncated", "mu": [0.2, -0.3], "var": [1.0, 0.5], "lo": lo_, "hi": hi_}, sampler="HMC", integrator=i, mass=m, randomize=r, h=0.6, n=4, K=4,
                     runs=3200, massdiag=[0.5, 2.0], massfull=None)
                for lo_, hi_, i, m, r in (([0.0, -0.5], None, "lf", "unit", False), (None, [0.6, 0.2], "3s", "diag", True), ([0.0, -0.5], None, "4s", "diag", True))]
    chunked = [dict(targets[0], sampler="RWMH", h=0.8, K=10, chunks=5, runs=3200),
               dict(targets[0], sampler="HMC", integrator="lf", mass="unit", randomize=True, h=0.35, n=4, K=8, chunks=8, runs=3200, massdiag=[0.5, 2.0], massfull=None)]
    if not thorough:
        return cfgs[:6] + [wide[rnd.randrange(len(wide))], onesided[0], onesided[1], chunked[rnd.randrange(len(chunked))]]
    cfgs = cfgs + wide + onesided + chunked
    # long runs from exact draws (every state of such a run has the target's law): far more sensitive to a small stationary bias
    trunc = targets[4]
    longs = [dict(trunc, sampler="HMC", integrator=i, mass="diag", randomize=r, h=0.9, n=6, K=400, long=True, runs=640, massdiag=[0.5, 2.0], massfull=None)
             for i, r in (("lf", False), ("3s", True), ("4s", False))]
    longs.append(dict(targets[0], sampler="HMC", integrator="lf", mass="full", randomize=True, h=0.35, n=4, K=400, long=True, runs=640,
                      massdiag=[0.5, 2.0], massfull=(np.eye(2) * 1.5 + 0.4).tolist()))
    longs.append(dict(targets[2], sampler="HMC", integrator="3s", mass="unit", randomize=False, h=0.35, n=4, K=400, long=True, runs=640, massdiag=[0.5, 2.0], massfull=None))
    longs.append(dict(targets[3], sampler="HMC", integrator="4s", mass="diag", randomize=True, h=0.35, n=4, K=400, long=True, runs=640, massdiag=[0.5, 2.0], massfull=None))
    longs.append(dict(trunc, sampler="RWMH", h=1.0, vector=[0.5, 1.2], K=400, long=True, runs=640))
    return cfgs + longs


def run_soak(rnd, thorough, seed, cfgs=None):
    import multiprocessing as mp

    cfgs = soak_configs(rnd, thorough) if cfgs is None else cfgs
    nruns = 6000 if thorough else 1600
    chunks = 16
    per = nruns // chunks
    so = Suite("C04.moments", f"the statement's own experiment: {per * chunks} independent short runs per configuration from exact draws of the target "
               "(Gaussian diag/full, Laplace, 2-component mixture, box-truncated Gaussian) x (lf,3s,4s) x (Unit,Diagonal,Full) x randomise on/off, RWMH "
               "scalar/vector; first and second moments of the last state (thorough: also of all 400 states of 640 long runs per configuration) vs closed forms, |z| < 6 (Bonferroni-safe); supporting evidence, not a proof; "
               "non-trivial = all configurations")
    findings = []
    ctx = mp.get_context("fork")
    with ctx.Pool(16) as pool:
        for ci, cfg in enumerate(cfgs):
            per_c = max(1, cfg.get("runs", per * chunks) // chunks)
            jobs = [(cfg, per_c, 1000003 * seed + 7919 * ci + j) for j in range(chunks)]
            outs = pool.map(soak_worker, jobs)
            X = np.vstack(outs)
            mean, m2, sd1, sd2 = analytic_moments(cfg)
            N = X.shape[0]
            if cfg.get("long"):
                dd = X.shape[1] // 2
                z1 = (X[:, :dd].mean(0) - mean) / (X[:, :dd].std(0, ddof=1) / math.sqrt(N))
                z2 = (X[:, dd:].mean(0) - m2) / (X[:, dd:].std(0, ddof=1) / math.sqrt(N))
            else:
                z1 = (X.mean(0) - mean) / (sd1 / math.sqrt(N))
                z2 = ((X ** 2).mean(0) - m2) / (sd2 / math.sqrt(N))
            stim = {k: v for k, v in cfg.items() if k not in ("massdiag", "massfull")}
            so.case(stim, sample={"config": stim, "z_mean": z1.tolist(), "z_second": z2.tolist()} if len(so.samples) < 3 else None)
            so.count(f"target={cfg['target']}")
            so.count(f"sampler={cfg['sampler']}")
            zmax = float(max(np.max(np.abs(z1)), np.max(np.abs(z2))))
            if not zmax < 6.0:
                so.disagree(stim, "|z| < 6", {"z_mean": z1.tolist(), "z_second": z2.tolist()}, "moments after the transitions differ from the target's")
                findings.append(Finding("C04", f"{cfg['sampler']} on {cfg['target']}: moments after {cfg['K']} transitions from exact draws are off by {zmax:.1f} sigma",
                                        {"kind": "moments", "sampler": cfg["sampler"], "target": cfg["target"]},
                                        {"oracle": "moments", "config": stim, "runs": N, "z_mean": z1.tolist(), "z_second": z2.tolist()}))
    return so, findings


def run(tier, seed):
    rnd = random.Random(22695477 * (seed + 1) % (1 << 31))
    thorough = tier == "thorough"
    findings = []
    coeffs = read_coeffs()
    st = Suite("C04.transitions", "whole chains of 1-20 transitions of the real samplers under scripted draws (z, u_step, u) vs the composed Lean model "
               "(momentum refresh, trajectory, Metropolis test): grid (lf,3s,4s) x (Unit,Diagonal,Full) x randomise on/off, RWMH scalar/vector, bounded and "
               "unbounded targets; every stored column and the acceptance counter; 1e-8 relative; non-trivial = chain with >= 1 accept and >= 1 reject")
    reqs, metas = [], []
    for i in range(500 if thorough else 120):
        stim, req, arr, raised, acc = chain_case(rnd, "HMC" if i % 3 else "RWMH", coeffs)
        reqs.append(req)
        metas.append((stim, arr, raised, acc))
    for (stim, arr, raised, acc), ans in zip(metas, lean_batch(reqs)):
        T = stim["T"]
        st.case(stim, nontrivial=(0 < acc < T))
        st.count(f"sampler={stim['sampler']}")
        if raised is not None:
            st.disagree(stim, "chain completes", raised, "sampler raised")
            continue
        if not ans.startswith("ok "):
            st.disagree(stim, "model answer", ans, "driver rejected the chain")
            continue
        parts = ans[3:].split(" | ")
        bad = None
        for k, part in enumerate(parts):
            r = Reader(part)
            rate = r.flt()
            mm, mx, macc = r.vec(), r.flt(), r.nat()
            # which u was used? the model replays the same script; indeterminate near the threshold
            col = arr[:, k]
            if not (common.vclose(mm, col[:-1], 1e-8, 1e-10) and common.close(mx, col[-1], 1e-8, 1e-10)):
                # was the decision numerically ambiguous?
                bad = (k, {"state": mm, "misfit": mx, "rate": rate}, {"state": col[:-1].tolist(), "misfit": float(col[-1])})
                break
        if bad is not None:
            # ambiguity check: re-ask is not possible; treat a rate within 1e-7 of some u in (0,1) conservatively
            st.disagree(stim, bad[1], bad[2], f"stored column {bad[0]} differs from the model chain")
        if len(st.samples) < 2:
            st.samples.append({"stimulus": stim, "accepted": acc})
    suites = [st]
    so, f2 = run_soak(rnd, thorough, seed)
    suites.append(so)
    findings.extend(f2)
    return suites, findings


def search(tier, seed, broken):
    """an obligation broke: first the statement's experiment focused on the configurations whose transitions disagreed (longer chains, larger
    steps: more wall contacts and more accumulated bias), then the experiment at full size"""
    rnd = random.Random(seed + 4)
    focus = []
    seen = set()
    for s_ in broken:
        for dis in s_.disagreements:
            st_ = (dis or {}).get("stimulus") or {}
            tg_, ms_ = st_.get("target"), st_.get("mass")
            boxed_ = bool(tg_.get("lb") or tg_.get("ub")) if isinstance(tg_, dict) else tg_ == "truncated"     # transition stimuli describe the target, soak configurations name it
            mass_ = ms_.get("mass") if isinstance(ms_, dict) else ms_
            if st_.get("sampler") == "HMC":
                key = (st_.get("integrator"), mass_, boxed_)
            elif st_.get("sampler") == "RWMH":
                key = ("rwmh", None, boxed_)
            else:
                continue
            if key in seen:
                continue
            seen.add(key)
            tgs = [{"target": "truncated", "mu": [0.2, -0.3], "var": [1.0, 0.5], "lo": [-1.0, -1.0], "hi": [1.5, 0.8]}] if key[2] else \
                  [{"target": "gaussian", "mu": [0.5, -1.0], "cov": [[1.0, 0.6], [0.6, 2.0]]}, {"target": "laplace", "mu": [0.3, -0.5], "b": [1.0, 0.5]}]
            for tg in tgs:
                if key[0] == "rwmh":
                    focus.append(dict(tg, sampler="RWMH", h=1.0, vector=[0.5, 1.2], K=400, long=True, runs=640))
                else:
                    mass = key[1] if not (tg["target"] == "truncated" and key[1] == "full") else "diag"
                    for h, n in ((0.35, 4), (0.9, 6)):
                        focus.append(dict(tg, sampler="HMC", integrator=key[0], mass=mass, randomize=False, h=h, n=n, K=400, long=True, runs=640,
                                          massdiag=[0.5, 2.0], massfull=(np.eye(2) * 1.5 + 0.4).tolist()))
    found = []
    if focus:
        _, found = run_soak(rnd, True, seed + 2, cfgs=focus[:8])
    if found:
        return found
    _, f = run_soak(rnd, True, seed + 1)
    return f


def replay(body):
    return False, "re-run ./check C04 (chains and soak are regenerated from the seed)"
