"""C14 — normalised misfits are true negative log-densities; generate() matches."""
import math
import random

import numpy as np

from .. import common
from ..common import Suite, Finding, fhex, vhex, Reader, lean_batch
from ..probes import ScriptedRNG, quiet
from .. import distgen

TRUSTED_EXTRA = ["C14: NumPy's primitive draws (normal, laplace, uniform, choice) are assumed to have the named laws; generate() is proved/checked to be the stated "
                 "image of those primitives",
                 "C14: the integral of exp(-misfit) is proved = 1 for the one-dimensional and the d-dimensional diagonal Normal and the one-dimensional Laplace; the full-covariance "
                 "Normal is covered by the change of variables x = mu + L z (normalFull_generate) and by the scipy comparison"]
ASSUMPTIONS = ["scipy.stats log-densities are an independent reference for the textbook densities"]


def _D():
    from hmclab import Distributions as D

    return D


def run(tier, seed):
    from scipy import stats

    rnd = random.Random(1103515245 * (seed + 3) % (1 << 31))
    thorough = tier == "thorough"
    findings = []
    D = _D()
    # ---- normalised misfit = -log pdf -----------------------------------------------------------
    st = Suite("C14.density", "Normal (scalar, per-dimension, full covariance) and Laplace after normalize(): misfit() vs scipy.stats log-density and vs the Lean "
               "model's normalisation constants at random points, all dimensions 1..5; 1e-9 relative; non-trivial = dimension >= 2")
    reqs, metas = [], []
    for _ in range(800 if thorough else 220):
        d = rnd.choice([1, 2, 3, 4, 5])
        node = distgen.leaf(rnd, d, normalized=True, allow=("normaldiag", "normalscalar", "normaldiagmatrix", "normalfull", "laplace"), bounds_p=0.0)
        x = np.array([[rnd.uniform(-3, 3)] for _ in range(d)])
        with np.errstate(all="ignore"):
            m = float(node.obj.misfit(x.copy()))
        desc = node.desc
        if desc["kind"] == "laplace":
            ref = -float(np.sum(stats.laplace.logpdf(x.ravel(), loc=np.array(desc["mu"]), scale=np.array(desc["b"]))))
        elif "var" in desc:
            ref = -float(np.sum(stats.norm.logpdf(x.ravel(), loc=np.array(desc["mu"]), scale=np.sqrt(np.array(desc["var"])))))
        else:
            ref = -float(stats.multivariate_normal.logpdf(x.ravel(), mean=np.array(desc["mu"]), cov=np.array(desc["cov"])))
        stim = {"distribution": desc, "x": x.ravel().tolist()}
        st.case(stim, nontrivial=d >= 2, sample={"kind": desc["kind"], "misfit": m, "neg_log_pdf": ref} if len(st.samples) < 3 else None)
        st.count(f"class={desc['kind']}")
        if not common.close(m, ref, 1e-9, 1e-10):
            findings.append(Finding("C14", f"{desc['kind']} after normalize(): misfit {m!r} but -log pdf = {ref!r}",
                                    {"kind": "density", "class": desc["kind"]}, {"oracle": "scipy", "stimulus": stim, "misfit": m, "neg_log_pdf": ref}))
        reqs.append(f"c05.eval {node.proto} {vhex(x)}")
        metas.append((stim, m))
    for (stim, m), ans in zip(metas, lean_batch(reqs)):
        r = Reader(ans[3:])
        mm = r.flt()
        if not common.close(mm, m, 1e-9, 1e-10):
            st.disagree(stim, mm, m, "normalised misfit differs from the model")

    # ---- generate under a scripted generator --------------------------------------------------
    sg = Suite("C14.generate", "generate(repeat, rng) of StandardNormal1D, Normal (3 encodings), Laplace, Uniform, Composite, Mixture, TransformToLogSpace (nested) under "
               "a scripted generator vs the model's image of the same primitive draws: shape (dimensions, repeat) and values (1e-12); "
               "non-trivial = repeat >= 2 and a wrapper or d >= 2")
    reqs, metas = [], []
    for _ in range(700 if thorough else 200):
        d = rnd.choice([1, 2, 3, 4])
        node = distgen.tree(rnd, d, rnd.choice([0, 1, 2]), for_generate=True)
        if not node.generable:
            continue
        rep = rnd.choice([1, 2, 3, 7])
        nz = [rnd.gauss(0, 1) for _ in range(64 * rep)]
        us = [rnd.random() for _ in range(64 * rep)]
        rng = ScriptedRNG(normals=list(nz), uniforms=list(us))
        # uniform(low, high, size) with array bounds returns low + (high-low)*u for the scripted u
        rng.uniform = _affine_uniform(rng)
        try:
            with np.errstate(all="ignore"), quiet():
                out = np.array(node.obj.generate(rep, rng=rng), dtype=float)
        except Exception as e:
            out = repr(e)
        stim = {"tree": node.desc, "repeat": rep}
        sg.case(stim, nontrivial=(rep >= 2 and (node.children or d >= 2)),
                sample={"kinds": sorted(node.kinds()), "repeat": rep, "shape": None if isinstance(out, str) else list(out.shape)} if len(sg.samples) < 3 else None)
        for k in node.kinds():
            sg.count(f"class={k}")
        if isinstance(out, str):
            sg.disagree(stim, "an array", out, "generate raised")
            findings.append(Finding("C14", f"generate raised {out}", {"kind": "generate-raise", "classes": sorted(node.kinds())}, {"stimulus": stim}))
            continue
        if out.shape != (d, rep):
            findings.append(Finding("C14", f"generate({rep}) returned shape {out.shape}, expected ({d}, {rep})", {"kind": "generate-shape", "classes": sorted(node.kinds())},
                                    {"stimulus": stim}))
        if node.kind == "composite" and out.shape == (d, rep):
            # the draws of a product density: block k of generate() is a draw of part k - the blocks in their order, every block written,
            # also when one and the same object stands for several blocks
            gseed = rnd.randrange(1 << 30)
            try:
                with np.errstate(all="ignore"), quiet():
                    whole = np.array(node.obj.generate(rep, rng=np.random.default_rng(gseed)), dtype=float)
                    g2 = np.random.default_rng(gseed)
                    blocks = np.vstack([np.array(c.obj.generate(rep, rng=g2), dtype=float) for c in node.children])
                if whole.shape != blocks.shape or not np.array_equal(whole, blocks, equal_nan=True):
                    rows_bad = [i for i in range(min(len(whole), len(blocks))) if not np.array_equal(whole[i], blocks[i], equal_nan=True)]
                    findings.append(Finding("C14", f"CompositeDistribution.generate({rep}): rows {rows_bad[:6]} are not the draws of the parts in their blocks"
                                            + (" (one object stands for several blocks)" if len({id(c.obj) for c in node.children}) < len(node.children) else ""),
                                            {"kind": "generate-blocks"}, {"stimulus": stim, "generator_seed": gseed}))
            except Exception:
                pass
        reqs.append(f"c14.generate {node.proto} {rep} {vhex(nz)} {vhex(us)}")
        metas.append((stim, out, len(nz) - len(rng.normals), len(us) - len(rng.uniforms)))
    for (stim, out, used_n, used_u), ans in zip(metas, lean_batch(reqs)):
        if not ans.startswith("ok "):
            sg.disagree(stim, "model answer", ans, "driver rejected")
            continue
        parts = ans[3:].split(" | ")
        r = Reader(parts[0])
        rows = [r.vec() for _ in range(r.nat())]
        marr = np.array(rows, dtype=float) if rows else np.zeros((0, 0))
        if marr.shape != out.shape or not np.allclose(marr, out, rtol=1e-12, atol=1e-13, equal_nan=True):
            sg.disagree(stim, marr.tolist(), out.tolist(), "generate differs from the model's image of the same draws")

    # ---- mixtures: the density generate() draws from, under every history of the components ------
    sx = Suite("C14.mixture", "Mixture of Normal (3 encodings) / Laplace components: misfit() vs the textbook mixture density -log sum_i p_i pdf_i(x) (scipy), where the "
               "components are fresh, already normalised (1-3 calls), shared between two mixtures, or re-used after the mixture was built; afterwards every component's own "
               "misfit vs its textbook density; 1e-9; non-trivial = >= 2 components with different histories")
    def logpdf(desc, x):
        if desc["kind"] == "laplace":
            return float(np.sum(stats.laplace.logpdf(x.ravel(), loc=np.array(desc["mu"]), scale=np.array(desc["b"]))))
        if "var" in desc:
            return float(np.sum(stats.norm.logpdf(x.ravel(), loc=np.array(desc["mu"]), scale=np.sqrt(np.array(desc["var"])))))
        return float(stats.multivariate_normal.logpdf(x.ravel(), mean=np.array(desc["mu"]), cov=np.array(desc["cov"])))
    for _ in range(240 if thorough else 80):
        d = rnd.choice([1, 2, 3])
        k = rnd.choice([1, 2, 3])
        hist = [rnd.choice(["fresh", "prenormalised", "shared"]) for _ in range(k)]
        comps = [distgen.leaf(rnd, d, normalized=(h != "fresh"), allow=("normaldiag", "normalscalar", "normaldiagmatrix", "normalfull", "laplace"), bounds_p=0.0) for h in hist]
        w = np.array([rnd.uniform(0.2, 1.0) for _ in range(k)])
        w = w / w.sum()
        with np.errstate(all="ignore"), quiet():
            for c, h in zip(comps, hist):
                if h == "shared":
                    D.Mixture([c.obj], [1.0])          # an earlier mixture that holds the same object
            mix = D.Mixture([c.obj for c in comps], list(w))
            if rnd.random() < 0.3:
                D.Mixture([c.obj for c in comps][::-1], list(w[::-1]))   # and a later one
        x = np.array([[rnd.uniform(-3, 3)] for _ in range(d)])
        with np.errstate(all="ignore"):
            m = float(mix.misfit(x.copy()))
            own = [float(c.obj.misfit(x.copy())) for c in comps]
        lps = [logpdf(c.desc, x) for c in comps]
        ref = -float(np.log(np.sum(w * np.exp(np.array(lps)))))
        stim = {"components": [c.desc for c in comps], "histories": hist, "weights": w.tolist(), "x": x.ravel().tolist()}
        sx.case(stim, nontrivial=(k >= 2 and len(set(hist)) >= 2), sample={"histories": hist, "misfit": m, "neg_log_density": ref} if len(sx.samples) < 3 else None)
        for h in hist:
            sx.count(f"history={h}")
        if not common.close(m, ref, 1e-9, 1e-10):
            findings.append(Finding("C14", f"Mixture of components with histories {hist}: misfit {m!r} but -log of the mixture density = {ref!r}",
                                    {"kind": "mixture-density"}, {"oracle": "scipy", "stimulus": stim, "misfit": m, "neg_log_density": ref}))
        for c, o, lp, h in zip(comps, own, lps, hist):
            if not common.close(o, -lp, 1e-9, 1e-10):
                findings.append(Finding("C14", f"{c.desc['kind']} component ({h}) after being placed in a Mixture: misfit {o!r} but -log pdf = {-lp!r}",
                                        {"kind": "density", "class": c.desc["kind"]}, {"oracle": "scipy", "stimulus": stim, "misfit": o, "neg_log_pdf": -lp}))
                break

    # ---- histories of one object: the constant it carries --------------------------------------
    sh = Suite("C14.history", "one Normal/Laplace object through a random history of normalize() / Mixture([obj],[1]) / misfit() calls (length 0-6): "
               "normalization_constant vs the model's normRun, and misfit vs scipy (-log pdf once normalised, the bare exponent before); "
               "non-trivial = >= 2 normalising operations in the history")
    reqs, metas = [], []
    allow = ("normaldiag", "normalscalar", "normaldiagmatrix", "normalfull", "laplace")
    for _ in range(400 if thorough else 120):
        d = rnd.choice([1, 2, 3])
        state = rnd.getstate()
        node = distgen.leaf(rnd, d, normalized=False, allow=allow, bounds_p=0.0)
        r2 = random.Random()
        r2.setstate(state)
        flagged = distgen.leaf(r2, d, normalized=True, allow=allow, bounds_p=0.0)      # same parameters; supplies the model term with the flag set
        ops = [rnd.choice([0, 0, 1, 2, 2]) for _ in range(rnd.choice([0, 1, 2, 3, 4, 6]))]
        # drawing samples is a use of the object like evaluating it: it leaves the density (and its constant) alone, whenever it happens
        r3 = random.Random(hash(tuple(ops)) ^ 0x1F123BB5)
        ops = [3 if (o == 2 and r3.random() < 0.5) else o for o in ops]
        if r3.random() < 0.4:
            ops = [3] + ops
        x = np.array([[rnd.uniform(-3, 3)] for _ in range(d)])
        with np.errstate(all="ignore"), quiet():
            for o in ops:
                if o == 0:
                    node.obj.normalize()
                elif o == 1:
                    D.Mixture([node.obj], [1.0])
                elif o == 3:
                    node.obj.generate(r3.choice([1, 3]), rng=np.random.default_rng(5))
                else:
                    node.obj.misfit(x.copy())
            const = float(node.obj.normalization_constant)
            m = float(node.obj.misfit(x.copy()))
        normalised = any(o in (0, 1) for o in ops)
        lp = logpdf(node.desc, x)
        stim = {"distribution": node.desc, "ops": ["normalize", "Mixture([obj])", "misfit"][0:0] + [("normalize", "mixture", "misfit", "generate")[o] for o in ops], "x": x.ravel().tolist()}
        sh.case(stim, nontrivial=sum(1 for o in ops if o in (0, 1)) >= 2, sample={"ops": stim["ops"], "constant": const} if len(sh.samples) < 3 else None)
        sh.count("normalised" if normalised else "never normalised")
        if normalised and not common.close(m, -lp, 1e-9, 1e-10):
            findings.append(Finding("C14", f"{node.desc['kind']} after the history {stim['ops']}: misfit {m!r} but -log pdf = {-lp!r}",
                                    {"kind": "density", "class": node.desc["kind"]}, {"oracle": "scipy", "stimulus": stim, "misfit": m, "neg_log_pdf": -lp}))
        reqs.append(f"c14.norm {flagged.proto} {len(ops)} {' '.join(str(2 if o == 3 else o) for o in ops)}".rstrip())   # the model knows evaluations only: generate = evaluate
        metas.append((stim, const))
    for (stim, const), ans in zip(metas, lean_batch(reqs)):
        if not ans.startswith("ok "):
            sh.disagree(stim, "model answer", ans, "driver rejected")
            continue
        mc = Reader(ans[3:]).flt()
        if not common.close(mc, const, 1e-9, 1e-10):
            sh.disagree(stim, mc, const, "normalization_constant differs from the model after this history")

    # ---- many dimensions: the constant must not under- or overflow ---------------------------------
    sd = Suite("C14.dimensions", "Normal (scalar, per-dimension, full diagonal-matrix covariance), Laplace and log-normal (TransformToLogSpace) with 50-600 dimensions and variances / parameters far from 1 "
               "(the determinant itself under- or overflows, its logarithm does not): misfit after normalize() vs scipy and vs the model; 1e-9 relative; non-trivial = all")
    reqs, metas = [], []
    for _ in range(60 if thorough else 16):
        d = rnd.choice([50, 120, 300, 400, 600])
        scale = rnd.choice([0.01, 0.03, 0.2, 5.0, 30.0, 200.0])
        enc = rnd.choice(["normalscalar", "normaldiag", "normalfull", "laplace", "logt"])
        force_small_base = len(metas) == 0          # every run has a log-normal with a base below one
        if force_small_base:
            enc = "logt"
        mu = np.array([[rnd.uniform(-1, 1)] for _ in range(d)])
        x = mu + np.array([[rnd.gauss(0, 1) * math.sqrt(scale)] for _ in range(d)])
        if enc == "logt":
            # a log-normal in many dimensions, evaluated where the parameters are far from 1: the Jacobian's determinant
            # under- or overflows, its logarithm (sum of the logarithms of its diagonal) does not
            base = 0.5 if force_small_base else rnd.choice([10.0, math.e, 2.0, 0.5, 0.1])
            centre = rnd.choice([2.5, -6.0, 8.0, 0.0])
            mu = np.array([[centre + rnd.uniform(-0.3, 0.3)] for _ in range(d)])
            var = np.array([[rnd.uniform(0.5, 1.5)] for _ in range(d)])
            y = mu + np.array([[rnd.gauss(0, 1) * math.sqrt(v)] for v in var.ravel()])
            x = base ** y
            inner = D.Normal(mu.copy(), var.copy())
            inner.normalize()
            obj = D.TransformToLogSpace(inner, base=base)
            with np.errstate(all="ignore"):
                m = float(obj.misfit(x.copy()))
            ref = -float(np.sum(stats.norm.logpdf(y.ravel(), loc=mu.ravel(), scale=np.sqrt(var.ravel())))) + float(np.sum(np.log(x.ravel() * abs(math.log(base)))))
            stim = {"encoding": enc, "dimensions": d, "base": base, "centre": centre, "seed_case": len(metas)}
            sd.case(stim, nontrivial=True, sample=dict(stim, misfit=m, neg_log_density=ref) if len(sd.samples) < 3 else None)
            sd.count(f"encoding={enc}")
            if not common.close(m, ref, 1e-9, 1e-9):
                findings.append(Finding("C14", f"TransformToLogSpace(Normal) with {d} dimensions around {base}^{centre}: misfit {m!r}, -log of the log-normal density = {ref!r}",
                                        {"kind": "density", "class": enc, "many_dimensions": True},
                                        {"oracle": "scipy", "stimulus": dict(stim, mu=mu.ravel().tolist(), var=var.ravel().tolist(), x=x.ravel().tolist()), "misfit": m, "neg_log_density": ref}))
            reqs.append(f"c05.eval logt {fhex(base)} normaldiag {vhex(mu)} {vhex(var)} 1 - - - - {vhex(x)}")
            metas.append((stim, m))
            continue
        if enc == "laplace":
            b = np.array([[scale * rnd.uniform(0.5, 2.0)] for _ in range(d)])
            obj = D.Laplace(mu.copy(), b.copy())
            desc = {"kind": "laplace", "mu": mu.ravel().tolist(), "b": b.ravel().tolist()}
            proto = f"laplace {vhex(mu)} {vhex(b)} 1 - -"
        else:
            var = np.array([[scale * rnd.uniform(0.5, 2.0)] for _ in range(d)])
            if enc == "normalscalar":
                var = np.ones((d, 1)) * var[0, 0]
                obj = D.Normal(mu.copy(), float(var[0, 0]))
            elif enc == "normaldiag":
                obj = D.Normal(mu.copy(), var.copy())
            else:
                obj = D.Normal(mu.copy(), np.diag(var.ravel()))
            desc = {"kind": enc, "mu": mu.ravel().tolist(), "var": var.ravel().tolist()}
            proto = f"normaldiag {vhex(mu)} {vhex(var)} 1 - -"
        with np.errstate(all="ignore"):
            obj.normalize()
            m = float(obj.misfit(x.copy()))
        ref = -logpdf(desc, x)
        stim = {"encoding": enc, "dimensions": d, "scale": scale, "seed_case": len(metas)}
        sd.case(dict(stim, mu0=float(mu[0, 0])), nontrivial=True, sample={"encoding": enc, "dimensions": d, "scale": scale, "misfit": m, "neg_log_pdf": ref} if len(sd.samples) < 3 else None)
        sd.count(f"encoding={enc}")
        if not common.close(m, ref, 1e-9, 1e-9):
            findings.append(Finding("C14", f"{enc} with {d} dimensions and variances/dispersions of order {scale}: misfit after normalize() is {m!r}, -log pdf = {ref!r}",
                                    {"kind": "density", "class": enc, "many_dimensions": True},
                                    {"oracle": "scipy", "stimulus": dict(stim, distribution=desc, x=x.ravel().tolist()), "misfit": m, "neg_log_pdf": ref}))
        reqs.append(f"c05.eval {proto} {vhex(x)}")
        metas.append((stim, m))
    for (stim, m), ans in zip(metas, lean_batch(reqs)):
        mm = Reader(ans[3:]).flt()
        if not common.close(mm, m, 1e-9, 1e-9):
            sd.disagree(stim, mm, m, "normalised misfit in many dimensions differs from the model")

    # ---- which component a Mixture draws from ------------------------------------------------------
    sw = Suite("C14.mixture_draws", "Mixture.generate() with well separated components (means 1000 apart), weights incl. zeros and tiny values on non-final components, "
               "large batches and many batches of 1-3 draws (where some component gets no draw): the fraction of columns next to component i vs its weight "
               "(binomial |z| < 6; exactly 0 for weight 0), shape (dimensions, repeat); non-trivial = a non-final component with weight 0 or batches of <= 3")
    grng = np.random.default_rng(seed * 31 + 14)
    for ci in range(40 if thorough else 12):
        d = rnd.choice([1, 2])
        k = rnd.choice([2, 3, 4])
        w = np.array([rnd.uniform(0.2, 1.0) for _ in range(k)])
        special = rnd.choice(["zero", "zero", "tiny", "none"])
        if special == "zero":
            w[rnd.randrange(k - 1)] = 0.0
        elif special == "tiny":
            w[rnd.randrange(k - 1)] = 1e-9
        w = w / w.sum()
        comps = [D.Normal(np.full((d, 1), 1000.0 * i), 1.0) for i in range(k)]
        with quiet():
            mix = D.Mixture(comps, list(w))
        small = rnd.random() < 0.5
        rep, batches = (rnd.choice([1, 2, 3]), 400) if small else (4000, 1)
        counts = np.zeros(k)
        first = np.zeros(k)          # component of the FIRST column of each batch: every column is a draw from the mixture
        bad_shape = None
        with np.errstate(all="ignore"):
            for _ in range(batches):
                try:
                    X = np.array(mix.generate(rep, rng=grng), dtype=float)
                except Exception as e:
                    bad_shape = f"raised {e!r}"
                    break
                if X.shape != (d, rep):
                    bad_shape = X.shape
                    break
                idx = np.clip(np.rint(X[0, :] / 1000.0), 0, k - 1).astype(int)
                counts += np.bincount(idx, minlength=k)
                first[idx[0]] += 1
        n = counts.sum()
        stim = {"weights": w.tolist(), "dimensions": d, "repeat": rep, "batches": batches}
        sw.case(stim, nontrivial=(special == "zero" or small), sample=dict(stim, fractions=(counts / max(n, 1)).tolist()) if len(sw.samples) < 3 else None)
        sw.count(f"weights: {special}")
        sw.count("batches of <= 3" if small else "one large batch")
        problem = None
        if bad_shape is not None:
            problem = f"generate({rep}) {'returned shape ' + str(bad_shape) if not isinstance(bad_shape, str) else bad_shape}, expected an array of shape {(d, rep)}"
        else:
            for i in range(k):
                if w[i] == 0.0 and counts[i] > 0:
                    problem = f"{int(counts[i])} of {int(n)} columns were drawn from component {i}, whose weight is 0"
                    break
                sd_ = math.sqrt(max(n * w[i] * (1 - w[i]), 1e-12))
                if w[i] > 0 and abs(counts[i] - n * w[i]) > 6 * sd_ + 1:
                    problem = f"component {i} (weight {w[i]:.4g}) produced {int(counts[i])} of {int(n)} columns, expected about {n * w[i]:.1f}"
                    break
        if problem is None and small and rep >= 2:
            for i in range(k):
                sd_ = math.sqrt(max(batches * w[i] * (1 - w[i]), 1e-12))
                if abs(first[i] - batches * w[i]) > 6 * sd_ + 1:
                    problem = (f"the first column of generate({rep}) comes from component {i} (weight {w[i]:.4g}) in {int(first[i])} of {batches} batches, expected about "
                               f"{batches * w[i]:.1f}: the columns are not individually distributed according to the mixture")
                    break
        if problem:
            findings.append(Finding("C14", "Mixture.generate: " + problem, {"kind": "mixture-draws"}, {"oracle": "component frequencies", "stimulus": stim, "counts": counts.tolist()}))

    # ---- laws of the leaf samplers (moderate batches, every run) -----------------------------------
    slw = Suite("C14.laws", "generate(20000) of StandardNormal1D (temperatures 0.25-100), Normal (3 encodings), Laplace, Uniform: mean and variance of every coordinate vs the "
                "density misfit describes (|z| < 6 for the mean, 5% for the variance); non-trivial = temperature != 1 or dimension >= 2")
    lrng = np.random.default_rng(seed * 17 + 140)
    for ci in range(24 if thorough else 10):
        kind = ["stdnormal", "stdnormal", "normaldiag", "normalfull", "laplace", "uniform"][ci % 6]
        d = 1 if kind == "stdnormal" else rnd.choice([1, 2, 3])
        if kind == "stdnormal":
            T = rnd.choice([0.25, 4.0, 100.0, 1.0, 2.5])
            obj, mean, var = D.StandardNormal1D(temperature=T), np.zeros(1), np.array([T])   # misfit m^2 / (2T): N(0, T)
            desc = {"kind": kind, "temperature": T}
        elif kind == "uniform":
            lo = np.array([[rnd.uniform(-3, 0)] for _ in range(d)])
            hi = lo + np.array([[rnd.uniform(0.5, 4)] for _ in range(d)])
            obj, mean, var = D.Uniform(lo.copy(), hi.copy()), ((lo + hi) / 2).ravel(), ((hi - lo) ** 2 / 12).ravel()
            desc = {"kind": kind, "lb": lo.ravel().tolist(), "ub": hi.ravel().tolist()}
        else:
            node = distgen._leaf(rnd, d, allow=(kind,), bounds_p=0.0)
            obj, desc = node.obj, node.desc
            mean = np.array(desc["mu"])
            var = 2 * np.array(desc["b"]) ** 2 if kind == "laplace" else (np.array(desc["var"]) if "var" in desc else np.diag(np.array(desc["cov"])))
        N = 20000
        with np.errstate(all="ignore"):
            X = np.array(obj.generate(N, rng=lrng), dtype=float)
        slw.case(desc, nontrivial=(desc.get("temperature", 1.0) != 1.0 or d >= 2), sample=dict(desc, sample_var=X.var(1).tolist()) if len(slw.samples) < 3 else None)
        slw.count(f"class={kind}")
        if X.shape != (d, N):
            findings.append(Finding("C14", f"{kind}.generate({N}) returned shape {X.shape}", {"kind": "generate-shape", "classes": [kind]}, {"stimulus": desc}))
            continue
        z = (X.mean(1) - mean) / np.sqrt(var / N)
        if np.max(np.abs(z)) > 6 or np.max(np.abs(X.var(1) / var - 1)) > 0.05:
            findings.append(Finding("C14", f"{kind}.generate: batch mean/variance {X.mean(1).tolist()} / {X.var(1).tolist()} but the density misfit describes has "
                                    f"{mean.tolist()} / {var.tolist()}", {"kind": "moments", "class": kind}, {"desc": desc}))

    # ---- bounds boxes ("for all ... bounds boxes") ---------------------------------------------------
    sbx = Suite("C14.boxes", "box-bounded Normal (per-dimension, full), Laplace and Composite (own bounds): the share of generate(4000) columns that lie where misfit() is +inf, "
                "and the integral of exp(-misfit) of a normalised 1-D bounded Normal / Laplace over its box (trapezoid rule on 20001 points); non-trivial = all")
    D = _D()
    rngb = np.random.default_rng(seed + 1414)
    for ci in range(6 if thorough else 3):
        d = rnd.choice([1, 2])
        lo = np.array([[rnd.choice([-0.5, -1.0, 0.0])] for _ in range(d)])
        hi = lo + np.array([[rnd.choice([0.8, 1.5])] for _ in range(d)])
        kind = ["normaldiag", "laplace", "composite", "normalfull"][ci % 4]
        if kind == "normaldiag":
            obj = D.Normal(np.zeros((d, 1)), np.ones((d, 1)), lower_bounds=lo.copy(), upper_bounds=hi.copy())
        elif kind == "normalfull":
            obj = D.Normal(np.zeros((d, 1)), np.eye(d) + 0.3 * (np.ones((d, d)) - np.eye(d)), lower_bounds=lo.copy(), upper_bounds=hi.copy())
        elif kind == "laplace":
            obj = D.Laplace(np.zeros((d, 1)), np.ones((d, 1)), lower_bounds=lo.copy(), upper_bounds=hi.copy())
        else:
            obj = D.CompositeDistribution([D.Normal(np.zeros((1, 1)), 1.0) for _ in range(d)], lower_bounds=lo.copy(), upper_bounds=hi.copy())
        stim = {"class": kind, "d": d, "lower": lo.ravel().tolist(), "upper": hi.ravel().tolist()}
        sbx.case(stim, nontrivial=True, sample=stim if len(sbx.samples) < 2 else None)
        sbx.count(f"class={kind}")
        with np.errstate(all="ignore"):
            X = np.array(obj.generate(4000, rng=rngb), dtype=float)
            zero_density = sum(1 for j in range(X.shape[1]) if float(obj.misfit(X[:, [j]])) == np.inf)
        problems = []
        if zero_density:
            problems.append(f"{zero_density} of {X.shape[1]} columns of generate() lie outside the box, where misfit() is +inf (density zero)")
        if d == 1 and kind in ("normaldiag", "laplace"):
            obj.normalize()
            xs = np.linspace(lo[0, 0], hi[0, 0], 20001)
            dens = np.array([math.exp(-float(obj.misfit(np.array([[x]])))) for x in xs])
            integral = float(np.sum((dens[1:] + dens[:-1]) * 0.5 * np.diff(xs)))
            if abs(integral - 1.0) > 1e-3:
                problems.append(f"after normalize() exp(-misfit) integrates to {integral:.4f} over the support [{lo[0, 0]}, {hi[0, 0]}], not to one")
        if problems:
            findings.append(Finding("C14", f"box-bounded {kind}: " + "; ".join(problems), {"kind": "box-ignored-by-generate-and-normalize"}, {"oracle": "boxes", "stimulus": stim, "problems": problems}))

    suites = [st, sh, sx, sd, sw, slw, sg, sbx]
    # ---- thorough: large batches vs closed-form moments (supporting) -----------------------------
    if thorough:
        sm = Suite("C14.moments", "large i.i.d. batches of generate() vs closed-form first/second moments (|z| < 6): supporting evidence for 'columns are distributed "
                   "according to the density misfit describes'; non-trivial = all")
        rng = np.random.default_rng(seed + 14)
        for name in ("normaldiag", "normalfull", "laplace"):
            for _ in range(4):
                d = rnd.choice([1, 2, 3])
                node = distgen.leaf(rnd, d, allow=(name,), bounds_p=0.0)
                N = 200000
                X = np.array(node.obj.generate(N, rng=rng), dtype=float)
                desc = node.desc
                mu = np.array(desc["mu"])
                if name == "laplace":
                    var = 2 * np.array(desc["b"]) ** 2
                elif "var" in desc:
                    var = np.array(desc["var"])
                else:
                    var = np.diag(np.array(desc["cov"]))
                z1 = (X.mean(1) - mu) / np.sqrt(var / N)
                sm.case({"class": name, "d": d}, sample={"class": name, "z_mean": z1.tolist()} if len(sm.samples) < 2 else None)
                if np.max(np.abs(z1)) > 6 or np.max(np.abs(X.var(1) / var - 1)) > 0.05:
                    sm.disagree(desc, "moments of the density", {"z": z1.tolist()}, "generate batch moments")
                    findings.append(Finding("C14", f"{name}.generate batch moments differ from the density's", {"kind": "moments", "class": name}, {"desc": desc}))
        suites.append(sm)
    return suites, findings


def _affine_uniform(rng):
    def uniform(low=0.0, high=1.0, size=None):
        n = int(np.prod(size)) if size is not None else 1
        vals = rng._take(rng.uniforms, n, "uniform")
        rng.log.append(("uniform", size, None, None))
        u = np.array(vals, dtype=float)
        u = u.reshape(size) if size is not None else float(u[0])
        return low + (high - low) * u

    return uniform


def search(tier, seed, broken):
    return []


def replay(body):
    return False, "re-run ./check C14 (cases are regenerated from the seed)"
