"""C01 — HMC integrators are reversible, volume-preserving splitting schemes."""
import math
import os
import random

import numpy as np

from .. import common
from ..common import Suite, Finding, fhex, vhex, mhex, opt, Reader, lean_batch
from ..probes import ScriptedRNG, Lin, lin_vec, quiet, scratch

TRUSTED_EXTRA = [
    "C01: theorems are over exact real arithmetic; float64 round trip closes to rounding error only",
    "C01: boxed reversibility proved for Unit/Diagonal metrics in the single-bounce regime (states on a bound / double bounce excluded by explicit hypotheses)",
]
ASSUMPTIONS = ["integrators call only gradient/corrector/kinetic_energy_gradient (checked by the tracer)"]


def _hm():
    import hmclab
    from hmclab import Samplers, MassMatrices, Distributions

    return hmclab, Samplers, MassMatrices, Distributions


# ----------------------------------------------------------------------------- tracer probes
def make_probes(d):
    _, S, MM, D = _hm()
    events = []

    class ProbeDist(D._AbstractDistribution):
        dimensions = d
        name = "probe"

        def misfit(self, m):
            return 0.0

        def gradient(self, m):
            k = sum(1 for e in events if e[0] == "grad")
            events.append(("grad", k, m.copy()))
            return lin_vec(f"G{k}", d)

        def corrector(self, coordinates, momentum):
            events.append(("corr", coordinates.copy(), momentum.copy()))

        def generate(self, repeat=1, rng=None):
            raise NotImplementedError

    class ProbeMass(MM._AbstractMassMatrix):
        name = "probe mass"

        def __init__(self):
            self.dimensions = d

        def kinetic_energy(self, p):
            return 0.0

        def kinetic_energy_gradient(self, momentum, position=None, g=None):
            k = sum(1 for e in events if e[0] == "vel")
            events.append(("vel", k, momentum.copy()))
            return lin_vec(f"V{k}", d)

        def generate_momentum(self):
            return lin_vec("p", d)

        @property
        def matrix(self):
            return np.eye(d)

    return ProbeDist(), ProbeMass(), events


def trace_once(integ, n, h, randomize, u, d, visual=False, animate=False):
    """One-proposal run of the real sampler on symbolic state. Returns dict with the observed op
    list, argument-consistency verdicts, the draw log."""
    _, S, MM, D = _hm()
    dist, mass, events = make_probes(d)
    base = S.HMC_visual if visual else S.HMC
    result = {}

    class TraceHMC(base):
        def _propose(self):
            saved = self.current_model
            self.current_model = lin_vec("q", d)
            try:
                super()._propose()
                result["q"] = self.proposed_model.copy()
                result["p"] = self.proposed_momentum.copy()
            finally:
                self.current_model = saved
            self.proposed_model = saved.copy()
            self.proposed_momentum = np.zeros((d, 1))
            self.current_momentum = np.zeros((d, 1))

    if visual:
        sampler = TraceHMC(seed=1, animate_proposals=animate)
    else:
        sampler = TraceHMC(seed=1)
    rng = ScriptedRNG(normals=[], uniforms=([u] if randomize else []) + [0.5])
    sampler.rng = rng
    with scratch() as tmp, quiet():
        sampler.sample(
            os.path.join(tmp, "t.h5"),
            dist,
            stepsize=h,
            randomize_stepsize=randomize,
            amount_of_steps=n,
            mass_matrix=mass,
            integrator=integ,
            initial_model=np.zeros((d, 1)),
            proposals=1,
            online_thinning=1,
            overwrite_existing_file=True,
            disable_progressbar=True,
        )
        if visual:
            import matplotlib.pyplot as plt

            plt.close("all")
    q, p = result["q"], result["p"]
    # coefficients per symbol, must be identical across coordinates
    ok_uniform = True
    qc, pc = {}, {}
    for i in range(d):
        for sym, c in q[i, 0].t.items():
            base_, idx = sym.split("[")
            if int(idx[:-1]) != i:
                ok_uniform = False
            if base_ in qc and not common.bits_equal(qc[base_], c):
                ok_uniform = False
            qc[base_] = c
        for sym, c in p[i, 0].t.items():
            base_, idx = sym.split("[")
            if int(idx[:-1]) != i:
                ok_uniform = False
            if base_ in pc and not common.bits_equal(pc[base_], c):
                ok_uniform = False
            pc[base_] = c
    ops = []
    arg_ok = True
    order_ok = True
    q_exp = lin_vec("q", d)
    p_exp = lin_vec("p", d)
    pending_corr = False
    for e in events:
        if e[0] == "vel":
            if pending_corr:
                order_ok = False
            c = qc.get(f"V{e[1]}", 0.0)
            ops.append(("D", c))
            if not _lin_eq(e[2], p_exp):
                arg_ok = False
            q_exp = q_exp + c * lin_vec(f"V{e[1]}", d)
            pending_corr = True
        elif e[0] == "corr":
            if not pending_corr:
                order_ok = False
            pending_corr = False
            if not (_lin_eq(e[1], q_exp) and _lin_eq(e[2], p_exp)):
                arg_ok = False
        else:
            if pending_corr:
                order_ok = False
            c = -pc.get(f"G{e[1]}", 0.0)
            ops.append(("K", c))
            if not _lin_eq(e[2], q_exp):
                arg_ok = False
            p_exp = p_exp - c * lin_vec(f"G{e[1]}", d)
    if pending_corr:
        order_ok = False
    final_ok = _lin_eq(q, q_exp) and _lin_eq(p, p_exp) and qc.get("q") == 1.0 and pc.get("p") == 1.0
    extra = [k for k in qc if k != "q" and not k.startswith("V")] + [k for k in pc if k != "p" and not k.startswith("G")]
    return {
        "ops": ops,
        "uniform_coeffs": ok_uniform,
        "args_current": arg_ok,
        "drift_then_corrector": order_ok,
        "final_is_sum": final_ok and not extra,
        "draws": list(rng.log),
    }


def _lin_eq(a, b):
    a = a.reshape(-1)
    b = b.reshape(-1)
    if len(a) != len(b):
        return False
    for x, y in zip(a, b):
        if not (isinstance(x, Lin) and isinstance(y, Lin)):
            return False
        kx = {k: v for k, v in x.t.items() if v != 0.0}
        ky = {k: v for k, v in y.t.items() if v != 0.0}
        if set(kx) != set(ky):
            return False
        for k in kx:
            if not common.bits_equal(kx[k], ky[k]):
                return False
    return True


def read_coeffs():
    """Read the multi-stage constants off the code (stepsize 1, one step)."""
    t3 = trace_once("3s", 1, 1.0, False, 1.0, 1)["ops"]
    t4 = trace_once("4s", 1, 1.0, False, 1.0, 1)["ops"]
    d3 = [c for k, c in t3 if k == "D"]
    k3 = [c for k, c in t3 if k == "K"]
    d4 = [c for k, c in t4 if k == "D"]
    k4 = [c for k, c in t4 if k == "K"]
    return [d3[0], k3[0], d4[0], d4[1], k4[0]]


def fmt_ops(ops):
    return " ".join([str(len(ops))] + [k + fhex(c) for k, c in ops])


# ----------------------------------------------------------------------------- property oracles on a trace
def trace_property(ops, h_local, n):
    """palindrome + time sums on an observed op list (the property's own wording)."""
    problems = []
    fused = [(k, fhex(c)) for k, c in ops]
    if fused != fused[::-1]:
        problems.append("not palindromic")
    sd = sum(c for k, c in ops if k == "D")
    sk = sum(c for k, c in ops if k == "K")
    tot = n * h_local
    if abs(sd - tot) > 1e-9 * max(1.0, abs(tot)):
        problems.append(f"drift times sum to {sd!r}, expected {tot!r}")
    if abs(sk - tot) > 1e-9 * max(1.0, abs(tot)):
        problems.append(f"kick times sum to {sk!r}, expected {tot!r}")
    return problems


# ----------------------------------------------------------------------------- numeric one-proposal runs
def make_target(rnd, kind, d, boxed):
    """returns (hmclab distribution, model target string, model box string, dict description)"""
    _, S, MM, D = _hm()
    lb = ub = None
    if boxed:
        lb = np.array([[rnd.choice([-1.0, -0.5, -2.0, -math.inf])] for _ in range(d)])
        ub = np.array([[rnd.choice([1.0, 0.7, 2.5, math.inf])] for _ in range(d)])
        if rnd.random() < 0.15:
            lb = None
        elif rnd.random() < 0.15:
            ub = None
    desc = {"kind": kind, "d": d, "lb": None if lb is None else lb.ravel().tolist(), "ub": None if ub is None else ub.ravel().tolist()}
    if kind == "normaldiag":
        mu = np.array([[rnd.uniform(-0.5, 0.5)] for _ in range(d)])
        var = np.array([[rnd.choice([0.25, 1.0, 2.0, rnd.uniform(0.3, 3.0)])] for _ in range(d)])
        dist = D.Normal(mu.copy(), var.copy(), lower_bounds=lb, upper_bounds=ub)
        tstr = f"normaldiag {vhex(mu)} {vhex(1.0 / var)}"
        desc.update(mu=mu.ravel().tolist(), var=var.ravel().tolist())
    elif kind == "stdnormal":
        T = rnd.choice([1.0, 2.0, 0.5, 3.7])
        dist = D.StandardNormal1D(temperature=T)
        dist.update_bounds(lb, ub)
        tstr = f"stdnormal {fhex(T)}"
        desc.update(T=T)
    elif kind == "himmelblau":
        T = rnd.choice([1.0, 10.0, 100.0, 37.5])
        dist = D.Himmelblau(temperature=T)
        dist.update_bounds(lb, ub)
        tstr = f"himmelblau {fhex(T)}"
        desc.update(T=T)
    elif kind == "uniform":
        lb = np.array([[rnd.choice([-1.0, -0.5, -2.0])] for _ in range(d)])
        ub = np.array([[rnd.choice([1.0, 0.7, 2.5])] for _ in range(d)])
        dist = D.Uniform(lb.copy(), ub.copy())
        tstr = f"uniform {d}"
        desc.update(lb=lb.ravel().tolist(), ub=ub.ravel().tolist())
    elif kind == "laplace":
        mu = np.array([[rnd.uniform(-0.5, 0.5)] for _ in range(d)])
        b = np.array([[rnd.choice([0.5, 1.0, 2.0])] for _ in range(d)])
        dist = D.Laplace(mu.copy(), b.copy(), lower_bounds=lb, upper_bounds=ub)
        tstr = f"laplace {vhex(mu)} {vhex(1.0 / b)}"
        desc.update(mu=mu.ravel().tolist(), b=b.ravel().tolist())
    else:
        raise ValueError(kind)
    bstr = f"{opt(None if lb is None else vhex(lb))} {opt(None if ub is None else vhex(ub))}"
    return dist, tstr, bstr, desc, lb, ub


def make_mass(rnd, kind, d):
    _, S, MM, D = _hm()
    if kind == "unit":
        return MM.Unit(d), "unit", {"mass": "unit"}
    if kind == "diag":
        diag = np.array([[rnd.choice([0.5, 1.0, 2.0, 4.0, rnd.uniform(0.2, 5.0)])] for _ in range(d)])
        return MM.Diagonal(diag.copy()), f"diag {vhex(1.0 / diag)} {vhex(np.sqrt(diag))}", {"mass": "diag", "diag": diag.ravel().tolist()}
    a = np.array([[rnd.uniform(-1, 1) for _ in range(d)] for _ in range(d)])
    m = a @ a.T + d * np.eye(d) * rnd.choice([0.5, 1.0])
    m = 0.5 * (m + m.T)
    L = np.linalg.cholesky(m)
    return MM.Full(m.copy()), f"full {mhex(L)}", {"mass": "full", "matrix": m.tolist()}


def inside_start(rnd, d, lb, ub):
    q = []
    for i in range(d):
        lo = -0.9 if lb is None or math.isinf(lb[i, 0]) else lb[i, 0]
        hi = 0.9 if ub is None or math.isinf(ub[i, 0]) else ub[i, 0]
        q.append([lo + (hi - lo) * rnd.uniform(0.05, 0.95)])
    return np.array(q)


class PinnedHMC:
    """Runs one real proposal with scripted draws and returns the proposal."""

    @staticmethod
    def run(dist, mass, integ, n, h, randomize, u, z, q0):
        _, S, MM, D = _hm()
        grabbed = {}

        class Snap(S.HMC):
            def _evaluate_acceptance(self):
                grabbed["q"] = np.array(self.proposed_model, dtype=float).copy()
                grabbed["p"] = np.array(self.proposed_momentum, dtype=float).copy()
                grabbed["p0"] = np.array(self.current_momentum, dtype=float).copy()
                return super()._evaluate_acceptance()

        s = Snap(seed=1)
        rng = ScriptedRNG(normals=list(np.asarray(z).ravel()), uniforms=([u] if randomize else []) + [0.5])
        s.rng = rng
        with scratch() as tmp, quiet(), np.errstate(all="ignore"):
            s.sample(
                os.path.join(tmp, "t.h5"),
                dist,
                stepsize=h,
                randomize_stepsize=randomize,
                amount_of_steps=n,
                mass_matrix=mass,
                integrator=integ,
                initial_model=q0.copy(),
                proposals=1,
                overwrite_existing_file=True,
                disable_progressbar=True,
            )
        return grabbed["q"], grabbed["p"], grabbed["p0"], rng.log


def propagate_real(dist, mass, integ, n, h, q0, p0):
    """Integrate from a pinned (q0, p0) with the real sampler (no randomisation)."""
    _, S, MM, D = _hm()
    grabbed = {}

    class PinMass(type(mass)):
        pass

    class Snap(S.HMC):
        def _propose(self):
            self.current_momentum = p0.copy()
            self.integrators[self.integrator](self)

        def _evaluate_acceptance(self):
            grabbed["q"] = np.array(self.proposed_model, dtype=float).copy()
            grabbed["p"] = np.array(self.proposed_momentum, dtype=float).copy()
            return super()._evaluate_acceptance()

    s = Snap(seed=1)
    with scratch() as tmp, quiet(), np.errstate(all="ignore"):
        s.sample(
            os.path.join(tmp, "t.h5"),
            dist,
            stepsize=h,
            randomize_stepsize=False,
            amount_of_steps=n,
            mass_matrix=mass,
            integrator=integ,
            initial_model=q0.copy(),
            proposals=1,
            overwrite_existing_file=True,
            disable_progressbar=True,
        )
    return grabbed["q"], grabbed["p"]


def roundtrip_error(dist, mass, integ, n, h, q0, p0, touched=None):
    if touched is not None:
        orig = dist.corrector

        def watching(coordinates, momentum):
            before = np.array(coordinates, dtype=float).copy()
            orig(coordinates, momentum)
            if not np.array_equal(before, np.array(coordinates, dtype=float)):
                touched.append(True)

        dist.corrector = watching
    q1, p1 = propagate_real(dist, mass, integ, n, h, q0, p0)
    if not (np.all(np.isfinite(q1)) and np.all(np.isfinite(p1))):
        return None, q1, p1
    q2, p2 = propagate_real(dist, mass, integ, n, h, q1, -p1)
    err = max(np.max(np.abs(q2 - q0)), np.max(np.abs(p2 + p0)))
    return float(err), q1, p1


# ----------------------------------------------------------------------------- suites
def run(tier, seed):
    rnd = random.Random(1000003 * seed + 101)
    thorough = tier == "thorough"
    suites, findings = [], []
    coeffs = read_coeffs()
    cstr = " ".join(fhex(c) for c in coeffs)

    # ---- (a) trace suite ---------------------------------------------------------------
    st = Suite("C01.trace", "symbolic one-proposal runs through HMC.sample with linear-tracer probes; integrator x n x h x randomisation x dimension; "
               "non-trivial = n >= 2 or multi-stage; distinct by (integrator, n, h, u, d, visual)")
    cases = []
    ns = [1, 2, 3, 4, 5, 6, 10, 17]
    for integ in ("lf", "3s", "4s"):
        for n in ns:
            for _ in range(6 if thorough else 2):
                h = rnd.choice([0.1, 0.25, 1.0, rnd.uniform(1e-3, 2.0), rnd.uniform(1e-6, 1e-3), rnd.uniform(2.0, 50.0)])
                randomize = rnd.random() < 0.6
                u = rnd.choice([0.5, 1.0, 1.4999, rnd.uniform(0.5, 1.5)])
                d = rnd.choice([1, 2, 3, 5])
                cases.append((integ, n, h, randomize, u, d, False, False))
    for n in ([1, 2, 3, 7] if not thorough else ns):
        for animate in (False, True):
            h = rnd.uniform(0.01, 1.0)
            randomize = rnd.random() < 0.5
            cases.append(("lf", n, h, randomize, rnd.uniform(0.5, 1.5), rnd.choice([2, 3]), True, animate))
    reqs, traces = [], []
    for (integ, n, h, randomize, u, d, visual, animate) in cases:
        tr = trace_once(integ, n, h, randomize, u, d, visual, animate)
        traces.append(tr)
        reqs.append(f"c01.sched {integ} {cstr} {int(randomize)} {fhex(u)} {fhex(h)} {n}")
    answers = lean_batch(reqs)
    for case, tr, ans in zip(cases, traces, answers):
        integ, n, h, randomize, u, d, visual, animate = case
        stim = {"integrator": integ, "n": n, "h": h, "randomize": randomize, "u": u, "d": d, "visual": visual, "animate": animate}
        st.case(stim, nontrivial=(n >= 2 or integ != "lf"),
                sample={"stimulus": stim, "observed_ops": [(k, c) for k, c in tr["ops"][:7]]})
        st.count(f"integ={integ}{'/visual' if visual else ''}")
        st.count(f"randomize={randomize}")
        expect_draws = ([("uniform", None, 0.5, 1.5)] if randomize else []) + [("uniform", None, 0.0, 1.0)]
        obs = "ok " + fmt_ops(tr["ops"])
        if ans != obs:
            st.disagree(stim, ans, obs, "op list (kind, coefficient) differs from model schedule")
        elif not (tr["uniform_coeffs"] and tr["args_current"] and tr["drift_then_corrector"] and tr["final_is_sum"]):
            st.disagree(stim, "all four protocol verdicts true",
                        {k: tr[k] for k in ("uniform_coeffs", "args_current", "drift_then_corrector", "final_is_sum")},
                        "integrator is not driven only by current momentum / gradient at current position")
        elif tr["draws"] != expect_draws:
            st.disagree(stim, expect_draws, tr["draws"], "draws requested from sampler.rng")
        # the property's own oracle on the observed trace (always evaluated)
        probs = trace_property(tr["ops"], (u * h if randomize else h), n)
        if probs or not (tr["args_current"] and tr["drift_then_corrector"] and tr["final_is_sum"]):
            what = "; ".join(probs) or "update not driven by current state"
            findings.append(Finding("C01", f"integrator {integ} n={n}: {what}",
                                    {"kind": "trace", "integrator": integ, "visual": visual, "problem": what.split(",")[0][:40]},
                                    {"oracle": "trace", "stimulus": stim, "observed_ops": tr["ops"], "problems": probs}))
    suites.append(st)

    # ---- (b) state suite ---------------------------------------------------------------
    ss = Suite("C01.state", "numeric one-proposal runs of HMC.sample with scripted draws vs model proposal; bit-exact for Unit/Diagonal "
               "mass on element-wise targets, 1e-9 relative for Full mass; non-trivial = trajectory of >= 2 sub-steps that moved the state; "
               "distinct by stimulus hash")
    N = 900 if thorough else 160
    reqs, metas = [], []
    for _ in range(N):
        integ = rnd.choice(["lf", "3s", "4s"])
        n = rnd.choice([1, 2, 3, 5, 8, 13])
        kind = rnd.choice(["normaldiag", "normaldiag", "himmelblau", "stdnormal", "uniform", "laplace"])
        d = {"himmelblau": 2, "stdnormal": 1}.get(kind, rnd.choice([1, 2, 3, 5, 8]))
        boxed = kind == "uniform" or rnd.random() < 0.4
        mkind = rnd.choice(["unit", "diag", "full"])
        dist, tstr, bstr, tdesc, lb, ub = make_target(rnd, kind, d, boxed)
        mass, mstr, mdesc = make_mass(rnd, mkind, d)
        h = rnd.choice([0.05, 0.1, 0.3, rnd.uniform(0.01, 0.6)])
        randomize = rnd.random() < 0.5
        u = rnd.uniform(0.5, 1.5)
        z = np.array([[rnd.gauss(0, 1)] for _ in range(d)])
        q0 = inside_start(rnd, d, lb, ub)
        try:
            q1, p1, p0, log = PinnedHMC.run(dist, mass, integ, n, h, randomize, u, z, q0)
        except Exception as e:  # a crash of the real sampler is an observation, reported below
            q1 = p1 = p0 = None
            log = repr(e)
        # model: momentum from z, then trajectory
        L = None
        metas.append((integ, n, kind, d, boxed, mkind, tdesc, mdesc, h, randomize, u, z, q0, q1, p1, p0, log))
        # the model needs p0 = A z
        if mkind == "unit":
            p0m = z
        elif mkind == "diag":
            p0m = np.sqrt(np.array(mdesc["diag"]).reshape(-1, 1)) * z
        else:
            p0m = np.linalg.cholesky(np.array(mdesc["matrix"])) @ z
        reqs.append(f"c01.state {integ} {cstr} {int(randomize)} {fhex(u)} {fhex(h)} {n} {mstr} {tstr} {bstr} {vhex(q0)} {vhex(p0m)}")
    answers = lean_batch(reqs)
    for meta, ans in zip(metas, answers):
        integ, n, kind, d, boxed, mkind, tdesc, mdesc, h, randomize, u, z, q0, q1, p1, p0, log = meta
        stim = {"integrator": integ, "n": n, "target": tdesc, "mass": mdesc, "h": h, "randomize": randomize, "u": u,
                "z": z.ravel().tolist(), "q0": q0.ravel().tolist()}
        moved = q1 is not None and not np.array_equal(q1, q0)
        ss.case(stim, nontrivial=moved and (n >= 2 or integ != "lf"))
        ss.count(f"mass={mkind}")
        ss.count(f"target={kind}{'+box' if boxed else ''}")
        if q1 is None:
            ss.disagree(stim, "a proposal", log, "real sampler raised")
            continue
        if not ans.startswith("ok "):
            ss.disagree(stim, "model answer", ans, "driver rejected the case")
            continue
        r = Reader(ans[3:])
        mq, mp = r.vec(), r.vec()
        if len(ss.samples) < 2:
            ss.samples.append({"stimulus": stim, "impl_q": q1.ravel().tolist(), "model_q": mq})
        exact = mkind != "full"
        if exact:
            same = common.vbits(mq, q1) and common.vbits(mp, p1)
            if not same and kind in ("himmelblau",):
                same = common.vclose(mq, q1, 1e-12) and common.vclose(mp, p1, 1e-12)
        else:
            same = common.vclose(mq, q1, 1e-8, 1e-10) and common.vclose(mp, p1, 1e-8, 1e-10)
        if not same:
            ss.disagree(stim, {"q": mq, "p": mp}, {"q": q1.ravel().tolist(), "p": p1.ravel().tolist()},
                        "proposal differs from model")
    suites.append(ss)

    # ---- (c) reflection suite ------------------------------------------------------------
    sr = Suite("C01.reflect", "corrector() of base / Composite (own and per-block bounds) / BayesRule vs reflect1 on random boxes with one-sided and "
               "infinite entries; bit-exact; non-trivial = at least one coordinate reflected; distinct by stimulus hash")
    _, S, MM, D = _hm()
    reqs, metas = [], []
    for _ in range(1500 if thorough else 300):
        d = rnd.choice([1, 2, 3, 5, 8])
        lb = np.array([[rnd.choice([-1.0, -0.5, 0.0, -math.inf, rnd.uniform(-3, 0)])] for _ in range(d)])
        ub = np.array([[rnd.choice([1.0, 0.5, 2.0, math.inf, rnd.uniform(0.1, 3)])] for _ in range(d)])
        use_lb, use_ub = rnd.random() < 0.85, rnd.random() < 0.85
        q = np.array([[rnd.uniform(-4, 4)] for _ in range(d)])
        p = np.array([[rnd.uniform(-2, 2)] for _ in range(d)])
        flavour = rnd.choice(["base", "composite-own", "composite-blocks", "bayes", "composite-nested", "bayes-over-composite", "composite-own-lists"])
        L = lb if use_lb else None
        U = ub if use_ub else None

        def blocks(a0, b0):
            """coordinates a0..b0 as a composite of bounded blocks"""
            cuts = sorted(rnd.sample(range(a0 + 1, b0), k=min(b0 - a0 - 1, rnd.randint(0, 2)))) if b0 - a0 > 1 else []
            idx = [a0] + cuts + [b0]
            return D.CompositeDistribution([D.Normal(np.zeros((b - a, 1)), 1.0, lower_bounds=None if L is None else L[a:b].copy(),
                                                     upper_bounds=None if U is None else U[a:b].copy()) for a, b in zip(idx[:-1], idx[1:])])
        if flavour == "base":
            dist = D.Normal(np.zeros((d, 1)), 1.0, lower_bounds=L, upper_bounds=U)
        elif flavour == "composite-own":
            parts = [D.Normal(np.zeros((1, 1)), 1.0) for _ in range(d)]
            dist = D.CompositeDistribution(parts, lower_bounds=L, upper_bounds=U)
        elif flavour == "composite-blocks":
            cuts = sorted(rnd.sample(range(1, d), k=min(d - 1, rnd.randint(0, 2)))) if d > 1 else []
            idx = [0] + cuts + [d]
            parts = []
            for a, b in zip(idx[:-1], idx[1:]):
                parts.append(D.Normal(np.zeros((b - a, 1)), 1.0,
                                      lower_bounds=None if L is None else L[a:b].copy(),
                                      upper_bounds=None if U is None else U[a:b].copy()))
            dist = D.CompositeDistribution(parts)
        elif flavour == "composite-nested":
            # a block may be a composite itself: the bounds live two levels down
            k = rnd.randint(1, d)
            dist = D.CompositeDistribution([blocks(0, k)] + ([blocks(k, d)] if k < d else []))
        elif flavour == "bayes-over-composite":
            # the common layout: a prior assembled from per-parameter blocks, times a likelihood
            dist = D.BayesRule([blocks(0, d), D.Normal(np.zeros((d, 1)), 2.0)])
        elif flavour == "composite-own-lists":
            # the plain list of numbers every elementary distribution accepts as bounds
            parts = [D.Normal(np.zeros((1, 1)), 1.0) for _ in range(d)]
            dist = D.CompositeDistribution(parts, lower_bounds=None if L is None else L.ravel().tolist(), upper_bounds=None if U is None else U.ravel().tolist())
        else:
            # bounds split over two parts; the collapsed box is the intersection
            l2 = None if L is None else L - np.array([[rnd.choice([0.0, 0.5])] for _ in range(d)])
            u2 = None if U is None else U + np.array([[rnd.choice([0.0, 0.5])] for _ in range(d)])
            a = D.Normal(np.zeros((d, 1)), 1.0, lower_bounds=L, upper_bounds=u2)
            b = D.Normal(np.zeros((d, 1)), 2.0, lower_bounds=l2, upper_bounds=U)
            dist = D.BayesRule([a, b])
        qq, pp = q.copy(), p.copy()
        try:
            dist.corrector(qq, pp)
        except Exception as e:
            sr.case({"flavour": flavour, "q": q.ravel().tolist()}, nontrivial=False)
            sr.disagree({"flavour": flavour}, "a reflected state", repr(e), "corrector raised")
            findings.append(Finding("C01", f"corrector of a {flavour} target raised {e!r}", {"kind": "corrector-raised", "flavour": flavour},
                                    {"oracle": "reflect", "stimulus": {"flavour": flavour, "lb": None if L is None else L.ravel().tolist(),
                                                                       "ub": None if U is None else U.ravel().tolist(), "q": q.ravel().tolist(), "p": p.ravel().tolist()}}))
            continue
        metas.append((flavour, L, U, q, p, qq, pp))
        reqs.append(f"c01.reflect {opt(None if L is None else vhex(L))} {opt(None if U is None else vhex(U))} {vhex(q)} {vhex(p)}")
    answers = lean_batch(reqs)
    for (flavour, L, U, q, p, qq, pp), ans in zip(metas, answers):
        stim = {"flavour": flavour, "lb": None if L is None else L.ravel().tolist(), "ub": None if U is None else U.ravel().tolist(),
                "q": q.ravel().tolist(), "p": p.ravel().tolist()}
        sr.case(stim, nontrivial=not np.array_equal(qq, q))
        sr.count(f"flavour={flavour}")
        r = Reader(ans[3:])
        mq, mp = r.vec(), r.vec()
        if not (common.vbits(mq, qq) and common.vbits(mp, pp)):
            sr.disagree(stim, {"q": mq, "p": mp}, {"q": qq.ravel().tolist(), "p": pp.ravel().tolist()}, "corrector differs from reflect1")
        # the property's own words, on the implementation: mirror reflection at the bounds - a coordinate that violates a bound is mirrored about it
        # (again about the other wall if it then violates that one, and so on: a billiard), its momentum component changes sign with every reflection;
        # every other coordinate and component is untouched. Reference: the billiard itself, one wall at a time (distgen.reflect_box).
        from .. import distgen as _dg
        eq, ep = q.copy(), p.copy()
        _dg.reflect_box(L, U, eq, ep)
        if np.all(np.isfinite(q)) and not (_dg.reflect_close(qq, eq, L, U) and np.array_equal(pp, ep)):
            findings.append(Finding("C01", f"corrector of a {flavour} target: a violating coordinate is not mirrored about its bound(s) with its momentum component negated at every reflection",
                                    {"kind": "corrector", "flavour": flavour}, {"oracle": "reflect", "stimulus": stim, "observed": {"q": qq.ravel().tolist(), "p": pp.ravel().tolist()},
                                                                                  "expected": {"q": eq.ravel().tolist(), "p": ep.ravel().tolist()}}))
    if sr.samples == [] and metas:
        f0 = metas[0]
        sr.samples.append({"flavour": f0[0], "q": f0[3].ravel().tolist(), "after": f0[5].ravel().tolist()})
    suites.append(sr)

    # ---- (d) direct property oracle on the implementation: reversibility round trips ------
    so, f2 = roundtrip_suite(rnd, 240 if thorough else 60)
    suites.append(so)
    findings.extend(f2)
    return suites, findings


def roundtrip_suite(rnd, N, focus=None):
    so = Suite("C01.roundtrip", "forward - negate momentum - forward on the real sampler, all integrators x Unit/Diagonal/Full x "
               "unbounded/boxed targets; tolerance 1e-7*(1+|state|) ; non-trivial = trajectory with >= 2 sub-steps; a failure is a "
               "counterexample to reversibility (not a correspondence disagreement)")
    findings = []

    def one(dist, mass, mkind, mdesc, integ, n, h, q0, p0, lb, ub, stim):
        try:
            touched = []
            err, q1, p1 = roundtrip_error(dist, mass, integ, n, h, q0, p0, touched)
        except Exception as e:
            so.case(stim, nontrivial=False)
            so.count("raised")
            return
        so.case(stim, nontrivial=(n >= 2 or integ != "lf"))
        so.count(f"mass={mkind}{'+box' if (lb is not None or ub is not None) else ''}")
        if touched:
            so.count("trajectory reflected at a bound")
        if err is None:
            so.indeterminate += 1
            return
        tol = 1e-7 * (1.0 + float(np.max(np.abs(q0))) + float(np.max(np.abs(p0))))
        if err > tol:
            # was a bound touched? (needed to tell the known Full-mass-in-a-box finding from anything else)
            has_box = lb is not None or ub is not None
            offdiag = False
            if mkind == "full":
                m = np.array(mdesc["matrix"])
                offdiag = bool(np.max(np.abs(m - np.diag(np.diag(m)))) > 0)
            # double bounce / state on a bound are outside the property's regime for every metric
            sig = {"kind": "roundtrip", "mass_nondiagonal": offdiag, "reflected": bool(touched)}
            findings.append(Finding("C01", f"forward-flip-forward misses the start by {err:.3g} ({integ}, n={n}, mass={mkind}, boxed={has_box})",
                                    sig, {"oracle": "roundtrip", "stimulus": stim, "error": err, "tolerance": tol}))
            so.count("roundtrip-failed")

    if focus is None:
        # pinned: the witness of the negative theorem C01.full_mass_box_not_reversible on the real sampler
        # (flat target inside a wide box, M^-1 = [[1,1/2],[1/2,1]], upper bound 1 on coordinate 0, one drift of length 1)
        _, S, MM, D = _hm()
        lb = np.array([[-100.0], [-100.0]])
        ub = np.array([[1.0], [100.0]])
        m = np.linalg.inv(np.array([[1.0, 0.5], [0.5, 1.0]]))
        m = 0.5 * (m + m.T)
        q0 = np.array([[0.9], [0.0]])
        p0 = np.array([[1.0], [0.0]])
        stim = {"integrator": "lf", "n": 1, "target": {"kind": "uniform", "d": 2, "lb": lb.ravel().tolist(), "ub": ub.ravel().tolist()},
                "mass": {"mass": "full", "matrix": m.tolist()}, "h": 1.0, "q0": q0.ravel().tolist(), "p0": p0.ravel().tolist(), "pinned": "full_mass_box_not_reversible"}
        one(D.Uniform(lb.copy(), ub.copy()), MM.Full(m.copy()), "full", stim["mass"], "lf", 1, 1.0, q0, p0, lb, ub, stim)
        so.count("pinned witness of the negative theorem")
    for _ in range(N):
        integ = rnd.choice(["lf", "3s", "4s"])
        n = rnd.choice([1, 2, 3, 5, 8])
        kind = rnd.choice(["normaldiag", "himmelblau", "uniform", "stdnormal"])
        d = {"himmelblau": 2, "stdnormal": 1}.get(kind, rnd.choice([2, 3, 5]))
        boxed = kind == "uniform" or rnd.random() < 0.5
        mkind = rnd.choice(["unit", "diag", "full"])
        dist, tstr, bstr, tdesc, lb, ub = make_target(rnd, kind, d, boxed)
        mass, mstr, mdesc = make_mass(rnd, mkind, d)
        h = rnd.choice([0.05, 0.1, 0.2])
        if kind == "uniform" and rnd.random() < 0.6:
            # "every step size": drifts longer than the box is wide (several bounces per drift). On a flat target only: there the motion is a billiard and
            # rounding errors grow linearly; with a curved potential a step beyond the stability limit of the integrator amplifies them exponentially and
            # the round trip misses the start for that reason alone
            h = rnd.choice([1.0, 2.0, 5.0])
            so.count("step longer than the box")
        q0 = inside_start(rnd, d, lb, ub)
        p0 = np.array([[rnd.gauss(0, 1)] for _ in range(d)])
        stim = {"integrator": integ, "n": n, "target": tdesc, "mass": mdesc, "h": h, "q0": q0.ravel().tolist(), "p0": p0.ravel().tolist()}
        one(dist, mass, mkind, mdesc, integ, n, h, q0, p0, lb, ub, stim)
    if not so.samples and so.evaluations:
        so.samples.append({"note": "round-trip cases", "count": so.evaluations})
    return so, findings


def search(tier, seed, broken):
    """failing-input search after a broken correspondence/proof: more round trips (smallest n first)."""
    rnd = random.Random(seed + 777)
    _, f = roundtrip_suite(rnd, 200)
    # keep only failures that are not the known Full+box pattern are decided by the caller (signature match)
    return f


def replay(body):
    r = body.get("replay", {})
    if r.get("oracle") == "trace":
        s = r["stimulus"]
        tr = trace_once(s["integrator"], s["n"], s["h"], s["randomize"], s["u"], s["d"], s.get("visual", False), s.get("animate", False))
        probs = trace_property(tr["ops"], (s["u"] * s["h"] if s["randomize"] else s["h"]), s["n"])
        return (not probs and tr["args_current"] and tr["final_is_sum"]), "; ".join(probs) or "trace ok"
    if r.get("oracle") == "roundtrip":
        s = r["stimulus"]
        rnd = random.Random(0)
        _, S, MM, D = _hm()
        t = s["target"]
        lb = None if t.get("lb") is None else np.array(t["lb"], dtype=float).reshape(-1, 1)
        ub = None if t.get("ub") is None else np.array(t["ub"], dtype=float).reshape(-1, 1)
        if t["kind"] == "normaldiag":
            dist = D.Normal(np.array(t["mu"]).reshape(-1, 1), np.array(t["var"]).reshape(-1, 1), lower_bounds=lb, upper_bounds=ub)
        elif t["kind"] == "himmelblau":
            dist = D.Himmelblau(temperature=t["T"]); dist.update_bounds(lb, ub)
        elif t["kind"] == "stdnormal":
            dist = D.StandardNormal1D(temperature=t["T"]); dist.update_bounds(lb, ub)
        else:
            dist = D.Uniform(lb, ub)
        m = s["mass"]
        mass = MM.Unit(t["d"]) if m["mass"] == "unit" else (MM.Diagonal(np.array(m["diag"])) if m["mass"] == "diag" else MM.Full(np.array(m["matrix"])))
        err, _, _ = roundtrip_error(dist, mass, s["integrator"], s["n"], s["h"], np.array(s["q0"]).reshape(-1, 1), np.array(s["p0"]).reshape(-1, 1))
        ok = err is not None and err <= r["tolerance"]
        return ok, f"round-trip error {err}"
    return False, "correspondence/proof replay: re-run ./check C01"
