"""C20 — parallel chains without exchange are exactly the sequential chains."""
import copy
import hashlib
import os
import random

import numpy as np

from .. import common
from ..common import Suite, Finding, lean_batch
from ..probes import quiet, scratch
from ..parallel import supervised, read_samples

THOROUGH_ROUNDS = 3
TRUSTED_EXTRA = ["C20: real operating-system scheduling is only sampled (different chain counts and run-to-run variation); the theorem covers every interleaving of the model",
                 "C20: process start (fork), pickling of the arguments and the result queue are parameters of the model"]
ASSUMPTIONS = ["chains are started with the fork start method of `multiprocess`, as hmclab does"]


def _hm():
    from hmclab import Samplers as S, Distributions as D, MassMatrices as MM

    return S, D, MM


def sha(path):
    if not os.path.exists(path):
        return None
    with open(path, "rb") as f:
        return hashlib.sha256(f.read()).hexdigest()


LAYOUTS = [(i, k) for i in ("none", "shared", "list") for k in ("none", "shared", "list", "samedict")] + ["shared-mass", "shared-mass"]


def make_config(rnd, n, pre_run, layout=None):
    kinds = [rnd.choice(["HMC", "RWMH"]) for _ in range(n)]
    seeds = [rnd.randrange(1 << 30) for _ in range(n)]
    d = rnd.choice([2, 3])
    mus = [[rnd.uniform(-1, 1) for _ in range(d)] for _ in range(n)]
    temps = [rnd.choice([0.5, 1.0, 2.0, 4.0]) for _ in range(n)]
    shared_init = rnd.random() < 0.4
    init_mode = rnd.choice(["none", "shared", "list"])
    inits = [[rnd.uniform(-1, 1) for _ in range(d)] for _ in range(n)]
    kw_mode = rnd.choice(["none", "shared", "list", "samedict"])
    if layout is not None and layout != "shared-mass":
        init_mode, kw_mode = layout
    shared_mass = False
    if layout == "shared-mass":
        # every chain is an HMC chain and gets the very same mass-matrix object through a shared kwargs dict; the object was used in a pilot run before
        init_mode, kw_mode, shared_mass = rnd.choice(["none", "list"]), "shared", True
        kinds = ["HMC"] * n
    steps = [rnd.choice([0.2, 0.5, 1.0]) for _ in range(n)]
    thin = rnd.choice([1, 1, 2])
    P = rnd.choice([4, 6, 10])
    return {"n": n, "kinds": kinds, "seeds": seeds, "d": d, "mus": mus, "temps": temps, "init_mode": init_mode, "inits": inits,
            "kw_mode": kw_mode, "shared_mass": shared_mass, "kw_overrides": kw_mode in ("shared", "samedict") and rnd.random() < 0.5, "steps": steps, "P": P, "thin": thin if P % thin == 0 else 1, "pre_run": pre_run, "controller_seed": rnd.randrange(1 << 30)}


def standalone_kwargs(cfg, i, kind):
    """what a stand-alone run of chain i is given: the chain's kwargs without the keys the controller fixes (proposals, overwrite_existing_file)"""
    kw = dict(kwargs_of(cfg, i, kind))
    kw.pop("proposals", None)
    kw.pop("overwrite_existing_file", None)
    return kw


def make_shared_mass(cfg):
    """a Diagonal mass matrix that has already been used by a pilot sampler (other seed)"""
    S, D, MM = _hm()
    mass = MM.Diagonal(np.linspace(0.5, 2.0, cfg["d"]).reshape(-1, 1))
    with quiet(), np.errstate(all="ignore"), scratch() as t:
        S.HMC(seed=cfg["controller_seed"] + 5).sample(os.path.join(t, "pilot.h5"), D.Normal(np.zeros((cfg["d"], 1)), 1.0), proposals=3, mass_matrix=mass,
                                                       overwrite_existing_file=True, disable_progressbar=True)
    return mass


def kwargs_of(cfg, i, kind):
    """the keyword arguments chain i is given (the same for the stand-alone reference)"""
    if cfg["kw_mode"] == "none":
        kw = {}
    elif cfg["kw_mode"] in ("shared", "samedict"):
        kw = {"online_thinning": cfg["thin"], "disable_progressbar": True}
        if cfg.get("kw_overrides"):
            # keys the controller fixes itself: its own values win, the user's are ignored
            kw.update({"proposals": cfg["P"] + cfg["thin"] * 2, "overwrite_existing_file": False})
    else:
        kw = {"stepsize": cfg["steps"][i], "disable_progressbar": True}
        if kind == "HMC":
            kw["amount_of_steps"] = 2 + i % 3
        if cfg.get("settings_on_object"):
            kw["autotuning"] = True
    return kw


def build(cfg):
    S, D, MM = _hm()
    samplers = [getattr(S, k)(seed=s) for k, s in zip(cfg["kinds"], cfg["seeds"])]
    posts = [D.Normal(np.array(mu).reshape(-1, 1), float(T)) for mu, T in zip(cfg["mus"], cfg["temps"])]
    if cfg.get("settings_on_object"):
        # settings that have no keyword in sample() live on the sampler object: the floor of the tuned step size. The chains of the controller are the
        # user's samplers (copies of them), settings included. Targets narrow enough for the tuned step to reach the floor.
        for i, smp in enumerate(samplers):
            smp.minimal_stepsize = 1e-3 * (i + 1)
        posts = [D.Normal(np.array(mu).reshape(-1, 1), float(T) * 1e-5) for mu, T in zip(cfg["mus"], cfg["temps"])]
    return samplers, posts


def init_of(cfg, i):
    if cfg["init_mode"] == "none":
        return None
    if cfg["init_mode"] == "shared":
        return np.array(cfg["inits"][0]).reshape(-1, 1)
    return np.array(cfg["inits"][i]).reshape(-1, 1)


def public_state(s):
    """the documented attributes of a sampler object that a caller can observe"""
    out = {}
    for k in ("accepted_proposals", "current_proposal", "times_started", "samples_filename", "proposals", "online_thinning", "parallel",
              "sampler_index", "exchange_interval", "stepsize"):
        v = getattr(s, k, None)
        out[k] = v.tolist() if isinstance(v, np.ndarray) else v
    out["rng_state"] = repr(s.rng.bit_generator.state)
    out["exchange_schedule_is_none"] = s.exchange_schedule is None
    out["pipe_matrix_is_none"] = s.pipe_matrix is None
    return out


def job(cfg, tmp):
    """runs inside the supervised child"""
    S, D, MM = _hm()
    samplers, posts = build(cfg)
    n = cfg["n"]
    pre_hashes = {}
    if cfg["pre_run"]:
        # the samplers have already produced a file each
        for i, (s, p) in enumerate(zip(samplers, posts)):
            fn = os.path.join(tmp, f"pre_{i}.h5")
            s.sample(fn, p, proposals=3, overwrite_existing_file=True, disable_progressbar=True)
            pre_hashes[i] = sha(fn)
        # re-create the seeds' streams for comparability: fresh objects with the same seed, same history
    before = [public_state(s) for s in samplers]
    files = [os.path.join(tmp, f"par_{i}.h5") for i in range(n)]
    if cfg["init_mode"] == "list":
        init = [np.array(v).reshape(-1, 1) for v in cfg["inits"]]
    else:
        init = init_of(cfg, 0)
    if cfg["kw_mode"] == "none":
        kw = None
    elif cfg["kw_mode"] == "shared":
        kw = kwargs_of(cfg, 0, "RWMH")
        if cfg.get("shared_mass"):
            kw["mass_matrix"] = make_shared_mass(cfg)
    elif cfg["kw_mode"] == "samedict":
        kw = [kwargs_of(cfg, 0, "RWMH")] * n          # a list that repeats one dictionary object
    else:
        kw = [kwargs_of(cfg, i, cfg["kinds"][i]) for i in range(n)]
    if cfg.get("init_in_kwargs") and cfg["init_mode"] != "none":
        # the starting models travel inside the keyword dictionaries (initial_model is a keyword of sample() like any other); the controller's own
        # initial_model argument is left unset
        if cfg["init_mode"] == "list":
            kw = [dict(k) for k in kw] if isinstance(kw, list) else [dict(kw or {}) for _ in range(n)]
            for i in range(n):
                kw[i]["initial_model"] = np.array(cfg["inits"][i]).reshape(-1, 1)
        else:
            i0 = np.array(cfg["inits"][0]).reshape(-1, 1)
            kw = [dict(k, initial_model=i0.copy()) for k in kw] if isinstance(kw, list) else dict(kw or {}, initial_model=i0)
        init = None
    args_before = repr((init, kw))
    ctrl = S.ParallelSampleSMP(seed=cfg["controller_seed"])
    ctrl.sample(samplers, files, posts, overwrite_existing_files=True, proposals=cfg["P"], exchange=False, initial_model=init, kwargs=kw)
    args_after = repr((init, kw))
    after = [public_state(s) for s in samplers]
    par = [read_samples(f) for f in files]
    post_hashes = {i: sha(os.path.join(tmp, f"pre_{i}.h5")) for i in pre_hashes}
    # the user's sampler objects can be re-used afterwards: run them stand-alone now
    reuse = []
    for i, (s, p) in enumerate(zip(samplers, posts)):
        fn = os.path.join(tmp, f"reuse_{i}.h5")
        try:
            extra = {"mass_matrix": (kw[0] if isinstance(kw, list) else kw)["mass_matrix"]} if cfg.get("shared_mass") else {}
            s.sample(fn, p, initial_model=init_of(cfg, i), proposals=cfg["P"], overwrite_existing_file=True,
                     **{**{"disable_progressbar": True}, **standalone_kwargs(cfg, i, cfg["kinds"][i]), **extra})
            reuse.append(read_samples(fn))
        except Exception as e:
            reuse.append(repr(e))
    return {"par": par, "before": before, "after": after, "pre": pre_hashes, "post": post_hashes, "reuse": reuse, "args_unchanged": args_before == args_after}


def reference(cfg, tmp):
    """stand-alone runs of the same samplers (same seeds / targets / arguments), with the same history"""
    S, D, MM = _hm()
    samplers, posts = build(cfg)
    out = []
    extra = {"mass_matrix": make_shared_mass(cfg)} if cfg.get("shared_mass") else {}
    for i, (s, p) in enumerate(zip(samplers, posts)):
        with quiet(), np.errstate(all="ignore"):
            if cfg["pre_run"]:
                s.sample(os.path.join(tmp, f"refpre_{i}.h5"), p, proposals=3, overwrite_existing_file=True, disable_progressbar=True)
                # the controller works on deep copies taken *after* that history
            s2 = copy.deepcopy(s)
            fn = os.path.join(tmp, f"ref_{i}.h5")
            s2.sample(fn, p, initial_model=init_of(cfg, i), proposals=cfg["P"], overwrite_existing_file=True,
                      **{**{"disable_progressbar": True}, **standalone_kwargs(cfg, i, cfg["kinds"][i]), **extra})
            out.append(read_samples(fn))
    return out


def run(tier, seed):
    rnd = random.Random(6364136223846793005 * (seed + 20) % (1 << 31))
    thorough = tier == "thorough"
    findings = []
    st = Suite("C20.files", "real ParallelSampleSMP runs with exchange=False (fork), 1-6 chains (thorough: up to 128), mixed HMC/RWMH, distinct seeds and tempered targets, "
               "initial model none/shared/per-chain, kwargs none/shared/per-chain, samplers with and without an earlier run: every file vs the stand-alone run "
               "of the same sampler (byte-identical arrays), sampler objects unchanged, earlier files untouched, objects re-usable; non-trivial = >= 2 chains "
               "with per-chain arguments")
    # every layout of (initial model, kwargs) in {none, shared, per chain} x {none, shared, per chain, one dict repeated} with >= 2 chains, then random ones
    ns = [2, 3, 2, 3, 4, 2, 3, 2, 3, 2, 3, 2, 3, 2, 1, 6] if not thorough else [2, 3, 2, 3, 4, 2, 3, 2, 3, 2, 3, 2, 3, 2, 1, 2, 3, 4, 5, 6, 8, 12, 16, 2, 3, 4, 32, 64, 128]
    reqs, metas = [], []
    with scratch() as tmp:
        for ci, n in enumerate(ns):
            cfg = make_config(rnd, n, pre_run=(ci % 3 == 2), layout=LAYOUTS[ci] if ci < len(LAYOUTS) else None)
            sub = os.path.join(tmp, f"c{ci}")
            os.makedirs(sub)
            cfg["init_in_kwargs"] = cfg["init_mode"] != "none" and (ci in (1, 2) or random.Random(cfg["controller_seed"] ^ 7).random() < 0.25)
            cfg["settings_on_object"] = cfg["kw_mode"] == "list" and not cfg["shared_mass"] and (ci in (2, 6) or random.Random(cfg["controller_seed"] ^ 11).random() < 0.3)
            if cfg["settings_on_object"]:
                cfg["P"] = 20 * cfg["thin"]
                st.count("settings carried by the sampler objects (minimal_stepsize)")
            status, res = supervised(job, (cfg, sub), timeout=120 if n <= 16 else 300, tmpdir=tmp)
            stim = {k: cfg[k] for k in ("n", "kinds", "init_mode", "kw_mode", "shared_mass", "kw_overrides", "P", "thin", "pre_run", "init_in_kwargs")}
            if cfg["init_in_kwargs"]:
                st.count("initial models inside the kwargs")
            st.case(dict(stim, seeds=cfg["seeds"]), nontrivial=(n >= 2 and (cfg["init_mode"] == "list" or cfg["kw_mode"] == "list")),
                    sample=stim if len(st.samples) < 3 else None)
            st.count(f"n={'1' if n == 1 else '2-6' if n <= 6 else '>6'}")
            if status == "timeout":
                st.disagree(stim, "completes", res, "parallel run did not finish")
                findings.append(Finding("C20", f"ParallelSampleSMP with {n} chains (exchange off) did not finish within the time limit: {res['alive_processes']} processes alive "
                                        f"(states {[p['wchan'] for p in res['processes'][:4]]})", {"kind": "hang", "many_chains": n >= 64},
                                        {"oracle": "timeout", "config": cfg, "diagnostic": res}))
                continue
            if status == "raised":
                st.disagree(stim, "completes", res[:300], "parallel run raised")
                findings.append(Finding("C20", f"ParallelSampleSMP raised: {res[:200]}", {"kind": "raise"}, {"oracle": "raise", "config": cfg, "error": res}))
                continue
            ref = reference(cfg, sub)
            problems = []
            for i in range(n):
                if res["par"][i].shape != ref[i].shape or res["par"][i].tobytes() != ref[i].tobytes():
                    # which chain's arguments did it get?
                    problems.append(f"file of chain {i} differs from the stand-alone run of the same sampler")
                    break
            if res["before"] != res["after"]:
                ch = [k for i in range(n) for k in res["before"][i] if res["before"][i][k] != res["after"][i][k]]
                problems.append(f"the sampler objects handed to the controller were modified: {sorted(set(ch))}")
            if not res["args_unchanged"]:
                problems.append("the initial_model / kwargs objects passed by the caller were modified by the parallel run")
            if res["pre"] != res["post"]:
                problems.append("a file written earlier by one of the samplers was modified by the parallel run")
            for i in range(n):
                if isinstance(res["reuse"][i], str) or res["reuse"][i].tobytes() != ref[i].tobytes():
                    problems.append(f"sampler object {i} re-used after the parallel run does not reproduce its stand-alone run: "
                                    f"{res['reuse'][i] if isinstance(res['reuse'][i], str) else 'different file'}")
                    break
            if problems:
                st.disagree(stim, "parallel = sequential", problems, problems[0])
                findings.append(Finding("C20", problems[0], {"kind": "files", "problem": problems[0][:32]}, {"oracle": "files", "config": cfg, "problems": problems}))
            reqs.append(f"c20.route {n} {int(cfg['init_mode'] != 'list')} {int(cfg['kw_mode'] not in ('list', 'samedict'))}")
            metas.append((stim, n, cfg))
    for (stim, n, cfg), ans in zip(metas, lean_batch(reqs)):
        toks = ans[3:].split()
        for i, t in enumerate(toks):
            a, b = t.split(":")
            exp_a = "1000" if cfg["init_mode"] != "list" else str(i)
            exp_b = "1000" if cfg["kw_mode"] not in ("list", "samedict") else str(i)
            if (a, b) != (exp_a, exp_b):
                st.disagree(stim, (exp_a, exp_b), (a, b), "model routing")
    return [st], findings


def search(tier, seed, broken):
    return []


def replay(body):
    return False, "re-run ./check C20 (configurations are regenerated from the seed)"
