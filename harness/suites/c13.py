"""C13 — composite distributions obey their algebra."""
import math
import random

import numpy as np

from .. import common
from ..common import Suite, Finding, fhex, vhex, Reader, lean_batch
from ..probes import quiet
from .. import distgen

TRUSTED_EXTRA = ["C13: the statement 'any m with a negative component has zero probability' is about IEEE log (NaN), carried by the correspondence; over ℝ the theorems are stated for positive m"]
ASSUMPTIONS = ["wrappers are compared with a recomputation from the public methods of their parts (implementation) and with the Lean model"]


def _D():
    from hmclab import Distributions as D

    return D


def bounds_of(o):
    return getattr(o, "lower_bounds", None), getattr(o, "upper_bounds", None)


def outside(x, lb, ub):
    o = False
    if lb is not None:
        o = o or not bool(np.all(x >= lb))
    if ub is not None:
        o = o or not bool(np.all(x <= ub))
    return o


def run(tier, seed):
    rnd = random.Random(134775813 * (seed + 1) % (1 << 31))
    thorough = tier == "thorough"
    findings = []
    D = _D()
    st = Suite("C13.algebra", "random wrappers (BayesRule/Additive, Composite, Mixture, TransformToLogSpace, nested) over random parts, partitions, weights, "
               "bases, bounds: the wrapper's misfit()/gradient()/bounds/corrector() vs the same public methods of its parts recombined by the stated "
               "algebra, and vs the Lean model; 1e-9 relative; non-trivial = wrapper with >= 2 parts or nested")
    reqs, metas = [], []
    creqs, cmetas = [], []
    N = 1400 if thorough else 360
    for _ in range(N):
        d = rnd.choice([1, 2, 3, 4, 5])
        try:
            node = distgen.tree(rnd, d, rnd.choice([1, 2, 3]))
        except Exception as e:      # constructing a legal expression must not raise
            st.case({"construct": repr(e)}, nontrivial=False)
            st.disagree({"construct": True}, "constructible", repr(e), "constructor raised")
            findings.append(Finding("C13", f"constructing a composed distribution raised {e!r}", {"kind": "construct"}, {"error": repr(e)}))
            continue
        if not node.children:
            continue
        far = rnd.random() < 0.15
        x = distgen.point(rnd, node, interior=rnd.random() < 0.7, far=far)
        o = node.obj
        with np.errstate(all="ignore"), quiet():
            m = float(o.misfit(x.copy()))
            g = np.array(o.gradient(x.copy()), dtype=float)
        stim = {"tree": node.desc, "x": x.ravel().tolist()}
        st.case(stim, nontrivial=(len(node.children) >= 2 or node.depth() >= 3),
                sample={"wrapper": node.kind, "parts": [c.kind for c in node.children]} if len(st.samples) < 3 else None)
        st.count(f"wrapper={node.kind}")
        if far:
            st.count("far evaluation point")
        problems = []
        lb, ub = bounds_of(o)
        with np.errstate(all="ignore"), quiet():
            if node.kind == "additive":
                pm = [float(c.obj.misfit(x.copy())) for c in node.children]
                pg = [np.array(c.obj.gradient(x.copy()), dtype=float) for c in node.children]
                out = outside(x, lb, ub)
                expect_m = sum(pm) + (math.inf if out else 0.0)
                if not (common.close(m, expect_m, 1e-9, 1e-12) or (expect_m != expect_m and m != m)):
                    problems.append(f"misfit {m!r} is not the sum over the parts {expect_m!r}")
                if math.isfinite(m) and not common.vclose(g, sum(pg), 1e-9, 1e-12):
                    problems.append("gradient is not the sum over the parts")
                # bounds = intersection of all parts' bounds (and the own ones)
                # reference: the construction values of the whole expression (the bounds of a composite part live in its blocks, at any depth)
                elb, eub = distgen.effective_bounds(node)
                for name, got, want in (("lower", lb, elb), ("upper", ub, eub)):
                    # "no bounds on this side" is None or a column of infinities alike
                    fill = -np.inf if name == "lower" else np.inf
                    got_, want_ = (np.full((node.d, 1), fill) if v is None else np.asarray(v, dtype=float) for v in (got, want))
                    if got_.shape != want_.shape or not np.array_equal(got_, want_):
                        problems.append(f"{name} bounds are not the intersection of the parts' bounds")
            elif node.kind == "composite":
                dims = [c.d for c in node.children]
                cuts = np.cumsum(dims)[:-1]
                xs = np.split(x, cuts)
                pm = [float(c.obj.misfit(xi.copy())) for c, xi in zip(node.children, xs)]
                pg = [np.array(c.obj.gradient(xi.copy()), dtype=float) for c, xi in zip(node.children, xs)]
                out = outside(x, lb, ub)
                expect_m = sum(pm) + (math.inf if out else 0.0)
                if not (common.close(m, expect_m, 1e-9, 1e-12) or (expect_m != expect_m and m != m)):
                    problems.append(f"misfit {m!r} is not the sum over the blocks {expect_m!r}")
                if math.isfinite(m) and not common.vclose(g, np.vstack(pg), 1e-9, 1e-12):
                    problems.append("gradient is not the stacked block gradients")
            elif node.kind == "mixture":
                from scipy.special import logsumexp

                w = np.array(node.desc["weights"])
                pm = np.array([float(c.obj.misfit(x.copy())) for c in node.children])
                # -log sum_i w_i exp(-misfit_i), evaluated without underflow (far from every component each exp(-misfit_i) is 0 in floating point)
                expect_m = -float(logsumexp(np.log(w) - pm)) if np.all(np.isfinite(pm)) else None
                if expect_m is not None and not common.close(m, expect_m, 1e-9, 1e-12):
                    problems.append(f"misfit {m!r} is not -log sum w_i exp(-misfit_i) = {expect_m!r}")
                if expect_m is not None:
                    pg = [np.array(c.obj.gradient(x.copy()), dtype=float) for c in node.children]
                    la = np.log(w) - pm
                    p = np.exp(la - np.max(la))
                    eg = sum(pi * gi for pi, gi in zip(p, pg)) / p.sum()
                    if not common.vclose(g, eg, 1e-8, 1e-11):
                        problems.append("gradient is not the responsibility-weighted mean of the component gradients")
            elif node.kind == "logt":
                base = node.desc["base"]
                inner = node.children[0].obj
                if np.all(x > 0):
                    y = np.log(x) / math.log(base)
                    expect_m = float(inner.misfit(y.copy())) + float(np.sum(np.log(x * math.log(base))))
                    if math.isfinite(expect_m) and not common.close(m, expect_m, 1e-9, 1e-11):
                        problems.append(f"misfit {m!r} is not inner(log_b m) + log-Jacobian = {expect_m!r}")
                xneg = x.copy()
                xneg[rnd.randrange(d), 0] *= -1.0
                mneg = float(o.misfit(xneg))
                if np.any(xneg < 0) and mneg != math.inf:
                    problems.append(f"misfit {mneg!r} at a point with a negative component (expected +inf)")
        damaged = distgen.intact_problems(node)
        if damaged:
            problems.append("composing changed a part: " + damaged[0])
        if problems:
            findings.append(Finding("C13", f"{node.kind}: {problems[0]}", {"kind": node.kind, "problem": problems[0][:30]},
                                    {"oracle": "algebra", "stimulus": stim, "problems": problems}))
        reqs.append(f"c05.eval {node.proto} {vhex(x)}")
        metas.append((stim, m, g, lb, ub))
        # corrector
        if node.kind in ("additive", "composite") and not node.positive_only:
            q = np.array([[rnd.uniform(-7, 7)] for _ in range(d)])
            p = np.array([[rnd.uniform(-2, 2)] for _ in range(d)])
            qq, pp = q.copy(), p.copy()
            try:
                with quiet():
                    o.corrector(qq, pp)
            except Exception as e:
                findings.append(Finding("C13", f"{node.kind}: corrector() raised {e!r}"[:300], {"kind": node.kind, "problem": "corrector raised"},
                                        {"oracle": "corrector", "stimulus": dict(stim, q=q.ravel().tolist(), p=p.ravel().tolist()), "error": repr(e)}))
                continue
            # the documented mirroring at the bounds the expression was constructed with (own, inherited through BayesRule, per block at any depth)
            eq, ep = q.copy(), p.copy()
            distgen.expected_reflect(node, eq, ep)
            if not (distgen.reflect_close(eq, qq, None, None) and np.array_equal(ep, pp)):
                findings.append(Finding("C13", f"{node.kind}: corrector() does not mirror at the bounds of the parts: coordinates {qq.ravel().tolist()} / momenta {pp.ravel().tolist()}, "
                                        f"expected {eq.ravel().tolist()} / {ep.ravel().tolist()}"[:400], {"kind": node.kind, "problem": "corrector"},
                                        {"oracle": "corrector", "stimulus": dict(stim, q=q.ravel().tolist(), p=p.ravel().tolist()),
                                         "observed": {"q": qq.ravel().tolist(), "p": pp.ravel().tolist()}, "expected": {"q": eq.ravel().tolist(), "p": ep.ravel().tolist()}}))
            creqs.append(f"c05.correct {node.proto} {vhex(q)} {vhex(p)}")
            cmetas.append((dict(stim, q=q.ravel().tolist(), p=p.ravel().tolist()), qq, pp))
    for (stim, m, g, lb, ub), ans in zip(metas, lean_batch(reqs)):
        if not ans.startswith("ok "):
            st.disagree(stim, "model answer", ans, "driver rejected the tree")
            continue
        r = Reader(ans[3:])
        mm, mg = r.flt(), r.vec()

        def optvec():
            t = r.tok()
            return None if t == "-" else np.array(r.vec()).reshape(-1, 1)

        mlb, mub = optvec(), optvec()
        if r.tok() != "L1":
            # two layers of the model disagree: the vectors of the executable bounds and the per-coordinate bounds of Model/BoxTree.lean (about which ebox_support is proved)
            st.disagree(stim, "one box", "two boxes", "model layers disagree about the bounds in force (DExpr.ebox vs BoxTree.ebox)")
            continue
        ok = common.close(mm, m, 1e-8, 1e-9) and ((not math.isfinite(m)) or common.vclose(mg, g, 1e-8, 1e-9))
        for a, b in ((mlb, lb), (mub, ub)):
            if (a is None) != (b is None) or (a is not None and not np.array_equal(a, np.asarray(b, dtype=float))):
                ok = False
        if not ok:
            st.disagree(stim, {"misfit": mm, "gradient": mg, "lb": None if mlb is None else mlb.ravel().tolist()},
                        {"misfit": m, "gradient": np.ravel(g).tolist(), "lb": None if lb is None else np.ravel(lb).tolist()}, "wrapper differs from the model")
    sc = Suite("C13.corrector", "corrector() of BayesRule (collapsed bounds) and Composite (own bounds, else each block's bounds on its own coordinates) vs model; "
               "bit-exact; non-trivial = some coordinate reflected")
    for (stim, qq, pp), ans in zip(cmetas, lean_batch(creqs)):
        r = Reader(ans[3:])
        mq, mp = r.vec(), r.vec()
        sc.case(stim, nontrivial=not np.array_equal(qq.ravel(), np.array(stim["q"])),
                sample={"q": stim["q"], "after": qq.ravel().tolist()} if len(sc.samples) < 2 else None)
        if not (common.vbits(mq, qq) and common.vbits(mp, pp)):
            sc.disagree(stim, {"q": mq, "p": mp}, {"q": qq.ravel().tolist(), "p": pp.ravel().tolist()}, "corrector differs from model")

    # add_distribution, temperature, encodings ------------------------------------------------------
    se = Suite("C13.misc", "add_distribution re-collapses the bounds; temperature T divides misfit and gradient by T; scalar / per-dimension / diagonal-matrix "
               "covariances give the same Normal (misfit, gradient, normalisation); non-trivial = all")
    for _ in range(200 if thorough else 60):
        d = rnd.choice([1, 2, 3])
        x = np.array([[rnd.uniform(-2, 2)] for _ in range(d)])
        # encodings
        c = rnd.choice([0.5, 1.0, 2.5, rnd.uniform(0.2, 4)])
        mu = np.array([[rnd.uniform(-1, 1)] for _ in range(d)])
        encs = [D.Normal(mu.copy(), float(c)), D.Normal(mu.copy(), np.ones((d, 1)) * c), D.Normal(mu.copy(), np.eye(d) * c)]
        vals = []
        for e in encs:
            e.normalize()
            vals.append((float(e.misfit(x.copy())), np.array(e.gradient(x.copy()), dtype=float)))
        stim = {"d": d, "c": c, "mu": mu.ravel().tolist(), "x": x.ravel().tolist()}
        se.case({"kind": "encodings", **stim}, sample={"kind": "encodings", "misfits": [v[0] for v in vals]} if len(se.samples) < 2 else None)
        if not all(common.close(v[0], vals[0][0], 1e-10, 1e-12) and common.vclose(v[1], vals[0][1], 1e-10, 1e-12) for v in vals):
            se.disagree(stim, vals[0][0], [v[0] for v in vals], "covariance encodings disagree")
            findings.append(Finding("C13", "scalar / per-dimension / diagonal-matrix covariance give different Normals", {"kind": "encodings"}, {"stimulus": stim}))
        # temperature
        T = rnd.choice([0.5, 2.0, 7.5])
        if d == 1:
            a, b = D.StandardNormal1D(temperature=T), D.StandardNormal1D(temperature=1.0)
        else:
            x = x[:2] if d >= 2 else x
            a, b = D.Himmelblau(temperature=T), D.Himmelblau(temperature=1.0)
            x = np.array([[rnd.uniform(-3, 3)], [rnd.uniform(-3, 3)]])
        se.case({"kind": "temperature", "T": T, "x": x.ravel().tolist()})
        if not (common.close(a.misfit(x.copy()), b.misfit(x.copy()) / T, 1e-12, 0) and common.vclose(a.gradient(x.copy()), b.gradient(x.copy()) / T, 1e-12, 0)):
            se.disagree({"T": T}, "misfit/T", "differs", "temperature")
            findings.append(Finding("C13", "temperature does not divide misfit and gradient", {"kind": "temperature"}, {"T": T, "x": x.ravel().tolist()}))
        # a Mixture with bounded components, evaluated where some component has zero density
        dd = rnd.choice([1, 2])
        kk = rnd.choice([2, 3])
        cents = [rnd.uniform(-1, 1) + 4.0 * j for j in range(kk)]
        comps = [D.Normal(np.full((dd, 1), c), 1.0, lower_bounds=np.full((dd, 1), c - 3.0), upper_bounds=np.full((dd, 1), c + 3.0)) for c in cents]
        ww = np.array([rnd.uniform(0.2, 1.0) for _ in range(kk)])
        ww = ww / ww.sum()
        with quiet():
            mixb = D.Mixture(comps, list(ww))
        jin = rnd.randrange(kk)
        xx = np.full((dd, 1), cents[jin] + rnd.choice([-1, 1]) * rnd.uniform(1.2, 2.8))      # inside component jin, outside (some of) the others
        with np.errstate(all="ignore"):
            mm = float(mixb.misfit(xx.copy()))
            gg = np.array(mixb.gradient(xx.copy()), dtype=float)
            pms = np.array([float(c.misfit(xx.copy())) for c in comps])
            alive = np.isfinite(pms)
            from scipy.special import logsumexp as _lse

            em = -float(_lse(np.log(ww[alive]) - pms[alive]))
            la = np.log(ww[alive]) - pms[alive]
            pw = np.exp(la - la.max())
            eg = sum(pi * np.array(c.gradient(xx.copy()), dtype=float) for pi, c in zip(pw, [c for c, a in zip(comps, alive) if a])) / pw.sum()
        se.case({"kind": "mixture-bounded", "centres": cents, "weights": ww.tolist(), "x": xx.ravel().tolist()})
        if not (common.close(mm, em, 1e-9, 1e-12) and np.all(np.isfinite(gg)) and common.vclose(eg.ravel().tolist(), gg, 1e-8, 1e-11)):
            se.disagree({"centres": cents}, {"misfit": em, "gradient": eg.ravel().tolist()}, {"misfit": mm, "gradient": gg.ravel().tolist()}, "mixture with bounded components")
            findings.append(Finding("C13", f"Mixture of bounded components at a point outside {int((~alive).sum())} of them: misfit {mm!r} (expected {em!r}), gradient {gg.ravel().tolist()} "
                                    f"(expected the weighted mean over the components with non-zero density, {eg.ravel().tolist()})", {"kind": "mixture", "problem": "bounded components"},
                                    {"centres": cents, "weights": ww.tolist(), "x": xx.ravel().tolist()}))
        # two posteriors built from one list of parts are independent objects
        lst = [D.Normal(np.zeros((dd, 1)), 1.0), D.Normal(np.ones((dd, 1)), 2.0)]
        p1 = D.BayesRule(lst)
        p2 = D.BayesRule(lst)
        x0 = np.full((dd, 1), 0.3)
        before = float(p1.misfit(x0.copy()))
        p2.add_distribution(D.Normal(np.full((dd, 1), -1.0), 0.5))
        se.case({"kind": "shared-list"})
        if not (common.bits_equal(float(p1.misfit(x0.copy())), before) and len(lst) == 2):
            se.disagree({"kind": "shared-list"}, before, float(p1.misfit(x0.copy())), "add_distribution on one posterior changed another / the caller's list")
            findings.append(Finding("C13", f"add_distribution() on one BayesRule changed another BayesRule built from the same list (misfit {before!r} -> {float(p1.misfit(x0.copy()))!r}) "
                                    f"and the caller's list (now {len(lst)} entries)", {"kind": "additive", "problem": "shared parts list"}, {"dimensions": dd}))
        # add_distribution
        dd = rnd.choice([1, 2, 3])
        n1 = distgen.leaf(rnd, dd, allow=("normaldiag", "laplace"), bounds_p=0.7)
        n2 = distgen.leaf(rnd, dd, allow=("normaldiag", "laplace", "uniform"), bounds_p=0.7)
        try:
            br = D.BayesRule([n1.obj])
            refused = None
            if rnd.random() < 0.5:
                # a part of another dimension is refused - and a refused part is not a part: the object goes on as it was
                try:
                    br.add_distribution(D.Normal(np.zeros((dd + 1, 1)), 1.0))
                    refused = "accepted"
                except AssertionError:
                    refused = "AssertionError"
                except Exception as e:
                    refused = repr(e)
                se.count("a part of the wrong dimension offered first")
            br.add_distribution(n2.obj)
            # the parts are used again in a second composition (other order): it must see the parts as they were constructed
            br2 = D.BayesRule([n2.obj, n1.obj])
        except Exception as e:
            se.case({"kind": "add_distribution", "parts": [n1.desc, n2.desc]})
            se.disagree({"parts": [n1.desc, n2.desc]}, "composable", repr(e), "BayesRule / add_distribution raised")
            findings.append(Finding("C13", f"BayesRule / add_distribution of two legal parts raised {e!r}" + (f" (after a part of the wrong dimension had been refused with {refused})" if refused else ""),
                                    {"kind": "additive", "problem": "composition raised"}, {"parts": [n1.desc, n2.desc], "error": repr(e), "refused_before": refused}))
            continue
        if refused == "accepted":
            findings.append(Finding("C13", "add_distribution accepted a part of another dimension", {"kind": "additive", "problem": "wrong dimension accepted"}, {"parts": [n1.desc]}))
        damaged = distgen.intact_problems(n1, "first part") + distgen.intact_problems(n2, "second part")
        if damaged:
            findings.append(Finding("C13", "add_distribution / BayesRule changed a part: " + damaged[0], {"kind": "additive", "problem": "composing changed a part"},
                                    {"parts": [n1.desc, n2.desc], "problems": damaged}))
        los = [v for v in (bounds_of(n1.obj)[0], bounds_of(n2.obj)[0]) if v is not None]
        his = [v for v in (bounds_of(n1.obj)[1], bounds_of(n2.obj)[1]) if v is not None]
        elb = np.max(np.hstack(los), axis=1, keepdims=True) if los else None
        eub = np.min(np.hstack(his), axis=1, keepdims=True) if his else None
        lb, ub = bounds_of(br)
        se.case({"kind": "add_distribution", "parts": [n1.desc, n2.desc]})
        xx = np.array([[rnd.uniform(-4, 4)] for _ in range(dd)])
        with np.errstate(all="ignore"):
            ok = ((lb is None) == (elb is None) and (lb is None or np.array_equal(lb, elb)) and (ub is None) == (eub is None) and (ub is None or np.array_equal(ub, eub)))
            mm = float(br.misfit(xx.copy()))
            em = float(n1.obj.misfit(xx.copy())) + float(n2.obj.misfit(xx.copy()))
        if not ok or not (common.close(mm, em, 1e-10, 1e-12) or (mm == math.inf and outside(xx, elb, eub))):
            se.disagree({"parts": [n1.desc, n2.desc]}, "intersection / sum", "differs", "add_distribution")
            findings.append(Finding("C13", "add_distribution: bounds are not the intersection or misfit not the sum", {"kind": "add_distribution"},
                                    {"parts": [n1.desc, n2.desc], "x": xx.ravel().tolist()}))
    # values exactly equal to each other: a mixture whose largest terms tie (the same component listed k times with equal weights; a symmetric
    # pair evaluated on its symmetry plane). -log sum_i w_i exp(-misfit_i) does not care how many terms share the maximum.
    for _ in range(24 if thorough else 8):
        dd = rnd.choice([1, 2, 3])
        k = rnd.choice([2, 3, 4])
        mu = np.array([[rnd.uniform(-1, 1)] for _ in range(dd)])
        var = rnd.choice([0.5, 1.0, 2.0])
        kind = rnd.choice(["same-component", "symmetric-pair"])
        if kind == "same-component":
            comps = [D.Normal(mu.copy(), var) for _ in range(k)]
            ww = [1.0 / k] * k
            xx = np.array([[rnd.uniform(-2, 2)] for _ in range(dd)])
        else:
            comps = [D.Normal(mu.copy(), var), D.Normal(-mu, var)]
            ww = [0.5, 0.5]
            xx = np.zeros((dd, 1))
            off = np.array([[rnd.uniform(-1, 1)] for _ in range(dd)])
            off -= mu * (off.T @ mu).item() / max((mu.T @ mu).item(), 1e-300)       # a point of the symmetry plane: equidistant from both means
            xx = off if rnd.random() < 0.5 else xx
        mixt = D.Mixture(comps, ww)
        se.case({"kind": "mixture-ties", "layout": kind, "components": len(comps)})
        se.count(f"mixture ties: {kind}")
        with np.errstate(all="ignore"):
            mm = float(mixt.misfit(xx.copy()))
            pms = np.array([float(c.misfit(xx.copy())) for c in comps])
            em = -float(np.log(np.sum(np.array(ww) * np.exp(-(pms - pms.min()))))) + float(pms.min())
        if not common.close(mm, em, 1e-10, 1e-12):
            se.disagree({"layout": kind}, em, mm, "mixture with tying terms")
            findings.append(Finding("C13", f"Mixture whose largest terms tie ({kind}, {len(comps)} components): misfit {mm!r}, expected -log sum w_i exp(-misfit_i) = {em!r} (difference {mm - em:.6f})",
                                    {"kind": "mixture", "problem": "ties"}, {"layout": kind, "x": xx.ravel().tolist(), "weights": ww, "component_misfits": pms.tolist()}))
    # the change of variables in many dimensions: the log-Jacobian is a sum of logarithms (the Jacobian itself leaves the floating-point range long before its logarithm does)
    for _ in range(24 if thorough else 6):
        dd = rnd.choice([60, 120, 250, 400])
        base = rnd.choice([10, 2.0, math.e])
        mag = rnd.choice([3000.0, 1e-4, 1.0, 1e6])
        xx = np.array([[mag * rnd.uniform(0.5, 2.0)] for _ in range(dd)])
        inner = D.Normal(np.log(xx * rnd.uniform(0.9, 1.1)) / math.log(base), np.full((dd, 1), 0.05))
        tr = D.TransformToLogSpace(inner, base=base)
        se.case({"kind": "logt-many-dimensions", "dimensions": dd, "base": base, "magnitude": mag})
        se.count(f"logt dimensions={dd}")
        with np.errstate(all="ignore"):
            mm = float(tr.misfit(xx.copy()))
            em = float(inner.misfit(np.log(xx) / math.log(base))) + float(np.sum(np.log(xx * math.log(base))))
            gg = np.array(tr.gradient(xx.copy()), dtype=float)
        if not (math.isfinite(mm) and common.close(mm, em, 1e-9, 1e-9) and np.all(np.isfinite(gg))):
            se.disagree({"dimensions": dd, "base": base, "magnitude": mag}, em, mm, "log transform in many dimensions")
            findings.append(Finding("C13", f"TransformToLogSpace in {dd} dimensions (parameters of order {mag:g}, base {base:g}): misfit {mm!r}, expected inner(log_b m) + sum log(m ln b) = {em!r}",
                                    {"kind": "logt", "problem": "many dimensions"}, {"dimensions": dd, "base": base, "x": xx.ravel().tolist()[:8]}))
    return [st, sc, se], findings


def search(tier, seed, broken):
    return []


def replay(body):
    return False, "re-run ./check C13 (trees are regenerated from the seed)"
