"""C06 — bounded targets: zero probability outside, chains never leave the box."""
import math
import os
import random

import numpy as np

from .. import common
from ..common import Suite, Finding, fhex, vhex, opt, Reader, lean_batch
from ..probes import quiet, scratch
from .c01 import make_mass, _hm
from .. import distgen

TRUSTED_EXTRA = ["C06: overflow of finite values inside a trajectory is float behaviour; the theorem only needs 'a proposal with NaN/+inf energy is rejected'"]
ASSUMPTIONS = ["a NaN coordinate counts as outside every bound (model: outside1 = 'not inside')"]


def rand_box(rnd, d, finite=False):
    lo = np.array([[rnd.choice([-1.0, -0.5, -2.0] + ([] if finite else [-math.inf]))] for _ in range(d)])
    hi = np.array([[rnd.choice([1.0, 0.7, 2.5] + ([] if finite else [math.inf]))] for _ in range(d)])
    return lo, hi


def bounded_target(rnd, d, force=None):
    """(distribution, lower, upper, description) with bounds of one of the four flavours"""
    _, S, MM, D = _hm()
    lo, hi = rand_box(rnd, d)
    if rnd.random() < 0.2:
        lo = None
    elif rnd.random() < 0.2:
        hi = None
    flavour = rnd.choice(["normal-own", "uniform", "bayes-inherited", "composite-blocks", "composite-own", "laplace-own",
                          "bayes-own", "bayes-own-then-add", "bayes-update-then-add",
                          "bayes-over-composite", "composite-nested", "bayes-own-lists", "composite-own-lists",
                          "normal-full-own", "linear-own"])

    if force is not None:
        flavour = force

    def blocks(a0, b0):
        return D.CompositeDistribution([D.Normal(mu[i:i + 1].copy(), var[i:i + 1].copy(), lower_bounds=None if lo is None else lo[i:i + 1].copy(),
                                                 upper_bounds=None if hi is None else hi[i:i + 1].copy()) for i in range(a0, b0)])

    mu = np.array([[rnd.uniform(-0.3, 0.3)] for _ in range(d)])
    var = np.array([[rnd.choice([0.5, 1.0, 2.0])] for _ in range(d)])
    if flavour == "normal-own":
        dist = D.Normal(mu.copy(), var.copy(), lower_bounds=lo, upper_bounds=hi)
    elif flavour == "normal-full-own":
        # correlated: the quadratic form mixes the coordinates (infinite coordinates of opposite sign give NaN, not +inf)
        cov = np.diag(var.ravel())
        for i in range(d - 1):
            cov[i, i + 1] = cov[i + 1, i] = 0.4 * math.sqrt(cov[i, i] * cov[i + 1, i + 1])
        dist = D.Normal(mu.copy(), cov, lower_bounds=lo, upper_bounds=hi)
    elif flavour == "linear-own":
        G = np.array([[rnd.choice([0.0, 1.0, rnd.gauss(0, 1)]) for _ in range(d)] for _ in range(d + 1)])
        dist = D.LinearMatrix(G, G @ mu + 0.1, float(var[0, 0]), dtype=np.float64)
        dist.update_bounds(None if lo is None else lo.copy(), None if hi is None else hi.copy())
    elif flavour == "laplace-own":
        dist = D.Laplace(mu.copy(), np.sqrt(var), lower_bounds=lo, upper_bounds=hi)
    elif flavour == "uniform":
        lo, hi = rand_box(rnd, d, finite=True)
        dist = D.Uniform(lo.copy(), hi.copy())
    elif flavour == "bayes-inherited":
        lo2 = None if lo is None else lo - 0.5
        hi2 = None if hi is None else hi + 0.5
        dist = D.BayesRule([D.Normal(mu.copy(), var.copy(), lower_bounds=lo, upper_bounds=hi2), D.Normal(-mu, 2 * var, lower_bounds=lo2, upper_bounds=hi)])
    elif flavour == "bayes-own":
        # the wrapper's own bounds, parts unbounded or looser
        dist = D.BayesRule([D.Normal(mu.copy(), var.copy()), D.Normal(-mu, 2 * var, lower_bounds=None if lo is None else lo - 1.0)],
                           lower_bounds=None if lo is None else lo.copy(), upper_bounds=None if hi is None else hi.copy())
    elif flavour == "bayes-own-then-add":
        # own bounds given to the constructor, the list of terms grows afterwards
        dist = D.BayesRule([D.Normal(mu.copy(), var.copy())], lower_bounds=None if lo is None else lo.copy(), upper_bounds=None if hi is None else hi.copy())
        dist.add_distribution(D.Normal(-mu, 2 * var))
        if rnd.random() < 0.5:
            dist.add_distribution(D.Laplace(mu.copy(), np.sqrt(var), upper_bounds=None if hi is None else hi + 0.25))
    elif flavour == "bayes-update-then-add":
        # bounds put in force with update_bounds, then another term is added
        dist = D.BayesRule([D.Normal(mu.copy(), var.copy())])
        dist.update_bounds(None if lo is None else lo.copy(), None if hi is None else hi.copy())
        dist.add_distribution(D.Normal(-mu, 2 * var))
    elif flavour == "composite-own":
        dist = D.CompositeDistribution([D.Normal(mu[i:i + 1].copy(), var[i:i + 1].copy()) for i in range(d)], lower_bounds=lo, upper_bounds=hi)
    elif flavour == "bayes-over-composite":
        # a prior assembled from per-parameter blocks, times an unbounded likelihood: the bounds are inherited from two levels down
        dist = D.BayesRule([blocks(0, d), D.Normal(-mu, 2 * var)])
    elif flavour == "composite-nested":
        k = rnd.randint(1, d)
        dist = D.CompositeDistribution([blocks(0, k)] + ([blocks(k, d)] if k < d else []))
    elif flavour == "bayes-own-lists":
        # the plain list of numbers that every elementary distribution accepts as bounds
        dist = D.BayesRule([D.Normal(mu.copy(), var.copy())], lower_bounds=None if lo is None else lo.ravel().tolist(), upper_bounds=None if hi is None else hi.ravel().tolist())
    elif flavour == "composite-own-lists":
        dist = D.CompositeDistribution([D.Normal(mu[i:i + 1].copy(), var[i:i + 1].copy()) for i in range(d)],
                                       lower_bounds=None if lo is None else lo.ravel().tolist(), upper_bounds=None if hi is None else hi.ravel().tolist())
    else:
        dist = D.CompositeDistribution([D.Normal(mu[i:i + 1].copy(), var[i:i + 1].copy(),
                                                 lower_bounds=None if lo is None else lo[i:i + 1].copy(),
                                                 upper_bounds=None if hi is None else hi[i:i + 1].copy()) for i in range(d)])
    base = D.Normal(mu.copy(), var.copy())
    desc = {"flavour": flavour, "d": d, "lb": None if lo is None else lo.ravel().tolist(), "ub": None if hi is None else hi.ravel().tolist(),
            "mu": mu.ravel().tolist(), "var": var.ravel().tolist()}
    return dist, base, lo, hi, mu, var, desc


def is_outside(x, lo, hi):
    o = False
    if lo is not None:
        o = o or not bool(np.all(x >= lo))
    if hi is not None:
        o = o or not bool(np.all(x <= hi))
    return o


def raytracing_suite(rnd, count, findings):
    """own bounds (update_bounds) on the layered ray tracer: zero probability outside, chains stay inside"""
    from hmclab.Distributions import LayeredRayTracing2D
    from hmclab.Samples import Samples
    _, S, MM, D = _hm()
    sr = Suite("C06.raytracing", "LayeredRayTracing2D (serial) with a velocity box set through update_bounds: misfit() = +inf at points violating a bound and finite inside; an RWMH "
               "chain started inside with steps of the size of the box stores only samples inside with finite misfit; non-trivial = all")
    with scratch() as tmp:
        for ci in range(count):
            n = rnd.choice([3, 4, 5])
            inter = np.cumsum([rnd.choice([200.0, 300.0, 400.0]) for _ in range(n)])
            rz = np.linspace(0.1 * inter[-1], 0.9 * inter[-1], rnd.choice([6, 8]))
            vtrue = np.array([rnd.uniform(1500, 2500) for _ in range(n)])
            with quiet(), np.errstate(all="ignore"):
                ph = LayeredRayTracing2D(inter, [400.0], rz)
                ph.parallel = False
                obs = np.array(ph.forward(vtrue), dtype=float)
                t = LayeredRayTracing2D(inter, [400.0], rz, traveltimes_observed=obs)
                t.parallel = False
                lo, hi = (vtrue - 100.0)[:, None], (vtrue + 100.0)[:, None]
                t.update_bounds(lo.copy(), hi.copy())
                stim = {"interfaces": inter.tolist(), "receivers": rz.tolist(), "true_velocities": vtrue.tolist(), "box": "true velocities +/- 100 m/s"}
                sr.case(stim, nontrivial=True, sample=stim if len(sr.samples) < 2 else None)
                problems = []
                xin = vtrue[:, None] + np.array([[rnd.uniform(-60, 60)] for _ in range(n)])
                xout = xin.copy()
                xout[rnd.randrange(n), 0] += rnd.choice([-1, 1]) * rnd.uniform(200, 500)
                mi, mo = float(t.misfit(xin.copy())), float(t.misfit(xout.copy()))
                if not math.isfinite(mi):
                    problems.append(f"misfit inside the box is {mi!r}")
                if mo != math.inf:
                    problems.append(f"misfit is {mo!r} at a point violating a bound (misfit_bounds there: {t.misfit_bounds(xout)!r})")
                fn = os.path.join(tmp, f"ray{ci}.h5")
                P = 30
                try:
                    S.RWMH(seed=rnd.randrange(1 << 30)).sample(fn, t, stepsize=80.0, initial_model=vtrue[:, None].copy(), proposals=P, disable_progressbar=True, overwrite_existing_file=True)
                    sm = Samples(fn)
                    arr = np.array(sm.numpy, dtype=float)
                    sm.close()
                    outside = [j for j in range(arr.shape[1]) if is_outside(arr[:-1, [j]], lo, hi) or not math.isfinite(arr[-1, j])]
                    if outside:
                        problems.append(f"RWMH chain started inside the box: {len(outside)} of {arr.shape[1]} stored samples lie outside the bounds or have a non-finite misfit "
                                        f"(first: {arr[:-1, outside[0]].tolist()})")
                except Exception as e:
                    problems.append(f"sampling aborted: {e!r}")
            if problems:
                findings.append(Finding("C06", "LayeredRayTracing2D with bounds: " + problems[0][:300], {"kind": "raytracing-bounds", "problem": problems[0][:20]},
                                        {"oracle": "bounds", "stimulus": stim, "problems": problems}))
    return sr


def run(tier, seed):
    rnd = random.Random(40692 * seed + 6)
    thorough = tier == "thorough"
    findings = []
    _, S, MM, D = _hm()

    # ---- (1) public misfit / gradient on and off the box ----------------------------------------
    st = Suite("C06.misfit", "public misfit()/gradient() of bounded Normal/Laplace/Uniform/BayesRule/Composite targets at points inside, outside, on a bound, with "
               "inf and NaN coordinates: +inf outside, equal to the unbounded misfit inside; Normal vs model; non-trivial = point outside or on a bound")
    reqs, metas = [], []
    for _ in range(1500 if thorough else 350):
        d = rnd.choice([1, 2, 3, 5])
        dist, base, lo, hi, mu, var, desc = bounded_target(rnd, d)
        x = np.array([[rnd.choice([rnd.uniform(-3, 3), rnd.uniform(-0.4, 0.4), rnd.uniform(-0.4, 0.4)])] for _ in range(d)])
        special = rnd.random()
        if special < 0.08:
            x[rnd.randrange(d), 0] = float("nan")
        elif special < 0.14:
            x[rnd.randrange(d), 0] = rnd.choice([math.inf, -math.inf])
        elif special < 0.25 and lo is not None:
            i = rnd.randrange(d)
            if math.isfinite(lo[i, 0]):
                x[i, 0] = lo[i, 0]
        out = is_outside(x, lo, hi)
        with np.errstate(all="ignore"):
            m = float(dist.misfit(x.copy()))
            g = np.array(dist.gradient(x.copy()), dtype=float)
            mb = float(base.misfit(x.copy())) if desc["flavour"] in ("normal-own", "composite-own", "composite-blocks", "composite-nested", "composite-own-lists", "bayes-own-lists") else None
        stim = {"target": desc, "x": x.ravel().tolist()}
        st.case(stim, nontrivial=out, sample={"x": x.ravel().tolist(), "misfit": m, "outside": out} if len(st.samples) < 3 else None)
        st.count(f"flavour={desc['flavour']}")
        st.count("outside" if out else "inside")
        if np.any(np.isnan(x)):
            st.count("NaN coordinate")
        problems = []
        if (lo is not None or hi is not None):
            if out and not (m == math.inf or (m != m and np.any(~np.isfinite(x)))):
                problems.append(f"misfit is {m!r} at a point violating a bound")
            if not out and mb is not None and not (common.close(m, mb, 1e-12, 1e-12)):
                problems.append(f"misfit inside the box ({m!r}) differs from the unbounded misfit ({mb!r})")
            if g.shape != (d, 1):
                problems.append(f"gradient shape {g.shape}")
        # the corrector mirrors each violating coordinate about its bound and negates exactly the matching momentum components
        if (lo is not None or hi is not None) and np.all(np.isfinite(x)):
            pm = np.array([[rnd.uniform(-2, 2)] for _ in range(d)])
            qq, pp = x.copy(), pm.copy()
            eq, ep = x.copy(), pm.copy()
            distgen.reflect_box(lo, hi, eq, ep)
            try:
                dist.corrector(qq, pp)
                if not (distgen.reflect_close(qq, eq, lo, hi) and np.array_equal(pp, ep)):
                    problems.append(f"corrector gives coordinates {qq.ravel().tolist()} / momenta {pp.ravel().tolist()}, mirrored at the bounds until inside: {eq.ravel().tolist()} / {ep.ravel().tolist()}")
            except Exception as e:
                problems.append(f"corrector raised {e!r}")
            st.count("corrector checked")
        if problems:
            findings.append(Finding("C06", f"{desc['flavour']}: {problems[0]}", {"kind": "misfit", "problem": ("finite-outside" if "violating" in problems[0] else "inside-differs" if "inside the box" in problems[0] else "corrector" if "corrector" in problems[0] else "gradient-shape"),
                                     "flavour": desc["flavour"].split("-")[0], "nan": bool(np.any(np.isnan(x)))},
                                    {"oracle": "misfit", "stimulus": stim, "problems": problems}))
        if desc["flavour"] == "normal-own":
            bstr = f"{opt(None if lo is None else vhex(lo))} {opt(None if hi is None else vhex(hi))}"
            reqs.append(f"c06.misfit normaldiag {vhex(mu)} {vhex(1.0 / var)} {bstr} {vhex(x)}")
            metas.append((stim, m, g, out))
    for (stim, m, g, out), ans in zip(metas, lean_batch(reqs)):
        r = Reader(ans[3:])
        mm, mg = r.flt(), r.vec()
        mout = r.tok() == "1"
        if not (common.close(mm, m, 1e-12, 1e-13) and common.vclose(mg, g, 1e-12, 1e-13) and mout == out):
            st.disagree(stim, {"misfit": mm, "gradient": mg, "outside": mout}, {"misfit": m, "gradient": g.ravel().tolist(), "outside": out},
                        "bounded Normal differs from the model")

    # ---- (2) update_bounds atomicity ----------------------------------------------------------------
    su = Suite("C06.update_bounds", "update_bounds with every class of argument (None, list, ndarray of right/wrong shape, wrong type, incompatible vectors) on "
               "distributions with and without previous bounds: raised error class and the bounds in force afterwards vs model; non-trivial = rejected update")
    reqs, metas = [], []
    for _ in range(600 if thorough else 150):
        d = rnd.choice([1, 2, 3])
        lo0, hi0 = rand_box(rnd, d, finite=True)
        if rnd.random() < 0.3:
            lo0 = None
        if rnd.random() < 0.3:
            hi0 = None
        dist = D.Normal(np.zeros((d, 1)), 1.0, lower_bounds=None if lo0 is None else lo0.copy(), upper_bounds=None if hi0 is None else hi0.copy())

        def arg(which):
            k = rnd.choice(["N", "K", "K", "Klist", "S", "S2", "T", "T2"])
            base = np.array([[rnd.uniform(-3, -0.1) if which == "lo" else rnd.uniform(0.1, 3)] for _ in range(d)])
            if rnd.random() < 0.25:  # provoke incompatibility
                base = np.array([[rnd.uniform(-1, 1)] for _ in range(d)])
            if k == "N":
                return None, "N"
            if k == "K":
                return base, "K " + vhex(base)
            if k == "Klist":
                return base.ravel().tolist(), "K " + vhex(base)
            if k == "S":
                return base.ravel().copy(), "S"
            if k == "S2":
                return np.vstack([base, [[0.0]]]), "S"
            if k == "T":
                return tuple(base.ravel().tolist()), "T"
            return "bounds", "T"

        la, ls = arg("lo")
        ua, us = arg("hi")
        err = None
        try:
            dist.update_bounds(la if not isinstance(la, np.ndarray) else la.copy(), ua if not isinstance(ua, np.ndarray) else ua.copy())
        except ValueError as e:
            err = str(e)
        except Exception as e:
            err = "OTHER " + repr(e)
        after = (dist.lower_bounds, dist.upper_bounds)
        stim = {"d": d, "old": [None if lo0 is None else lo0.ravel().tolist(), None if hi0 is None else hi0.ravel().tolist()], "lower_arg": ls[:1], "upper_arg": us[:1],
                "lower": None if la is None else np.ravel(np.asarray(la, dtype=object)).tolist() if not isinstance(la, str) else la,
                "upper": None if ua is None else np.ravel(np.asarray(ua, dtype=object)).tolist() if not isinstance(ua, str) else ua}
        su.case(stim, nontrivial=err is not None, sample={"lower_arg": ls[:1], "upper_arg": us[:1], "error": err} if len(su.samples) < 3 else None)
        su.count(f"args={ls[:1]}{us[:1]}")
        # direct oracle: rejected update leaves the previous bounds in force
        if err is not None:
            same = all((a is None and b is None) or (a is not None and b is not None and np.array_equal(a, b)) for a, b in zip(after, (lo0, hi0)))
            if not same:
                findings.append(Finding("C06", "a rejected bounds update changed the bounds in force", {"kind": "update_bounds"},
                                        {"oracle": "update_bounds", "stimulus": stim, "error": err}))
        reqs.append(f"c06.update {opt(None if lo0 is None else vhex(lo0))} {opt(None if hi0 is None else vhex(hi0))} {ls} {us}")
        metas.append((stim, err, after))
    codes = {"ok": None, "lower-not-understood": "Lower bounds object not understood.", "upper-not-understood": "Upper bounds object not understood.",
             "incorrect-size": "Bounds vectors are of incorrect size.", "incompatible": "Bounds vectors are incompatible."}
    for (stim, err, after), ans in zip(metas, lean_batch(reqs)):
        r = Reader(ans[3:])

        def optvec():
            t = r.tok()
            return None if t == "-" else r.vec()

        ml, mu_ = optvec(), optvec()
        code = r.tok()
        ok = codes[code] == err
        for mv, av in ((ml, after[0]), (mu_, after[1])):
            if (mv is None) != (av is None) or (mv is not None and not np.array_equal(np.array(mv), np.ravel(av))):
                ok = False
        if not ok:
            su.disagree(stim, {"error": codes[code], "lower": ml, "upper": mu_},
                        {"error": err, "lower": None if after[0] is None else np.ravel(after[0]).tolist(), "upper": None if after[1] is None else np.ravel(after[1]).tolist()},
                        "update_bounds differs from the model")

    # ---- (3) chains never leave the box, whatever the step size ---------------------------------------
    sc = Suite("C06.chains", "HMC (lf/3s/4s x Unit/Diagonal/Full) and RWMH runs with step sizes from 1e-12 to 1.7e308 on bounded Normal/Uniform/BayesRule/"
               "Composite targets started inside: run completes with `proposals` columns, every stored sample inside the bounds with finite misfit; "
               "non-trivial = at least one proposal left the box or overflowed")
    from hmclab.Samples import Samples

    with scratch() as tmp:
        # directed: targets whose unbounded part turns infinite coordinates into NaN (correlated Normal, LinearMatrix), RWMH, steps that overflow
        sweep = [(fl, st_) for fl in ("normal-full-own", "linear-own", "bayes-over-composite") for st_ in (1e200, 1.7e308)]
        if not thorough:
            sweep = rnd.sample(sweep, 4)
        for ci in range(160 if thorough else 45):
            d = rnd.choice([1, 2, 3])
            forced = sweep[ci] if ci < len(sweep) else None
            if forced:
                d = rnd.choice([2, 3])
            dist, base, lo, hi, mu, var, desc = bounded_target(rnd, d, force=forced[0] if forced else None)
            if lo is None and hi is None:
                continue
            q0 = np.array([[(-0.4 if lo is None or math.isinf(lo[i, 0]) else lo[i, 0]) * 0.5 + (0.4 if hi is None or math.isinf(hi[i, 0]) else hi[i, 0]) * 0.5]
                           for i in range(d)])
            kind = rnd.choice(["HMC", "HMC", "RWMH"])
            step = rnd.choice([1e-12, 1e-3, 0.1, 1.0, 10.0, 1e3, 1e30, 1e154, 1e200, 1.7e308])
            if forced:
                kind, step = "RWMH", forced[1]
                sc.count("overflowing RWMH step on a correlated target")
            P = rnd.choice([20, 50])
            kw = dict(stepsize=step)
            mdesc = None
            if kind == "HMC":
                mass, mstr, mdesc = make_mass(rnd, rnd.choice(["unit", "diag", "full"]), d)
                kw.update(mass_matrix=mass, integrator=rnd.choice(["lf", "3s", "4s"]), amount_of_steps=rnd.choice([1, 3, 10]),
                          randomize_stepsize=rnd.random() < 0.5)
            stim = {"sampler": kind, "target": desc, "stepsize": step, "proposals": P, "mass": mdesc,
                    "integrator": kw.get("integrator"), "steps": kw.get("amount_of_steps"), "seed": ci}
            s = getattr(S, kind)(seed=rnd.randrange(1 << 30))
            fn = os.path.join(tmp, f"b{ci}.h5")
            raised = None
            with quiet(), np.errstate(all="ignore"):
                try:
                    s.sample(fn, dist, initial_model=q0.copy(), proposals=P, overwrite_existing_file=True, disable_progressbar=True, **kw)
                except Exception as e:
                    raised = repr(e)
                    try:
                        s.samples.close()
                    except Exception:
                        pass
            problems = []
            if raised:
                problems.append(f"sampling aborted: {raised}")
            arr = None
            try:
                with quiet():
                    sm = Samples(fn)
                    arr = np.array(sm.numpy, dtype=float)
                    sm.close()
            except Exception as e:
                problems.append(f"file unreadable: {e!r}")
            left = s.accepted_proposals < P
            sc.case(stim, nontrivial=left, sample={"sampler": kind, "stepsize": step, "accepted": int(s.accepted_proposals)} if len(sc.samples) < 3 else None)
            sc.count(f"step={'tiny' if step < 1e-6 else 'moderate' if step <= 10 else 'huge'}")
            if arr is not None:
                if not raised and arr.shape[1] != P:
                    problems.append(f"{arr.shape[1]} columns for {P} proposals")
                for j in range(arr.shape[1]):
                    x = arr[:-1, [j]]
                    if is_outside(x, lo, hi) or not np.all(np.isfinite(x)):
                        problems.append(f"stored sample {j} = {x.ravel().tolist()} lies outside the bounds")
                        break
                    if not math.isfinite(arr[-1, j]):
                        problems.append(f"stored sample {j} has misfit {arr[-1, j]!r}")
                        break
            if problems:
                findings.append(Finding("C06", f"{kind} step {step:g} on {desc['flavour']}: {problems[0]}",
                                        {"kind": "chain", "problem": problems[0][:22]},
                                        {"oracle": "chain", "stimulus": stim, "problems": problems}))
    sr = raytracing_suite(random.Random(seed * 48271 + 6), 6 if thorough else 2, findings)
    return [st, su, sc, sr], findings


def search(tier, seed, broken):
    return []


def replay(body):
    return False, "re-run ./check C06 (cases are regenerated from the seed)"
