"""C15 — all LinearMatrix back ends compute the same Gaussian likelihood."""
import math
import copy
import pickle
import random
import traceback
import warnings

import numpy as np

from .. import common
from ..common import Suite, Finding, vhex, mhex, Reader, lean_batch
from ..probes import quiet

TRUSTED_EXTRA = ["C15: numpy.linalg.inv / cholesky / scipy factorized are library calls (parameters); single-precision back ends are compared at 2e-4 relative, double at 1e-9",
                 "C15: the MKL library is not installed in this sandbox: use_mkl=True exercises the documented fallback to SciPy, not MKL's own routines"]
ASSUMPTIONS = ["the float64 reference is computed by the Lean model from the constructor arguments"]


def build_case(rnd, rnd2):
    import scipy.sparse as sp
    from hmclab.Distributions import LinearMatrix as LMwrap
    from hmclab.Distributions import LinearMatrix as _  # noqa: F401
    import hmclab.Distributions.LinearMatrix  # noqa: F401
    import sys

    LM = sys.modules["hmclab.Distributions.LinearMatrix"]
    shape = rnd.choice(["under", "over", "square"])
    nm = rnd.choice([1, 2, 3, 5])
    nd = {"under": max(1, nm - rnd.randint(1, 2)), "over": nm + rnd.randint(1, 3), "square": nm}[shape]
    G = np.array([[rnd.choice([0.0, rnd.gauss(0, 1), rnd.gauss(0, 1)]) for _ in range(nm)] for _ in range(nd)])
    d = np.array([[rnd.gauss(0, 1)] for _ in range(nd)])
    covkind = rnd.choice(["scalar", "vector", "full"])
    if covkind == "scalar":
        cov = rnd.choice([0.5, 1.0, 2.5])
        C = np.eye(nd) * cov
    elif covkind == "vector":
        cov = np.array([[rnd.choice([0.5, 1.0, 2.0, rnd.uniform(0.3, 3)])] for _ in range(nd)])
        C = np.diag(cov.ravel())
    else:
        A = np.array([[rnd.gauss(0, 1) for _ in range(nd)] for _ in range(nd)])
        cov = A @ A.T / nd + np.eye(nd)
        cov = 0.5 * (cov + cov.T)
        C = cov
    # the same problem in other units: covariances (and their inverses) far from 1
    scale = rnd.choice([1.0, 1.0, 1.0, 1e-4, 1e-10, 1e6])
    if scale != 1.0:
        cov = cov * scale
        C = C * scale
    sparse = rnd.random() < 0.5
    premul = rnd.choice([True, False, None])
    dtype = rnd.choice([np.float32, np.float64])
    via = rnd.choice(["wrapper", "class"])
    # second stream: the encodings of the same problem -------------------------------------------
    gstore = rnd2.choice([np.float64, np.float64, np.float32])
    if rnd2.random() < 0.15:
        G = np.round(2 * G)                 # whole-number entries, stored as integers
        gstore = np.int64
    wd = rnd2.choice([None, None, np.float32, np.float64])
    cov_enc = "float"
    if covkind == "scalar":
        cov_enc = rnd2.choice(["float", "float", "numpy.float64", "numpy.float32"] + (["int"] if float(cov).is_integer() else []))
        cov = {"float": float, "numpy.float64": np.float64, "numpy.float32": np.float32, "int": int}[cov_enc](cov)
        C = np.eye(nd) * float(cov)
    mkl = sparse and covkind != "full" and rnd2.random() < 0.3
    G = G.astype(gstore).astype(float)       # the values the constructor is given
    Garg = sp.csr_matrix(G.astype(gstore)) if sparse else G.astype(gstore)
    kw = {"use_mkl": True} if mkl else {}
    desc = {"shape": [nd, nm], "sparse": sparse, "covariance": covkind, "covariance_scale": scale, "premultiplication": premul, "dtype": np.dtype(dtype).name, "via": via,
            "G_stored_as": np.dtype(gstore).name, "scalar_covariance_as": cov_enc, "use_mkl": mkl}
    given = (Garg.toarray() if sparse else Garg.copy(), Garg.dtype, Garg.shape)
    with quiet(), np.errstate(all="ignore"), warnings.catch_warnings():
        warnings.simplefilter("ignore")
        if via == "wrapper":
            if not (sparse and covkind == "full"):
                kw["premultiplication"] = premul
            if wd is not None:
                kw["dtype"] = wd
            obj = LMwrap(Garg, d.copy(), cov if not isinstance(cov, np.ndarray) else cov.copy(), **kw)
            # the precision asked for; without one, that of G (integers become floats)
            dtype = np.dtype(wd if wd is not None else np.result_type(gstore, np.float32)).type
            desc["dtype"] = np.dtype(dtype).name
            desc["wrapper_dtype_argument"] = None if wd is None else np.dtype(wd).name
        else:
            if not sparse and covkind != "full":
                obj = LM._LinearMatrix_dense_forward_simple_covariance(Garg, d.copy(), cov if not isinstance(cov, np.ndarray) else cov.copy(), dtype=dtype, premultiplication=premul)
            elif not sparse:
                obj = LM._LinearMatrix_dense_forward_dense_covariance(Garg, d.copy(), cov.copy(), dtype=dtype, premultiplication=premul)
            elif covkind != "full":
                obj = LM._LinearMatrix_sparse_forward_simple_covariance(Garg, d.copy(), cov if not isinstance(cov, np.ndarray) else cov.copy(), dtype=dtype, premultiplication=premul, **kw)
            else:
                obj = LM._LinearMatrix_sparse_forward_sparse_covariance(Garg, d.copy(), cov.copy(), dtype=dtype)
    # the caller's matrix is the caller's: same values, dtype and shape after the construction
    now = (Garg.toarray() if sparse else Garg, Garg.dtype, Garg.shape)
    if not (now[1] == given[1] and now[2] == given[2] and np.array_equal(now[0], given[0])):
        desc["caller_G_changed"] = f"dtype {given[1]} -> {now[1]}, shape {given[2]} -> {now[2]}"
    return obj, G, d, C, desc, dtype


def run(tier, seed):
    rnd = random.Random(1664525 * (seed + 15) % (1 << 31))
    thorough = tier == "thorough"
    findings = []
    rnd2 = random.Random(seed * 31337 + 15)
    st = Suite("C15.backends", "the dispatching LinearMatrix wrapper and the four concrete classes x dense/sparse G x scalar/per-datum/full covariance x "
               "premultiplication in {True, False, None} x float32/float64 x histories of update_bounds / pickle / dill / copy / deepcopy round trips (bounds before or after, on the "
               "dispatcher or on the wrapped back end), under-/over-/exactly determined shapes: misfit(), gradient(), "
               "forward() and bounds vs the float64 Lean reference; non-trivial = non-square G")
    reqs, metas = [], []
    for _ in range(1500 if thorough else 400):
        try:
            state2 = rnd2.getstate()
            obj, G, d, C, desc, dtype = build_case(rnd, rnd2)
        except Exception as e:
            rnd2.setstate(state2)
            st.case({"construct": repr(e)}, nontrivial=False)
            st.disagree({"construct": True}, "constructible", repr(e), "constructor raised")
            findings.append(Finding("C15", f"the constructor raised {e!r}"[:300], {"kind": "construct", "error": type(e).__name__},
                                    {"oracle": "construct", "error": repr(e), "traceback": traceback.format_exc()[-1500:]}))
            continue
        nd, nm = G.shape
        m = np.array([[rnd.gauss(0, 1)] for _ in range(nm)])
        # history of the object before it is evaluated: bounds may be set before or after any number of pickle / copy round trips,
        # on the object itself or (dispatcher) on the concrete back end it wraps
        hist = rnd.choice([["bounds"], ["bounds"], ["pickle", "bounds"], ["bounds", "pickle"], ["bounds", "deepcopy"], ["bounds", "copy"],
                           ["bounds", "pickle", "deepcopy"], ["deepcopy", "bounds", "pickle"], ["bounds", "dill"]])
        bounds_on = "inner" if (desc["via"] == "wrapper" and rnd.random() < 0.4) else "self"
        desc = dict(desc, history=hist, bounds_on=bounds_on)
        obs = {}
        lo = np.array([[-0.5] for _ in range(nm)])
        hi = np.array([[0.5] for _ in range(nm)])
        with quiet(), np.errstate(all="ignore"):
            try:
                for op in hist:
                    if op == "bounds":
                        (obj.Distribution if bounds_on == "inner" and hasattr(obj, "Distribution") else obj).update_bounds(lo.copy(), hi.copy())
                    elif op == "pickle":
                        obj = pickle.loads(pickle.dumps(obj))
                    elif op == "dill":
                        import dill

                        obj = dill.loads(dill.dumps(obj))
                    elif op == "deepcopy":
                        obj = copy.deepcopy(obj)
                    else:
                        obj = copy.copy(obj)
            except Exception as e:
                obs["history_error"] = repr(e)
            # inside the box the bounded misfit is the unbounded one: evaluate at a point inside
            m = np.clip(m, -0.45, 0.45)
            for name, fn in (("misfit", lambda: float(obj.misfit(m.astype(dtype)))), ("gradient", lambda: np.array(obj.gradient(m.astype(dtype)), dtype=float)),
                             ("forward", lambda: np.array(obj.forward(m.astype(dtype)), dtype=float) if hasattr(obj, "forward") else None)):
                try:
                    obs[name] = fn()
                except Exception as e:
                    obs[name] = repr(e)
            # bounds add +inf outside the box
            try:
                xo = m.copy()
                xo[rnd.randrange(nm), 0] = rnd.choice([3.0, -3.0, 0.5000001])
                obs["outside"] = float(obj.misfit(xo.astype(dtype)))
                xi = np.zeros((nm, 1))
                obs["inside_finite"] = math.isfinite(float(obj.misfit(xi.astype(dtype))))
            except Exception as e:
                obs["outside"] = repr(e)
        stim = {"config": desc, "G": G.tolist(), "d": d.ravel().tolist(), "C": C.tolist(), "m": m.ravel().tolist()}
        st.case(stim, nontrivial=nd != nm, sample={"config": desc, "misfit": obs.get("misfit")} if len(st.samples) < 3 else None)
        st.count(f"{'sparse' if desc['sparse'] else 'dense'}/{desc['covariance']}")
        st.count(f"premultiplication={desc['premultiplication']}")
        st.count(f"dtype={desc['dtype']}")
        st.count(f"G stored as {desc['G_stored_as']}")
        if desc["covariance"] == "scalar":
            st.count(f"scalar covariance as {desc['scalar_covariance_as']}")
        if desc["use_mkl"]:
            st.count("use_mkl=True (library absent: documented fallback to SciPy)")
        if desc["via"] == "wrapper":
            st.count(f"wrapper dtype argument={desc['wrapper_dtype_argument']}")
        st.count(f"covariance scale={desc['covariance_scale']}")
        st.count("history=" + ">".join(desc["history"]))
        Winv = np.linalg.inv(C)
        U = np.linalg.cholesky(Winv).T
        reqs.append(f"c15.eval {mhex(G)} {nm} {vhex(d)} {mhex(Winv)} {mhex(U)} {vhex(m)}")
        metas.append((stim, obs, desc, nm))
    for (stim, obs, desc, nm), ans in zip(metas, lean_batch(reqs)):
        r = Reader(ans[3:])
        spec, sgrad, pm, pg, fm, fwd = r.flt(), r.vec(), r.flt(), r.vec(), r.flt(), r.vec()
        tol = 3e-4 if desc["dtype"] == "float32" else 1e-9
        sc = max(1.0, abs(spec))
        problems = []
        # internal consistency of the model's forms (float64)
        if not (common.close(pm, spec, 1e-9, 1e-9 * sc) and common.close(fm, spec, 1e-9, 1e-9 * sc) and common.vclose(pg, sgrad, 1e-9, 1e-9 * sc)):
            st.disagree(stim, {"spec": spec}, {"premultiplied": pm, "factor": fm}, "model forms disagree among themselves")
            continue
        if "caller_G_changed" in desc:
            problems.append(f"the constructor changed the caller's G: {desc['caller_G_changed']}")
        if "history_error" in obs:
            problems.append(f"history {desc['history']} raised {obs['history_error']}")
        if isinstance(obs["misfit"], str) or not common.close(obs["misfit"], spec, tol, tol * sc):
            problems.append(f"misfit = {obs['misfit']!r}, expected ½(Gm-d)ᵀC⁻¹(Gm-d) = {spec!r}")
        if isinstance(obs["gradient"], str) or np.shape(obs["gradient"]) != (nm, 1) or not common.vclose(sgrad, obs["gradient"], tol, tol * sc):
            problems.append(f"gradient = {obs['gradient'] if isinstance(obs['gradient'], str) else np.ravel(obs['gradient']).tolist()!r}, expected GᵀC⁻¹(Gm-d) = {sgrad!r}")
        if desc["via"] == "wrapper":
            if isinstance(obs["forward"], str) or obs["forward"] is None or not common.vclose(fwd, obs["forward"], tol, tol * sc):
                problems.append(f"forward(m) = {obs['forward'] if isinstance(obs['forward'], str) or obs['forward'] is None else np.ravel(obs['forward']).tolist()!r}, expected G m = {fwd!r}")
        if isinstance(obs.get("outside"), str) or obs.get("outside") != math.inf or not obs.get("inside_finite", False):
            problems.append(f"bounds: misfit outside the box = {obs.get('outside')!r}")
        if problems:
            st.disagree(stim, {"misfit": spec, "gradient": sgrad, "forward": fwd}, {k: (v if not isinstance(v, np.ndarray) else v.ravel().tolist()) for k, v in obs.items()},
                        problems[0])
            findings.append(Finding("C15", f"{'sparse' if desc['sparse'] else 'dense'} G, {desc['covariance']} covariance, premultiplication={desc['premultiplication']}, "
                                    f"{desc['dtype']}, via {desc['via']}: {problems[0][:160]}",
                                    {"kind": "backend", "method": problems[0].split(' ')[0].split('(')[0], "via": desc["via"]},
                                    {"oracle": "reference", "stimulus": stim, "problems": problems}))
    return [st], findings


def search(tier, seed, broken):
    return []


def replay(body):
    return False, "re-run ./check C15 (configurations are regenerated from the seed)"
