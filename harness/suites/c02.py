"""C02 — accept/reject realises the Metropolis rule exactly."""
import math
import os
import random

import numpy as np

from .. import common
from ..common import Suite, Finding, fhex, vhex, Reader, lean_batch
from ..probes import ScriptedRNG, CallLog, snapshot_sampler_class, quiet, scratch
from .c01 import make_target, make_mass, inside_start, _hm

TRUSTED_EXTRA = [
    "C02: NaN/inf statements are about the IEEE-like type Ext (Real/Ext.lean); exp rounding handled by an indeterminate band of 1e-9 relative around the threshold",
]
ASSUMPTIONS = ["target misfit, kinetic energy and the PRNG are parameters of the model: a transition is handed the values they returned"]


def _sc(v):
    """a logged misfit as a float, however the target spelled it (float, numpy scalar, 0-d / (1,) / (1, 1) array); None stays None"""
    if v is None:
        return None
    a = np.asarray(v, dtype=float)
    return float(a.reshape(-1)[0]) if a.size == 1 else v


class Nasty:
    """Wraps a distribution instance: misfit returns scripted special values at chosen call indices."""

    @staticmethod
    def install(dist, rnd, rate):
        orig = dist.misfit
        state = {"k": 0}
        specials = [float("nan"), float("inf"), float("-inf"), 1e308, -1e308, 0.0]

        def misfit(m):
            state["k"] += 1
            v = orig(m)
            if state["k"] > 1 and rnd.random() < rate:  # never the initial evaluation
                return rnd.choice(specials + [v, v])
            return v

        dist.misfit = misfit


class ArrayValued:
    """Wraps a distribution instance: misfit returns its value as a fresh numpy array object of the given shape."""

    @staticmethod
    def install(dist, shape):
        orig = dist.misfit

        def misfit(m):
            v = float(orig(m))
            return {"0d": np.array(v), "(1,)": np.array([v]), "(1,1)": np.array([[v]])}[shape]

        dist.misfit = misfit


class NastyFn:
    """Like Nasty, but a *function* of the position (special values chosen by a hash of the argument)."""

    @staticmethod
    def install(dist, rnd, rate):
        import hashlib

        orig = dist.misfit
        salt = rnd.randrange(1 << 30)
        specials = [float("nan"), float("inf"), float("-inf"), 1e308, -1e308, 0.0]
        first = {"done": False}

        def misfit(m):
            v = orig(m)
            if not first["done"]:
                first["done"] = True
                first["arg"] = np.array(m, dtype=float).tobytes()
                return v
            b = np.array(m, dtype=float).tobytes()
            if b == first["arg"]:
                return v
            h = int.from_bytes(hashlib.sha256(b + salt.to_bytes(4, "little")).digest()[:8], "little")
            if (h % 1000) / 1000.0 < rate:
                return specials[(h >> 20) % len(specials)]
            return v

        dist.misfit = misfit


def run_chain(rnd, sampler_kind, tier):
    """one instrumented chain; returns (description, transitions, sampler, userargs)"""
    _, S, MM, D = _hm()
    thorough = tier == "thorough"
    kind = rnd.choice(["normaldiag", "normaldiag", "himmelblau", "stdnormal", "uniform", "laplace"])
    d = {"himmelblau": 2, "stdnormal": 1}.get(kind, rnd.choice([1, 2, 3, 5]))
    boxed = kind == "uniform" or rnd.random() < 0.3
    dist, tstr, bstr, tdesc, lb, ub = make_target(rnd, kind, d, boxed)
    nasty = rnd.random() < 0.35
    if nasty:
        Nasty.install(dist, rnd, 0.3)
    q0 = inside_start(rnd, d, lb, ub)
    P = rnd.choice([1, 2, 5, 12, 20]) if not thorough else rnd.choice([1, 5, 20, 40])
    seed = rnd.randrange(1 << 30)
    # "all targets": a user-written target may return its misfit as an array object (the (1, 1) result of r.T @ C_inv @ r, a (1,) or a 0-d array)
    # instead of a float - a *mutable* value, which the sampler must not modify in place. Drawn from a stream of its own.
    rr = random.Random(seed ^ 0x1B873593)
    misfit_repr = rr.choice(["0d", "(1,)", "(1,1)"]) if rr.random() < 0.3 else "float"
    if misfit_repr != "float":
        ArrayValued.install(dist, misfit_repr)
    calls = CallLog()
    calls.wrap(dist, "misfit")
    desc = {"sampler": sampler_kind, "target": tdesc, "nasty": nasty, "proposals": P, "rng_seed": seed, "q0": q0.ravel().tolist(),
            "misfit_returned_as": misfit_repr}
    if sampler_kind == "RWMH":
        Snap = snapshot_sampler_class(S.RWMH)
        s = Snap(seed=1)
        if rnd.random() < 0.5:
            step = rnd.choice([0.05, 0.5, 1.0, 3.0, rnd.uniform(0.01, 5)])
        else:
            step = np.array([[rnd.choice([0.05, 0.5, 1.0, 3.0])] for _ in range(d)])
        kwargs = dict(stepsize=step if not isinstance(step, np.ndarray) else step.copy())
        desc["stepsize"] = step if not isinstance(step, np.ndarray) else step.ravel().tolist()
        userstep = step
        # "all tuning parameters": with autotuning the scalar part of the step is re-tuned after every proposal (a per-dimension array keeps its pattern);
        # drawn from a stream of its own so that the chains of earlier seeds stay what they were
        if random.Random(seed ^ 0x5BD1E995).random() < 0.3:
            kwargs["autotuning"] = True
            desc["autotuning"] = True
    else:
        Snap = snapshot_sampler_class(S.HMC)
        s = Snap(seed=1)
        mkind = rnd.choice(["unit", "diag", "full"])
        mass, mstr, mdesc = make_mass(rnd, mkind, d)
        if random.Random(seed ^ 0x2545F491).random() < 0.2:
            # "all mass matrices": the adaptive one as well - its metric changes while the trajectory is integrated; both energies of the test are
            # kinetic energies under the mass matrix as it is when the test is made
            with quiet(), np.errstate(all="ignore"):
                mass = MM.BFGS(d, q0.copy(), np.array(dist.gradient(q0.copy()), dtype=float))
            mkind, mdesc = "bfgs", {"mass": "bfgs"}
        korig = calls.wrap(mass, "kinetic_energy")
        calls.wrap(mass, "generate_momentum")
        desc_kinetic = korig
        integ = rnd.choice(["lf", "3s", "4s"])
        kwargs = dict(stepsize=rnd.choice([0.05, 0.3, 1.0, 2.5]), amount_of_steps=rnd.choice([1, 3, 7]), mass_matrix=mass,
                      integrator=integ, randomize_stepsize=rnd.random() < 0.5)
        desc.update(mass=mdesc, integrator=integ, stepsize=kwargs["stepsize"], n=kwargs["amount_of_steps"], randomize=kwargs["randomize_stepsize"])
        userstep = None
    s.rng = ScriptedRNG(fallback_seed=seed)
    s._v_calls = calls
    s._v_kinetic = locals().get("desc_kinetic")
    with scratch() as tmp, quiet(), np.errstate(all="ignore"):
        try:
            s.sample(os.path.join(tmp, "c.h5"), dist, initial_model=q0.copy(), proposals=P, overwrite_existing_file=True,
                     disable_progressbar=True, **kwargs)
        except Exception as e:  # an aborting sampler is an observation (C06/C08), not a harness failure
            desc["raised"] = repr(e)
            try:
                s.samples.close()
            except Exception:
                pass
    return desc, getattr(s, "_v_transitions", []), s, userstep


def last_value(calls, name, arg):
    """value returned by the last logged call `name` whose (first) argument equals `arg`"""
    for n, a, r in reversed(calls):
        if n == name and a and isinstance(a[0], np.ndarray) and a[0].shape == arg.shape and np.array_equal(a[0], arg, equal_nan=True):
            return r
    return None


def first_value(calls, name, arg):
    for n, a, r in calls:
        if n == name and a and isinstance(a[0], np.ndarray) and a[0].shape == arg.shape and np.array_equal(a[0], arg, equal_nan=True):
            return r
    return None


def py_rule(u, ecur, eprop):
    with np.errstate(all="ignore"):
        rate = float(np.exp(np.float64(ecur) - np.float64(eprop)))
    return rate, (u < rate)


def near(u, rate):
    if rate != rate or math.isinf(rate):
        return False
    return abs(u - rate) <= 1e-9 * max(abs(rate), 1e-300)


def check_transitions(desc, trans, sampler_kind, userstep, st, findings, reqs, metas, kinetic=None, tuned=None):
    d = len(trans[0]["pre"]["model"]) if trans else 0
    for ti, t in enumerate(trans):
        pre, post = t["pre"], t["post"]
        draws = t.get("draws", [])
        calls = t.get("calls", [])
        stim = {"chain": desc, "transition": pre["index"]}
        u = draws[-1][1][0] if draws and draws[-1][0] == "uniform" else None
        if sampler_kind == "RWMH":
            z = np.array(draws[0][1]).reshape(-1, 1) if draws and draws[0][0] == "normal" else None
            if z is None or u is None or [k for k, _ in draws] != ["normal", "uniform"]:
                st.case(stim)
                st.disagree(stim, ["normal", "uniform"], [k for k, _ in draws], "draw script of an RWMH transition")
                continue
            px = _sc(last_value(calls, "misfit", pre["proposed_model"]))
            scale = np.ones((d, 1)) * userstep if not isinstance(userstep, np.ndarray) else userstep
            if tuned is not None and ti < len(tuned):
                # autotuned run: the step recorded for proposal i is the one that generated it (C16); a per-dimension array keeps its pattern
                scale = float(tuned[ti]) * (userstep if isinstance(userstep, np.ndarray) else np.ones((d, 1)))
            # direct oracles on the implementation ----------------------------------------
            expect_prop = pre["model"] + scale * z
            if not np.array_equal(expect_prop, pre["proposed_model"], equal_nan=True):
                findings.append(Finding("C02", "RWMH proposal is not current + stepsize * standard-normal draw",
                                        {"kind": "rwmh-proposal"},
                                        {"oracle": "rwmh-proposal", "chain": desc, "transition": pre["index"],
                                         "current": pre["model"], "z": z, "stepsize": scale, "observed": pre["proposed_model"],
                                         "expected": expect_prop}))
            ecur, eprop = pre["x"], px
            reqs.append(f"c02.rwmh {vhex(pre['model'])} {fhex(pre['x'])} {pre['accepted']} {vhex(scale)} {vhex(z)} {fhex(u)} {fhex(px if px is not None else float('nan'))}")
        else:
            kinds = [k for k, _ in draws]
            want = ["normal"] + (["uniform"] if desc["randomize"] else []) + ["uniform"]
            if kinds != want:
                st.case(stim)
                st.disagree(stim, want, kinds, "draw script of an HMC transition")
                continue
            cx = _sc(first_value(calls, "misfit", pre["model"]))
            px = _sc(last_value(calls, "misfit", pre["proposed_model"]))
            # the momentum of the current state is the one that was drawn for this proposal (recorded when generate_momentum returned it),
            # whatever the sampler's attribute says by the time of the acceptance test
            drawn = [r for n_, a_, r in calls if n_ == "generate_momentum"]
            if drawn and isinstance(drawn[0], np.ndarray) and drawn[0].shape == pre["p0"].shape and not np.array_equal(drawn[0], pre["p0"], equal_nan=True):
                findings.append(Finding("C02", "HMC: at the acceptance test current_momentum is no longer the momentum drawn for this proposal "
                                        "(the energy of the current state is built from another vector)", {"kind": "rule", "sampler": "HMC", "what": "current momentum overwritten"},
                                        {"oracle": "momentum", "chain": desc, "transition": pre["index"], "drawn": drawn[0], "current_momentum_at_test": pre["p0"]}))
            p_cur = drawn[0] if drawn and isinstance(drawn[0], np.ndarray) and drawn[0].shape == pre["p0"].shape else pre["p0"]
            ck = first_value(calls, "kinetic_energy", p_cur)
            if ck is None and kinetic is not None:
                with np.errstate(all="ignore"):
                    ck = float(kinetic(p_cur.copy()))
            pk = last_value(calls, "kinetic_energy", pre["p1"])
            if ck is not None and "k0_at_test" in pre and not (common.bits_equal(float(ck), pre["k0_at_test"]) or common.close(float(ck), pre["k0_at_test"], 1e-12, 0.0)
                                                               or (ck != ck and pre["k0_at_test"] != pre["k0_at_test"])):
                findings.append(Finding("C02", f"HMC ({desc.get('mass', {}).get('mass')} mass): the kinetic energy used for the current state ({float(ck)!r}) is not the kinetic energy of the "
                                        f"current momentum under the mass matrix at the acceptance test ({pre['k0_at_test']!r}): the two energies of the test belong to different metrics",
                                        {"kind": "rule", "sampler": "HMC", "what": "current kinetic energy under another metric"},
                                        {"oracle": "kinetic-at-test", "chain": desc, "transition": pre["index"], "used": float(ck), "at_test": pre["k0_at_test"]}))
            if None in (cx, px, ck, pk):
                st.case(stim)
                st.disagree(stim, "misfit and kinetic energy evaluated at current and proposed state", [cx, px, ck, pk],
                            "energies of the respective states were not evaluated")
                continue
            ecur, eprop = float(cx) + float(ck), float(px) + float(pk)
            reqs.append(f"c02.hmc {vhex(pre['model'])} {fhex(pre['x'])} {pre['accepted']} {vhex(pre['proposed_model'])} {fhex(u)} "
                        f"{fhex(cx)} {fhex(ck)} {fhex(px)} {fhex(pk)}")
        rate, should = py_rule(u, ecur, eprop)
        accepted = post["accepted"] == pre["accepted"] + 1
        nontriv = True
        st.count("accepted" if accepted else "rejected")
        if eprop != eprop or eprop == math.inf:
            st.count("proposal energy NaN/+inf")
        metas.append((stim, t, u, rate, px, sampler_kind))
        st.case(stim, nontrivial=nontriv)
        if len(st.samples) < 3:
            st.samples.append({"sampler": sampler_kind, "u": u, "E_current": ecur, "E_proposed": eprop, "accepted": accepted})
        # direct oracle: the rule, the state update, the never-accept clause -------------------
        bad = None
        if (eprop != eprop or eprop == math.inf) and accepted:
            bad = "proposal with NaN/+inf energy accepted"
        elif not near(u, rate) and accepted != should:
            bad = f"decision {accepted} but u={u!r} and exp(E_cur-E_prop)={rate!r}"
        elif accepted and not (np.array_equal(post["model"], pre["proposed_model"], equal_nan=True) and common.bits_equal(post["x"], px)):
            bad = "after acceptance state/misfit are not the proposal's"
        elif (not accepted) and not (np.array_equal(post["model"], pre["model"], equal_nan=True)
                                     and (common.bits_equal(post["x"], pre["x"]) or sampler_kind == "HMC") and post["accepted"] == pre["accepted"]):
            bad = "after rejection state/misfit changed"
        if bad:
            findings.append(Finding("C02", f"{sampler_kind}: {bad}", {"kind": "rule", "sampler": sampler_kind, "what": bad.split(" but")[0][:40]},
                                    {"oracle": "rule", "chain": desc, "transition": pre["index"], "u": u, "E_current": ecur,
                                     "E_proposed": eprop, "pre": pre, "post": post}))


def run(tier, seed):
    rnd = random.Random(7919 * seed + 2)
    thorough = tier == "thorough"
    findings = []
    st = Suite("C02.transitions", "every transition of instrumented RWMH/HMC chains (scripted, logged draws; targets incl. NaN/±inf/huge misfits; "
               "all integrators and mass matrices; scalar and vector RWMH steps) vs model transition; decisions exact outside a 1e-9 band, "
               "states bit-exact; non-trivial = every transition; distinct by (chain description, index)")
    reqs, metas = [], []
    nchains = 260 if thorough else 70
    ends = []
    for i in range(nchains):
        kind = "RWMH" if i % 2 == 0 else "HMC"
        desc, trans, sampler, userstep = run_chain(rnd, kind, tier)
        tuned = np.ravel(np.asarray(sampler.stepsizes, dtype=float)) if desc.get("autotuning") and getattr(sampler, "stepsizes", None) is not None else None
        if desc.get("autotuning"):
            st.count("RWMH with autotuning" + (" and per-dimension steps" if isinstance(userstep, np.ndarray) else ""))
        check_transitions(desc, trans, kind, userstep, st, findings, reqs, metas, kinetic=getattr(sampler, "_v_kinetic", None), tuned=tuned)
        if "raised" in desc:
            st.count("sampler raised (see C06/C08)")
            continue
        n_acc = sum(1 for t in trans if t["post"]["accepted"] == t["pre"]["accepted"] + 1)
        ends.append((desc, n_acc, int(sampler.accepted_proposals)))
    answers = lean_batch(reqs)
    for (stim, t, u, rate, px, kind), ans in zip(metas, answers):
        pre, post = t["pre"], t["post"]
        if not ans.startswith("ok "):
            st.disagree(stim, "model answer", ans, "driver rejected the transition")
            continue
        r = Reader(ans[3:])
        if kind == "RWMH":
            mprop = r.vec()
            if not common.vbits(mprop, pre["proposed_model"]):
                st.disagree(stim, mprop, pre["proposed_model"].ravel().tolist(), "RWMH proposal differs from model")
                continue
        mrate = r.flt()
        mmodel = r.vec()
        mx = r.flt()
        macc = r.nat()
        if near(u, mrate) or near(u, rate):
            st.indeterminate += 1
            continue
        same = common.vbits(mmodel, post["model"]) and macc == post["accepted"] and (common.bits_equal(mx, post["x"]) or (mx == post["x"]))
        if not same:
            st.disagree(stim, {"model": mmodel, "x": mx, "accepted": macc},
                        {"model": post["model"].ravel().tolist(), "x": post["x"], "accepted": post["accepted"]},
                        "state after the transition differs from the model")
    # counter = number of accepting transitions ------------------------------------------------
    sc = Suite("C02.counter", "accepted_proposals after each chain vs number of accepting transitions observed; non-trivial = chain with >= 1 accept and >= 1 reject")
    for desc, n_acc, reported in ends:
        sc.case(desc, nontrivial=0 < n_acc < desc["proposals"], sample={"proposals": desc["proposals"], "accepting": n_acc, "reported": reported})
        if n_acc != reported:
            sc.disagree(desc, n_acc, reported, "accepted_proposals")
            findings.append(Finding("C02", f"accepted_proposals={reported} but {n_acc} accepting transitions", {"kind": "counter"},
                                    {"oracle": "counter", "chain": desc}))
    # sampler re-use: a second run on the same object is a run with the arguments it was given --
    sr, f2 = reuse_suite(rnd, 24 if thorough else 8)
    findings.extend(f2)
    so = overflow_suite(random.Random(seed * 69621 + 2), 24 if thorough else 8, findings)
    return [st, sc, sr, so], findings


def overflow_suite(rnd, N, findings):
    """proposals so far away that their energy overflows: +inf, never accepted"""
    import os
    from hmclab import Samplers as S, Distributions as D
    from hmclab.Samples import Samples
    from ..probes import scratch, quiet

    so = Suite("C02.overflow", "RWMH on Gaussian targets (full, diagonal and scalar covariance; Mixture of them) with step sizes of 1e155 .. 1e200: the energy of every "
               "proposal overflows to +inf (reference: the quadratic form with the scale factored out), so the chain must stay at its finite initial state; "
               "non-trivial = all")
    with scratch() as tmp:
        for ci in range(N):
            d = rnd.choice([2, 3, 4])
            A = np.array([[rnd.gauss(0, 1) for _ in range(d)] for _ in range(d)])
            cov = A @ A.T / d + np.eye(d)
            cov = 0.5 * (cov + cov.T)
            kind = rnd.choice(["full", "full", "full", "diagonal", "scalar", "mixture"])
            mu = np.zeros((d, 1))
            if kind == "full":
                dist = D.Normal(mu, cov.copy())
            elif kind == "diagonal":
                dist = D.Normal(mu, np.diag(cov).reshape(-1, 1).copy())
            elif kind == "scalar":
                dist = D.Normal(mu, 2.0)
            else:
                dist = D.Mixture([D.Normal(mu, cov.copy()), D.Normal(mu + 1.0, cov.copy() * 2)], [0.4, 0.6])
            step = rnd.choice([1e155, 1e160, 1e200])
            sd = rnd.randrange(1 << 30)
            q0 = np.array([[rnd.uniform(-0.5, 0.5)] for _ in range(d)])
            fn = os.path.join(tmp, f"o{ci}.h5")
            stim = {"target": kind, "d": d, "covariance": cov.tolist(), "stepsize": step, "seed": sd, "initial_model": q0.ravel().tolist()}
            so.case(stim, nontrivial=True, sample={"target": kind, "stepsize": step} if len(so.samples) < 2 else None)
            so.count(f"target={kind}")
            try:
                with quiet(), np.errstate(all="ignore"):
                    smp = S.RWMH(seed=sd)
                    smp.sample(fn, dist, stepsize=step, initial_model=q0.copy(), proposals=40, disable_progressbar=True, overwrite_existing_file=True)
                    sm = Samples(fn)
                    arr = np.array(sm.numpy, dtype=float)
                    sm.close()
            except Exception as e:
                findings.append(Finding("C02", f"RWMH with stepsize {step:g} on a {kind} Gaussian target raised {e!r}"[:300], {"kind": "overflow-raised"}, {"oracle": "overflow", "stimulus": stim}))
                continue
            moved = [j for j in range(arr.shape[1]) if not np.array_equal(arr[:-1, j], q0.ravel())]
            if moved:
                j = moved[0]
                x = arr[:-1, j]
                sc_ = float(np.max(np.abs(x)))
                qf = float((x / sc_) @ np.linalg.solve(cov, x / sc_)) if kind in ("full", "mixture") else float(np.sum((x / sc_) ** 2))
                with np.errstate(all="ignore"):
                    true_energy = 0.5 * qf * sc_ * sc_
                findings.append(Finding("C02", f"RWMH(seed={sd}, stepsize={step:g}) on a {kind}-covariance Gaussian accepted the proposal {x.tolist()} whose energy is {true_energy!r} "
                                        f"(stored misfit {float(arr[-1, j])!r}); accepted_proposals={int(smp.accepted_proposals)}"[:400],
                                        {"kind": "overflow-accepted", "target": kind}, {"oracle": "overflow", "stimulus": stim, "column": j}))
    return so


def reuse_suite(rnd, N):
    _, S, MM, D = _hm()
    sr = Suite("C02.reuse", "RWMH object reused after an (autotuned, per-dimension step) run: every proposal of the second run must be "
               "current + stepsize*z with the stepsize passed to the second run; non-trivial = all cases")
    findings = []
    for _ in range(N):
        d = rnd.choice([2, 3])
        dist = D.Normal(np.zeros((d, 1)), 1.0)
        Snap = snapshot_sampler_class(S.RWMH)
        s = Snap(seed=3)
        first_auto = rnd.random() < 0.7
        step1 = np.array([[rnd.choice([0.5, 2.0, 100.0])] for _ in range(d)])
        step2 = rnd.choice([0.001, 0.5, 1.0])
        s.rng = ScriptedRNG(fallback_seed=rnd.randrange(1 << 30))
        with scratch() as tmp, quiet(), np.errstate(all="ignore"):
            s.sample(os.path.join(tmp, "a.h5"), dist, stepsize=step1.copy(), proposals=5, autotuning=first_auto,
                     overwrite_existing_file=True, disable_progressbar=True)
            s._v_transitions = []
            s.sample(os.path.join(tmp, "b.h5"), dist, stepsize=step2, proposals=4, overwrite_existing_file=True, disable_progressbar=True)
        stim = {"d": d, "first_run": {"stepsize": step1.ravel().tolist(), "autotuning": first_auto}, "second_run": {"stepsize": step2}}
        sr.case(stim, sample=stim)
        for t in s._v_transitions:
            z = np.array(t["draws"][0][1]).reshape(-1, 1)
            expect = t["pre"]["model"] + step2 * z
            if not np.allclose(expect, t["pre"]["proposed_model"], rtol=1e-12, atol=0):
                sr.disagree(stim, expect.ravel().tolist(), t["pre"]["proposed_model"].ravel().tolist(), "proposal of the re-used sampler")
                findings.append(Finding("C02", "re-used RWMH sampler: proposal is not current + (new) stepsize * z — a per-dimension factor of the previous run is still applied",
                                        {"kind": "rwmh-reuse-stale-step"},
                                        {"oracle": "rwmh-reuse", "stimulus": stim, "observed_increment": (t["pre"]["proposed_model"] - t["pre"]["model"]).ravel().tolist(),
                                         "expected_increment": (step2 * z).ravel().tolist()}))
                break
    return sr, findings


def search(tier, seed, broken):
    return []


def replay(body):
    r = body.get("replay", {})
    if r.get("oracle") == "rwmh-reuse":
        s, f = reuse_suite(random.Random(1), 6)
        return (not f), "re-ran the reuse oracle"
    return False, "re-run ./check C02 (chains are regenerated from the seed)"
