"""C19 — gradient_descent returns a consistent, finite, guarded trajectory."""
import copy
import math
import random

import numpy as np

from .. import common
from ..common import Suite, Finding, fhex, vhex, opt, Reader, lean_batch
from ..probes import CallLog, quiet
from .c01 import make_target, inside_start, _hm
from .c02 import NastyFn

TRUSTED_EXTRA = ["C19: the target is a parameter of the model: the model is handed the table of (argument, value) evaluations the implementation made and must ask for exactly those points"]
ASSUMPTIONS = ["elementwise float64 arithmetic of `m - epsilon * g` is reproduced bit for bit by the Lean Float model"]


def one_case(rnd):
    _, S, MM, D = _hm()
    from hmclab.Optimizers import gradient_descent

    kind = rnd.choice(["normaldiag", "normaldiag", "himmelblau", "stdnormal", "laplace", "uniform", "bayes", "bayes", "bayes-user"])
    d = {"himmelblau": 2, "stdnormal": 1}.get(kind, rnd.choice([1, 2, 3, 5]))
    boxed = kind == "uniform" or rnd.random() < 0.4
    if kind == "bayes-user":
        # a posterior one factor of which is written by the user, the way users write them: the gradient of ½|m|² is "m" (the argument itself is returned),
        # the gradient of rate·m is "rate" (an attribute is returned) - legal: nothing says that gradient() must return a fresh array
        flavour = rnd.choice(["returns-its-argument", "returns-an-attribute"])

        class UserFactor(D._AbstractDistribution):
            def __init__(self, dims, rate):
                self.name = "user factor"
                self.dimensions = dims
                self.rate = rate

            def misfit(self, m_):
                return (0.5 * float(np.sum(m_ ** 2)) if flavour == "returns-its-argument" else float(np.sum(self.rate * m_))) + self.misfit_bounds(m_)

            def gradient(self, m_):
                return m_ if flavour == "returns-its-argument" else self.rate

            def generate(self, repeat=1, rng=None):
                raise NotImplementedError()

        rate = np.array([[rnd.uniform(0.2, 2.0)] for _ in range(d)])
        like, _, _, ldesc, lb, ub = make_target(rnd, "normaldiag", d, False)
        user = UserFactor(d, rate.copy())
        order = rnd.choice(["user-first", "user-first", "user-last"])
        dist = D.BayesRule([user, like] if order == "user-first" else [like, user])
        tdesc = {"kind": "bayes-user", "order": order, "user_factor": flavour, "rate": rate.ravel().tolist(), "likelihood": ldesc}
    elif kind == "bayes":
        # a posterior: uniform prior x Gaussian likelihood, in either order
        prior, _, _, pdesc, lb, ub = make_target(rnd, "uniform", d, True)
        like, _, _, ldesc, _, _ = make_target(rnd, "normaldiag", d, False)
        order = rnd.choice(["prior-first", "likelihood-first"])
        dist = D.BayesRule([prior, like] if order == "prior-first" else [like, prior])
        tdesc = {"kind": "bayes", "order": order, "prior": pdesc, "likelihood": ldesc}
    else:
        dist, tstr, bstr, tdesc, lb, ub = make_target(rnd, kind, d, boxed)
    nasty = rnd.random() < 0.25
    if nasty:
        NastyFn.install(dist, rnd, 0.2)
    pristine = copy.deepcopy(dist)       # never evaluated by the optimiser: the reference for what the target's misfit and gradient are
    cut = None
    if rnd.random() < 0.12:
        # Ctrl-C while the target is being evaluated: gradient_descent returns what it has
        cut = rnd.randint(1, 8)
        inner_misfit = dist.misfit
        state = {"k": 0}

        def interrupting_misfit(m_):
            state["k"] += 1
            if state["k"] == cut:
                raise KeyboardInterrupt
            return inner_misfit(m_)

        dist.misfit = interrupting_misfit
    calls = CallLog()
    calls.wrap(dist, "misfit")
    calls.wrap(dist, "gradient")
    eps = rnd.choice([0.1, 0.01, 0.5, 1.0, 2.5, 10.0, 1e3, 1e200, rnd.uniform(0.001, 3)])
    iters = rnd.choice([0, 1, 2, 5, 12, 30])
    reg = rnd.choice([None, None, 1.0, 0.1, 10.0, 0.0, 0, 1e-300])
    strict = rnd.random() < 0.5
    m0 = inside_start(rnd, d, lb, ub) if rnd.random() < 0.9 else None
    stim = {"target": tdesc, "nasty": nasty, "epsilon": eps, "iterations": iters, "regularization": reg, "strictly_monotonic": strict,
            "initial_model": None if m0 is None else m0.ravel().tolist(), "interrupt_at_misfit_call": cut}
    with quiet(), np.errstate(all="ignore"):
      try:
        m, x, ms, xs = gradient_descent(dist, initial_model=None if m0 is None else m0.copy(), epsilon=eps, iterations=iters,
                                        regularization=reg, strictly_monotonic=strict, disable_progressbar=True)
      except Exception as e:
        stim["raised"] = repr(e)
        m, x, ms, xs = np.zeros((d, 1)), float("nan"), np.zeros((0, d, 1)), np.zeros(0)
    return stim, pristine, calls.calls, (m, x, ms, xs), (np.zeros((d, 1)) if m0 is None else m0), nasty


def run(tier, seed):
    rnd = random.Random(31337 * seed + 19)
    thorough = tier == "thorough"
    findings = []
    st = Suite("C19.descent", "gradient_descent on quadratic / Himmelblau / Laplace / bounded / NaN-returning / diverging targets, with and without "
               "regularisation and monotone guard, vs model (target given as evaluation table); bit-exact; non-trivial = history with >= 2 entries")
    reqs, metas = [], []
    for _ in range(1200 if thorough else 300):
        stim, dist, calls, ret, m0, nasty = one_case(rnd)
        mt = [(a[0], r) for n, a, r in calls if n == "misfit"]
        gt = [(a[0], r) for n, a, r in calls if n == "gradient"]
        # an interrupted run is the run of the iterations that were completed (model: gradientDescentInterrupted)
        iters_model = stim["iterations"] if stim["interrupt_at_misfit_call"] is None else min(stim["iterations"], max(len(np.ravel(ret[3])) - 1, 0))
        req = (f"c19.gd {fhex(stim['epsilon'])} {opt(None if stim['regularization'] is None else fhex(stim['regularization']))} "
               f"{int(stim['strictly_monotonic'])} {iters_model} {vhex(m0)} {len(mt)} "
               + " ".join(f"{vhex(a)} {fhex(r)}" for a, r in mt) + f" {len(gt)} " + " ".join(f"{vhex(a)} {vhex(r)}" for a, r in gt))
        reqs.append(req)
        metas.append((stim, ret, mt, gt, dist, nasty))
    answers = lean_batch(reqs)
    for (stim, (m, x, ms, xs), mt, gt, dist, nasty), ans in zip(metas, answers):
        ms = np.array(ms, dtype=float)
        xs = np.array(xs, dtype=float).ravel()
        if "raised" in stim:
            st.case(stim, nontrivial=False)
            st.disagree(stim, "a trajectory", stim["raised"], "gradient_descent raised")
            findings.append(Finding("C19", f"gradient_descent raised {stim['raised'][:160]}", {"kind": "gd", "problem": "raised"}, {"oracle": "gd", "stimulus": stim}))
            continue
        if stim["interrupt_at_misfit_call"] is not None and len(xs) == 0:
            st.case(stim, nontrivial=False)
            st.count("interrupted in the very first evaluation")
            continue
        st.case(stim, nontrivial=len(xs) >= 2)
        if stim["interrupt_at_misfit_call"] is not None:
            st.count("interrupted while the target was evaluated")
        st.count(f"history_len={'1' if len(xs) == 1 else '2-5' if len(xs) <= 5 else '6+'}")
        stopped_early = len(xs) - 1 < stim["iterations"]
        if stopped_early:
            st.count("guard fired")
        if len(st.samples) < 3 and len(xs) >= 2:
            st.samples.append({"stimulus": stim, "xs": xs[:5].tolist()})
        # direct oracles ---------------------------------------------------------------------
        problems = []
        if not (np.array_equal(np.ravel(m), np.ravel(ms[-1]), equal_nan=True) and common.bits_equal(float(x), float(xs[-1]))):
            problems.append("returned model/misfit are not the last history entries")
        lookup = {np.asarray(a, dtype=float).tobytes(): r for a, r in mt}
        for k in range(len(xs)):
            v = lookup.get(np.ascontiguousarray(ms[k], dtype=float).reshape(-1, 1).tobytes())
            if v is None or not (common.bits_equal(float(v), float(xs[k])) or nasty):
                problems.append(f"history misfit {k} is not the target's misfit at history model {k}")
                break
        glook = {np.asarray(a, dtype=float).tobytes(): r for a, r in gt}
        for k in range(len(xs) - 1):
            g = glook.get(np.ascontiguousarray(ms[k], dtype=float).reshape(-1, 1).tobytes())
            if g is None:
                problems.append(f"gradient was not evaluated at history model {k}")
                break
            g = np.asarray(g, dtype=float).reshape(-1, 1)
            if stim["regularization"] is not None:
                g = (1.0 / (g * g + stim["regularization"])) * g
            expect = ms[k].reshape(-1, 1) - stim["epsilon"] * g
            if not np.allclose(expect, ms[k + 1].reshape(-1, 1), rtol=1e-12, atol=0, equal_nan=True):
                problems.append(f"history model {k + 1} is not model {k} - epsilon * gradient")
                break
        # ... where "the target's misfit / gradient" is what a copy of the target that the optimiser never touched returns
        if not problems:
            for k in range(len(xs)):
                mk = np.ascontiguousarray(ms[k], dtype=float).reshape(-1, 1)
                with np.errstate(all="ignore"), quiet():
                    fresh = copy.deepcopy(dist)
                    xv = float(fresh.misfit(mk.copy()))
                    gv = np.asarray(copy.deepcopy(dist).gradient(mk.copy()), dtype=float).reshape(-1, 1) if k < len(xs) - 1 else None
                if not (common.bits_equal(xv, float(xs[k])) or common.close(xv, float(xs[k]), 1e-13, 0) or (xv != xv and xs[k] != xs[k])):
                    problems.append(f"history misfit {k} ({xs[k]!r}) is not the misfit an untouched copy of the target gives at that model ({xv!r})")
                    break
                g_used = glook.get(mk.tobytes())
                if gv is not None and g_used is not None and not np.allclose(np.asarray(g_used, dtype=float).reshape(-1, 1), gv, rtol=1e-13, atol=0, equal_nan=True):
                    problems.append(f"the gradient used for step {k} is not the gradient an untouched copy of the target gives at model {k}")
                    break
        if any((v != v or math.isinf(v)) for v in xs[1:]):
            problems.append("a step with NaN/infinite misfit was returned")
        if stim["strictly_monotonic"] and any(xs[k + 1] > xs[k] for k in range(len(xs) - 1)):
            problems.append("misfit history increases although strictly_monotonic")
        if problems:
            findings.append(Finding("C19", problems[0], {"kind": "gd", "problem": problems[0][:30]},
                                    {"oracle": "gd", "stimulus": stim, "problems": problems, "xs": xs.tolist()}))
        # correspondence ---------------------------------------------------------------------
        if not ans.startswith("ok "):
            st.disagree(stim, "model answer", ans, "driver rejected the case")
            continue
        r = Reader(ans[3:])
        mm, mx, n = r.vec(), r.flt(), r.nat()
        mhist = [(r.vec(), r.flt()) for _ in range(n)]
        same = (n == len(xs) and common.vbits(mm, np.ravel(m)) and common.bits_equal(mx, float(x))
                and all(common.vbits(a, ms[k].ravel()) and common.bits_equal(b, xs[k]) for k, (a, b) in enumerate(mhist)))
        if not same:
            st.disagree(stim, {"m": mm, "x": mx, "len": n, "xs": [b for _, b in mhist][:8]},
                        {"m": np.ravel(m).tolist(), "x": float(x), "len": len(xs), "xs": xs[:8].tolist()}, "trajectory differs from model")
    return [st], findings


def search(tier, seed, broken):
    return []


def replay(body):
    return False, "re-run ./check C19 (cases are regenerated from the seed)"
