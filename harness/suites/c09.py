"""C09 — seeded runs are bit-reproducible and independent of observers."""
import os
import random

import numpy as np

from .. import common
from ..common import Suite, Finding, lean_batch
from ..probes import ScriptedRNG, ScriptedClock, patched_clock, quiet, scratch
from .c01 import make_target, make_mass, inside_start, _hm

TRUSTED_EXTRA = ["C09: 'different seeds give different chains' and the stream laws are properties of NumPy's PCG64 — sampled, not proved",
                 "C09: the theorem is non-interference in the model (columns are a function of configuration and draws only); its force on the code comes from the metamorphic pairs below"]
ASSUMPTIONS = ["max_time is excluded (clock-dependent by definition)"]


def make_run(bseed, cfg, tmp, tag, P=None, ext="h5", diagnostic=False, progressbar=False, visual=False, animate=False, clock=None, seed=None, used_before=False):
    _, S, MM, D = _hm()
    r = random.Random(bseed)
    if cfg["target"] == "narrow-normal":
        # a target much narrower than the initial step: an autotuned step size is pushed through zero by the first rejections and has to be floored
        dist, lb, ub = D.Normal(np.zeros((cfg["d"], 1)), 1e-4), None, None
    else:
        dist, tstr, bstr, tdesc, lb, ub = make_target(r, cfg["target"], cfg["d"], cfg["boxed"])
    q0 = inside_start(r, cfg["d"], lb, ub)
    name = cfg["sampler"] + ("_visual" if visual else "")
    cls = getattr(S, name)
    sd = cfg["seed"] if seed is None else seed
    s = cls(seed=sd, animate_proposals=animate) if visual else cls(seed=sd)
    kw = dict(stepsize=cfg["stepsize"], autotuning=cfg["autotuning"])
    if cfg["sampler"] == "HMC":
        mass, _, _ = make_mass(r, cfg["mass"], cfg["d"])
        kw.update(mass_matrix=mass, integrator=("lf" if visual else cfg["integrator"]), amount_of_steps=cfg["n"], randomize_stepsize=cfg["randomize"])
    fn = os.path.join(tmp, f"r{tag}.{ext}")
    ctx = patched_clock(clock) if clock is not None else _null()
    if used_before:
        # the very distribution and mass-matrix objects of this run have been used by other samplers (other seeds) before
        with quiet(), np.errstate(all="ignore"):
            for k, oseed in enumerate((sd + 12345, sd + 777)):
                o = cls(seed=oseed, animate_proposals=False) if visual else cls(seed=oseed)
                o.sample(os.path.join(tmp, f"r{tag}_other{k}.{ext}"), dist, initial_model=q0.copy(), proposals=3 + k, overwrite_existing_file=True,
                         disable_progressbar=True, **kw)
    with quiet(), np.errstate(all="ignore"), ctx:
        s.sample(fn, dist, initial_model=q0.copy(), proposals=P or cfg["P"], online_thinning=cfg["t"], overwrite_existing_file=True,
                 disable_progressbar=not progressbar, diagnostic_mode=diagnostic, **kw)
        if visual:
            import matplotlib.pyplot as plt

            plt.close("all")
    from hmclab.Samples import Samples

    with quiet():
        sm = Samples(fn)
        arr = np.array(sm.numpy, dtype=float)
        sm.close()
    return arr


class _null:
    def __enter__(self):
        return self

    def __exit__(self, *a):
        return False


def unrelated_activity(rnd):
    """library activity that must not influence a seeded run"""
    _, S, MM, D = _hm()
    np.random.seed(rnd.randrange(1 << 30))
    np.random.rand(rnd.randint(1, 7))
    with np.errstate(all="ignore"), quiet():
        MM.Unit(3).generate_momentum()
        MM.Diagonal(np.ones(2)).generate_momentum()
        D.Normal(np.zeros((2, 1)), 1.0).generate(3)
        D.Uniform([0, 0], [1, 1]).generate(2)
        other = S.RWMH(seed=rnd.randrange(1 << 30))
        other.rng.normal(size=5)


def raytracing_suite(rnd, count, findings):
    """targets whose misfit involves a search of their own: the layered ray tracer"""
    from hmclab.Distributions import LayeredRayTracing2D
    from hmclab.Samples import Samples
    _, S, MM, D = _hm()
    sr = Suite("C09.raytracing", "RWMH(seed) on LayeredRayTracing2D targets (serial ray tracing; 6-10 layers, 12-28 receivers, the take-off angle search needs refinement): "
               "(a) two runs on freshly constructed, identical targets with NumPy's global generator in different states, (b) two runs on one and the same target "
               "object (it has been used by the first run), global generator in the same state; byte-identical files required; non-trivial = all")
    with scratch() as tmp:
        for ci in range(count):
            nl = rnd.choice([6, 8, 10])
            inter = np.linspace(0, 1000, nl) + 20
            rz = np.linspace(100, 800, rnd.choice([12, 20, 28]))
            vtrue = np.ones(nl) * 1200 + inter * 1.2
            m0 = (vtrue * 1.05)[:, None]
            sd = rnd.randrange(1 << 30)
            P = rnd.choice([4, 6])

            def target():
                ph = LayeredRayTracing2D(inter, [500], rz)
                ph.parallel = False
                np.random.seed(1234)
                obs = np.array(ph.forward(vtrue))
                t = LayeredRayTracing2D(inter, [500], rz, traveltimes_observed=obs)
                t.parallel = False
                return t

            def go(t, tag, gseed):
                np.random.seed(gseed)
                fn = os.path.join(tmp, f"ray{ci}{tag}.h5")
                with quiet(), np.errstate(all="ignore"):
                    S.RWMH(seed=sd).sample(fn, t, stepsize=5.0, initial_model=m0.copy(), proposals=P, disable_progressbar=True, overwrite_existing_file=True)
                    sm = Samples(fn)
                    arr = np.array(sm.numpy, dtype=float)
                    sm.close()
                return arr

            cfg = {"layers": nl, "receivers": int(rz.size), "seed": sd, "proposals": P}
            with quiet(), np.errstate(all="ignore"):
                a = go(target(), "a", 0)
                b = go(target(), "b", 1)
                shared = target()
                c1 = go(shared, "c1", 0)
                c2 = go(shared, "c2", 0)
            for vname, x, y, sig in (("fresh targets, global generator in another state", a, b, {"kind": "raytracing", "variant": "global-rng"}),
                                     ("the same target object, used by the first run", c1, c2, {"kind": "raytracing", "variant": "target-object-used-before"})):
                stim = {"config": cfg, "variant": vname}
                sr.case(stim, nontrivial=True, sample=stim if len(sr.samples) < 2 else None)
                sr.count(f"variant={vname}")
                if x.shape != y.shape or x.tobytes() != y.tobytes():
                    sr.count(f"differs: {vname}")
                    findings.append(Finding("C09", f"LayeredRayTracing2D target, RWMH(seed={sd}): two runs with the same seed, initial model and tuning differ ({vname})",
                                            sig, {"oracle": "raytracing", "stimulus": stim}))
    return sr


def run(tier, seed):
    rnd = random.Random(16807 * seed + 9)
    thorough = tier == "thorough"
    findings = []
    _, S, MM, D = _hm()
    st = Suite("C09.observers", "metamorphic pairs on the implementation: same seed/target/tuning with perturbed global numpy RNG state and unrelated library "
               "activity, distribution and mass-matrix objects already used by other samplers, swapped back end, diagnostic mode, progress bar, visual samplers (animated or not), fast/slow/non-monotone clocks; prefix pairs; "
               "seeds incl. 0, 1 and 2^32-1; byte-identical arrays required; non-trivial = pair whose base run has >= 1 accept and >= 1 reject")
    with scratch() as tmp:
        for ci in range(24 if thorough else 7):
            cfg = {"sampler": rnd.choice(["RWMH", "HMC"]), "target": rnd.choice(["normaldiag", "himmelblau", "laplace"]),
                   "boxed": rnd.random() < 0.3, "seed": ([0, 0, 1][ci] if ci < 3 else rnd.choice([rnd.randrange(1 << 30), rnd.randrange(1 << 30), 0, 2**32 - 1])), "stepsize": rnd.choice([0.1, 0.5, 1.5]),
                   "autotuning": rnd.random() < 0.4, "mass": rnd.choice(["unit", "diag", "full"]), "integrator": rnd.choice(["lf", "3s", "4s"]),
                   "n": rnd.choice([1, 3]), "randomize": rnd.random() < 0.5, "P": rnd.choice([6, 12, 20]), "t": rnd.choice([1, 2])}
            cfg["d"] = 2 if cfg["target"] == "himmelblau" else rnd.choice([2, 3])
            forced_variants = []
            if ci == 3:
                # observers of a run without step-size randomisation: the animated sampler must not draw anything the plain one does not
                cfg.update(sampler="HMC", integrator="lf", randomize=False, autotuning=False)
                forced_variants = ["visual", "visual+animation"]
            if ci == 4:
                # an autotuned RWMH run whose step size hits the floor, observed with and without diagnostic mode
                cfg.update(sampler="RWMH", autotuning=True, stepsize=1.5, target="narrow-normal", boxed=False, P=20)
                forced_variants = ["diagnostic_mode"]
            bseed = rnd.randrange(1 << 30)
            base = make_run(bseed, cfg, tmp, f"{ci}b")
            moved = len({base[:, j].tobytes() for j in range(base.shape[1])})
            nontrivial = 1 < moved < base.shape[1] or moved > 1
            variants = [
                ("global-rng+unrelated-activity", dict()),
                ("objects-used-by-other-samplers-before", dict(used_before=True)),
                ("backend=npy", dict(ext="npy")),
                ("diagnostic_mode", dict(diagnostic=True)),
                ("progressbar", dict(progressbar=True)),
                ("clock=slow", dict(clock=ScriptedClock(lambda k: 100.0 * k))),
                ("clock=non-monotone", dict(clock=ScriptedClock(lambda k: [5.0, 0.0, 50.0, 2.0][k % 4]))),
            ]
            if cfg["integrator"] == "lf" or cfg["sampler"] == "RWMH":
                variants.append(("visual", dict(visual=True)))
                if cfg["sampler"] == "HMC":
                    variants.append(("visual+animation", dict(visual=True, animate=True)))
            if not thorough:
                variants = variants[:3] + [v for v in variants[3:] if v[0] in forced_variants] + rnd.sample([v for v in variants[3:] if v[0] not in forced_variants], 2)
            for vi, (vname, kw) in enumerate(variants):
                unrelated_activity(rnd)
                if "visual" in vname:
                    cfgv = dict(cfg, integrator="lf")
                    ref = make_run(bseed, cfgv, tmp, f"{ci}vb") if cfg["sampler"] == "HMC" else base
                    other = make_run(bseed, cfgv, tmp, f"{ci}v{vi}", **kw)
                else:
                    ref = base
                    other = make_run(bseed, cfg, tmp, f"{ci}v{vi}", **kw)
                stim = {"config": cfg, "variant": vname}
                st.case(stim, nontrivial=nontrivial, sample={"variant": vname, "sampler": cfg["sampler"], "columns": int(base.shape[1])} if len(st.samples) < 3 else None)
                st.count(f"variant={vname}")
                if ref.shape != other.shape or ref.tobytes() != other.tobytes():
                    st.disagree(stim, "byte-identical arrays", "arrays differ", vname)
                    findings.append(Finding("C09", f"run under '{vname}' differs from the plain run with the same seed",
                                            {"kind": "observer", "variant": vname}, {"oracle": "observer", "stimulus": stim}))
            # prefix
            Pshort = rnd.choice([p for p in range(cfg["t"], cfg["P"], cfg["t"])])
            short = make_run(bseed, cfg, tmp, f"{ci}s", P=Pshort)
            stim = {"config": cfg, "variant": f"prefix P'={Pshort}"}
            st.case(stim, nontrivial=nontrivial)
            st.count("variant=prefix")
            if short.tobytes() != base[:, : short.shape[1]].tobytes():
                st.disagree(stim, "prefix of the longer run", "differs", "prefix")
                findings.append(Finding("C09", "shorter run is not a prefix of the longer run with the same seed", {"kind": "prefix"},
                                        {"oracle": "prefix", "stimulus": stim}))
            # distinct seeds (sampled PRNG property)
            other = make_run(bseed, cfg, tmp, f"{ci}o", seed=cfg["seed"] + 1)
            st.case({"config": cfg, "variant": "other seed"}, nontrivial=nontrivial)
            st.count("variant=other-seed")
            frozen = bool(np.all(base[:-1] == base[:-1, :1])) and bool(np.all(other[:-1] == other[:-1, :1]))
            if frozen:
                # every proposal of both runs was rejected: both files repeat the (seed-independent) initial model, so they
                # coincide whatever the streams are — says nothing about the seeds
                st.indeterminate += 1
                st.count("other-seed: both chains never moved")
            elif other.tobytes() == base.tobytes():
                st.disagree({"config": cfg}, "different chains", "identical", "other seed")
                findings.append(Finding("C09", "different seeds give identical chains", {"kind": "seeds"}, {"oracle": "seeds", "config": cfg}))

    # generate(rng) -------------------------------------------------------------------------------
    sg = Suite("C09.generate", "distribution.generate(repeat, rng=G): equal generators give equal outputs whatever the global numpy RNG state; the global state "
               "is left untouched; under a scripted generator every random number is requested from G (non-empty draw script); "
               "non-trivial = multi-dimensional, repeat >= 2")
    def dists(r):
        d = r.choice([1, 2, 3])
        A = np.array([[r.gauss(0, 1) for _ in range(d)] for _ in range(d)])
        cov = A @ A.T + d * np.eye(d)
        n1 = D.Normal(np.array([[r.uniform(-1, 1)] for _ in range(d)]), np.array([[r.uniform(0.5, 2)] for _ in range(d)]))
        n2 = D.Normal(np.array([[r.uniform(-1, 1)] for _ in range(d)]), cov)
        yield "StandardNormal1D", D.StandardNormal1D()
        yield "Normal(diagonal)", n1
        yield "Normal(scalar)", D.Normal(np.zeros((d, 1)), 2.0)
        yield "Normal(full)", n2
        yield "Laplace", D.Laplace(np.array([[r.uniform(-1, 1)] for _ in range(d)]), np.array([[r.uniform(0.5, 2)] for _ in range(d)]))
        yield "Uniform", D.Uniform([-1.0] * d, [2.0] * d)
        yield "Composite", D.CompositeDistribution([D.Normal(np.zeros((d, 1)), 1.0), D.Laplace(np.zeros((1, 1)), np.ones((1, 1))), D.Normal(np.zeros((d, 1)), cov.copy())])
        yield "Mixture", D.Mixture([D.Normal(np.zeros((d, 1)), 1.0), D.Normal(np.ones((d, 1)) * 3, 0.5), D.Normal(-np.ones((d, 1)), cov.copy())], [0.2, 0.5, 0.3])
        yield "TransformToLogSpace", D.TransformToLogSpace(D.Normal(np.zeros((d, 1)), 0.3), base=r.choice([10, 2.0, np.e]))

    for ci in range(12 if thorough else 4):
        for name, dist in dists(rnd):
            rep = rnd.choice([1, 2, 5, 20])
            gs = rnd.randrange(1 << 30)
            with np.errstate(all="ignore"), quiet():
                np.random.seed(1)
                a = np.array(dist.generate(rep, rng=np.random.default_rng(gs)), dtype=float)
                np.random.seed(rnd.randrange(1 << 30))
                np.random.rand(3)
                before = np.random.get_state()
                b = np.array(dist.generate(rep, rng=np.random.default_rng(gs)), dtype=float)
                after = np.random.get_state()
                script = ScriptedRNG(fallback_seed=gs)
                try:
                    dist.generate(rep, rng=script)
                    log = list(script.log)
                except Exception as e:
                    log = f"<generate with a scripted generator raised {e!r}>"
            stim = {"distribution": name, "repeat": rep, "generator_seed": gs}
            sg.case(stim, nontrivial=(rep >= 2 and dist.dimensions >= 2), sample=stim if len(sg.samples) < 2 else None)
            sg.count(f"class={name}")
            problems = []
            if a.shape != (dist.dimensions, rep):
                problems.append(f"shape {a.shape} is not (dimensions, repeat)")
            if a.shape != b.shape or a.tobytes() != b.tobytes():
                problems.append("two calls with equal generators give different outputs")
            if not (before[0] == after[0] and np.array_equal(before[1], after[1]) and before[2:] == after[2:]):
                problems.append("generate(rng=G) consumed NumPy's global random state")
            if isinstance(log, list) and len(log) == 0:
                problems.append("generate(rng=G) requested no random number from G")
            if problems:
                sg.disagree(stim, "deterministic function of the supplied generator", problems, "generate")
                findings.append(Finding("C09", f"{name}.generate(repeat, rng=<seeded generator>): {problems[0]}",
                                        {"kind": "generate", "class": name, "problem": problems[0][:30]},
                                        {"oracle": "generate", "stimulus": stim, "problems": problems}))
    sr = raytracing_suite(rnd, 3 if thorough else 1, findings)
    # model side: the file depends on (P, t) only — two environments, same answer
    ans = lean_batch(["c08.fault 12 3 " + " ".join(["1"] * 12) + " - I", "c08.fault 12 3 " + " ".join(["7"] * 12) + " - I"])
    if ans[0] != ans[1]:
        st.disagree({"model": "env"}, ans[0], ans[1], "model columns depend on the number of instrumented calls")
    return [st, sg, sr], findings


def search(tier, seed, broken):
    return []


def replay(body):
    return False, "re-run ./check C09 (pairs are regenerated from the seed)"
