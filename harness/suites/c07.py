"""C07 — the samples file is the chain: thinned states with their own misfits."""
import os
import random

import numpy as np

from .. import common
from ..common import Suite, Finding, Reader, lean_batch
from ..probes import snapshot_sampler_class, quiet, scratch
from .c01 import make_target, make_mass, inside_start, _hm

TRUSTED_EXTRA = ["C07: HDF5 / NPY encodings are parameters; the chain states are the per-proposal snapshots of an instrumented sampler subclass"]
ASSUMPTIONS = ["targets used here are deterministic functions of the position (misfit re-evaluated on stored columns)"]


def build(rnd_seed, cfg):
    """fresh (sampler, dist, kwargs) for a configuration; deterministic in rnd_seed"""
    _, S, MM, D = _hm()
    r = random.Random(rnd_seed)
    dist, tstr, bstr, tdesc, lb, ub = make_target(r, cfg["target"], cfg["d"], cfg["boxed"])
    q0 = inside_start(r, cfg["d"], lb, ub)
    base = S.RWMH if cfg["sampler"] == "RWMH" else S.HMC
    Snap = snapshot_sampler_class(base)
    s = Snap(seed=cfg["seed"])
    kw = dict(stepsize=cfg["stepsize"], autotuning=cfg["autotuning"])
    if cfg["sampler"] == "HMC":
        mass, _, _ = make_mass(r, cfg["mass"], cfg["d"])
        kw.update(mass_matrix=mass, integrator=cfg["integrator"], amount_of_steps=cfg["n"], randomize_stepsize=cfg["randomize"])
    return s, dist, q0, kw


def read_all(fn):
    from hmclab.Samples import Samples

    with quiet():
        s = Samples(fn)
        arr = np.array(s.numpy, dtype=float)
        keys = ["proposals", "online_thinning", "sampler", "write_index", "last_written_sample", "acceptance_rate", "stepsize"]
        attrs = {}
        for k in keys:
            try:
                attrs[k] = s.read_attribute(k)
            except Exception as e:
                attrs[k] = f"<missing: {e!r}>"
        for k in ("amount_of_steps", "mass_matrix", "integrator"):
            try:
                attrs[k] = s.read_attribute(k)
            except Exception:
                pass
        s.close()
    return arr, attrs


def divisors(P):
    return [t for t in range(1, P + 1) if P % t == 0]


def run(tier, seed):
    rnd = random.Random(69069 * seed + 7)
    thorough = tier == "thorough"
    findings = []
    st = Suite("C07.file", "runs of RWMH/HMC (all integrators, mass matrices, bounded/unbounded targets, autotuning on/off), P <= 60, every thinning t | P, "
               "HDF5 and NPY: file columns vs per-proposal state snapshots at the indices the model stores, misfit re-evaluated on the stored columns, "
               "attributes, equality of the two back ends, thinned = every t-th column of the unthinned run; bit-exact; "
               "non-trivial = t > 1 and at least one accept and one reject")
    reqs, metas = [], []
    with scratch() as tmp:
        for ci in range(60 if thorough else 16):
            P = rnd.choice([1, 2, 6, 12, 20, 30, 60] if thorough else [1, 6, 12, 20])
            cfg = {"sampler": rnd.choice(["RWMH", "HMC"]), "target": rnd.choice(["normaldiag", "himmelblau", "laplace", "uniform"]),
                   "boxed": rnd.random() < 0.3, "seed": rnd.randrange(1 << 30), "stepsize": rnd.choice([0.1, 0.5, 1.5]),
                   "autotuning": rnd.random() < 0.3, "mass": rnd.choice(["unit", "diag", "full"]), "integrator": rnd.choice(["lf", "3s", "4s"]),
                   "n": rnd.choice([1, 3, 6]), "randomize": rnd.random() < 0.5}
            cfg["d"] = 2 if cfg["target"] == "himmelblau" else rnd.choice([1, 2, 3, 5])
            if cfg["target"] == "uniform":
                cfg["boxed"] = True
            bseed = rnd.randrange(1 << 30)
            unthinned = None
            ts = divisors(P)
            if not thorough and len(ts) > 4:
                ts = [1] + rnd.sample(ts[1:], 3)
            for t in ts:
                per_backend = {}
                for ext in ("h5", "npy"):
                    s, dist, q0, kw = build(bseed, cfg)
                    fn = os.path.join(tmp, f"c{ci}_{t}.{ext}")
                    with quiet(), np.errstate(all="ignore"):
                        s.sample(fn, dist, initial_model=q0.copy(), proposals=P, online_thinning=t, overwrite_existing_file=True,
                                 disable_progressbar=True, **kw)
                    arr, attrs = read_all(fn)
                    per_backend[ext] = (arr, attrs, s, dist)
                arr, attrs, s, dist = per_backend["h5"]
                trans = s._v_transitions
                states = [np.vstack([tr["post"]["model"], [[tr["post"]["x"]]]]) for tr in trans]
                n_acc = sum(1 for tr in trans if tr["post"]["accepted"] == tr["pre"]["accepted"] + 1)
                stim = {"config": cfg, "proposals": P, "thinning": t}
                st.case(stim, nontrivial=(t > 1 and 0 < n_acc < P))
                st.count(f"sampler={cfg['sampler']}")
                st.count(f"t={'1' if t == 1 else '>1'}")
                if t == 1:
                    unthinned = arr
                problems = []
                # direct oracles -----------------------------------------------------------------
                if arr.shape[1] != P // t:
                    problems.append(f"file holds {arr.shape[1]} columns for P={P}, t={t}")
                else:
                    for j in range(P // t):
                        if not np.array_equal(arr[:, [j]], states[j * t], equal_nan=True):
                            problems.append(f"column {j} is not the chain state (with its misfit) after proposal {j * t}")
                            break
                    for j in range(P // t):
                        with np.errstate(all="ignore"):
                            re = dist.misfit(arr[:-1, [j]].copy())
                        if not (common.bits_equal(float(re), float(arr[-1, j])) or common.close(re, arr[-1, j], 1e-13, 0)):
                            problems.append(f"stored misfit of column {j} is not the target's misfit at the stored state")
                            break
                    if unthinned is not None and not np.array_equal(arr, unthinned[:, ::t][:, : P // t], equal_nan=True):
                        problems.append("thinned run is not every t-th column of the unthinned run")
                a2, attrs2, _, _ = per_backend["npy"]
                if a2.shape != arr.shape or not np.array_equal(a2, arr, equal_nan=True):
                    problems.append("HDF5 and NPY files differ")
                for name, at in (("HDF5", attrs), ("NPY", attrs2)):
                    want = {"proposals": P, "online_thinning": t, "sampler": s.name, "write_index": P // t}
                    for k, v in want.items():
                        got = at.get(k)
                        if isinstance(got, bytes):
                            got = got.decode()
                        if not (got == v):
                            problems.append(f"{name} attribute {k} = {got!r}, expected {v!r}")
                    if not common.close(float(at.get("acceptance_rate", float("nan"))), n_acc / P, 1e-15, 0):
                        problems.append(f"{name} attribute acceptance_rate = {at.get('acceptance_rate')!r}, expected accepted/completed = {n_acc}/{P}")
                    if cfg["sampler"] == "HMC":
                        if int(at.get("amount_of_steps", -1)) != cfg["n"]:
                            problems.append(f"{name} attribute amount_of_steps does not describe the run")
                        if str(at.get("integrator")) != s.integrators_full_names[cfg["integrator"]]:
                            problems.append(f"{name} attribute integrator does not describe the run")
                    if not cfg["autotuning"] and not common.close(float(at.get("stepsize", float("nan"))), cfg["stepsize"], 0, 0):
                        problems.append(f"{name} attribute stepsize = {at.get('stepsize')!r}")
                if problems:
                    findings.append(Finding("C07", problems[0], {"kind": "file", "problem": problems[0][:36]},
                                            {"oracle": "file", "stimulus": stim, "problems": problems}))
                reqs.append(f"c08.fault {P} {t} {' '.join(['1'] * P)} - I")
                metas.append((stim, arr, states))
    for (stim, arr, states), ans in zip(metas, lean_batch(reqs)):
        parts = ans[3:].split(" | ")
        toks = parts[0].split()
        idx = [int(x) for x in toks[1:]]
        wi = int(parts[1].split()[0])
        if len(st.samples) < 3:
            st.samples.append({"proposals": stim["proposals"], "thinning": stim["thinning"], "model_stored_proposals": idx[:8]})
        ok = arr.shape[1] == len(idx) == wi and all(np.array_equal(arr[:, [j]], states[i], equal_nan=True) for j, i in enumerate(idx))
        if not ok:
            st.disagree(stim, {"stored_proposals": idx}, {"columns": int(arr.shape[1])}, "file differs from the model's thinned chain")
    return [st], findings


def search(tier, seed, broken):
    return []


def replay(body):
    return False, "re-run ./check C07 (runs are regenerated from the seed)"
